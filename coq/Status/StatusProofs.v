(* C20 (output part) -- theorems about the model of StatusPrinter/LinePrinter (StatusDefs.v).
   No axioms; everything is closed under the global context.

   Dumb-terminal mode (smart cfg = false: ninja's stdout is a pipe, TERM=dumb, or -v/--quiet),
   verbosity other than QUIET, a format without unknown placeholders.  Outputs are arbitrary bytes.

   The tidy description ("spec") of what is printed is given by the functions [upiece] (console not
   locked) and [lpiece]/[window_out] (a console-pool command owns the terminal); they speak only
   about counters, the call index and ONE boolean, [u_owed]: the last text that went through
   PrintOnNewLine did not end in a newline.  The theorems say that the LinePrinter machinery
   (have_blank_line_, console_locked_, line_buffer_, output_buffer_) computes exactly that. *)
From NinjaV Require Import Base.Bytes Status.StatusDefs.
Local Open Scope N_scope.

(* ------------------------------------------------------------------ small list facts *)
Lemma is_empty_app_cons (a : bytes) x b : is_empty (a ++ x :: b) = false.
Proof. destruct a as [|y a]; reflexivity. Qed.

Lemma last_byte_app_one (a : bytes) x d : last_byte (a ++ [x]) d = x.
Proof. revert d; induction a as [|y a IH]; intros d; cbn [app last_byte]; [reflexivity|apply IH]. Qed.

Lemma ends_blank_app_lf (a : bytes) : ends_blank (a ++ [b_lf]) = true.
Proof. unfold ends_blank. rewrite last_byte_app_one. reflexivity. Qed.

Lemma last_byte_app_ne (a b : bytes) d : b <> [] -> last_byte (a ++ b) d = last_byte b d.
Proof.
  intros Hb. revert d; induction a as [|y a IH]; intros d; cbn [app last_byte]; [reflexivity|].
  rewrite IH. destruct b as [|z b]; [congruence|]. reflexivity.
Qed.

Lemma ends_blank_app_ne (a b : bytes) : b <> [] -> ends_blank (a ++ b) = ends_blank b.
Proof. intros Hb. unfold ends_blank. rewrite (last_byte_app_ne a b 10 Hb). reflexivity. Qed.

Lemma is_empty_false_ne (s : bytes) : is_empty s = false -> s <> [].
Proof. destruct s; [discriminate|congruence]. Qed.

Lemma is_empty_true_nil (s : bytes) : is_empty s = true -> s = [].
Proof. destruct s; [reflexivity|discriminate]. Qed.

Lemma app_nil_r' (s : bytes) : s ++ [] = s.
Proof. apply app_nil_r. Qed.

(* ------------------------------------------------------------------ spec-level definitions *)
(* the status text when the format is fine *)
Definition sline (cfg : config) (idx : nat) (cn : counters) (e : edge) : bytes :=
  match status_text cfg idx cn e with inl l => l | inr _ => [] end.

(* no Fatal(): every placeholder / variable of the format is known *)
Definition format_ok (cfg : config) : Prop :=
  forall idx cn e, exists l, status_text cfg idx cn e = inl l.

Definition shows_status (cfg : config) : bool :=
  match c_verb cfg with VNormal | VVerbose => true | _ => false end.

(* a status line printed directly in dumb-terminal mode *)
Definition sline_direct (cfg : config) (idx : nat) (cn : counters) (e : edge) : bytes :=
  if shows_status cfg then cstr (sline cfg idx cn e) ++ [b_lf] else [].

(* does BuildEdgeFinished hand anything to PrintOnNewLine? *)
Definition prints (code : Z) (output : bytes) : bool := negb (Z.eqb code 0) || negb (is_empty output).

(* "FAILED: ..." line + command line *)
Definition failed_block (cfg : config) (e : edge) (code : Z) : bytes :=
  failed_line cfg e code ++ e_cmd e ++ [b_lf].

(* FAILED block and output of one finished command; [owed]: a newline is owed to the previous text.
   Returns the bytes and whether a newline is owed afterwards. *)
Definition body (cfg : config) (owed : bool) (e : edge) (code : Z) (output : bytes) : bytes * bool :=
  let nl := if owed then [b_lf] else [] in
  if Z.eqb code 0 then
    if is_empty output then ([], owed)
    else (nl ++ shown_output cfg output, negb (ends_blank (shown_output cfg output)))
  else
    if is_empty output then (nl ++ failed_block cfg e code, false)
    else (nl ++ failed_block cfg e code ++ shown_output cfg output,
          negb (ends_blank (shown_output cfg output))).

(* counters *)
Definition cn_step (cn : counters) (c : call) : counters :=
  match c with
  | Added _ => mkCn (n_total cn + 1) (n_started cn) (n_finished cn) (n_running cn)
  | Removed _ => mkCn (n_total cn - 1) (n_started cn) (n_finished cn) (n_running cn)
  | BuildStarted => mkCn (n_total cn) 0 0 0
  | Started _ => mkCn (n_total cn) (n_started cn + 1) (n_finished cn) (n_running cn + 1)
  | Finished _ _ _ => mkCn (n_total cn) (n_started cn) (n_finished cn + 1) (n_running cn - 1)
  | BuildFinished => mkCn 0 (n_started cn) (n_finished cn) (n_running cn)
  | _ => cn
  end.
(* the counters a finishing command's status line is formatted with: finished_edges_ already counts
   it, running_edges_ still does *)
Definition cn_print (cn : counters) : counters :=
  mkCn (n_total cn) (n_started cn) (n_finished cn + 1) (n_running cn).
Definition cn0 : counters := mkCn 0 0 0 0.
Definition counters_of (cs : list call) : counters := fold_left cn_step cs cn0.

(* the abstract state: counters, "a newline is owed", number of calls so far *)
Record ust := mkU { u_cn : counters; u_owed : bool; u_idx : nat }.
Definition u0 : ust := mkU cn0 false O.

Definition call_err (c : call) : bytes :=
  match c with
  | Warning m => l_ninja ++ l_warning ++ cstr m ++ [b_lf]
  | Error m => l_ninja ++ l_error ++ cstr m ++ [b_lf]
  | _ => []
  end.

(* calls that have nothing to do with the console pool *)
Definition plain (c : call) : bool :=
  match c with
  | Started e => negb (e_console e)
  | Finished e _ _ => negb (e_console e)
  | ConsoleLock _ => false
  | _ => true
  end.

(* what a plain call prints while the console is not locked *)
Definition upiece (cfg : config) (u : ust) (c : call) : bytes * ust :=
  let cn := u_cn u in
  let i := u_idx u in
  match c with
  | Finished e code out =>
    let '(b, ow) := body cfg (u_owed u) e code out in
    (sline_direct cfg i (cn_print cn) e ++ b, mkU (cn_step cn c) ow (S i))
  | BuildFinished => ((if u_owed u then [b_lf] else []), mkU (cn_step cn c) false (S i))
  | NewLine => ((if u_owed u then [b_lf] else []), mkU cn false (S i))
  | Info m => (l_ninja ++ cstr m ++ [b_lf], mkU cn (u_owed u) (S i))
  | _ => ([], mkU (cn_step cn c) (u_owed u) (S i))
  end.

Fixpoint upieces (cfg : config) (u : ust) (cs : list call) : list bytes :=
  match cs with
  | [] => []
  | c :: r => fst (upiece cfg u c) :: upieces cfg (snd (upiece cfg u c)) r
  end.
Fixpoint urun (cfg : config) (u : ust) (cs : list call) : ust :=
  match cs with
  | [] => u
  | c :: r => urun cfg (snd (upiece cfg u c)) r
  end.

(* concrete states: console not locked, both buffers empty *)
Definition ustate (u : ust) (el : bool) : state :=
  mkState (u_cn u) (mkLp (negb (u_owed u)) false [] el []) false (u_idx u).
(* console locked; [u_owed] now describes the end of output_buffer_ *)
Definition lstate (u : ust) (el : bool) (line buf : bytes) : state :=
  mkState (u_cn u) (mkLp (negb (u_owed u)) true line el buf) false (u_idx u).

(* ------------------------------------------------------------------ LinePrinter facts, dumb mode *)
Section Dumb.
Variable cfg : config.
Hypothesis Hdumb : smart cfg = false.

Lemma lp_print_unlocked b line el' out s el :
  lp_print cfg (mkLp b false line el' out) s el = (mkLp b false line el' out, cstr s ++ [b_lf]).
Proof. unfold lp_print. cbn [lp_locked]. rewrite Hdumb. reflexivity. Qed.

Lemma lp_print_locked b line el' out s el :
  lp_print cfg (mkLp b true line el' out) s el = (mkLp b true s el out, []).
Proof. reflexivity. Qed.

Lemma lp_newline_unlocked b line el out s :
  lp_newline (mkLp b false line el out) s =
  (mkLp (ends_blank s) false line el out, (if b then [] else [b_lf]) ++ s).
Proof.
  unfold lp_newline. cbn [lp_locked andb lp_blank].
  destruct b; cbn [lp_put lp_locked]; destruct s as [|x s]; reflexivity.
Qed.

Lemma lp_newline_locked b line el out s :
  lp_newline (mkLp b true line el out) s =
  (mkLp (ends_blank s) true [] el
     (out ++ (if is_empty line then [] else line ++ [b_lf]) ++ (if b then [] else [b_lf]) ++ s), []).
Proof.
  unfold lp_newline. cbn [lp_locked andb lp_line].
  destruct (is_empty line) eqn:Hl; cbn [negb lp_blank];
    [apply is_empty_true_nil in Hl; subst line|];
    destruct b; cbn [lp_put lp_locked lp_blank lp_line lp_elide lp_out]; destruct s as [|x s];
    cbn [is_empty lp_put lp_locked lp_blank lp_line lp_elide lp_out app];
    repeat rewrite app_nil_r; repeat rewrite <- app_assoc; cbn [app]; reflexivity.
Qed.

Lemma failed_line_nonempty e code : is_empty (failed_line cfg e code) = false.
Proof. unfold failed_line. rewrite app_assoc. apply is_empty_app_cons. Qed.

Lemma failed_line_blank e code : ends_blank (failed_line cfg e code) = true.
Proof. unfold failed_line. rewrite app_assoc. apply ends_blank_app_lf. Qed.

Lemma finish_body_unlocked b line el out e code output :
  finish_body cfg (mkLp b false line el out) e code output =
  (mkLp (negb (snd (body cfg (negb b) e code output))) false line el out,
   fst (body cfg (negb b) e code output)).
Proof.
  unfold finish_body, body, failed_block.
  destruct (Z.eqb code 0) eqn:Hc; destruct (is_empty output) eqn:Ho.
  - cbn [fst snd]. rewrite negb_involutive. reflexivity.
  - rewrite lp_newline_unlocked. cbn [fst snd]. rewrite negb_involutive.
    destruct b; reflexivity.
  - rewrite lp_newline_unlocked, failed_line_blank, lp_newline_unlocked, ends_blank_app_lf.
    cbn [fst snd negb]. destruct b; cbn [negb app]; rewrite ?app_nil_r; reflexivity.
  - rewrite lp_newline_unlocked, failed_line_blank, lp_newline_unlocked, ends_blank_app_lf,
      lp_newline_unlocked.
    cbn [fst snd negb]. rewrite negb_involutive.
    destruct b; cbn [negb app]; repeat rewrite <- app_assoc; cbn [app]; reflexivity.
Qed.

Lemma finish_body_locked_silent p e code output :
  prints code output = false -> finish_body cfg p e code output = (p, []).
Proof.
  unfold prints. intros H. apply orb_false_elim in H. destruct H as [H1 H2].
  apply negb_false_iff in H1. apply negb_false_iff in H2.
  unfold finish_body. rewrite H1, H2. reflexivity.
Qed.

Lemma finish_body_locked b line el out e code output :
  prints code output = true ->
  finish_body cfg (mkLp b true line el out) e code output =
  (mkLp (negb (snd (body cfg (negb b) e code output))) true [] el
     (out ++ (if is_empty line then [] else line ++ [b_lf]) ++ fst (body cfg (negb b) e code output)),
   []).
Proof.
  unfold prints, finish_body, body, failed_block. intros Hp.
  destruct (Z.eqb code 0) eqn:Hc; destruct (is_empty output) eqn:Ho; cbn [negb orb] in Hp;
    try discriminate.
  - rewrite lp_newline_locked. cbn [fst snd]. rewrite negb_involutive.
    destruct b; reflexivity.
  - rewrite lp_newline_locked, failed_line_blank, lp_newline_locked, ends_blank_app_lf.
    cbn [fst snd negb is_empty app].
    destruct b; cbn [negb app]; repeat rewrite <- app_assoc; cbn [app]; rewrite ?app_nil_r; reflexivity.
  - rewrite lp_newline_locked, failed_line_blank, lp_newline_locked, ends_blank_app_lf,
      lp_newline_locked.
    cbn [fst snd negb is_empty app]. rewrite negb_involutive.
    destruct b; cbn [negb app]; repeat rewrite <- app_assoc; cbn [app]; reflexivity.
Qed.

Hypothesis Hnq : c_verb cfg <> VQuiet.
Hypothesis Hfmt : format_ok cfg.

Lemma print_status_unlocked idx cn b line el out e :
  print_status cfg idx cn (mkLp b false line el out) e =
  inl (mkLp b false line el out, sline_direct cfg idx cn e).
Proof.
  clear Hnq.
  unfold print_status, sline_direct, shows_status, sline.
  destruct (Hfmt idx cn e) as [l Hl]. rewrite Hl.
  destruct (c_verb cfg) eqn:Hv; try reflexivity; rewrite lp_print_unlocked; reflexivity.
Qed.

(* line_type_ after a Print under lock (irrelevant in dumb mode, but part of the state) *)
Definition el_after (el : bool) : bool :=
  match c_verb cfg with VNormal => true | VVerbose => false | _ => el end.

Lemma print_status_locked idx cn b line el out e :
  print_status cfg idx cn (mkLp b true line el out) e =
  inl (mkLp b true (if shows_status cfg then sline cfg idx cn e else line) (el_after el) out, []).
Proof.
  clear Hnq.
  unfold print_status, shows_status, sline, el_after.
  destruct (Hfmt idx cn e) as [l Hl]. rewrite Hl.
  destruct (c_verb cfg) eqn:Hv; reflexivity.
Qed.

Lemma ends_blank_nil : ends_blank [] = true.
Proof. reflexivity. Qed.

(* one plain call from a state whose console is not locked *)
Lemma step_U u el c :
  plain c = true ->
  step cfg (ustate u el) c = (ustate (snd (upiece cfg u c)) el, fst (upiece cfg u c), call_err c).
Proof.
  intros Hp. destruct u as [cn ow i].
  destruct c as [e|e|e|e code out| | |b| |m|m|m]; cbn [plain] in Hp; try discriminate;
    unfold step, ustate; cbn [s_dead s_cn s_lp s_idx u_cn u_owed u_idx].
  - reflexivity.
  - reflexivity.
  - apply negb_true_iff in Hp. rewrite Hp, Hdumb. reflexivity.
  - apply negb_true_iff in Hp. rewrite Hp.
    destruct (c_verb cfg) eqn:Hv; [congruence| | |];
      rewrite print_status_unlocked, finish_body_unlocked;
      unfold upiece, ok_of; cbn [u_cn u_owed u_idx s_idx]; rewrite negb_involutive;
      destruct (body cfg ow e code out) as [bb ow'] eqn:Hb; cbn [fst snd app];
      reflexivity.
  - reflexivity.
  - unfold lp_lock. cbn [lp_locked Bool.eqb]. rewrite lp_newline_unlocked, ends_blank_nil.
    unfold upiece, ok_of. cbn [fst snd u_cn u_owed u_idx s_idx app negb].
    destruct ow; reflexivity.
  - rewrite lp_newline_unlocked, ends_blank_nil.
    unfold upiece, ok_of. cbn [fst snd u_cn u_owed u_idx s_idx app negb].
    destruct ow; reflexivity.
  - reflexivity.
  - reflexivity.
  - reflexivity.
Qed.

(* ------------------------------------------------------------------ console locked *)
(* calls that can happen while a console-pool command runs: no other console command, no unlock *)
Definition segcall (c : call) : bool :=
  match c with
  | Started e => negb (e_console e)
  | Finished e _ _ => negb (e_console e)
  | ConsoleLock _ | BuildFinished | NewLine => false
  | _ => true
  end.

(* one call under lock: (bytes appended to output_buffer_, bytes written to stdout at once,
   new abstract state, new line_buffer_) *)
Definition lpiece (u : ust) (line : bytes) (c : call) : bytes * bytes * ust * bytes :=
  let cn := u_cn u in
  let i := u_idx u in
  match c with
  | Finished e code out =>
    let line1 := if shows_status cfg then sline cfg i (cn_print cn) e else line in
    if prints code out then
      ((if is_empty line1 then [] else line1 ++ [b_lf]) ++ fst (body cfg (u_owed u) e code out), [],
       mkU (cn_step cn c) (snd (body cfg (u_owed u) e code out)) (S i), [])
    else ([], [], mkU (cn_step cn c) (u_owed u) (S i), line1)
  | Info m => ([], l_ninja ++ cstr m ++ [b_lf], mkU cn (u_owed u) (S i), line)
  | _ => ([], [], mkU (cn_step cn c) (u_owed u) (S i), line)
  end.

Lemma step_L u el line buf c :
  segcall c = true ->
  exists el',
    step cfg (lstate u el line buf) c =
    (lstate (snd (fst (lpiece u line c))) el' (snd (lpiece u line c))
            (buf ++ fst (fst (fst (lpiece u line c)))),
     snd (fst (fst (lpiece u line c))), call_err c).
Proof.
  intros Hp. destruct u as [cn ow i].
  destruct c as [e|e|e|e code out| | |b| |m|m|m]; cbn [segcall] in Hp; try discriminate;
    unfold step, lstate; cbn [s_dead s_cn s_lp s_idx u_cn u_owed u_idx].
  - exists el. unfold lpiece, ok_of. cbn [fst snd u_cn u_owed u_idx s_idx]. rewrite app_nil_r. reflexivity.
  - exists el. unfold lpiece, ok_of. cbn [fst snd u_cn u_owed u_idx s_idx]. rewrite app_nil_r. reflexivity.
  - exists el. apply negb_true_iff in Hp. rewrite Hp, Hdumb.
    unfold lpiece, ok_of. cbn [fst snd u_cn u_owed u_idx s_idx app]. rewrite app_nil_r. reflexivity.
  - exists (el_after el). apply negb_true_iff in Hp. rewrite Hp.
    destruct (c_verb cfg) eqn:Hv; [congruence| | |]; rewrite print_status_locked;
      unfold lpiece; cbn [u_cn u_owed u_idx];
      (destruct (prints code out) eqn:Hpr;
       [ rewrite (finish_body_locked _ _ _ _ _ _ _ Hpr); unfold ok_of;
         cbn [fst snd s_idx app]; rewrite negb_involutive; reflexivity
       | rewrite (finish_body_locked_silent _ _ _ _ Hpr); unfold ok_of;
         cbn [fst snd s_idx app]; rewrite app_nil_r; reflexivity ]).
  - exists el. unfold lpiece, ok_of. cbn [fst snd u_cn u_owed u_idx s_idx]. rewrite app_nil_r. reflexivity.
  - exists el. unfold lpiece, ok_of. cbn [fst snd u_cn u_owed u_idx s_idx]. rewrite app_nil_r. reflexivity.
  - exists el. unfold lpiece. cbn [fst snd u_cn u_owed u_idx s_idx]. rewrite app_nil_r. reflexivity.
  - exists el. unfold lpiece. cbn [fst snd u_cn u_owed u_idx s_idx]. rewrite app_nil_r. reflexivity.
Qed.

(* a console-pool command starts: its status line, the owed newline, lock *)
Lemma step_lock u el e :
  e_console e = true ->
  step cfg (ustate u el) (Started e) =
  (lstate (mkU (cn_step (u_cn u) (Started e)) false (S (u_idx u))) el [] [],
   sline_direct cfg (u_idx u) (cn_step (u_cn u) (Started e)) e ++ (if u_owed u then [b_lf] else []),
   []).
Proof.
  intros He. destruct u as [cn ow i].
  unfold step, ustate. cbn [s_dead s_cn s_lp s_idx u_cn u_owed u_idx]. rewrite He. cbn [orb].
  rewrite print_status_unlocked.
  unfold lp_lock. cbn [lp_locked Bool.eqb]. rewrite lp_newline_unlocked, ends_blank_nil.
  unfold ok_of, lstate, cn_step. cbn [lp_blank lp_line lp_elide lp_out s_idx u_cn u_owed u_idx negb].
  destruct ow; cbn [negb app]; rewrite ?app_nil_r; reflexivity.
Qed.

(* it finishes: unlock, flush output_buffer_ and line_buffer_, then its own FAILED block / output *)
Lemma step_unlock u el line buf e code out :
  e_console e = true ->
  step cfg (lstate u el line buf) (Finished e code out) =
  (ustate (mkU (cn_step (u_cn u) (Finished e code out))
               (snd (body cfg (negb (ends_blank buf)) e code out)) (S (u_idx u))) el,
   (if u_owed u then [b_lf] else []) ++ buf ++
   (if is_empty line then [] else cstr line ++ [b_lf]) ++
   fst (body cfg (negb (ends_blank buf)) e code out),
   []).
Proof.
  intros He. destruct u as [cn ow i].
  unfold step, lstate. cbn [s_dead s_cn s_lp s_idx u_cn u_owed u_idx]. rewrite He.
  unfold lp_lock. cbn [lp_locked Bool.eqb lp_blank lp_line lp_elide lp_out].
  rewrite lp_newline_unlocked. cbn [lp_line].
  destruct (c_verb cfg) eqn:Hv; [congruence| | |];
    (destruct (is_empty line) eqn:Hl;
     [ cbn [lp_blank lp_locked lp_elide]
     | cbn [lp_elide]; rewrite lp_print_unlocked; cbn [lp_blank lp_locked lp_elide] ]);
    rewrite finish_body_unlocked; unfold ok_of, ustate, cn_step;
    cbn [s_idx u_cn u_owed u_idx fst snd]; rewrite ?negb_involutive;
    destruct ow; cbn [negb app]; repeat rewrite <- app_assoc; cbn [app]; rewrite ?app_nil_r;
    reflexivity.
Qed.

(* ------------------------------------------------------------------ several calls *)
Lemma run_U cs : forall u el,
  forallb plain cs = true ->
  run_from cfg (ustate u el) cs =
  (ustate (urun cfg u cs) el, concat (upieces cfg u cs), concat (map call_err cs)).
Proof.
  induction cs as [|c cs IH]; intros u el Hp; [reflexivity|].
  cbn [forallb] in Hp. apply andb_true_iff in Hp. destruct Hp as [Hc Hcs].
  cbn [run_from]. rewrite (step_U u el c Hc), (IH _ el Hcs). reflexivity.
Qed.

(* a whole segment under lock *)
Record lres := mkLres { lr_buf : bytes; lr_direct : bytes; lr_u : ust; lr_line : bytes }.
Fixpoint lrun (u : ust) (line : bytes) (seg : list call) : lres :=
  match seg with
  | [] => mkLres [] [] u line
  | c :: r =>
    let p := lpiece u line c in
    let q := lrun (snd (fst p)) (snd p) r in
    mkLres (fst (fst (fst p)) ++ lr_buf q) (snd (fst (fst p)) ++ lr_direct q) (lr_u q) (lr_line q)
  end.

Lemma run_L seg : forall u el line buf,
  forallb segcall seg = true ->
  exists el',
    run_from cfg (lstate u el line buf) seg =
    (lstate (lr_u (lrun u line seg)) el' (lr_line (lrun u line seg)) (buf ++ lr_buf (lrun u line seg)),
     lr_direct (lrun u line seg), concat (map call_err seg)).
Proof.
  induction seg as [|c seg IH]; intros u el line buf Hp.
  - exists el. cbn [run_from lrun lr_u lr_line lr_buf lr_direct map concat]. rewrite app_nil_r. reflexivity.
  - cbn [forallb] in Hp. apply andb_true_iff in Hp. destruct Hp as [Hc Hs].
    destruct (step_L u el line buf c Hc) as [el1 H1].
    destruct (IH (snd (fst (lpiece u line c))) el1 (snd (lpiece u line c))
                 (buf ++ fst (fst (fst (lpiece u line c)))) Hs) as [el2 H2].
    exists el2. cbn [run_from]. rewrite H1, H2.
    cbn [lrun lr_u lr_line lr_buf lr_direct map concat]. rewrite <- app_assoc. reflexivity.
Qed.

(* the buffer's end and [u_owed] stay in step *)
Lemma body_inv (X : bytes) owed e code out :
  (owed = false -> ends_blank X = true) ->
  prints code out = true ->
  ends_blank (X ++ fst (body cfg owed e code out)) = negb (snd (body cfg owed e code out)).
Proof.
  clear Hnq Hfmt Hdumb.
  intros HX Hp. unfold prints in Hp. unfold body, failed_block.
  destruct (Z.eqb code 0) eqn:Hc; destruct (is_empty out) eqn:Ho; cbn [negb orb] in Hp;
    try discriminate; cbn [fst snd]; rewrite ?negb_involutive.
  - destruct (shown_output cfg out) as [|x sh] eqn:Hs.
    + rewrite app_nil_r. destruct owed; [apply ends_blank_app_lf|].
      rewrite app_nil_r. rewrite ends_blank_nil. apply HX; reflexivity.
    + rewrite app_assoc. apply ends_blank_app_ne. discriminate.
  - cbn [negb]. rewrite !app_assoc. apply ends_blank_app_lf.
  - destruct (shown_output cfg out) as [|x sh] eqn:Hs.
    + rewrite app_nil_r, ends_blank_nil. rewrite !app_assoc. apply ends_blank_app_lf.
    + rewrite !app_assoc. apply ends_blank_app_ne. discriminate.
Qed.

Lemma lpiece_inv u line c buf :
  ends_blank buf = negb (u_owed u) ->
  ends_blank (buf ++ fst (fst (fst (lpiece u line c)))) = negb (u_owed (snd (fst (lpiece u line c)))).
Proof.
  clear Hnq Hfmt Hdumb.
  intros Hb. destruct u as [cn ow i]. cbn [u_owed] in Hb.
  destruct c as [e|e|e|e code out| | |b| |m|m|m]; unfold lpiece; cbn [u_cn u_owed u_idx fst snd];
    rewrite ?app_nil_r; try exact Hb.
  destruct (prints code out) eqn:Hp; cbn [fst snd u_owed]; [|rewrite app_nil_r; exact Hb].
  rewrite app_assoc. apply body_inv; [|exact Hp].
  intros ->. cbn [negb] in Hb.
  destruct (is_empty (if shows_status cfg then sline cfg i (cn_print cn) e else line)).
  - rewrite app_nil_r. exact Hb.
  - rewrite app_assoc. apply ends_blank_app_lf.
Qed.

Lemma lrun_inv seg : forall u line buf,
  ends_blank buf = negb (u_owed u) ->
  ends_blank (buf ++ lr_buf (lrun u line seg)) = negb (u_owed (lr_u (lrun u line seg))).
Proof.
  clear Hnq Hfmt Hdumb.
  induction seg as [|c seg IH]; intros u line buf Hb.
  - cbn [lrun lr_buf lr_u]. rewrite app_nil_r. exact Hb.
  - cbn [lrun lr_buf lr_u]. rewrite app_assoc. apply IH. apply lpiece_inv. exact Hb.
Qed.

(* ------------------------------------------------------------------ one console window *)
(* Started e (console) ; seg ; Finished e' code out (console)  -- from a state that is not locked.
   In a real build e' = e (the console pool has depth 1). *)
Definition window_out (u : ust) (e : edge) (seg : list call) (e' : edge) (code : Z) (out : bytes)
  : bytes * ust :=
  let u1 := mkU (cn_step (u_cn u) (Started e)) false (S (u_idx u)) in
  let r := lrun u1 [] seg in
  let u2 := lr_u r in
  let bd := body cfg (u_owed u2) e' code out in
  ((* at the start: the console command's own status line, and the newline owed so far *)
   sline_direct cfg (u_idx u) (u_cn u1) e ++ (if u_owed u then [b_lf] else []) ++
   (* while it runs: nothing but Info lines *)
   lr_direct r ++
   (* when it finishes: the buffer (with a newline IN FRONT when the buffer is unterminated), the
      pending progress line, then the command's own FAILED block / output *)
   (if u_owed u2 then [b_lf] else []) ++ lr_buf r ++
   (if is_empty (lr_line r) then [] else cstr (lr_line r) ++ [b_lf]) ++ fst bd,
   mkU (cn_step (u_cn u2) (Finished e' code out)) (snd bd) (S (u_idx u2))).

Lemma run_from_app s cs1 : forall cs2,
  run_from cfg s (cs1 ++ cs2) =
  let '(s1, o1, e1) := run_from cfg s cs1 in
  let '(s2, o2, e2) := run_from cfg s1 cs2 in (s2, o1 ++ o2, e1 ++ e2).
Proof.
  clear Hnq Hfmt Hdumb.
  revert s. induction cs1 as [|c cs1 IH]; intros s cs2.
  - cbn [app run_from]. destruct (run_from cfg s cs2) as [[s2 o2] e2]. reflexivity.
  - cbn [app run_from]. destruct (step cfg s c) as [[s1 o1] e1]. rewrite IH.
    destruct (run_from cfg s1 cs1) as [[s2 o2] e2].
    destruct (run_from cfg s2 cs2) as [[s3 o3] e3]. rewrite !app_assoc. reflexivity.
Qed.

Lemma run_window u el e seg e' code out :
  e_console e = true -> e_console e' = true -> forallb segcall seg = true ->
  exists el',
  run_from cfg (ustate u el) (Started e :: seg ++ [Finished e' code out]) =
  (ustate (snd (window_out u e seg e' code out)) el', fst (window_out u e seg e' code out),
   concat (map call_err seg)).
Proof.
  intros He He' Hs.
  set (u1 := mkU (cn_step (u_cn u) (Started e)) false (S (u_idx u))).
  pose proof (lrun_inv seg u1 [] [] eq_refl) as Hinv. cbn [app] in Hinv.
  destruct (run_L seg u1 el [] [] Hs) as [el' HL].
  exists el'.
  cbn [run_from]. rewrite (step_lock u el e He). fold u1.
  rewrite run_from_app, HL. cbn [app].
  cbn [run_from]. rewrite (step_unlock _ el' _ _ e' code out He').
  unfold window_out. fold u1.
  rewrite Hinv, negb_involutive. cbn [fst snd].
  rewrite !app_nil_r, <- app_assoc. reflexivity.
Qed.

(* ------------------------------------------------------------------ whole call sequences *)
(* a call sequence cut into plain calls and console windows *)
Inductive item :=
| IPlain (c : call)
| IWindow (e : edge) (seg : list call) (e' : edge) (code : Z) (out : bytes).

Definition item_ok (it : item) : bool :=
  match it with
  | IPlain c => plain c
  | IWindow e seg e' _ _ => e_console e && e_console e' && forallb segcall seg
  end.
Definition item_calls (it : item) : list call :=
  match it with
  | IPlain c => [c]
  | IWindow e seg e' code out => Started e :: seg ++ [Finished e' code out]
  end.
Definition item_out (u : ust) (it : item) : bytes * ust :=
  match it with
  | IPlain c => upiece cfg u c
  | IWindow e seg e' code out => window_out u e seg e' code out
  end.
Fixpoint items_out (u : ust) (its : list item) : list bytes :=
  match its with
  | [] => []
  | it :: r => fst (item_out u it) :: items_out (snd (item_out u it)) r
  end.
Fixpoint items_run (u : ust) (its : list item) : ust :=
  match its with
  | [] => u
  | it :: r => items_run (snd (item_out u it)) r
  end.

Lemma run_items its : forall u el,
  forallb item_ok its = true ->
  exists el' errs,
    run_from cfg (ustate u el) (flat_map item_calls its) =
    (ustate (items_run u its) el', concat (items_out u its), errs).
Proof.
  induction its as [|it its IH]; intros u el Hok.
  - exists el, []. reflexivity.
  - cbn [forallb] in Hok. apply andb_true_iff in Hok. destruct Hok as [Hit Hits].
    cbn [flat_map]. rewrite run_from_app.
    destruct it as [c|e seg e' code out]; cbn [item_ok] in Hit.
    + cbn [item_calls run_from]. rewrite (step_U u el c Hit).
      destruct (IH (snd (upiece cfg u c)) el Hits) as [el' [errs H]].
      exists el', ((call_err c ++ []) ++ errs). rewrite H.
      cbn [items_out items_run item_out concat]. rewrite app_nil_r. reflexivity.
    + apply andb_true_iff in Hit. destruct Hit as [Hee Hseg].
      apply andb_true_iff in Hee. destruct Hee as [He He'].
      cbn [item_calls].
      destruct (run_window u el e seg e' code out He He' Hseg) as [el1 H1]. rewrite H1.
      destruct (IH (snd (window_out u e seg e' code out)) el1 Hits) as [el' [errs H]].
      exists el', (concat (map call_err seg) ++ errs). rewrite H.
      cbn [items_out items_run item_out concat]. reflexivity.
Qed.

(* ------------------------------------------------------------------ facts about the spec functions *)
Lemma upieces_app a : forall u b,
  upieces cfg u (a ++ b) = upieces cfg u a ++ upieces cfg (urun cfg u a) b.
Proof.
  clear Hnq Hfmt Hdumb.
  induction a as [|c a IH]; intros u b; [reflexivity|].
  cbn [app upieces urun]. rewrite IH. reflexivity.
Qed.

Lemma upiece_cn u c :
  plain c = true -> u_cn (snd (upiece cfg u c)) = cn_step (u_cn u) c /\
                    u_idx (snd (upiece cfg u c)) = S (u_idx u).
Proof.
  clear Hnq Hfmt Hdumb.
  intros Hp. destruct c; cbn [plain] in Hp; try discriminate; unfold upiece;
    try (split; reflexivity).
  destruct (body cfg (u_owed u) e code output) as [bb ow]. split; reflexivity.
Qed.

Lemma urun_cn cs : forall u,
  forallb plain cs = true ->
  u_cn (urun cfg u cs) = fold_left cn_step cs (u_cn u) /\
  u_idx (urun cfg u cs) = (u_idx u + length cs)%nat.
Proof.
  clear Hnq Hfmt Hdumb.
  induction cs as [|c cs IH]; intros u Hp.
  - cbn [urun fold_left length]. split; [reflexivity|lia].
  - cbn [forallb] in Hp. apply andb_true_iff in Hp. destruct Hp as [Hc Hcs].
    cbn [urun fold_left length]. destruct (IH (snd (upiece cfg u c)) Hcs) as [H1 H2].
    destruct (upiece_cn u c Hc) as [H3 H4]. rewrite H1, H2, H3, H4. split; [reflexivity|lia].
Qed.

(* the tidy description: every finished command contributes
     status line . [FAILED line . command line] . output
   and nothing else is printed except Info lines *)
Definition tidy_block (idx : nat) (cn : counters) (e : edge) (code : Z) (out : bytes) : bytes :=
  sline_direct cfg idx (cn_print cn) e ++
  (if Z.eqb code 0 then [] else failed_block cfg e code) ++
  shown_output cfg out.
Definition tidy_piece (idx : nat) (cn : counters) (c : call) : bytes :=
  match c with
  | Finished e code out => tidy_block idx cn e code out
  | Info m => l_ninja ++ cstr m ++ [b_lf]
  | _ => []
  end.
Fixpoint tidy (cn : counters) (idx : nat) (cs : list call) : list bytes :=
  match cs with
  | [] => []
  | c :: r => tidy_piece idx cn c :: tidy (cn_step cn c) (S idx) r
  end.
(* the output of the command (as shown) is empty or ends in a newline *)
Definition terminated (c : call) : bool :=
  match c with
  | Finished _ _ out => ends_blank (shown_output cfg out)
  | _ => true
  end.

Lemma shown_output_nil : shown_output cfg [] = [].
Proof. clear Hnq Hfmt Hdumb. unfold shown_output. cbn [has_esc existsb negb]. rewrite orb_true_r. reflexivity. Qed.

Lemma body_tidy e code out :
  ends_blank (shown_output cfg out) = true ->
  body cfg false e code out =
  ((if Z.eqb code 0 then [] else failed_block cfg e code) ++ shown_output cfg out, false).
Proof.
  clear Hnq Hfmt Hdumb.
  intros Ht. unfold body. destruct (Z.eqb code 0); destruct (is_empty out) eqn:Ho;
    try (apply is_empty_true_nil in Ho; subst out; rewrite shown_output_nil);
    rewrite ?Ht; cbn [negb app]; rewrite ?app_nil_r; reflexivity.
Qed.

Lemma upieces_tidy cs : forall u,
  u_owed u = false -> forallb plain cs = true -> forallb terminated cs = true ->
  upieces cfg u cs = tidy (u_cn u) (u_idx u) cs.
Proof.
  clear Hnq Hfmt Hdumb.
  induction cs as [|c cs IH]; intros u Hu Hp Ht; [reflexivity|].
  cbn [forallb] in Hp, Ht. apply andb_true_iff in Hp. apply andb_true_iff in Ht.
  destruct Hp as [Hc Hcs]. destruct Ht as [Htc Htcs].
  destruct u as [cn ow i]. cbn [u_owed] in Hu. subst ow.
  cbn [upieces tidy u_cn u_idx].
  destruct c as [e|e|e|e code out| | |b| |m|m|m]; cbn [plain terminated] in Hc, Htc; try discriminate;
    unfold upiece; cbn [u_cn u_owed u_idx fst snd tidy_piece];
    try (rewrite IH by (cbn [u_owed]; auto); reflexivity).
  rewrite (body_tidy e code out Htc). cbn [fst snd].
  rewrite IH by (cbn [u_owed]; auto). reflexivity.
Qed.

End Dumb.

(* ------------------------------------------------------------------ cutting a call sequence *)
(* the calls up to the first finishing console command: (segment, that edge, code, output, rest) *)
Fixpoint take_seg (cs : list call) : option (list call * edge * Z * bytes * list call) :=
  match cs with
  | [] => None
  | c :: r =>
    match c with
    | Finished e code out =>
      if e_console e then Some ([], e, code, out, r)
      else match take_seg r with
           | Some (seg, e', c', o', r') => Some (c :: seg, e', c', o', r')
           | None => None
           end
    | _ =>
      if segcall c then
        match take_seg r with
        | Some (seg, e', c', o', r') => Some (c :: seg, e', c', o', r')
        | None => None
        end
      else None
    end
  end.

(* [fuel] bounds the number of items; [length cs] is always enough.  None = the sequence is not
   of the form plain* (window plain* )*  -- or the fuel ran out *)
Fixpoint parse (fuel : nat) (cs : list call) : option (list item) :=
  match cs with
  | [] => Some []
  | c :: r =>
    match fuel with
    | O => None
    | S f =>
      match c with
      | Started e =>
        if e_console e then
          match take_seg r with
          | Some (seg, e', code, out, r') => option_map (cons (IWindow e seg e' code out)) (parse f r')
          | None => None
          end
        else option_map (cons (IPlain c)) (parse f r)
      | _ => if plain c then option_map (cons (IPlain c)) (parse f r) else None
      end
    end
  end.

Lemma take_seg_ok cs : forall seg e' code out r,
  take_seg cs = Some (seg, e', code, out, r) ->
  cs = seg ++ Finished e' code out :: r /\ forallb segcall seg = true /\ e_console e' = true.
Proof.
  induction cs as [|c cs IH]; intros seg e' code out r H; [discriminate|].
  cbn [take_seg] in H.
  assert (Hgen : segcall c = true ->
                 match take_seg cs with
                 | Some (seg0, e0, c0, o0, r0) => Some (c :: seg0, e0, c0, o0, r0)
                 | None => None
                 end = Some (seg, e', code, out, r) ->
                 c :: cs = seg ++ Finished e' code out :: r /\ forallb segcall seg = true /\ e_console e' = true).
  { intros Hc H'. destruct (take_seg cs) as [[[[[seg0 e0] c0] o0] r0]|] eqn:Ht; [|discriminate].
    injection H' as <- <- <- <- <-.
    destruct (IH _ _ _ _ _ eq_refl) as [H1 [H2 H3]].
    split; [cbn [app]; rewrite <- H1; reflexivity|].
    split; [cbn [forallb]; rewrite Hc, H2; reflexivity|exact H3]. }
  destruct c as [e|e|e|e c1 o1| | |b| |m|m|m];
    try (destruct (segcall _) eqn:Hc in H; [apply Hgen; [exact Hc|exact H]|discriminate]).
  destruct (e_console e) eqn:He.
  - injection H as <- <- <- <- <-. split; [reflexivity|]. split; [reflexivity|exact He].
  - apply Hgen; [cbn [segcall]; rewrite He; reflexivity|exact H].
Qed.

Lemma parse_ok fuel : forall cs its,
  parse fuel cs = Some its ->
  flat_map item_calls its = cs /\ forallb item_ok its = true.
Proof.
  induction fuel as [|f IH]; intros cs its H.
  - destruct cs; [injection H as <-; split; reflexivity|discriminate].
  - destruct cs as [|c r]; [injection H as <-; split; reflexivity|].
    cbn [parse] in H.
    assert (Hplain : plain c = true -> option_map (cons (IPlain c)) (parse f r) = Some its ->
                     flat_map item_calls its = c :: r /\ forallb item_ok its = true).
    { intros Hc H'. destruct (parse f r) as [its0|] eqn:Hp; [|discriminate].
      injection H' as <-. destruct (IH _ _ Hp) as [H1 H2].
      cbn [flat_map item_calls forallb item_ok app]. rewrite H1, Hc, H2. split; reflexivity. }
    destruct c as [e|e|e|e c1 o1| | |b| |m|m|m];
      try (destruct (plain _) eqn:Hc in H; [apply Hplain; [exact Hc|exact H]|discriminate]).
    destruct (e_console e) eqn:He.
    + destruct (take_seg r) as [[[[[seg e'] code] out] r']|] eqn:Ht; [|discriminate].
      destruct (parse f r') as [its0|] eqn:Hp; [|discriminate].
      injection H as <-. destruct (IH _ _ Hp) as [H1 H2].
      destruct (take_seg_ok _ _ _ _ _ _ Ht) as [H3 [H4 H5]].
      cbn [flat_map item_calls forallb item_ok]. rewrite H1, He, H5, H4, H2.
      split; [|reflexivity]. cbn [app]. rewrite <- app_assoc. cbn [app]. rewrite <- H3. reflexivity.
    + apply Hplain; [cbn [plain]; rewrite He; reflexivity|exact H].
Qed.

(* ------------------------------------------------------------------ formats *)
Lemma format_ok_default cfg :
  c_eval cfg = None -> c_format cfg = default_format -> format_ok cfg.
Proof.
  intros He Hf idx cn e. unfold status_text. rewrite He, Hf. eexists. reflexivity.
Qed.

(* with the default format the line is "[finished/total] description" *)
Lemma sline_default cfg idx cn e :
  c_eval cfg = None -> c_format cfg = default_format ->
  sline cfg idx cn e =
  [91] ++ dec_Z (n_finished cn) ++ [47] ++ dec_Z (n_total cn) ++ [93; 32] ++ description_of cfg e.
Proof.
  intros He Hf. unfold sline, status_text. rewrite He, Hf.
  unfold format_progress.
  change (cstr default_format) with default_format.
  unfold default_format. cbn [format_go N.eqb Pos.eqb b_pct placeholder orb].
  repeat (cbn [app]; rewrite <- app_assoc). cbn [app]. reflexivity.
Qed.

(* ------------------------------------------------------------------ the theorems *)
Lemma init_is_ustate : init_state = ustate u0 true.
Proof. reflexivity. Qed.

(* Dumb terminal, no console-pool commands: what is printed is the concatenation of the pieces of
   [upiece], call by call.  No restriction on the order of the calls or on the outputs. *)
Theorem blocks_general cfg cs :
  smart cfg = false -> c_verb cfg <> VQuiet -> format_ok cfg ->
  forallb plain cs = true ->
  render cfg cs = concat (upieces cfg u0 cs).
Proof.
  intros Hd Hq Hf Hp. unfold render, run. rewrite init_is_ustate, (run_U cfg Hd Hq Hf cs u0 true Hp).
  reflexivity.
Qed.

(* ... and when every output ends in a newline (or is empty) these are the tidy blocks *)
Theorem blocks_tidy cfg cs :
  smart cfg = false -> c_verb cfg <> VQuiet -> format_ok cfg ->
  forallb plain cs = true -> forallb (terminated cfg) cs = true ->
  render cfg cs = concat (tidy cfg cn0 O cs).
Proof.
  intros Hd Hq Hf Hp Ht. rewrite (blocks_general cfg cs Hd Hq Hf Hp).
  rewrite (upieces_tidy cfg cs u0 eq_refl Hp Ht). reflexivity.
Qed.

(* the output of one command sits in one piece, right after its status line (and FAILED block);
   what precedes is the rendering of the earlier calls, what follows does not contain it *)
Theorem output_once cfg pre e code out post :
  smart cfg = false -> c_verb cfg <> VQuiet -> format_ok cfg ->
  forallb plain (pre ++ Finished e code out :: post) = true ->
  let u := urun cfg u0 pre in
  render cfg (pre ++ Finished e code out :: post) =
  render cfg pre ++
  (sline_direct cfg (length pre) (cn_print (counters_of pre)) e ++
   fst (body cfg (u_owed u) e code out)) ++
  concat (upieces cfg (snd (upiece cfg u (Finished e code out))) post).
Proof.
  intros Hd Hq Hf Hp u.
  assert (Hpre : forallb plain pre = true).
  { rewrite forallb_app in Hp. apply andb_true_iff in Hp. exact (proj1 Hp). }
  rewrite (blocks_general cfg _ Hd Hq Hf Hp), (blocks_general cfg _ Hd Hq Hf Hpre).
  rewrite upieces_app, concat_app. fold u. cbn [upieces concat].
  destruct (urun_cn cfg pre u0 Hpre) as [H1 H2]. fold u in H1, H2. cbn [u0 u_cn u_idx] in H1, H2.
  unfold upiece at 1. rewrite H1, H2. cbn [plus].
  destruct (body cfg (u_owed u) e code out) as [bb ow]. cbn [fst snd]. reflexivity.
Qed.

(* FAILED header: for a failed command the block is  [owed newline] FAILED: [code=N] outputs \n command \n output *)
Theorem failed_header cfg owed e code out :
  code <> 0%Z -> c_color cfg = false ->
  fst (body cfg owed e code out) =
  (if owed then [b_lf] else []) ++
  (l_failed ++ dec_Z code ++ l_close ++ outputs_text e ++ [b_lf]) ++
  (e_cmd e ++ [b_lf]) ++
  shown_output cfg out.
Proof.
  intros Hc Hcol. unfold body, failed_block, failed_line. rewrite Hcol.
  destruct (Z.eqb_spec code 0) as [->|_]; [congruence|].
  destruct (is_empty out) eqn:Ho; cbn [fst].
  - apply is_empty_true_nil in Ho. subst out. rewrite shown_output_nil, app_nil_r.
    repeat rewrite <- app_assoc. reflexivity.
  - repeat rewrite <- app_assoc. reflexivity.
Qed.

(* Console windows: a call sequence that cuts into plain calls and windows
   (Started console-edge ; calls of other edges ; Finished console-edge) prints item by item. *)
Theorem console_items cfg its :
  smart cfg = false -> c_verb cfg <> VQuiet -> format_ok cfg ->
  forallb item_ok its = true ->
  render cfg (flat_map item_calls its) = concat (items_out cfg u0 its).
Proof.
  intros Hd Hq Hf Hok. unfold render, run. rewrite init_is_ustate.
  destruct (run_items cfg Hd Hq Hf its u0 true Hok) as [el' [errs H]]. rewrite H. reflexivity.
Qed.

Theorem console_parsed cfg fuel cs its :
  smart cfg = false -> c_verb cfg <> VQuiet -> format_ok cfg ->
  parse fuel cs = Some its ->
  render cfg cs = concat (items_out cfg u0 its).
Proof.
  intros Hd Hq Hf Hp. destruct (parse_ok fuel cs its Hp) as [H1 H2].
  rewrite <- H1. apply console_items; assumption.
Qed.

(* ------------------------------------------------------------------ what happens under the lock, spelled out *)
Definition info_out (c : call) : bytes :=
  match c with Info m => l_ninja ++ cstr m ++ [b_lf] | _ => [] end.

(* (1) while the console is locked nothing reaches stdout except Info() lines (a plain fprintf) *)
Lemma locked_direct cfg seg : forall u line,
  lr_direct (lrun cfg u line seg) = concat (map info_out seg).
Proof.
  induction seg as [|c seg IH]; intros u line; [reflexivity|].
  cbn [lrun lr_direct map concat]. rewrite IH.
  destruct c; unfold lpiece; cbn [fst snd info_out]; try reflexivity.
  destruct (prints code output); reflexivity.
Qed.

(* (2) the buffer is the concatenation of the per-call contributions ... *)
Fixpoint lbufs (cfg : config) (u : ust) (line : bytes) (seg : list call) : list bytes :=
  match seg with
  | [] => []
  | c :: r => fst (fst (fst (lpiece cfg u line c))) ::
              lbufs cfg (snd (fst (lpiece cfg u line c))) (snd (lpiece cfg u line c)) r
  end.
Lemma locked_buffer cfg seg : forall u line,
  lr_buf (lrun cfg u line seg) = concat (lbufs cfg u line seg).
Proof.
  induction seg as [|c seg IH]; intros u line; [reflexivity|].
  cbn [lrun lr_buf lbufs concat]. rewrite IH. reflexivity.
Qed.

(* ... a command that prints something (it failed, or it has output) contributes its WHOLE block:
   status line (as a std::string: not cut at a NUL; dropped when empty), FAILED block, output ... *)
Lemma locked_block cfg u line e code out :
  shows_status cfg = true -> prints code out = true ->
  fst (fst (fst (lpiece cfg u line (Finished e code out)))) =
  (let l := sline cfg (u_idx u) (cn_print (u_cn u)) e in if is_empty l then [] else l ++ [b_lf]) ++
  fst (body cfg (u_owed u) e code out)
  /\ snd (lpiece cfg u line (Finished e code out)) = [].
Proof.
  intros Hs Hp. unfold lpiece. rewrite Hs, Hp. cbn [fst snd]. split; reflexivity.
Qed.

(* ... every other call contributes nothing to the buffer; a SILENT successful command only replaces
   the pending progress line (line_buffer_) by its own: this is the coalescing *)
Lemma locked_silent cfg u line e code out :
  shows_status cfg = true -> prints code out = false ->
  fst (fst (fst (lpiece cfg u line (Finished e code out)))) = [] /\
  snd (lpiece cfg u line (Finished e code out)) = sline cfg (u_idx u) (cn_print (u_cn u)) e.
Proof.
  intros Hs Hp. unfold lpiece. rewrite Hs, Hp. cbn [fst snd]. split; reflexivity.
Qed.

Lemma locked_other cfg u line c :
  match c with Finished _ _ _ => False | _ => True end ->
  fst (fst (fst (lpiece cfg u line c))) = [] /\ snd (lpiece cfg u line c) = line.
Proof.
  intros Hc. destruct c; try contradiction; unfold lpiece; cbn [fst snd]; split; reflexivity.
Qed.

(* ------------------------------------------------------------------ StripAnsiEscapeCodes leaves no ESC *)
Lemma strip_go_no_esc n : forall incsi s, (length s <= n)%nat -> has_esc (strip_go incsi s) = false.
Proof.
  induction n as [|n IH]; intros incsi s Hn.
  - destruct s; [destruct incsi; reflexivity|cbn [length] in Hn; lia].
  - destruct s as [|c r]; [destruct incsi; reflexivity|].
    cbn [length] in Hn. assert (Hr : (length r <= n)%nat) by lia.
    cbn [strip_go]. destruct incsi.
    + destruct (islatinalpha c); apply IH; exact Hr.
    + destruct (N.eqb c b_esc) eqn:Hc; cbn [negb].
      * destruct r as [|d r']; [reflexivity|].
        destruct (N.eqb d b_lbr); apply IH; [cbn [length] in Hr; lia|exact Hr].
      * unfold has_esc. cbn [existsb]. rewrite N.eqb_sym, Hc. cbn [orb]. apply IH. exact Hr.
Qed.

Lemma strip_ansi_no_esc s : has_esc (strip_ansi s) = false.
Proof. apply (strip_go_no_esc (length s)). lia. Qed.

(* what is shown of an output on a terminal without colour support never contains an ESC *)
Lemma shown_output_no_esc cfg out : c_color cfg = false -> has_esc (shown_output cfg out) = false.
Proof.
  intros Hc. unfold shown_output. rewrite Hc. cbn [orb].
  destruct (has_esc out) eqn:He; cbn [negb]; [apply strip_ansi_no_esc|exact He].
Qed.

(* ------------------------------------------------------------------ the tidy statement is false in general *)
(* witness: two commands, the first one's output is "abc" without a newline *)
Definition wit_cfg : config := mkConfig false VNormal false O default_format None (fun _ _ => []).
Definition wit_a : edge := mkEdge [97] [99;49] false [[97]].          (* description "a", command "c1" *)
Definition wit_b : edge := mkEdge [98] [99;50] false [[98]].          (* description "b", command "c2" *)
Definition wit_calls : list call :=
  [Added wit_a; Added wit_b; BuildStarted; Started wit_a; Finished wit_a 0 [97;98;99];
   Started wit_b; Finished wit_b 0 [120;10]; BuildFinished].

Lemma wit_cfg_ok : smart wit_cfg = false /\ c_verb wit_cfg <> VQuiet /\ format_ok wit_cfg.
Proof.
  split; [reflexivity|]. split; [discriminate|]. apply format_ok_default; reflexivity.
Qed.

(* "[1/2] a\nabc[2/2] b\n\nx\n": the second status line is glued onto "abc", and the newline that
   "abc" lacked comes out between the second command's status line and its output *)
Lemma wit_render :
  render wit_cfg wit_calls =
  [91;49;47;50;93;32;97;10] ++ [97;98;99] ++ [91;50;47;50;93;32;98;10] ++ [10] ++ [120;10].
Proof. vm_compute. reflexivity. Qed.

Theorem tidy_refuted :
  exists cfg cs,
    smart cfg = false /\ c_verb cfg <> VQuiet /\ format_ok cfg /\ forallb plain cs = true /\
    render cfg cs <> concat (tidy cfg cn0 O cs).
Proof.
  exists wit_cfg, wit_calls. destruct wit_cfg_ok as [H1 [H2 H3]].
  split; [exact H1|]. split; [exact H2|]. split; [exact H3|]. split; [reflexivity|].
  intros H. vm_compute in H. discriminate H.
Qed.

(* ------------------------------------------------------------------ the numbers in the status line *)
(* default format, NORMAL/VERBOSE: the line printed when a command finishes is
   "[f/t] description" with f = finished commands including this one, t = the plan's total, both
   as counted over the calls made before (EdgeAdded/RemovedFromPlan, BuildStarted, Finished) *)
Theorem counters_in_lines cfg pre e code out post :
  smart cfg = false -> shows_status cfg = true ->
  c_eval cfg = None -> c_format cfg = default_format ->
  forallb plain (pre ++ Finished e code out :: post) = true ->
  let cn := counters_of pre in
  let u := urun cfg u0 pre in
  render cfg (pre ++ Finished e code out :: post) =
  render cfg pre ++
  (cstr ([91] ++ dec_Z (n_finished cn + 1) ++ [47] ++ dec_Z (n_total cn) ++ [93; 32] ++
         description_of cfg e) ++ [b_lf] ++
   fst (body cfg (u_owed u) e code out)) ++
  concat (upieces cfg (snd (upiece cfg u (Finished e code out))) post).
Proof.
  intros Hd Hs He Hf Hp cn u.
  assert (Hq : c_verb cfg <> VQuiet).
  { unfold shows_status in Hs. destruct (c_verb cfg); congruence. }
  rewrite (output_once cfg pre e code out post Hd Hq (format_ok_default cfg He Hf) Hp).
  fold u. fold cn. unfold sline_direct. rewrite Hs, (sline_default cfg _ _ e He Hf).
  cbn [cn_print n_finished n_total]. rewrite <- !app_assoc. reflexivity.
Qed.

(* ------------------------------------------------------------------ QUIET *)
(* BuildConfig::QUIET (used by tests and tools, not reachable from the command line): nothing is
   printed at all -- not even the FAILED block and the output of a failed command; only Info(). *)
Lemma quiet_run cfg cs : c_verb cfg = VQuiet -> forallb plain cs = true ->
  forall cn el idx,
  exists cn' idx' errs,
    run_from cfg (mkState cn (mkLp true false [] el []) false idx) cs =
    (mkState cn' (mkLp true false [] el []) false idx', concat (map info_out cs), errs).
Proof.
  intros Hq. assert (Hs : smart cfg = false) by (unfold smart; rewrite Hq; apply andb_false_r).
  induction cs as [|c cs IH]; intros Hp cn el idx.
  - exists cn, idx, []. reflexivity.
  - cbn [forallb] in Hp. apply andb_true_iff in Hp. destruct Hp as [Hc Hcs].
    cbn [run_from map concat].
    assert (Hstep : exists cn1 err1, step cfg (mkState cn (mkLp true false [] el []) false idx) c =
                     (mkState cn1 (mkLp true false [] el []) false (S idx), info_out c, err1)).
    { destruct c as [e|e|e|e code out| | |b| |m|m|m]; cbn [plain] in Hc; try discriminate;
        unfold step; cbn [s_dead s_cn s_lp s_idx info_out];
        try (eexists; eexists; reflexivity).
      - apply negb_true_iff in Hc. rewrite Hc, Hs. cbn [orb]. eexists; eexists; reflexivity.
      - apply negb_true_iff in Hc. rewrite Hc, Hq. eexists; eexists; reflexivity. }
    destruct Hstep as [cn1 [err1 H1]]. rewrite H1.
    destruct (IH Hcs cn1 el (S idx)) as [cn' [idx' [errs H2]]]. rewrite H2.
    exists cn', idx', (err1 ++ errs). reflexivity.
Qed.

Theorem quiet_silent cfg cs : c_verb cfg = VQuiet -> forallb plain cs = true ->
  render cfg cs = concat (map info_out cs).
Proof.
  intros Hq Hp. unfold render, run, init_state, lp_init.
  destruct (quiet_run cfg cs Hq Hp (mkCn 0 0 0 0) true O) as [cn' [idx' [errs H]]].
  rewrite H. reflexivity.
Qed.

(* ------------------------------------------------------------------ smart terminal, console free *)
(* On a smart terminal (NORMAL verbosity, a tty, TERM not dumb) status lines overprint each other:
   "\r" line "ESC[K", elided to the terminal width, printed when a command STARTS and when it
   finishes.  They leave the cursor behind the line, so every FAILED block / output starts with the
   newline that ends it ([body] with owed = true) -- the same block structure as on a pipe. *)
Definition sline_smart (cfg : config) (idx : nat) (cn : counters) (e : edge) : bytes :=
  let s := sline cfg idx cn e in
  [b_cr] ++ cstr (match c_width cfg with O => s | w => elide_middle s w end) ++ l_clreol.

Definition spiece (cfg : config) (u : ust) (c : call) : bytes * ust :=
  let cn := u_cn u in
  let i := u_idx u in
  match c with
  | Started e => (sline_smart cfg i (cn_step cn c) e, mkU (cn_step cn c) true (S i))
  | Finished e code out =>
    (sline_smart cfg i (cn_print cn) e ++ fst (body cfg true e code out),
     mkU (cn_step cn c) (snd (body cfg true e code out)) (S i))
  | BuildFinished => ((if u_owed u then [b_lf] else []), mkU (cn_step cn c) false (S i))
  | NewLine => ((if u_owed u then [b_lf] else []), mkU cn false (S i))
  | Info m => (l_ninja ++ cstr m ++ [b_lf], mkU cn (u_owed u) (S i))
  | _ => ([], mkU (cn_step cn c) (u_owed u) (S i))
  end.
Fixpoint spieces (cfg : config) (u : ust) (cs : list call) : list bytes :=
  match cs with
  | [] => []
  | c :: r => fst (spiece cfg u c) :: spieces cfg (snd (spiece cfg u c)) r
  end.

Section Smart.
Variable cfg : config.
Hypothesis Hsmart : smart cfg = true.
Hypothesis Hfmt : format_ok cfg.

Lemma smart_verb : c_verb cfg = VNormal.
Proof.
  clear Hfmt. unfold smart in Hsmart. apply andb_true_iff in Hsmart. destruct Hsmart as [_ H].
  destruct (c_verb cfg); try discriminate. reflexivity.
Qed.

Lemma print_status_smart idx cn b line el out e :
  print_status cfg idx cn (mkLp b false line el out) e =
  inl (mkLp false false line el out, sline_smart cfg idx cn e).
Proof.
  unfold print_status, sline_smart, sline. rewrite smart_verb.
  destruct (Hfmt idx cn e) as [l Hl]. rewrite Hl.
  unfold lp_print. cbn [lp_locked]. rewrite Hsmart. reflexivity.
Qed.

Lemma step_S u el c :
  plain c = true ->
  step cfg (ustate u el) c = (ustate (snd (spiece cfg u c)) el, fst (spiece cfg u c), call_err c).
Proof.
  intros Hp. destruct u as [cn ow i].
  destruct c as [e|e|e|e code out| | |b| |m|m|m]; cbn [plain] in Hp; try discriminate;
    unfold step, ustate; cbn [s_dead s_cn s_lp s_idx u_cn u_owed u_idx].
  - reflexivity.
  - reflexivity.
  - apply negb_true_iff in Hp. rewrite Hp, Hsmart. cbn [orb]. rewrite print_status_smart.
    unfold spiece, ok_of. cbn [fst snd u_cn u_owed u_idx s_idx negb]. rewrite app_nil_r. reflexivity.
  - apply negb_true_iff in Hp. rewrite Hp, smart_verb.
    rewrite print_status_smart, finish_body_unlocked.
    unfold spiece, ok_of. cbn [fst snd u_cn u_owed u_idx s_idx negb app]. reflexivity.
  - reflexivity.
  - unfold lp_lock. cbn [lp_locked Bool.eqb]. rewrite lp_newline_unlocked, ends_blank_nil.
    unfold spiece, ok_of. cbn [fst snd u_cn u_owed u_idx s_idx app negb].
    destruct ow; reflexivity.
  - rewrite lp_newline_unlocked, ends_blank_nil.
    unfold spiece, ok_of. cbn [fst snd u_cn u_owed u_idx s_idx app negb].
    destruct ow; reflexivity.
  - reflexivity.
  - reflexivity.
  - reflexivity.
Qed.

Lemma run_S cs : forall u el,
  forallb plain cs = true ->
  snd (fst (run_from cfg (ustate u el) cs)) = concat (spieces cfg u cs).
Proof.
  induction cs as [|c cs IH]; intros u el Hp; [reflexivity|].
  cbn [forallb] in Hp. apply andb_true_iff in Hp. destruct Hp as [Hc Hcs].
  cbn [run_from]. rewrite (step_S u el c Hc).
  specialize (IH (snd (spiece cfg u c)) el Hcs).
  destruct (run_from cfg (ustate (snd (spiece cfg u c)) el) cs) as [[s2 o2] e2].
  cbn [fst snd] in IH |- *. rewrite IH. reflexivity.
Qed.
End Smart.

Theorem smart_blocks cfg cs :
  smart cfg = true -> format_ok cfg -> forallb plain cs = true ->
  render cfg cs = concat (spieces cfg u0 cs).
Proof.
  intros Hs Hf Hp. unfold render, run. rewrite init_is_ustate. apply run_S; assumption.
Qed.
