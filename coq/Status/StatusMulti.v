(* Several builds reported through ONE StatusPrinter (ninja.cc: the manifest regeneration build, then the real build,
   share the Status object).  The counters of StatusProofs.cn_step: BuildStarted resets started/finished/running,
   BuildFinished resets the total (fix: "StatusPrinter::BuildFinished resets total_edges_"), so every build of an
   invocation counts from zero.  The behaviour before the fix is kept as [cn_step_old] with its refutation. *)
From NinjaV Require Import Base.Bytes Status.StatusDefs Status.StatusProofs.
Require Import Lia.
Local Open Scope Z_scope.

Lemma counters_of_app a b : counters_of (a ++ b) = fold_left cn_step b (counters_of a).
Proof. unfold counters_of. apply fold_left_app. Qed.

Theorem total_zero_after_build_finished cs : n_total (counters_of (cs ++ [BuildFinished])) = 0.
Proof. rewrite counters_of_app. reflexivity. Qed.

Definition all_added (l : list call) : Prop := forall c, In c l -> exists e, c = Added e.

Lemma fold_added l : all_added l -> forall cn,
  fold_left cn_step l cn = mkCn (n_total cn + Z.of_nat (length l)) (n_started cn) (n_finished cn) (n_running cn).
Proof.
  induction l as [|c l IH]; intros H cn.
  - cbn [fold_left length]. destruct cn; cbn. f_equal. lia.
  - destruct (H c (or_introl eq_refl)) as [e ->]. cbn [fold_left]. rewrite IH.
    + cbn [cn_step n_total n_started n_finished n_running length]. f_equal. lia.
    + intros c' Hc'. apply H. right. exact Hc'.
Qed.

(* the plan of the NEXT build is counted from zero, whatever the earlier builds of the invocation reported *)
Theorem next_build_counts_from_zero cs adds :
  all_added adds -> n_total (counters_of (cs ++ [BuildFinished] ++ adds)) = Z.of_nat (length adds).
Proof.
  intros H. rewrite app_assoc, counters_of_app, (fold_added adds H). cbn [n_total]. rewrite total_zero_after_build_finished. lia.
Qed.

(* a build whose commands all start and finish: n statements added, started, finished *)
Fixpoint run_all (es : list edge) : list call :=
  match es with [] => [] | e :: es' => Started e :: Finished e 0 [] :: run_all es' end.

Lemma fold_run_all es : forall cn,
  fold_left cn_step (run_all es) cn =
  mkCn (n_total cn) (n_started cn + Z.of_nat (length es)) (n_finished cn + Z.of_nat (length es)) (n_running cn).
Proof.
  induction es as [|e es IH]; intros cn.
  - cbn [run_all fold_left length]. destruct cn; cbn. f_equal; lia.
  - cbn [run_all fold_left]. rewrite IH. cbn [cn_step n_total n_started n_finished n_running length]. f_equal; lia.
Qed.

(* finished = total at the end of a successful build, also when it is not the first build of the invocation *)
Theorem finished_equals_total_every_build cs es :
  let cn := counters_of (cs ++ [BuildFinished] ++ map Added es ++ [BuildStarted] ++ run_all es) in
  n_finished cn = n_total cn /\ n_started cn = n_total cn /\ n_total cn = Z.of_nat (length es).
Proof.
  cbn zeta. rewrite !app_assoc, counters_of_app, fold_run_all.
  rewrite counters_of_app. cbn [fold_left cn_step n_total n_started n_finished n_running].
  rewrite <- app_assoc.
  assert (Ha : all_added (map Added es)).
  { intros c Hc. apply in_map_iff in Hc as (e & <- & _). exists e. reflexivity. }
  rewrite (next_build_counts_from_zero cs (map Added es) Ha), map_length. lia.
Qed.

(* ---- before the fix: BuildFinished left total_edges_ alone *)
Definition cn_step_old (cn : counters) (c : call) : counters :=
  match c with BuildFinished => cn | _ => cn_step cn c end.
Definition counters_of_old (cs : list call) : counters := fold_left cn_step_old cs cn0.

(* regeneration ([1/1]) followed by a two-command build: the last status line read [2/3] *)
Definition regen_then_build (e0 e1 e2 : edge) : list call :=
  [Added e0; BuildStarted; Started e0; Finished e0 0 []; BuildFinished;
   Added e1; Added e2; BuildStarted; Started e1; Finished e1 0 []; Started e2; Finished e2 0 []].

Theorem finished_equals_total_old_refuted : forall e0 e1 e2,
  let cn := counters_of_old (regen_then_build e0 e1 e2) in n_finished cn = 2 /\ n_total cn = 3.
Proof. intros e0 e1 e2. vm_compute. split; reflexivity. Qed.

Theorem finished_equals_total_fixed : forall e0 e1 e2,
  let cn := counters_of (regen_then_build e0 e1 e2) in n_finished cn = 2 /\ n_total cn = 2.
Proof. intros e0 e1 e2. vm_compute. split; reflexivity. Qed.
