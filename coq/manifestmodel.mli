
val negb : bool -> bool

type nat =
| O
| S of nat

val option_map : ('a1 -> 'a2) -> 'a1 option -> 'a2 option

val fst : ('a1 * 'a2) -> 'a1

val length : 'a1 list -> nat

val app : 'a1 list -> 'a1 list -> 'a1 list

type comparison =
| Eq
| Lt
| Gt

val compOpp : comparison -> comparison

val add : nat -> nat -> nat

val sub : nat -> nat -> nat

val eqb : bool -> bool -> bool

module Nat :
 sig
  val eqb : nat -> nat -> bool

  val leb : nat -> nat -> bool

  val ltb : nat -> nat -> bool
 end

val hd : 'a1 -> 'a1 list -> 'a1

val tl : 'a1 list -> 'a1 list

val nth : nat -> 'a1 list -> 'a1 -> 'a1

val last : 'a1 list -> 'a1 -> 'a1

val removelast : 'a1 list -> 'a1 list

val rev : 'a1 list -> 'a1 list

val map : ('a1 -> 'a2) -> 'a1 list -> 'a2 list

val fold_left : ('a1 -> 'a2 -> 'a1) -> 'a2 list -> 'a1 -> 'a1

val forallb : ('a1 -> bool) -> 'a1 list -> bool

val firstn : nat -> 'a1 list -> 'a1 list

val skipn : nat -> 'a1 list -> 'a1 list

type positive =
| XI of positive
| XO of positive
| XH

type n =
| N0
| Npos of positive

type z =
| Z0
| Zpos of positive
| Zneg of positive

module Pos :
 sig
  type mask =
  | IsNul
  | IsPos of positive
  | IsNeg
 end

module Coq_Pos :
 sig
  val succ : positive -> positive

  val add : positive -> positive -> positive

  val add_carry : positive -> positive -> positive

  val pred_double : positive -> positive

  type mask = Pos.mask =
  | IsNul
  | IsPos of positive
  | IsNeg

  val succ_double_mask : mask -> mask

  val double_mask : mask -> mask

  val double_pred_mask : positive -> mask

  val sub_mask : positive -> positive -> mask

  val sub_mask_carry : positive -> positive -> mask

  val mul : positive -> positive -> positive

  val compare_cont : comparison -> positive -> positive -> comparison

  val compare : positive -> positive -> comparison

  val eqb : positive -> positive -> bool
 end

module N :
 sig
  val sub : n -> n -> n

  val compare : n -> n -> comparison

  val eqb : n -> n -> bool

  val leb : n -> n -> bool

  val ltb : n -> n -> bool
 end

module Z :
 sig
  val double : z -> z

  val succ_double : z -> z

  val pred_double : z -> z

  val pos_sub : positive -> positive -> z

  val add : z -> z -> z

  val opp : z -> z

  val sub : z -> z -> z

  val mul : z -> z -> z

  val compare : z -> z -> comparison

  val leb : z -> z -> bool

  val ltb : z -> z -> bool

  val eqb : z -> z -> bool

  val max : z -> z -> z

  val min : z -> z -> z

  val of_N : n -> z

  val pos_div_eucl : positive -> z -> z * z

  val div_eucl : z -> z -> z * z

  val modulo : z -> z -> z
 end

type byte = n

type bytes = byte list

val bytes_eqb : bytes -> bytes -> bool

val mem_bytes : bytes -> bytes list -> bool

val b_slash : byte

val b_dot : byte

val s_build : bytes

val s_pool : bytes

val s_rule : bytes

val s_default : bytes

val s_include : bytes

val s_subninja : bytes

val s_phony : bytes

val s_command : bytes

val s_depfile : bytes

val s_dyndep : bytes

val s_description : bytes

val s_deps : bytes

val s_generator : bytes

val s_restat : bytes

val s_rspfile : bytes

val s_rspfile_content : bytes

val s_msvc_deps_prefix : bytes

val s_in : bytes

val s_in_newline : bytes

val s_out : bytes

val s_depth : bytes

val s_ninja_required_version : bytes

val s_console : bytes

val in_range : byte -> byte -> byte -> bool

val is_alnum : byte -> bool

val is_simple_varname_char : byte -> bool

val is_varname_char : byte -> bool

type token =
| T_ERROR
| T_BUILD
| T_COLON
| T_DEFAULT
| T_EQUALS
| T_IDENT
| T_INCLUDE
| T_INDENT
| T_NEWLINE
| T_PIPE
| T_PIPE2
| T_PIPEAT
| T_POOL
| T_RULE
| T_SUBNINJA
| T_TEOF

val token_eqb : token -> token -> bool

val eat_ws : bytes -> nat option

val span_varname : bytes -> (bytes * bytes) option

val keyword_or_ident : bytes -> token

val scan_plain : byte -> bytes -> (token * nat) option

type tokres =
| TR of token * nat * nat
| TR_overrun

type rtmode =
| RT_spaces
| RT_comment of nat

val read_token_aux : bytes -> nat -> nat -> rtmode -> tokres

val scan_ident : bytes -> bytes option option

type evtok =
| ET_raw of bytes
| ET_special of bytes

type evalstring = evtok list

val add_text : evalstring -> bytes -> evalstring

val add_special : evalstring -> bytes -> evalstring

type lexerr =
| LE_bad_escape
| LE_unexpected_eof
| LE_lexing
| LE_newline_version

type evres =
| EV_ok of evalstring * nat * nat * bool
| EV_err of lexerr * nat option
| EV_overrun

type evmode =
| EM_normal
| EM_dollar of nat
| EM_dollar_cr of nat
| EM_cont
| EM_var of bytes
| EM_brace of nat * bytes
| EM_cr of nat

val read_eval_aux :
  bool -> bool -> bytes -> nat -> evmode -> evalstring -> bool -> evres

type lexer = { lx_file : bytes; lx_input : bytes; lx_ofs : nat;
               lx_last : nat; lx_major : z; lx_minor : z; lx_checked : 
               bool }

val lex_start : bytes -> bytes -> z -> z -> bool -> lexer

val lx_rest : lexer -> bytes

val lx_set : lexer -> nat -> nat -> lexer

val lx_set_checked : lexer -> lexer

val lx_set_version : lexer -> z -> z -> lexer

val count_nl : bytes -> nat

val lx_line : lexer -> nat

val lx_eat : lexer -> nat -> nat -> lexer option

val lex_read_token : lexer -> (token * lexer) option

val lex_unread : lexer -> lexer

val lex_peek : lexer -> token -> (bool * lexer) option

val lex_read_ident : lexer -> (bytes option * lexer) option

val version_ge_1_14 : z -> z -> bool

type lexevres =
| LV_ok of evalstring * lexer
| LV_err of lexerr * lexer
| LV_overrun

val lex_read_eval : bool -> lexer -> lexevres

val lx_last_is_tab : lexer -> bool

val split_slash_aux : bytes -> bytes -> bytes list

val split_slash : bytes -> bytes list

val is_dot : bytes -> bool

val is_dotdot : bytes -> bool

val is_empty : bytes -> bool

val backup_loop : nat -> bytes -> bytes

val backup : nat -> bytes -> bytes

val strip_dotdot_run : nat -> bytes -> nat * bytes

val dotdot_prefix_rev : nat -> bytes

val mid_step : nat -> (nat * bytes) -> bytes -> nat * bytes

val last_step : nat -> (nat * bytes) -> bytes -> bytes

val canon : bytes -> bytes

type perr =
| E_lexing
| E_tabs
| E_unexpected of token
| E_expected of token * token
| E_expected_pool_name
| E_dup_pool
| E_bad_depth
| E_unexpected_var
| E_expected_depth
| E_expected_rule_name
| E_dup_rule
| E_rspfile
| E_expected_command
| E_expected_var_name
| E_expected_target
| E_empty_path
| E_unknown_target
| E_expected_path
| E_expected_rule_ref
| E_unknown_rule
| E_unknown_pool
| E_multiple_rules
| E_output_twice
| E_dyndep_not_input
| E_bad_escape
| E_unexpected_eof
| E_newline_version
| E_loading
| E_include_depth
| E_fatal_cycle
| E_fatal_version
| E_include_fuel
| E_overrun
| E_loop_fuel
| E_lookup_fuel

type 'a pres =
| P_ok of 'a
| P_err of bytes * nat * perr

val lex_error : lexer -> perr -> 'a1 pres

val overrun : lexer -> 'a1 pres

val lexerr_class : lexerr -> perr

val assoc_get : bytes -> (bytes * 'a1) list -> 'a1 option

type rule = { r_name : bytes; r_bindings : (bytes * evalstring) list;
              r_phony : bool }

val phony_rule : rule

type scope = { sc_bindings : (bytes * bytes) list;
               sc_rules : (bytes * rule) list }

val empty_scope : scope

type env = nat list

type store = scope list

val scope_at : store -> nat -> scope

val store_update : store -> nat -> (scope -> scope) -> store

val env_id : env -> nat

val add_binding : store -> env -> bytes -> bytes -> store

val add_rule : store -> env -> rule -> store

val lookup_var : store -> env -> bytes -> bytes

val lookup_rule : store -> env -> bytes -> rule option

val lookup_rule_current : store -> env -> bytes -> rule option

val eval_es : (bytes -> bytes) -> evalstring -> bytes

val eval_in : store -> env -> evalstring -> bytes

val reserved_names : bytes list

val is_reserved_binding : bytes -> bool

val is_shell_safe : byte -> bool

val quote_body : bytes -> bytes

val shell_escape : bytes -> bytes

type pool = { p_name : bytes; p_depth : z }

val default_pool : pool

val console_pool : pool

val bytes_ltb : bytes -> bytes -> bool

val pool_insert : pool -> pool list -> pool list

val lookup_pool : bytes -> pool list -> pool option

type edge = { e_rule : rule; e_env : env; e_pool : pool; e_outs : bytes list;
              e_implicit_outs : nat; e_ins : bytes list;
              e_implicit_deps : nat; e_order_only_deps : nat;
              e_validations : bytes list; e_dyndep : bytes }

val path_list : bool -> byte -> bytes list -> bytes

type lres =
| L_ok of bytes
| L_cycle
| L_fuel

val eval_es_l : (bytes -> lres) -> evalstring -> lres

val edge_lookup :
  nat -> store -> edge -> bool -> bytes list -> bool -> bytes -> lres

val lookup_fuel : edge -> nat

val get_binding : store -> edge -> bytes -> lres

val get_unescaped : store -> edge -> bytes -> lres

val is_digit : byte -> bool

val digits_value : z -> bytes -> z

val parse_depth : bytes -> z option

val is_c_space : byte -> bool

val skip_c_space : bytes -> bytes

val take_digits : bytes -> bytes

val wrap_int32 : z -> z

val atoi : bytes -> z

val split_at_dot : bytes -> bytes * bytes option

val parse_version : bytes -> z * z

val version_fatal : z -> z -> bool

type lexflags = (z * z) * bool

val default_flags : lexflags

type pstate = { ps_store : store; ps_pools : pool list; ps_edges : edge list;
                ps_nodes : bytes list; ps_outs : bytes list;
                ps_defaults : bytes list; ps_subflags : lexflags list }

val ps_with_store : pstate -> store -> pstate

val set_nth_flags : lexflags list -> nat -> lexflags -> lexflags list

val initial_state : pstate

val p_read_token : lexer -> (token * lexer) pres

val p_peek : lexer -> token -> (bool * lexer) pres

val expect_token : lexer -> token -> lexer pres

val p_read_eval : bool -> lexer -> (evalstring * lexer) pres

val p_read_ident : lexer -> perr -> (bytes * lexer) pres

val es_empty : evalstring -> bool

val b_empty : bytes -> bool

val parse_let : lexer -> ((bytes * evalstring) * lexer) pres

val read_paths : nat -> lexer -> (evalstring list * lexer) pres

val read_opt_paths : nat -> lexer -> token -> (evalstring list * lexer) pres

val pool_block : nat -> store -> env -> lexer -> z -> (z * lexer) pres

val parse_pool : nat -> env -> lexer -> pstate -> (lexer * pstate) pres

val rule_block :
  nat -> lexer -> (bytes * evalstring) list -> ((bytes * evalstring)
  list * lexer) pres

val touch_binding :
  bytes -> (bytes * evalstring) list -> (bytes * evalstring) list

val binding_empty : bytes -> (bytes * evalstring) list -> bool

val parse_rule : nat -> env -> lexer -> pstate -> (lexer * pstate) pres

val default_loop :
  nat -> env -> lexer -> pstate -> evalstring -> (lexer * pstate) pres

val parse_default : nat -> env -> lexer -> pstate -> (lexer * pstate) pres

val edge_block : nat -> env -> env -> lexer -> store -> (lexer * store) pres

val add_outs :
  lexer -> store -> env -> bytes list -> evalstring list -> bytes list ->
  bytes list pres

val eval_paths : lexer -> store -> env -> evalstring list -> bytes list pres

val lres_to_pres : lres -> bytes pres

val remove_bytes : bytes -> bytes list -> bytes list

val count_bytes : bytes -> bytes list -> nat

val phony_filter : bytes -> bytes list -> nat -> bytes list * nat

val maybe_phonycycle : rule -> bytes list -> nat -> nat -> bool

val parse_edge : nat -> env -> lexer -> pstate -> (lexer * pstate) pres

type loader = lexer -> bytes -> env -> pstate -> pstate pres

val max_include_depth : nat

val parse_include :
  loader -> nat -> bool -> env -> lexer -> pstate -> (lexer * pstate) pres

val parse_loop :
  nat -> nat -> loader -> nat -> env -> lexer -> pstate -> (lexer * pstate)
  pres

val load :
  nat -> (bytes -> bytes option) -> nat -> lexer option -> bytes -> env ->
  pstate -> pstate pres

type edge_dump = { d_rule : bytes; d_outs : bytes list;
                   d_implicit_outs : nat; d_ins : bytes list;
                   d_implicit_deps : nat; d_order_only_deps : nat;
                   d_validations : bytes list; d_pool : bytes;
                   d_pool_depth : z; d_dyndep_node : bytes;
                   d_bindings : bytes list }

type graph_dump = { g_pools : (bytes * z) list; g_defaults : bytes list;
                    g_edges : edge_dump list }

type result =
| Ok of graph_dump
| Err of bytes * nat * perr

val dump_keys : (bool * bytes) list

val eval_keys : store -> edge -> (bool * bytes) list -> bytes list pres

val dump_edge : store -> edge -> edge_dump pres

val dump_edges : store -> edge list -> edge_dump list pres

val dump_state : pstate -> graph_dump pres

val eval_manifest : (bytes -> bytes option) -> nat -> bytes -> result

type binding_ast = bytes * evalstring

type stmt =
| S_let of nat * bytes * evalstring
| S_rule of nat * bytes * binding_ast list
| S_pool of nat * bytes * binding_ast list
| S_build of nat * evalstring list * evalstring list * bytes
   * evalstring list * evalstring list * evalstring list * evalstring list
   * binding_ast list
| S_default of nat * evalstring list
| S_include of nat * bool * evalstring

val parse_block : nat -> lexer -> (binding_ast list * lexer) pres

val parse_stmts : nat -> nat -> lexer -> stmt list pres

val parse_file : bytes -> bytes -> stmt list pres

type frames = (bytes * bytes) list list

val lookup_frames : frames -> bytes -> bytes

type sframe = { f_vars : (bytes * bytes) list; f_rules : (bytes * rule) list }

type senv = sframe list

val senv_frames : senv -> frames

val slookup_rule : senv -> bytes -> rule option

val senv_bind : senv -> bytes -> bytes -> senv

val senv_add_rule : senv -> rule -> senv

val eval_es_o : (bytes -> bytes option) -> evalstring -> bytes option

val spec_lookup :
  nat -> (bytes * bytes) list -> (bytes * evalstring) list -> frames -> bytes
  list -> bytes list -> bool -> bytes -> bytes option

type sstate = { ss_pools : pool list; ss_edges : edge_dump list;
                ss_nodes : bytes list; ss_outs : bytes list;
                ss_defaults : bytes list }

val serr : bytes -> nat -> perr -> 'a1 pres

val eval_block :
  frames -> binding_ast list -> (bytes * bytes) list -> (bytes * bytes) list

val spec_paths :
  bytes -> nat -> (bytes -> bytes) -> evalstring list -> bytes list pres

val check_outs :
  bytes -> nat -> bytes list -> bytes list -> bytes list -> unit pres

val spec_eval_keys :
  (bool -> bytes -> bytes option) -> (bool * bytes) list -> bytes list pres

val spec_build :
  bytes -> nat -> senv -> sstate -> evalstring list -> evalstring list ->
  bytes -> evalstring list -> evalstring list -> evalstring list ->
  evalstring list -> binding_ast list -> sstate pres

val spec_defaults :
  bytes -> nat -> (bytes -> bytes) -> sstate -> evalstring list -> sstate pres

val spec_rule : bytes -> nat -> senv -> bytes -> binding_ast list -> senv pres

val spec_pool_depth :
  bytes -> nat -> (bytes -> bytes) -> binding_ast list -> z option -> z
  option pres

type sloader = bytes -> nat -> bytes -> senv -> sstate -> (senv * sstate) pres

val spec_stmts :
  sloader -> bytes -> stmt list -> senv -> sstate -> (senv * sstate) pres

val spec_load :
  nat -> (bytes -> bytes option) -> bytes -> nat -> bytes -> senv -> sstate
  -> (senv * sstate) pres

val spec_initial : sstate

val spec_manifest : (bytes -> bytes option) -> nat -> bytes -> result
