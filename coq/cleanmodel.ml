
(** val negb : bool -> bool **)

let negb = function
| true -> false
| false -> true

type nat =
| O
| S of nat

(** val length : 'a1 list -> nat **)

let rec length = function
| [] -> O
| _ :: l' -> S (length l')

(** val app : 'a1 list -> 'a1 list -> 'a1 list **)

let rec app l m =
  match l with
  | [] -> m
  | a :: l1 -> a :: (app l1 m)

(** val rev : 'a1 list -> 'a1 list **)

let rec rev = function
| [] -> []
| x :: l' -> app (rev l') (x :: [])

(** val flat_map : ('a1 -> 'a2 list) -> 'a1 list -> 'a2 list **)

let rec flat_map f = function
| [] -> []
| x :: t -> app (f x) (flat_map f t)

(** val fold_left : ('a1 -> 'a2 -> 'a1) -> 'a2 list -> 'a1 -> 'a1 **)

let rec fold_left f l a0 =
  match l with
  | [] -> a0
  | b :: t -> fold_left f t (f a0 b)

(** val existsb : ('a1 -> bool) -> 'a1 list -> bool **)

let rec existsb f = function
| [] -> false
| a :: l0 -> (||) (f a) (existsb f l0)

(** val find : ('a1 -> bool) -> 'a1 list -> 'a1 option **)

let rec find f = function
| [] -> None
| x :: tl -> if f x then Some x else find f tl

type positive =
| XI of positive
| XO of positive
| XH

type n =
| N0
| Npos of positive

module Pos =
 struct
  (** val eqb : positive -> positive -> bool **)

  let rec eqb p q =
    match p with
    | XI p0 -> (match q with
                | XI q0 -> eqb p0 q0
                | _ -> false)
    | XO p0 -> (match q with
                | XO q0 -> eqb p0 q0
                | _ -> false)
    | XH -> (match q with
             | XH -> true
             | _ -> false)
 end

module N =
 struct
  (** val eqb : n -> n -> bool **)

  let eqb n0 m =
    match n0 with
    | N0 -> (match m with
             | N0 -> true
             | Npos _ -> false)
    | Npos p -> (match m with
                 | N0 -> false
                 | Npos q -> Pos.eqb p q)
 end

type byte = n

type bytes = byte list

(** val bytes_eqb : bytes -> bytes -> bool **)

let rec bytes_eqb a b =
  match a with
  | [] -> (match b with
           | [] -> true
           | _ :: _ -> false)
  | x :: a' ->
    (match b with
     | [] -> false
     | y :: b' -> (&&) (N.eqb x y) (bytes_eqb a' b'))

(** val mem_bytes : bytes -> bytes list -> bool **)

let rec mem_bytes x = function
| [] -> false
| y :: l' -> (||) (bytes_eqb x y) (mem_bytes x l')

type path = bytes

type edge = { e_outs : path list; e_ins : path list; e_vals : path list;
              e_phony : bool; e_generator : bool; e_rule : n;
              e_depfile : path option; e_rspfile : path option }

type graph = { g_edges : edge list; g_rules : n list;
               g_extra_nodes : path list }

type fkind =
| FAbsent
| FFile
| FStuck

type disk = path -> fkind

type cl = { c_removed : path list; c_cleaned : path list; c_count : nat;
            c_status : bool; c_disk : disk; c_report : path list }

(** val c_removed : cl -> path list **)

let c_removed c =
  c.c_removed

(** val c_cleaned : cl -> path list **)

let c_cleaned c =
  c.c_cleaned

(** val c_disk : cl -> disk **)

let c_disk c =
  c.c_disk

(** val reset : disk -> cl **)

let reset d =
  { c_removed = []; c_cleaned = []; c_count = O; c_status = false; c_disk =
    d; c_report = [] }

(** val set_status : cl -> cl **)

let set_status s =
  { c_removed = s.c_removed; c_cleaned = s.c_cleaned; c_count = s.c_count;
    c_status = true; c_disk = s.c_disk; c_report = s.c_report }

(** val mark_cleaned : path -> cl -> cl **)

let mark_cleaned n0 s =
  { c_removed = s.c_removed; c_cleaned =
    (if mem_bytes n0 s.c_cleaned then s.c_cleaned else n0 :: s.c_cleaned);
    c_count = s.c_count; c_status = s.c_status; c_disk = s.c_disk; c_report =
    s.c_report }

(** val disk_remove : disk -> path -> disk **)

let disk_remove d p q =
  if bytes_eqb q p then FAbsent else d q

(** val remove : bool -> path -> cl -> cl **)

let remove dry p s =
  if mem_bytes p s.c_removed
  then s
  else let rm = p :: s.c_removed in
       (match s.c_disk p with
        | FAbsent ->
          { c_removed = rm; c_cleaned = s.c_cleaned; c_count = s.c_count;
            c_status = s.c_status; c_disk = s.c_disk; c_report = s.c_report }
        | FFile ->
          if dry
          then { c_removed = rm; c_cleaned = s.c_cleaned; c_count = (S
                 s.c_count); c_status = s.c_status; c_disk = s.c_disk;
                 c_report = (p :: s.c_report) }
          else { c_removed = rm; c_cleaned = s.c_cleaned; c_count = (S
                 s.c_count); c_status = s.c_status; c_disk =
                 (disk_remove s.c_disk p); c_report = (p :: s.c_report) }
        | FStuck ->
          if dry
          then { c_removed = rm; c_cleaned = s.c_cleaned; c_count = (S
                 s.c_count); c_status = s.c_status; c_disk = s.c_disk;
                 c_report = (p :: s.c_report) }
          else { c_removed = rm; c_cleaned = s.c_cleaned; c_count =
                 s.c_count; c_status = true; c_disk = s.c_disk; c_report =
                 s.c_report })

(** val remove_opt : bool -> path option -> cl -> cl **)

let remove_opt dry o s =
  match o with
  | Some p -> remove dry p s
  | None -> s

(** val remove_edge_files : bool -> edge -> cl -> cl **)

let remove_edge_files dry e s =
  remove_opt dry e.e_rspfile (remove_opt dry e.e_depfile s)

(** val remove_list : bool -> path list -> cl -> cl **)

let remove_list dry ps s =
  fold_left (fun s0 p -> remove dry p s0) ps s

(** val clean_edge : bool -> edge -> cl -> cl **)

let clean_edge dry e s =
  remove_edge_files dry e (remove_list dry e.e_outs s)

(** val in_edge : graph -> path -> edge option **)

let in_edge g p =
  find (fun e -> mem_bytes p e.e_outs) g.g_edges

(** val has_out_edge : graph -> path -> bool **)

let has_out_edge g p =
  existsb (fun e -> mem_bytes p e.e_ins) g.g_edges

(** val node_exists : graph -> path -> bool **)

let node_exists g p =
  (||)
    (existsb (fun e ->
      (||) ((||) (mem_bytes p e.e_outs) (mem_bytes p e.e_ins))
        (mem_bytes p e.e_vals)) g.g_edges) (mem_bytes p g.g_extra_nodes)

(** val clean_all_edge : bool -> bool -> cl -> edge -> cl **)

let clean_all_edge dry gen s e =
  if e.e_phony
  then s
  else if (&&) (negb gen) e.e_generator then s else clean_edge dry e s

(** val clean_all : bool -> bool -> graph -> disk -> cl **)

let clean_all dry gen g d =
  fold_left (clean_all_edge dry gen) g.g_edges (reset d)

(** val clean_inputs :
    (path -> cl -> cl option) -> path list -> cl -> cl option **)

let rec clean_inputs rec0 ins s =
  match ins with
  | [] -> Some s
  | n0 :: ins' ->
    if mem_bytes n0 s.c_cleaned
    then clean_inputs rec0 ins' s
    else (match rec0 n0 s with
          | Some s' -> clean_inputs rec0 ins' s'
          | None -> None)

(** val do_clean_target : nat -> bool -> graph -> path -> cl -> cl option **)

let rec do_clean_target fuel dry g t s =
  match fuel with
  | O -> None
  | S f ->
    let s0 = mark_cleaned t s in
    (match in_edge g t with
     | Some e ->
       let s1 = if e.e_phony then s0 else clean_edge dry e s0 in
       clean_inputs (do_clean_target f dry g) e.e_ins s1
     | None -> Some s0)

(** val clean_targets_loop :
    nat -> bool -> graph -> path list -> cl -> cl option **)

let rec clean_targets_loop fuel dry g ts s =
  match ts with
  | [] -> Some s
  | t :: ts' ->
    if node_exists g t
    then (match do_clean_target fuel dry g t s with
          | Some s' -> clean_targets_loop fuel dry g ts' s'
          | None -> None)
    else clean_targets_loop fuel dry g ts' (set_status s)

(** val default_fuel : graph -> nat **)

let default_fuel g =
  S (length (flat_map (fun e -> e.e_ins) g.g_edges))

(** val clean_targets_fuel :
    nat -> bool -> graph -> disk -> path list -> cl option **)

let clean_targets_fuel fuel dry g d ts =
  clean_targets_loop fuel dry g ts (reset d)

(** val clean_targets : bool -> graph -> disk -> path list -> cl option **)

let clean_targets dry g d ts =
  clean_targets_fuel (default_fuel g) dry g d ts

(** val clean_rule_edge : bool -> n -> cl -> edge -> cl **)

let clean_rule_edge dry r s e =
  if e.e_phony
  then s
  else if N.eqb e.e_rule r
       then fold_left (fun s0 o -> remove_edge_files dry e (remove dry o s0))
              e.e_outs s
       else s

(** val do_clean_rule : bool -> graph -> n -> cl -> cl **)

let do_clean_rule dry g r s =
  fold_left (clean_rule_edge dry r) g.g_edges s

(** val mem_N : n -> n list -> bool **)

let mem_N x l =
  existsb (N.eqb x) l

(** val clean_rules_step : bool -> graph -> cl -> n -> cl **)

let clean_rules_step dry g s r =
  if mem_N r g.g_rules then do_clean_rule dry g r s else set_status s

(** val clean_rules : bool -> graph -> disk -> n list -> cl **)

let clean_rules dry g d rs =
  fold_left (clean_rules_step dry g) rs (reset d)

(** val is_dead : graph -> path -> bool **)

let is_dead g p =
  (||) (negb (node_exists g p))
    ((&&) (match in_edge g p with
           | Some _ -> false
           | None -> true) (negb (has_out_edge g p)))

(** val clean_dead_step : bool -> graph -> cl -> path -> cl **)

let clean_dead_step dry g s p =
  if is_dead g p then remove dry p s else s

(** val clean_dead : bool -> graph -> disk -> path list -> cl **)

let clean_dead dry g d entries =
  fold_left (clean_dead_step dry g) entries (reset d)

(** val disk_of : path list -> path list -> disk **)

let disk_of files stuck p =
  if mem_bytes p stuck
  then FStuck
  else if mem_bytes p files then FFile else FAbsent

(** val result : cl -> (path list * nat) * bool **)

let result s =
  (((rev s.c_report), s.c_count), s.c_status)
