
val negb : bool -> bool

type nat =
| O
| S of nat

val fst : ('a1 * 'a2) -> 'a1

val length : 'a1 list -> nat

val app : 'a1 list -> 'a1 list -> 'a1 list

type comparison =
| Eq
| Lt
| Gt

val compOpp : comparison -> comparison

val add : nat -> nat -> nat

val sub : nat -> nat -> nat

module Nat :
 sig
  val add : nat -> nat -> nat

  val eqb : nat -> nat -> bool

  val leb : nat -> nat -> bool

  val ltb : nat -> nat -> bool
 end

val fold_left : ('a1 -> 'a2 -> 'a1) -> 'a2 list -> 'a1 -> 'a1

val existsb : ('a1 -> bool) -> 'a1 list -> bool

val forallb : ('a1 -> bool) -> 'a1 list -> bool

val find : ('a1 -> bool) -> 'a1 list -> 'a1 option

val firstn : nat -> 'a1 list -> 'a1 list

val skipn : nat -> 'a1 list -> 'a1 list

val seq : nat -> nat -> nat list

type positive =
| XI of positive
| XO of positive
| XH

type n =
| N0
| Npos of positive

type z =
| Z0
| Zpos of positive
| Zneg of positive

module Pos :
 sig
  val succ : positive -> positive

  val add : positive -> positive -> positive

  val add_carry : positive -> positive -> positive

  val pred_double : positive -> positive

  val compare_cont : comparison -> positive -> positive -> comparison

  val compare : positive -> positive -> comparison

  val eqb : positive -> positive -> bool
 end

module N :
 sig
  val add : n -> n -> n

  val eqb : n -> n -> bool
 end

module Z :
 sig
  val double : z -> z

  val succ_double : z -> z

  val pred_double : z -> z

  val pos_sub : positive -> positive -> z

  val add : z -> z -> z

  val compare : z -> z -> comparison

  val ltb : z -> z -> bool

  val gtb : z -> z -> bool

  val eqb : z -> z -> bool

  val max : z -> z -> z
 end

type node = nat

type edge = nat

type deps_kind =
| DepsNone
| DepsDepfile
| DepsLog

type edge_info = { ei_ins : node list; ei_nimp : nat; ei_noo : nat;
                   ei_outs : node list; ei_vals : node list; ei_phony : 
                   bool; ei_restat : bool; ei_generator : bool;
                   ei_deps : deps_kind; ei_hash : n }

type graph = { g_nedges : nat; g_edge : (edge -> edge_info);
               g_producer : (node -> edge option); g_byloader : (node -> bool) }

type depfile_state =
| DfMissing
| DfEmpty
| DfUnparsable
| DfParsed of node list * node list

type world = { w_mtime : (node -> z); w_blog : (node -> (n * z) option);
               w_dlog : (node -> (z * node list) option);
               w_depfile : (edge -> depfile_state) }

type exist_status =
| ExUnknown
| ExMissing
| ExExists

type nstate = { ns_dirty : bool; ns_mtime : z; ns_exists : exist_status }

type mark =
| VisitNone
| VisitInStack
| VisitDone

type estate = { es_mark : mark; es_ready : bool; es_deps_loaded : bool;
                es_deps_missing : bool; es_ins : node list; es_nimp : 
                nat }

type sstate = { st_node : (node -> nstate); st_edge : (edge -> estate) }

val init_nstate : nstate

val init_estate : edge_info -> estate

val init_state : graph -> sstate

val upd_node : sstate -> node -> nstate -> sstate

val upd_edge : sstate -> edge -> estate -> sstate

val n_known : nstate -> bool

val n_exists : nstate -> bool

val stat_if_necessary : world -> sstate -> node -> sstate

val update_phony_mtime : sstate -> node -> z -> sstate

val set_dirty : sstate -> node -> bool -> sstate

val set_mark : sstate -> edge -> mark -> sstate

val set_ready : sstate -> edge -> bool -> sstate

val set_deps_missing : sstate -> edge -> bool -> sstate

val set_ins : sstate -> edge -> node list -> nat -> sstate

type 'a sres =
| SOk of 'a
| SCycle of node list
| SLoadErr of edge
| SOutOfFuel

val visit_all : (node -> 'a1 -> 'a1 sres) -> node list -> 'a1 -> 'a1 sres

val edge_outs : graph -> edge -> node list

val is_order_only : nat -> nat -> nat -> bool

val drop_until_edge : graph -> edge -> node list -> node list

val cycle_path : graph -> node list -> node -> edge -> node list

val newer : sstate -> node -> node option -> node option

val eval_inputs :
  graph -> edge -> node list -> nat -> sstate -> node option -> bool ->
  (sstate * node option) * bool

val mri_mtime : sstate -> node option -> z option

val phony_output_dirty :
  graph -> edge -> node -> node option -> sstate -> bool * sstate

val output_dirty_first :
  graph -> world -> edge -> node -> z option -> sstate -> bool

val output_dirty_again :
  graph -> world -> edge -> node -> z option -> sstate -> bool

val outputs_dirty_all :
  graph -> world -> edge -> node list -> node option -> sstate ->
  bool * sstate

val outputs_dirty_depfile :
  graph -> world -> edge -> node option -> sstate -> bool

type load_res =
| LdFail
| LdErr
| LdOk of node list

val mem_node : node -> node list -> bool

val load_deps : graph -> world -> sstate -> edge -> load_res

val load_deps_try : graph -> world -> sstate -> edge -> bool

val splice : node list -> nat -> node list -> node list

val splice_deps : graph -> sstate -> edge -> node list -> sstate

val mark_outputs_dirty : sstate -> node list -> sstate

val stat_outputs : world -> sstate -> node list -> sstate

val enter_edge : sstate -> edge -> sstate

val opt_node_eqb : node option -> node option -> bool

val finish_edge : graph -> sstate -> edge -> bool -> sstate

type sv = sstate * node list

val after_inputs :
  graph -> world -> (node -> sv -> sv sres) -> edge -> bool -> bool -> bool
  -> sstate -> node list -> sv sres

val recompute_node_dirty :
  graph -> world -> nat -> node list -> node -> sv -> sv sres

val scan_fuel : graph -> nat

val recompute_dirty_loop :
  graph -> world -> nat -> node list -> sstate -> node list -> sv sres

val total_vals : graph -> nat -> nat

val queue_fuel : graph -> nat

val recompute_dirty : graph -> world -> sstate -> node -> sv sres

type want =
| WantNothing
| WantToStart
| WantToFinish

type plan = { p_want : (edge -> want option); p_wanted : nat; p_commands : nat }

val init_plan : plan

val set_want : plan -> edge -> want -> plan

val edge_wanted : graph -> plan -> edge -> plan

type missing_err = node * node option

type ast_res = ((bool * missing_err option) * plan) option

val ast_loop : (node -> plan -> ast_res) -> node list -> plan -> ast_res

val add_sub_target :
  graph -> nat -> sstate -> node option -> node -> plan -> ast_res

val plan_fuel : graph -> nat

val plan_add_target : graph -> sstate -> node -> plan -> ast_res

type scan_result =
| ScanCycle of node list
| ScanMissing of node * node option
| ScanLoadErr of edge
| ScanOutOfFuel
| ScanOk of sstate * plan

val add_validation_targets :
  graph -> sstate -> node list -> plan -> scan_result

val builder_add_target :
  graph -> world -> sstate -> plan -> node -> scan_result

val add_targets : graph -> world -> sstate -> plan -> node list -> scan_result

val scan : graph -> world -> node list -> scan_result

type dyn_entry = { de_edge : edge; de_outs : node list; de_ins : node list;
                   de_restat : bool }

type dd_state =
| DdMissing
| DdBad
| DdParsed of dyn_entry list

type dyn_info = { di_dyndep : (edge -> node option);
                  di_outedges : (node -> edge list);
                  di_file : (node -> dd_state) }

val no_dyndep : dyn_info

type dstate = { d_g : graph; d_s : sstate; d_pending : (node -> bool) }

val with_s : dstate -> sstate -> dstate

type dyn_err =
| DeLoad of node
| DeNotMentioned of edge * node
| DeExtra of node * edge
| DeMultiple of node

type 'a dres =
| DOk of 'a
| DCycle of node list
| DLoadErr of edge
| DOutOfFuel
| DDyn of dyn_err

val g_set_edge : graph -> edge -> edge_info -> graph

val g_set_producer : graph -> node -> edge -> graph

val set_in_edges : edge -> node list -> graph -> graph dres

val update_edge : dstate -> dyn_entry -> dstate dres

val find_entry : edge -> dyn_entry list -> dyn_entry option

val opt_is : node option -> node -> bool

val update_edges :
  dyn_info -> node -> dyn_entry list -> edge list -> dstate -> edge list ->
  (dstate * edge list) dres

val load_dyndeps : dyn_info -> node -> dstate -> dstate dres

type dv = dstate * node list

val dvisit_all : (node -> dv -> dv dres) -> node list -> dv -> dv dres

val dyndep_step :
  dyn_info -> (node -> dv -> dv dres) -> edge -> bool -> dv -> dv dres

val after_inputs_dyn :
  world -> (node -> dv -> dv dres) -> edge -> bool -> bool -> bool -> dstate
  -> node list -> dv dres

val recompute_node_dirty_dyn :
  dyn_info -> world -> nat -> node list -> node -> dv -> dv dres

val recompute_dirty_loop_dyn :
  dyn_info -> world -> nat -> node list -> dstate -> node list -> dv dres

val recompute_dirty_dyn : dyn_info -> world -> dstate -> node -> dv dres

type scan_dyn_result =
| SdCycle of node list
| SdMissing of node * node option
| SdLoadErr of edge
| SdOutOfFuel
| SdDyn of dyn_err
| SdOk of dstate * plan

val add_validation_targets_dyn :
  dstate -> node list -> plan -> scan_dyn_result

val builder_add_target_dyn :
  dyn_info -> world -> dstate -> plan -> node -> scan_dyn_result

val add_targets_dyn :
  dyn_info -> world -> dstate -> plan -> node list -> scan_dyn_result

val init_pending : dyn_info -> graph -> node -> bool

val init_dstate : dyn_info -> graph -> dstate

val scan_dyn : dyn_info -> graph -> world -> node list -> scan_dyn_result

val inline_entry : graph -> dyn_entry -> graph

val dd_files : dyn_info -> nat -> node list

val inline_file : dyn_info -> graph -> node -> graph

val inline : dyn_info -> graph -> graph
