
(** val negb : bool -> bool **)

let negb = function
| true -> false
| false -> true

type nat =
| O
| S of nat

type ('a, 'b) sum =
| Inl of 'a
| Inr of 'b

(** val fst : ('a1 * 'a2) -> 'a1 **)

let fst = function
| (x, _) -> x

(** val snd : ('a1 * 'a2) -> 'a2 **)

let snd = function
| (_, y) -> y

(** val length : 'a1 list -> nat **)

let rec length = function
| [] -> O
| _ :: l' -> S (length l')

(** val app : 'a1 list -> 'a1 list -> 'a1 list **)

let rec app l m =
  match l with
  | [] -> m
  | a :: l1 -> a :: (app l1 m)

type comparison =
| Eq
| Lt
| Gt

module Nat =
 struct
  (** val add : nat -> nat -> nat **)

  let rec add n0 m =
    match n0 with
    | O -> m
    | S p -> S (add p m)

  (** val leb : nat -> nat -> bool **)

  let rec leb n0 m =
    match n0 with
    | O -> true
    | S n' -> (match m with
               | O -> false
               | S m' -> leb n' m')

  (** val ltb : nat -> nat -> bool **)

  let ltb n0 m =
    leb (S n0) m

  (** val max : nat -> nat -> nat **)

  let rec max n0 m =
    match n0 with
    | O -> m
    | S n' -> (match m with
               | O -> n0
               | S m' -> S (max n' m'))

  (** val even : nat -> bool **)

  let rec even = function
  | O -> true
  | S n1 -> (match n1 with
             | O -> false
             | S n' -> even n')

  (** val odd : nat -> bool **)

  let odd n0 =
    negb (even n0)

  (** val div2 : nat -> nat **)

  let rec div2 = function
  | O -> O
  | S n1 -> (match n1 with
             | O -> O
             | S n' -> S (div2 n'))
 end

(** val hd : 'a1 -> 'a1 list -> 'a1 **)

let hd default = function
| [] -> default
| x :: _ -> x

(** val tl : 'a1 list -> 'a1 list **)

let tl = function
| [] -> []
| _ :: m -> m

(** val nth : nat -> 'a1 list -> 'a1 -> 'a1 **)

let rec nth n0 l default =
  match n0 with
  | O -> (match l with
          | [] -> default
          | x :: _ -> x)
  | S m -> (match l with
            | [] -> default
            | _ :: t -> nth m t default)

(** val last : 'a1 list -> 'a1 -> 'a1 **)

let rec last l d =
  match l with
  | [] -> d
  | a :: l0 -> (match l0 with
                | [] -> a
                | _ :: _ -> last l0 d)

(** val removelast : 'a1 list -> 'a1 list **)

let rec removelast = function
| [] -> []
| a :: l0 -> (match l0 with
              | [] -> []
              | _ :: _ -> a :: (removelast l0))

(** val rev : 'a1 list -> 'a1 list **)

let rec rev = function
| [] -> []
| x :: l' -> app (rev l') (x :: [])

(** val concat : 'a1 list list -> 'a1 list **)

let rec concat = function
| [] -> []
| x :: l0 -> app x (concat l0)

(** val map : ('a1 -> 'a2) -> 'a1 list -> 'a2 list **)

let rec map f = function
| [] -> []
| a :: t -> (f a) :: (map f t)

(** val fold_left : ('a1 -> 'a2 -> 'a1) -> 'a2 list -> 'a1 -> 'a1 **)

let rec fold_left f l a0 =
  match l with
  | [] -> a0
  | b :: t -> fold_left f t (f a0 b)

(** val forallb : ('a1 -> bool) -> 'a1 list -> bool **)

let rec forallb f = function
| [] -> true
| a :: l0 -> (&&) (f a) (forallb f l0)

(** val firstn : nat -> 'a1 list -> 'a1 list **)

let rec firstn n0 l =
  match n0 with
  | O -> []
  | S n1 -> (match l with
             | [] -> []
             | a :: l0 -> a :: (firstn n1 l0))

(** val skipn : nat -> 'a1 list -> 'a1 list **)

let rec skipn n0 l =
  match n0 with
  | O -> l
  | S n1 -> (match l with
             | [] -> []
             | _ :: l0 -> skipn n1 l0)

(** val repeat : 'a1 -> nat -> 'a1 list **)

let rec repeat x = function
| O -> []
| S k -> x :: (repeat x k)

type positive =
| XI of positive
| XO of positive
| XH

type n =
| N0
| Npos of positive

type z =
| Z0
| Zpos of positive
| Zneg of positive

module Pos =
 struct
  type mask =
  | IsNul
  | IsPos of positive
  | IsNeg
 end

module Coq_Pos =
 struct
  (** val succ : positive -> positive **)

  let rec succ = function
  | XI p -> XO (succ p)
  | XO p -> XI p
  | XH -> XO XH

  (** val add : positive -> positive -> positive **)

  let rec add x y =
    match x with
    | XI p ->
      (match y with
       | XI q -> XO (add_carry p q)
       | XO q -> XI (add p q)
       | XH -> XO (succ p))
    | XO p ->
      (match y with
       | XI q -> XI (add p q)
       | XO q -> XO (add p q)
       | XH -> XI p)
    | XH -> (match y with
             | XI q -> XO (succ q)
             | XO q -> XI q
             | XH -> XO XH)

  (** val add_carry : positive -> positive -> positive **)

  and add_carry x y =
    match x with
    | XI p ->
      (match y with
       | XI q -> XI (add_carry p q)
       | XO q -> XO (add_carry p q)
       | XH -> XI (succ p))
    | XO p ->
      (match y with
       | XI q -> XO (add_carry p q)
       | XO q -> XI (add p q)
       | XH -> XO (succ p))
    | XH ->
      (match y with
       | XI q -> XI (succ q)
       | XO q -> XO (succ q)
       | XH -> XI XH)

  (** val pred_double : positive -> positive **)

  let rec pred_double = function
  | XI p -> XI (XO p)
  | XO p -> XI (pred_double p)
  | XH -> XH

  type mask = Pos.mask =
  | IsNul
  | IsPos of positive
  | IsNeg

  (** val succ_double_mask : mask -> mask **)

  let succ_double_mask = function
  | IsNul -> IsPos XH
  | IsPos p -> IsPos (XI p)
  | IsNeg -> IsNeg

  (** val double_mask : mask -> mask **)

  let double_mask = function
  | IsPos p -> IsPos (XO p)
  | x0 -> x0

  (** val double_pred_mask : positive -> mask **)

  let double_pred_mask = function
  | XI p -> IsPos (XO (XO p))
  | XO p -> IsPos (XO (pred_double p))
  | XH -> IsNul

  (** val sub_mask : positive -> positive -> mask **)

  let rec sub_mask x y =
    match x with
    | XI p ->
      (match y with
       | XI q -> double_mask (sub_mask p q)
       | XO q -> succ_double_mask (sub_mask p q)
       | XH -> IsPos (XO p))
    | XO p ->
      (match y with
       | XI q -> succ_double_mask (sub_mask_carry p q)
       | XO q -> double_mask (sub_mask p q)
       | XH -> IsPos (pred_double p))
    | XH -> (match y with
             | XH -> IsNul
             | _ -> IsNeg)

  (** val sub_mask_carry : positive -> positive -> mask **)

  and sub_mask_carry x y =
    match x with
    | XI p ->
      (match y with
       | XI q -> succ_double_mask (sub_mask_carry p q)
       | XO q -> double_mask (sub_mask p q)
       | XH -> IsPos (pred_double p))
    | XO p ->
      (match y with
       | XI q -> double_mask (sub_mask_carry p q)
       | XO q -> succ_double_mask (sub_mask_carry p q)
       | XH -> double_pred_mask p)
    | XH -> IsNeg

  (** val mul : positive -> positive -> positive **)

  let rec mul x y =
    match x with
    | XI p -> add y (XO (mul p y))
    | XO p -> XO (mul p y)
    | XH -> y

  (** val iter : ('a1 -> 'a1) -> 'a1 -> positive -> 'a1 **)

  let rec iter f x = function
  | XI n' -> f (iter f (iter f x n') n')
  | XO n' -> iter f (iter f x n') n'
  | XH -> f x

  (** val compare_cont : comparison -> positive -> positive -> comparison **)

  let rec compare_cont r x y =
    match x with
    | XI p ->
      (match y with
       | XI q -> compare_cont r p q
       | XO q -> compare_cont Gt p q
       | XH -> Gt)
    | XO p ->
      (match y with
       | XI q -> compare_cont Lt p q
       | XO q -> compare_cont r p q
       | XH -> Gt)
    | XH -> (match y with
             | XH -> r
             | _ -> Lt)

  (** val compare : positive -> positive -> comparison **)

  let compare =
    compare_cont Eq

  (** val eqb : positive -> positive -> bool **)

  let rec eqb p q =
    match p with
    | XI p0 -> (match q with
                | XI q0 -> eqb p0 q0
                | _ -> false)
    | XO p0 -> (match q with
                | XO q0 -> eqb p0 q0
                | _ -> false)
    | XH -> (match q with
             | XH -> true
             | _ -> false)

  (** val coq_Nsucc_double : n -> n **)

  let coq_Nsucc_double = function
  | N0 -> Npos XH
  | Npos p -> Npos (XI p)

  (** val coq_Ndouble : n -> n **)

  let coq_Ndouble = function
  | N0 -> N0
  | Npos p -> Npos (XO p)

  (** val coq_land : positive -> positive -> n **)

  let rec coq_land p q =
    match p with
    | XI p0 ->
      (match q with
       | XI q0 -> coq_Nsucc_double (coq_land p0 q0)
       | XO q0 -> coq_Ndouble (coq_land p0 q0)
       | XH -> Npos XH)
    | XO p0 ->
      (match q with
       | XI q0 -> coq_Ndouble (coq_land p0 q0)
       | XO q0 -> coq_Ndouble (coq_land p0 q0)
       | XH -> N0)
    | XH -> (match q with
             | XO _ -> N0
             | _ -> Npos XH)
 end

module N =
 struct
  (** val add : n -> n -> n **)

  let add n0 m =
    match n0 with
    | N0 -> m
    | Npos p -> (match m with
                 | N0 -> n0
                 | Npos q -> Npos (Coq_Pos.add p q))

  (** val sub : n -> n -> n **)

  let sub n0 m =
    match n0 with
    | N0 -> N0
    | Npos n' ->
      (match m with
       | N0 -> n0
       | Npos m' ->
         (match Coq_Pos.sub_mask n' m' with
          | Coq_Pos.IsPos p -> Npos p
          | _ -> N0))

  (** val mul : n -> n -> n **)

  let mul n0 m =
    match n0 with
    | N0 -> N0
    | Npos p -> (match m with
                 | N0 -> N0
                 | Npos q -> Npos (Coq_Pos.mul p q))

  (** val compare : n -> n -> comparison **)

  let compare n0 m =
    match n0 with
    | N0 -> (match m with
             | N0 -> Eq
             | Npos _ -> Lt)
    | Npos n' -> (match m with
                  | N0 -> Gt
                  | Npos m' -> Coq_Pos.compare n' m')

  (** val eqb : n -> n -> bool **)

  let eqb n0 m =
    match n0 with
    | N0 -> (match m with
             | N0 -> true
             | Npos _ -> false)
    | Npos p -> (match m with
                 | N0 -> false
                 | Npos q -> Coq_Pos.eqb p q)

  (** val leb : n -> n -> bool **)

  let leb x y =
    match compare x y with
    | Gt -> false
    | _ -> true

  (** val ltb : n -> n -> bool **)

  let ltb x y =
    match compare x y with
    | Lt -> true
    | _ -> false

  (** val div2 : n -> n **)

  let div2 = function
  | N0 -> N0
  | Npos p0 -> (match p0 with
                | XI p -> Npos p
                | XO p -> Npos p
                | XH -> N0)

  (** val coq_land : n -> n -> n **)

  let coq_land n0 m =
    match n0 with
    | N0 -> N0
    | Npos p -> (match m with
                 | N0 -> N0
                 | Npos q -> Coq_Pos.coq_land p q)

  (** val shiftr : n -> n -> n **)

  let shiftr a = function
  | N0 -> a
  | Npos p -> Coq_Pos.iter div2 a p
 end

module Z =
 struct
  (** val double : z -> z **)

  let double = function
  | Z0 -> Z0
  | Zpos p -> Zpos (XO p)
  | Zneg p -> Zneg (XO p)

  (** val succ_double : z -> z **)

  let succ_double = function
  | Z0 -> Zpos XH
  | Zpos p -> Zpos (XI p)
  | Zneg p -> Zneg (Coq_Pos.pred_double p)

  (** val pred_double : z -> z **)

  let pred_double = function
  | Z0 -> Zneg XH
  | Zpos p -> Zpos (Coq_Pos.pred_double p)
  | Zneg p -> Zneg (XI p)

  (** val pos_sub : positive -> positive -> z **)

  let rec pos_sub x y =
    match x with
    | XI p ->
      (match y with
       | XI q -> double (pos_sub p q)
       | XO q -> succ_double (pos_sub p q)
       | XH -> Zpos (XO p))
    | XO p ->
      (match y with
       | XI q -> pred_double (pos_sub p q)
       | XO q -> double (pos_sub p q)
       | XH -> Zpos (Coq_Pos.pred_double p))
    | XH ->
      (match y with
       | XI q -> Zneg (XO q)
       | XO q -> Zneg (Coq_Pos.pred_double q)
       | XH -> Z0)

  (** val add : z -> z -> z **)

  let add x y =
    match x with
    | Z0 -> y
    | Zpos x' ->
      (match y with
       | Z0 -> x
       | Zpos y' -> Zpos (Coq_Pos.add x' y')
       | Zneg y' -> pos_sub x' y')
    | Zneg x' ->
      (match y with
       | Z0 -> x
       | Zpos y' -> pos_sub y' x'
       | Zneg y' -> Zneg (Coq_Pos.add x' y'))
 end

type byte = n

type bytes = byte list

(** val bytes_eqb : bytes -> bytes -> bool **)

let rec bytes_eqb a b =
  match a with
  | [] -> (match b with
           | [] -> true
           | _ :: _ -> false)
  | x :: a' ->
    (match b with
     | [] -> false
     | y :: b' -> (&&) (N.eqb x y) (bytes_eqb a' b'))

(** val mem_bytes : bytes -> bytes list -> bool **)

let rec mem_bytes x = function
| [] -> false
| y :: l' -> (||) (bytes_eqb x y) (mem_bytes x l')

(** val b_slash : byte **)

let b_slash =
  Npos (XI (XI (XI (XI (XO XH)))))

(** val b_dot : byte **)

let b_dot =
  Npos (XO (XI (XI (XI (XO XH)))))

(** val split_slash_aux : bytes -> bytes -> bytes list **)

let rec split_slash_aux cur = function
| [] -> (rev cur) :: []
| c :: s' ->
  if N.eqb c b_slash
  then (rev cur) :: (split_slash_aux [] s')
  else split_slash_aux (c :: cur) s'

(** val split_slash : bytes -> bytes list **)

let split_slash s =
  split_slash_aux [] s

(** val join_slash : bytes list -> bytes **)

let rec join_slash = function
| [] -> []
| c :: l' ->
  (match l' with
   | [] -> c
   | _ :: _ -> app c (b_slash :: (join_slash l')))

(** val is_dot : bytes -> bool **)

let is_dot c =
  bytes_eqb c (b_dot :: [])

(** val is_dotdot : bytes -> bool **)

let is_dotdot c =
  bytes_eqb c (b_dot :: (b_dot :: []))

(** val is_empty : bytes -> bool **)

let is_empty = function
| [] -> true
| _ :: _ -> false

(** val backup_loop : nat -> bytes -> bytes **)

let rec backup_loop dst0 out = match out with
| [] -> []
| c :: out' ->
  if Nat.ltb dst0 (length out)
  then if N.eqb c b_slash then out else backup_loop dst0 out'
  else out

(** val backup : nat -> bytes -> bytes **)

let backup dst0 out =
  backup_loop dst0 (tl out)

(** val strip_dotdot_run : nat -> bytes -> nat * bytes **)

let rec strip_dotdot_run fuel s =
  match fuel with
  | O -> (O, s)
  | S f ->
    (match s with
     | [] -> (O, s)
     | a :: l ->
       (match l with
        | [] -> (O, s)
        | b :: l0 ->
          (match l0 with
           | [] -> (O, s)
           | c :: s' ->
             if (&&) ((&&) (N.eqb a b_dot) (N.eqb b b_dot)) (N.eqb c b_slash)
             then let (k, r) = strip_dotdot_run f s' in ((S k), r)
             else (O, s))))

(** val dotdot_prefix_rev : nat -> bytes **)

let rec dotdot_prefix_rev = function
| O -> []
| S k' -> b_slash :: (b_dot :: (b_dot :: (dotdot_prefix_rev k')))

(** val mid_step : nat -> (nat * bytes) -> bytes -> nat * bytes **)

let mid_step dst0 st c =
  let (count, out) = st in
  if is_empty c
  then st
  else if is_dot c
       then st
       else if is_dotdot c
            then (match count with
                  | O -> (O, (b_slash :: (b_dot :: (b_dot :: out))))
                  | S n0 -> (n0, (backup dst0 out)))
            else ((S count), (b_slash :: (app (rev c) out)))

(** val last_step : nat -> (nat * bytes) -> bytes -> bytes **)

let last_step dst0 st c =
  let (count, out) = st in
  if is_empty c
  then out
  else if is_dot c
       then out
       else if is_dotdot c
            then (match count with
                  | O -> b_dot :: (b_dot :: out)
                  | S _ -> backup dst0 out)
            else app (rev c) out

(** val canon : bytes -> bytes **)

let canon s = match s with
| [] -> []
| c0 :: s1 ->
  if N.eqb c0 b_slash
  then let p = ((S O), (b_slash :: [])) in
       let (dst_start, out0) = p in
       let dst0 = length out0 in
       let comps = split_slash s1 in
       let st = fold_left (mid_step dst0) (removelast comps) (O, out0) in
       let out1 = last_step dst0 st (last comps []) in
       let out2 =
         match out1 with
         | [] -> out1
         | c :: o' ->
           if (&&) (Nat.ltb dst_start (length out1)) (N.eqb c b_slash)
           then o'
           else out1
       in
       (match out2 with
        | [] -> b_dot :: []
        | _ :: _ -> rev out2)
  else let (k, r) = strip_dotdot_run (length s) s in
       let p = (O, (dotdot_prefix_rev k)) in
       let (dst_start, out0) = p in
       let dst0 = length out0 in
       let comps = split_slash r in
       let st = fold_left (mid_step dst0) (removelast comps) (O, out0) in
       let out1 = last_step dst0 st (last comps []) in
       let out2 =
         match out1 with
         | [] -> out1
         | c :: o' ->
           if (&&) (Nat.ltb dst_start (length out1)) (N.eqb c b_slash)
           then o'
           else out1
       in
       (match out2 with
        | [] -> b_dot :: []
        | _ :: _ -> rev out2)

(** val parse_path : bytes -> bool * bytes list **)

let parse_path s = match s with
| [] -> (false, (split_slash s))
| c :: s' ->
  if N.eqb c b_slash
  then (true, (split_slash s'))
  else (false, (split_slash s))

(** val nf_step : bytes list -> bytes -> bytes list **)

let nf_step st c =
  if is_empty c
  then st
  else if is_dot c
       then st
       else if is_dotdot c
            then (match st with
                  | [] -> c :: []
                  | t :: st' -> if is_dotdot t then c :: st else st')
            else c :: st

(** val nf : bytes list -> bytes list **)

let nf comps =
  rev (fold_left nf_step comps [])

(** val render : bool -> bytes list -> bytes **)

let render abs l =
  if abs
  then b_slash :: (join_slash l)
  else (match l with
        | [] -> b_dot :: []
        | _ :: _ -> join_slash l)

(** val canon_spec : bytes -> bytes **)

let canon_spec s = match s with
| [] -> []
| _ :: _ -> let (abs, comps) = parse_path s in render abs (nf comps)

(** val in_range : byte -> byte -> byte -> bool **)

let in_range lo hi b =
  (&&) (N.leb lo b) (N.leb b hi)

(** val shell_safe : byte -> bool **)

let shell_safe b =
  if in_range (Npos (XI (XO (XO (XO (XO (XO XH))))))) (Npos (XO (XI (XO (XI
       (XI (XO XH))))))) b
  then true
  else if in_range (Npos (XI (XO (XO (XO (XO (XI XH))))))) (Npos (XO (XI (XO
            (XI (XI (XI XH))))))) b
       then true
       else if in_range (Npos (XO (XO (XO (XO (XI XH)))))) (Npos (XI (XO (XO
                 (XI (XI XH)))))) b
            then true
            else if N.eqb b (Npos (XI (XI (XI (XI (XI (XO XH)))))))
                 then true
                 else if N.eqb b (Npos (XI (XI (XO (XI (XO XH))))))
                      then true
                      else if N.eqb b (Npos (XI (XO (XI (XI (XO XH))))))
                           then true
                           else if N.eqb b (Npos (XO (XI (XI (XI (XO XH))))))
                                then true
                                else N.eqb b (Npos (XI (XI (XI (XI (XO
                                       XH))))))

(** val needs_escaping : bytes -> bool **)

let rec needs_escaping = function
| [] -> false
| b :: r -> if shell_safe b then needs_escaping r else true

(** val esc_body : bytes -> bytes **)

let rec esc_body = function
| [] -> []
| b :: r ->
  if N.eqb b (Npos (XI (XI (XI (XO (XO XH))))))
  then (Npos (XI (XI (XI (XO (XO XH)))))) :: ((Npos (XO (XO (XI (XI (XI (XO
         XH))))))) :: ((Npos (XI (XI (XI (XO (XO XH)))))) :: ((Npos (XI (XI
         (XI (XO (XO XH)))))) :: (esc_body r))))
  else b :: (esc_body r)

(** val shell_escape : bytes -> bytes **)

let shell_escape s =
  if needs_escaping s
  then (Npos (XI (XI (XI (XO (XO
         XH)))))) :: (app (esc_body s) ((Npos (XI (XI (XI (XO (XO
                       XH)))))) :: []))
  else s

(** val make_path_list_from : byte -> bytes -> bytes list -> bytes **)

let rec make_path_list_from sep result = function
| [] -> result
| p :: rest ->
  let result1 =
    match result with
    | [] -> result
    | _ :: _ -> app result (sep :: [])
  in
  make_path_list_from sep (app result1 (shell_escape p)) rest

(** val make_path_list : byte -> bytes list -> bytes **)

let make_path_list sep names =
  make_path_list_from sep [] names

type sh_mode =
| ShUnq
| ShInQ
| ShBsl

(** val sh_blank : byte -> bool **)

let sh_blank b =
  (||)
    ((||) (N.eqb b (Npos (XO (XO (XO (XO (XO XH)))))))
      (N.eqb b (Npos (XI (XO (XO XH)))))) (N.eqb b (Npos (XO (XI (XO XH)))))

(** val sh_cur_bytes : bytes option -> bytes **)

let sh_cur_bytes = function
| Some w -> w
| None -> []

(** val sh_push : bytes option -> byte -> bytes option **)

let sh_push cur b =
  Some (b :: (sh_cur_bytes cur))

(** val sh_start : bytes option -> bytes option **)

let sh_start cur =
  Some (sh_cur_bytes cur)

(** val sh_go : sh_mode -> bytes option -> bytes -> bytes list option **)

let rec sh_go m cur = function
| [] ->
  (match m with
   | ShUnq -> Some (match cur with
                    | Some w -> (rev w) :: []
                    | None -> [])
   | _ -> None)
| b :: r ->
  if N.eqb b N0
  then None
  else (match m with
        | ShUnq ->
          if N.eqb b (Npos (XI (XI (XI (XO (XO XH))))))
          then sh_go ShInQ (sh_start cur) r
          else if N.eqb b (Npos (XO (XO (XI (XI (XI (XO XH)))))))
               then sh_go ShBsl (sh_start cur) r
               else if sh_blank b
                    then (match cur with
                          | Some w ->
                            (match sh_go ShUnq None r with
                             | Some ws -> Some ((rev w) :: ws)
                             | None -> None)
                          | None -> sh_go ShUnq None r)
                    else if shell_safe b
                         then sh_go ShUnq (sh_push cur b) r
                         else None
        | ShInQ ->
          if N.eqb b (Npos (XI (XI (XI (XO (XO XH))))))
          then sh_go ShUnq cur r
          else sh_go ShInQ (sh_push cur b) r
        | ShBsl ->
          if N.eqb b (Npos (XO (XI (XO XH))))
          then None
          else sh_go ShUnq (sh_push cur b) r)

(** val sh_words : bytes -> bytes list option **)

let sh_words s =
  sh_go ShUnq None s

(** val jbetween : byte -> byte -> byte -> bool **)

let jbetween lo hi b =
  (&&) (N.leb lo b) (N.leb b hi)

(** val hex_digit : n -> byte **)

let hex_digit n0 =
  if N.ltb n0 (Npos (XO (XI (XO XH))))
  then N.add (Npos (XO (XO (XO (XO (XI XH)))))) n0
  else N.add (Npos (XI (XI (XI (XO (XI (XO XH))))))) n0

(** val json_encode_byte : byte -> bytes **)

let json_encode_byte c =
  if N.eqb c (Npos (XO (XO (XO XH))))
  then (Npos (XO (XO (XI (XI (XI (XO XH))))))) :: ((Npos (XO (XI (XO (XO (XO
         (XI XH))))))) :: [])
  else if N.eqb c (Npos (XO (XO (XI XH))))
       then (Npos (XO (XO (XI (XI (XI (XO XH))))))) :: ((Npos (XO (XI (XI (XO
              (XO (XI XH))))))) :: [])
       else if N.eqb c (Npos (XO (XI (XO XH))))
            then (Npos (XO (XO (XI (XI (XI (XO XH))))))) :: ((Npos (XO (XI
                   (XI (XI (XO (XI XH))))))) :: [])
            else if N.eqb c (Npos (XI (XO (XI XH))))
                 then (Npos (XO (XO (XI (XI (XI (XO XH))))))) :: ((Npos (XO
                        (XI (XO (XO (XI (XI XH))))))) :: [])
                 else if N.eqb c (Npos (XI (XO (XO XH))))
                      then (Npos (XO (XO (XI (XI (XI (XO XH))))))) :: ((Npos
                             (XO (XO (XI (XO (XI (XI XH))))))) :: [])
                      else if N.ltb c (Npos (XO (XO (XO (XO (XO XH))))))
                           then (Npos (XO (XO (XI (XI (XI (XO
                                  XH))))))) :: ((Npos (XI (XO (XI (XO (XI (XI
                                  XH))))))) :: ((Npos (XO (XO (XO (XO (XI
                                  XH)))))) :: ((Npos (XO (XO (XO (XO (XI
                                  XH)))))) :: ((hex_digit
                                                 (N.shiftr c (Npos (XO (XO
                                                   XH))))) :: ((hex_digit
                                                                 (N.coq_land
                                                                   c (Npos
                                                                   (XI (XI
                                                                   (XI XH)))))) :: [])))))
                           else if N.eqb c (Npos (XO (XO (XI (XI (XI (XO
                                     XH)))))))
                                then (Npos (XO (XO (XI (XI (XI (XO
                                       XH))))))) :: ((Npos (XO (XO (XI (XI
                                       (XI (XO XH))))))) :: [])
                                else if N.eqb c (Npos (XO (XI (XO (XO (XO
                                          XH))))))
                                     then (Npos (XO (XO (XI (XI (XI (XO
                                            XH))))))) :: ((Npos (XO (XI (XO
                                            (XO (XO XH)))))) :: [])
                                     else c :: []

(** val json_encode : bytes -> bytes **)

let rec json_encode = function
| [] -> []
| c :: r -> app (json_encode_byte c) (json_encode r)

(** val hex_val : byte -> n option **)

let hex_val b =
  if jbetween (Npos (XO (XO (XO (XO (XI XH)))))) (Npos (XI (XO (XO (XI (XI
       XH)))))) b
  then Some (N.sub b (Npos (XO (XO (XO (XO (XI XH)))))))
  else if jbetween (Npos (XI (XO (XO (XO (XO (XI XH))))))) (Npos (XO (XI (XI
            (XO (XO (XI XH))))))) b
       then Some (N.sub b (Npos (XI (XI (XI (XO (XI (XO XH))))))))
       else if jbetween (Npos (XI (XO (XO (XO (XO (XO XH))))))) (Npos (XO (XI
                 (XI (XO (XO (XO XH))))))) b
            then Some (N.sub b (Npos (XI (XI (XI (XO (XI XH)))))))
            else None

(** val hex4 : byte -> byte -> byte -> byte -> n option **)

let hex4 h1 h2 h3 h4 =
  match hex_val h1 with
  | Some a ->
    (match hex_val h2 with
     | Some b ->
       (match hex_val h3 with
        | Some c ->
          (match hex_val h4 with
           | Some d ->
             Some
               (N.add
                 (N.mul
                   (N.add
                     (N.mul (N.add (N.mul a (Npos (XO (XO (XO (XO XH)))))) b)
                       (Npos (XO (XO (XO (XO XH)))))) c) (Npos (XO (XO (XO
                   (XO XH)))))) d)
           | None -> None)
        | None -> None)
     | None -> None)
  | None -> None

(** val json_simple_escape : byte -> byte option **)

let json_simple_escape e =
  if N.eqb e (Npos (XO (XI (XO (XO (XO XH))))))
  then Some (Npos (XO (XI (XO (XO (XO XH))))))
  else if N.eqb e (Npos (XO (XO (XI (XI (XI (XO XH)))))))
       then Some (Npos (XO (XO (XI (XI (XI (XO XH)))))))
       else if N.eqb e (Npos (XI (XI (XI (XI (XO XH))))))
            then Some (Npos (XI (XI (XI (XI (XO XH))))))
            else if N.eqb e (Npos (XO (XI (XO (XO (XO (XI XH)))))))
                 then Some (Npos (XO (XO (XO XH))))
                 else if N.eqb e (Npos (XO (XI (XI (XO (XO (XI XH)))))))
                      then Some (Npos (XO (XO (XI XH))))
                      else if N.eqb e (Npos (XO (XI (XI (XI (XO (XI XH)))))))
                           then Some (Npos (XO (XI (XO XH))))
                           else if N.eqb e (Npos (XO (XI (XO (XO (XI (XI
                                     XH)))))))
                                then Some (Npos (XI (XO (XI XH))))
                                else if N.eqb e (Npos (XO (XO (XI (XO (XI (XI
                                          XH)))))))
                                     then Some (Npos (XI (XO (XO XH))))
                                     else None

(** val cons_opt : byte -> bytes option -> bytes option **)

let cons_opt b = function
| Some l -> Some (b :: l)
| None -> None

(** val json_decode : bytes -> bytes option **)

let rec json_decode = function
| [] -> Some []
| b :: r ->
  if N.eqb b (Npos (XO (XO (XI (XI (XI (XO XH)))))))
  then (match r with
        | [] -> None
        | e :: r1 ->
          if N.eqb e (Npos (XI (XO (XI (XO (XI (XI XH)))))))
          then (match r1 with
                | [] -> None
                | h1 :: l ->
                  (match l with
                   | [] -> None
                   | h2 :: l0 ->
                     (match l0 with
                      | [] -> None
                      | h3 :: l1 ->
                        (match l1 with
                         | [] -> None
                         | h4 :: r2 ->
                           (match hex4 h1 h2 h3 h4 with
                            | Some v ->
                              if N.ltb v (Npos (XO (XO (XO (XO (XO (XO (XO
                                   (XO XH)))))))))
                              then cons_opt v (json_decode r2)
                              else None
                            | None -> None)))))
          else (match json_simple_escape e with
                | Some c -> cons_opt c (json_decode r1)
                | None -> None))
  else if N.eqb b (Npos (XO (XI (XO (XO (XO XH))))))
       then None
       else if N.ltb b (Npos (XO (XO (XO (XO (XO XH))))))
            then None
            else cons_opt b (json_decode r)

type u8_state =
| U0
| U1
| U2
| U2_E0
| U2_ED
| U3
| U3_F0
| U3_F4

(** val u8_step : u8_state -> byte -> u8_state option **)

let u8_step st b =
  match st with
  | U0 ->
    if N.ltb b (Npos (XO (XO (XO (XO (XO (XO (XO XH))))))))
    then Some U0
    else if jbetween (Npos (XO (XI (XO (XO (XO (XO (XI XH)))))))) (Npos (XI
              (XI (XI (XI (XI (XO (XI XH)))))))) b
         then Some U1
         else if N.eqb b (Npos (XO (XO (XO (XO (XO (XI (XI XH))))))))
              then Some U2_E0
              else if N.eqb b (Npos (XI (XO (XI (XI (XO (XI (XI XH))))))))
                   then Some U2_ED
                   else if jbetween (Npos (XI (XO (XO (XO (XO (XI (XI
                             XH)))))))) (Npos (XI (XI (XI (XI (XO (XI (XI
                             XH)))))))) b
                        then Some U2
                        else if N.eqb b (Npos (XO (XO (XO (XO (XI (XI (XI
                                  XH))))))))
                             then Some U3_F0
                             else if jbetween (Npos (XI (XO (XO (XO (XI (XI
                                       (XI XH)))))))) (Npos (XI (XI (XO (XO
                                       (XI (XI (XI XH)))))))) b
                                  then Some U3
                                  else if N.eqb b (Npos (XO (XO (XI (XO (XI
                                            (XI (XI XH))))))))
                                       then Some U3_F4
                                       else None
  | U1 ->
    if jbetween (Npos (XO (XO (XO (XO (XO (XO (XO XH)))))))) (Npos (XI (XI
         (XI (XI (XI (XI (XO XH)))))))) b
    then Some U0
    else None
  | U2 ->
    if jbetween (Npos (XO (XO (XO (XO (XO (XO (XO XH)))))))) (Npos (XI (XI
         (XI (XI (XI (XI (XO XH)))))))) b
    then Some U1
    else None
  | U2_E0 ->
    if jbetween (Npos (XO (XO (XO (XO (XO (XI (XO XH)))))))) (Npos (XI (XI
         (XI (XI (XI (XI (XO XH)))))))) b
    then Some U1
    else None
  | U2_ED ->
    if jbetween (Npos (XO (XO (XO (XO (XO (XO (XO XH)))))))) (Npos (XI (XI
         (XI (XI (XI (XO (XO XH)))))))) b
    then Some U1
    else None
  | U3 ->
    if jbetween (Npos (XO (XO (XO (XO (XO (XO (XO XH)))))))) (Npos (XI (XI
         (XI (XI (XI (XI (XO XH)))))))) b
    then Some U2
    else None
  | U3_F0 ->
    if jbetween (Npos (XO (XO (XO (XO (XI (XO (XO XH)))))))) (Npos (XI (XI
         (XI (XI (XI (XI (XO XH)))))))) b
    then Some U2
    else None
  | U3_F4 ->
    if jbetween (Npos (XO (XO (XO (XO (XO (XO (XO XH)))))))) (Npos (XI (XI
         (XI (XI (XO (XO (XO XH)))))))) b
    then Some U2
    else None

(** val utf8_go : u8_state -> bytes -> bool **)

let rec utf8_go st = function
| [] -> (match st with
         | U0 -> true
         | _ -> false)
| b :: r ->
  (match u8_step st b with
   | Some st' -> utf8_go st' r
   | None -> false)

(** val utf8_valid : bytes -> bool **)

let utf8_valid s =
  utf8_go U0 s

type depfile_err =
| ErrNoColon
| ErrInputsHaveInputs

type dresult =
| DOk of bytes list * bytes list
| DErr of depfile_err
| DOutOfFuel

(** val in_range0 : byte -> byte -> byte -> bool **)

let in_range0 lo hi c =
  (&&) (N.leb lo c) (N.leb c hi)

(** val mem_byte : byte -> bytes -> bool **)

let rec mem_byte c = function
| [] -> false
| d :: l' -> (||) (N.eqb c d) (mem_byte c l')

(** val plain_punct : bytes **)

let plain_punct =
  (Npos (XI (XI (XO (XI (XO XH)))))) :: ((Npos (XI (XI (XI (XI (XI
    XH)))))) :: ((Npos (XO (XI (XO (XO (XO XH)))))) :: ((Npos (XI (XI (XI (XO
    (XO XH)))))) :: ((Npos (XO (XI (XI (XO (XO XH)))))) :: ((Npos (XO (XO (XI
    (XI (XO XH)))))) :: ((Npos (XI (XI (XI (XI (XO XH)))))) :: ((Npos (XI (XI
    (XI (XI (XI (XO XH))))))) :: ((Npos (XO (XI (XO (XI (XI
    XH)))))) :: ((Npos (XO (XI (XI (XI (XO XH)))))) :: ((Npos (XO (XI (XI (XI
    (XI (XI XH))))))) :: ((Npos (XO (XO (XO (XI (XO XH)))))) :: ((Npos (XI
    (XO (XO (XI (XO XH)))))) :: ((Npos (XI (XO (XI (XI (XI (XI
    XH))))))) :: ((Npos (XI (XI (XO (XI (XI (XI XH))))))) :: ((Npos (XI (XO
    (XI (XO (XO XH)))))) :: ((Npos (XI (XO (XI (XI (XI XH)))))) :: ((Npos (XO
    (XO (XO (XO (XO (XO XH))))))) :: ((Npos (XI (XI (XO (XI (XI (XO
    XH))))))) :: ((Npos (XI (XO (XI (XI (XI (XO XH))))))) :: ((Npos (XI (XO
    (XO (XO (XO XH)))))) :: ((Npos (XI (XO (XI (XI (XO
    XH)))))) :: [])))))))))))))))))))))

(** val is_plain : byte -> bool **)

let is_plain c =
  (||)
    ((||)
      ((||)
        ((||)
          (in_range0 (Npos (XI (XO (XO (XO (XO (XI XH))))))) (Npos (XO (XI
            (XO (XI (XI (XI XH))))))) c)
          (in_range0 (Npos (XI (XO (XO (XO (XO (XO XH))))))) (Npos (XO (XI
            (XO (XI (XI (XO XH))))))) c))
        (in_range0 (Npos (XO (XO (XO (XO (XI XH)))))) (Npos (XI (XO (XO (XI
          (XI XH)))))) c)) (mem_byte c plain_punct))
    (in_range0 (Npos (XO (XO (XO (XO (XO (XO (XO XH)))))))) (Npos (XI (XI (XI
      (XI (XI (XI (XI XH)))))))) c)

(** val is_colon_blank : byte -> bool **)

let is_colon_blank e =
  (||)
    ((||)
      ((||) ((||) (N.eqb e N0) (N.eqb e (Npos (XO (XO (XO (XO (XO XH))))))))
        (N.eqb e (Npos (XI (XO (XI XH))))))
      (N.eqb e (Npos (XO (XI (XO XH)))))) (N.eqb e (Npos (XI (XO (XO XH)))))

(** val at0 : bytes -> nat -> byte **)

let at0 l k =
  nth k l N0

(** val count_bs : bytes -> nat **)

let rec count_bs = function
| [] -> O
| c :: l' ->
  if N.eqb c (Npos (XO (XO (XI (XI (XI (XO XH)))))))
  then S (count_bs l')
  else O

(** val plain_run : bytes -> nat **)

let rec plain_run = function
| [] -> O
| c :: l' -> if is_plain c then S (plain_run l') else O

(** val bsN : nat -> bytes **)

let bsN n0 =
  repeat (Npos (XO (XO (XI (XI (XI (XO XH))))))) n0

type sres =
| SCont of bytes * nat * nat
| SBrk of bytes * nat * nat * bool

(** val step : bytes -> sres **)

let step buf =
  let n0 = count_bs buf in
  (match n0 with
   | O ->
     let c = at0 buf O in
     if N.eqb c (Npos (XO (XO (XI (XO (XO XH))))))
     then if N.eqb (at0 buf (S O)) (Npos (XO (XO (XI (XO (XO XH))))))
          then SCont (((Npos (XO (XO (XI (XO (XO XH)))))) :: []), (S (S O)),
                 (S O))
          else SBrk ([], (S O), (S O), false)
     else if is_plain c
          then let j = plain_run buf in SCont ((firstn j buf), j, j)
          else if N.eqb c N0
               then SBrk ([], (S O), O, false)
               else if N.eqb c (Npos (XO (XI (XO XH))))
                    then SBrk ([], (S O), O, true)
                    else if N.eqb c (Npos (XI (XO (XI XH))))
                         then if N.eqb (at0 buf (S O)) (Npos (XO (XI (XO
                                   XH))))
                              then SBrk ([], (S (S O)), (S O), true)
                              else SBrk ([], (S O), (S O), false)
                         else SBrk ([], (S O), O, false)
   | S m ->
     let d = at0 buf n0 in
     if N.eqb d (Npos (XO (XO (XO (XO (XO XH))))))
     then if Nat.odd n0
          then SCont
                 ((app (bsN (Nat.div2 m)) ((Npos (XO (XO (XO (XO (XO
                    XH)))))) :: [])), (S n0), n0)
          else SBrk ((bsN n0), (S n0), n0, false)
     else if N.eqb d (Npos (XI (XI (XO (XO (XO XH))))))
          then SCont
                 ((app (bsN m) ((Npos (XI (XI (XO (XO (XO XH)))))) :: [])),
                 (S n0), n0)
          else if N.eqb d (Npos (XO (XI (XO (XI (XI XH))))))
               then let e = at0 buf (S n0) in
                    if is_colon_blank e
                    then SBrk
                           ((app (bsN n0) ((Npos (XO (XI (XO (XI (XI
                              XH)))))) :: [])), (S (S n0)), (S n0),
                           (N.eqb e (Npos (XO (XI (XO XH))))))
                    else SCont
                           ((app (bsN m) ((Npos (XO (XI (XO (XI (XI
                              XH)))))) :: [])), (S n0), (S n0))
               else if (||)
                         ((||) (N.eqb d N0)
                           (N.eqb d (Npos (XI (XO (XI XH))))))
                         (N.eqb d (Npos (XO (XI (XO XH)))))
                    then (match m with
                          | O ->
                            if N.eqb d (Npos (XO (XI (XO XH))))
                            then SBrk ([], (S (S O)), (S O), false)
                            else if N.eqb d (Npos (XI (XO (XI XH))))
                                 then if N.eqb (at0 buf (S (S O))) (Npos (XO
                                           (XI (XO XH))))
                                      then SBrk ([], (S (S (S O))), (S (S
                                             O)), false)
                                      else SBrk ([], (S O), (S (S O)), false)
                                 else SBrk ([], (S O), (S O), false)
                          | S _ -> SCont ((bsN n0), n0, n0))
                    else SCont ((app (bsN n0) (d :: [])), (S n0), n0))

(** val tok : nat -> bytes -> bytes -> ((bytes * bytes) * bool) option **)

let rec tok fuel buf fn =
  match fuel with
  | O -> None
  | S f ->
    (match step buf with
     | SCont (e, k, _) -> tok f (skipn k buf) (app fn e)
     | SBrk (e, k, _, nl) -> Some (((app fn e), (skipn k buf)), nl))

type pstate = { p_outs : bytes list; p_ins : bytes list;
                p_have_target : bool; p_parsing_targets : bool;
                p_poisoned : bool; p_is_empty : bool }

(** val p_init : pstate **)

let p_init =
  { p_outs = []; p_ins = []; p_have_target = false; p_parsing_targets = true;
    p_poisoned = false; p_is_empty = true }

(** val strip_colon : bytes -> bytes * bool **)

let strip_colon fn =
  match rev fn with
  | [] -> ([], false)
  | c :: r ->
    if N.eqb c (Npos (XO (XI (XO (XI (XI XH))))))
    then ((rev r), true)
    else (fn, false)

(** val is_nil : 'a1 list -> bool **)

let is_nil = function
| [] -> true
| _ :: _ -> false

(** val absorb : pstate -> bytes -> bool -> (depfile_err, pstate) sum **)

let absorb st fn nl =
  let is_dep = negb st.p_parsing_targets in
  let (piece, colon) = strip_colon fn in
  let pt = if colon then false else st.p_parsing_targets in
  let ht = if colon then true else st.p_have_target in
  let r =
    if is_nil piece
    then Inr (((st.p_outs, st.p_ins), st.p_poisoned), st.p_is_empty)
    else if negb (mem_bytes piece st.p_ins)
         then if is_dep
              then if st.p_poisoned
                   then Inl ErrInputsHaveInputs
                   else Inr (((st.p_outs, (app st.p_ins (piece :: []))),
                          st.p_poisoned), false)
              else if mem_bytes piece st.p_outs
                   then Inr (((st.p_outs, st.p_ins), st.p_poisoned), false)
                   else Inr ((((app st.p_outs (piece :: [])), st.p_ins),
                          st.p_poisoned), false)
         else if is_dep
              then Inr (((st.p_outs, st.p_ins), st.p_poisoned), false)
              else Inr (((st.p_outs, st.p_ins), true), false)
  in
  (match r with
   | Inl e -> Inl e
   | Inr p ->
     let (p0, em) = p in
     let (p1, po) = p0 in
     let (o, i) = p1 in
     if nl
     then Inr { p_outs = o; p_ins = i; p_have_target = ht;
            p_parsing_targets = true; p_poisoned = false; p_is_empty = em }
     else Inr { p_outs = o; p_ins = i; p_have_target = ht;
            p_parsing_targets = pt; p_poisoned = po; p_is_empty = em })

(** val finish : pstate -> dresult **)

let finish st =
  if (&&) (negb st.p_have_target) (negb st.p_is_empty)
  then DErr ErrNoColon
  else DOk (st.p_outs, st.p_ins)

(** val run : nat -> bytes -> pstate -> dresult **)

let rec run fuel buf st =
  match buf with
  | [] -> finish st
  | _ :: _ ->
    (match fuel with
     | O -> DOutOfFuel
     | S f ->
       (match tok (S (length buf)) buf [] with
        | Some p ->
          let (p0, nl) = p in
          let (fn, rest) = p0 in
          (match absorb st fn nl with
           | Inl e -> DErr e
           | Inr st' -> run f rest st')
        | None -> DOutOfFuel))

(** val parse_depfile : bytes -> dresult **)

let parse_depfile s =
  run (S (length s)) s p_init

(** val tok_idx :
    nat -> bytes -> bytes -> nat -> nat ->
    ((((bytes * bytes) * bool) * nat) * nat) option **)

let rec tok_idx fuel buf fn pos hi =
  match fuel with
  | O -> None
  | S f ->
    (match step buf with
     | SCont (e, k, lk) ->
       tok_idx f (skipn k buf) (app fn e) (Nat.add pos k)
         (Nat.max hi (Nat.add pos lk))
     | SBrk (e, k, lk, nl) ->
       Some (((((app fn e), (skipn k buf)), nl), (Nat.add pos k)),
         (Nat.max hi (Nat.add pos lk))))

(** val run_idx : nat -> bytes -> pstate -> nat -> nat -> dresult * nat **)

let rec run_idx fuel buf st pos hi =
  match buf with
  | [] -> ((finish st), hi)
  | _ :: _ ->
    (match fuel with
     | O -> (DOutOfFuel, hi)
     | S f ->
       (match tok_idx (S (length buf)) buf [] pos hi with
        | Some p ->
          let (p0, hi') = p in
          let (p1, pos') = p0 in
          let (p2, nl) = p1 in
          let (fn, rest) = p2 in
          (match absorb st fn nl with
           | Inl e -> ((DErr e), hi')
           | Inr st' -> run_idx f rest st' pos' hi')
        | None -> (DOutOfFuel, hi)))

(** val parse_depfile_idx : bytes -> dresult * nat **)

let parse_depfile_idx s =
  run_idx (S (length s)) s p_init O O

(** val run_then_space : bytes -> bool **)

let rec run_then_space = function
| [] -> false
| c :: x' ->
  if N.eqb c (Npos (XO (XO (XI (XI (XI (XO XH)))))))
  then run_then_space x'
  else N.eqb c (Npos (XO (XO (XO (XO (XO XH))))))

(** val enc_byte : bool -> byte -> bytes -> bytes **)

let enc_byte esc_colon c x' =
  if N.eqb c (Npos (XO (XO (XI (XI (XI (XO XH)))))))
  then if run_then_space x'
       then (Npos (XO (XO (XI (XI (XI (XO XH))))))) :: ((Npos (XO (XO (XI (XI
              (XI (XO XH))))))) :: [])
       else (Npos (XO (XO (XI (XI (XI (XO XH))))))) :: []
  else if N.eqb c (Npos (XO (XO (XO (XO (XO XH))))))
       then (Npos (XO (XO (XI (XI (XI (XO XH))))))) :: ((Npos (XO (XO (XO (XO
              (XO XH)))))) :: [])
       else if N.eqb c (Npos (XI (XI (XO (XO (XO XH))))))
            then (Npos (XO (XO (XI (XI (XI (XO XH))))))) :: ((Npos (XI (XI
                   (XO (XO (XO XH)))))) :: [])
            else if N.eqb c (Npos (XO (XO (XI (XO (XO XH))))))
                 then (Npos (XO (XO (XI (XO (XO XH)))))) :: ((Npos (XO (XO
                        (XI (XO (XO XH)))))) :: [])
                 else if (&&) esc_colon
                           (N.eqb c (Npos (XO (XI (XO (XI (XI XH)))))))
                      then (Npos (XO (XO (XI (XI (XI (XO XH))))))) :: ((Npos
                             (XO (XI (XO (XI (XI XH)))))) :: [])
                      else c :: []

(** val enc_gen : bool -> bytes -> bytes **)

let rec enc_gen esc_colon = function
| [] -> []
| c :: x' -> app (enc_byte esc_colon c x') (enc_gen esc_colon x')

(** val allowed : byte -> bool **)

let allowed c =
  (||)
    ((||)
      ((||) ((||) (is_plain c) (N.eqb c (Npos (XO (XO (XO (XO (XO XH))))))))
        (N.eqb c (Npos (XI (XI (XO (XO (XO XH))))))))
      (N.eqb c (Npos (XO (XO (XI (XO (XO XH))))))))
    (N.eqb c (Npos (XO (XO (XI (XI (XI (XO XH))))))))

(** val bad_pair : bool -> byte -> byte -> bool **)

let bad_pair esc_colon c d =
  (&&) (N.eqb c (Npos (XO (XO (XI (XI (XI (XO XH))))))))
    ((||) (N.eqb d (Npos (XO (XO (XI (XO (XO XH)))))))
      ((&&) (negb esc_colon) (N.eqb d (Npos (XO (XI (XO (XI (XI XH)))))))))

(** val ok_adj : bool -> bytes -> bool **)

let rec ok_adj esc_colon = function
| [] -> true
| c :: x' ->
  (&&) (match x' with
        | [] -> true
        | d :: _ -> negb (bad_pair esc_colon c d)) (ok_adj esc_colon x')

(** val wf_gen : bool -> bytes -> bool **)

let wf_gen esc_colon x =
  (&&)
    ((&&)
      ((&&) ((&&) (negb (is_nil x)) (forallb allowed x)) (ok_adj esc_colon x))
      (negb (N.eqb (hd N0 (rev x)) (Npos (XO (XI (XO (XI (XI XH)))))))))
    (Nat.even (count_bs (rev x)))

type layout =
| OneLine
| ContPerName
| Crlf of layout
| TrailBlank of layout

(** val lay_cont : layout -> bool **)

let rec lay_cont = function
| OneLine -> false
| ContPerName -> true
| Crlf l' -> lay_cont l'
| TrailBlank l' -> lay_cont l'

(** val lay_crlf : layout -> bool **)

let rec lay_crlf = function
| Crlf _ -> true
| TrailBlank l' -> lay_crlf l'
| _ -> false

(** val lay_trail : layout -> nat **)

let rec lay_trail = function
| Crlf l' -> lay_trail l'
| TrailBlank l' -> S (lay_trail l')
| _ -> O

(** val eol : layout -> bytes **)

let eol l =
  if lay_crlf l
  then (Npos (XI (XO (XI XH)))) :: ((Npos (XO (XI (XO XH)))) :: [])
  else (Npos (XO (XI (XO XH)))) :: []

(** val dep_sep : layout -> bytes **)

let dep_sep l =
  if lay_cont l
  then app ((Npos (XO (XO (XO (XO (XO XH)))))) :: ((Npos (XO (XO (XI (XI (XI
         (XO XH))))))) :: []))
         (app (eol l) ((Npos (XO (XO (XO (XO (XO XH)))))) :: []))
  else (Npos (XO (XO (XO (XO (XO XH)))))) :: []

(** val join_sp : bytes list -> bytes **)

let join_sp = function
| [] -> []
| x :: xs' ->
  app x (concat (map (fun y -> (Npos (XO (XO (XO (XO (XO XH)))))) :: y) xs'))

(** val render_gen : bool -> layout -> bytes list -> bytes list -> bytes **)

let render_gen esc_colon l ts ds =
  app (join_sp (map (enc_gen esc_colon) ts))
    (app ((Npos (XO (XI (XO (XI (XI XH)))))) :: [])
      (app (concat (map (fun d -> app (dep_sep l) (enc_gen esc_colon d)) ds))
        (app (repeat (Npos (XO (XO (XO (XO (XO XH)))))) (lay_trail l))
          (eol l))))

(** val render_rules_gen :
    bool -> layout -> (bytes list * bytes list) list -> bytes **)

let render_rules_gen esc_colon l rules =
  concat (map (fun r -> render_gen esc_colon l (fst r) (snd r)) rules)
