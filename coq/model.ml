
type nat =
| O
| S of nat

(** val length : 'a1 list -> nat **)

let rec length = function
| [] -> O
| _ :: l' -> S (length l')

(** val app : 'a1 list -> 'a1 list -> 'a1 list **)

let rec app l m =
  match l with
  | [] -> m
  | a :: l1 -> a :: (app l1 m)

module Nat =
 struct
  (** val add : nat -> nat -> nat **)

  let rec add n0 m =
    match n0 with
    | O -> m
    | S p -> S (add p m)

  (** val leb : nat -> nat -> bool **)

  let rec leb n0 m =
    match n0 with
    | O -> true
    | S n' -> (match m with
               | O -> false
               | S m' -> leb n' m')

  (** val ltb : nat -> nat -> bool **)

  let ltb n0 m =
    leb (S n0) m
 end

(** val tl : 'a1 list -> 'a1 list **)

let tl = function
| [] -> []
| _ :: m -> m

(** val last : 'a1 list -> 'a1 -> 'a1 **)

let rec last l d =
  match l with
  | [] -> d
  | a :: l0 -> (match l0 with
                | [] -> a
                | _ :: _ -> last l0 d)

(** val removelast : 'a1 list -> 'a1 list **)

let rec removelast = function
| [] -> []
| a :: l0 -> (match l0 with
              | [] -> []
              | _ :: _ -> a :: (removelast l0))

(** val rev : 'a1 list -> 'a1 list **)

let rec rev = function
| [] -> []
| x :: l' -> app (rev l') (x :: [])

(** val fold_left : ('a1 -> 'a2 -> 'a1) -> 'a2 list -> 'a1 -> 'a1 **)

let rec fold_left f l a0 =
  match l with
  | [] -> a0
  | b :: t -> fold_left f t (f a0 b)

type positive =
| XI of positive
| XO of positive
| XH

type n =
| N0
| Npos of positive

type z =
| Z0
| Zpos of positive
| Zneg of positive

module Pos =
 struct
  (** val succ : positive -> positive **)

  let rec succ = function
  | XI p -> XO (succ p)
  | XO p -> XI p
  | XH -> XO XH

  (** val add : positive -> positive -> positive **)

  let rec add x y =
    match x with
    | XI p ->
      (match y with
       | XI q -> XO (add_carry p q)
       | XO q -> XI (add p q)
       | XH -> XO (succ p))
    | XO p ->
      (match y with
       | XI q -> XI (add p q)
       | XO q -> XO (add p q)
       | XH -> XI p)
    | XH -> (match y with
             | XI q -> XO (succ q)
             | XO q -> XI q
             | XH -> XO XH)

  (** val add_carry : positive -> positive -> positive **)

  and add_carry x y =
    match x with
    | XI p ->
      (match y with
       | XI q -> XI (add_carry p q)
       | XO q -> XO (add_carry p q)
       | XH -> XI (succ p))
    | XO p ->
      (match y with
       | XI q -> XO (add_carry p q)
       | XO q -> XI (add p q)
       | XH -> XO (succ p))
    | XH ->
      (match y with
       | XI q -> XI (succ q)
       | XO q -> XO (succ q)
       | XH -> XI XH)

  (** val pred_double : positive -> positive **)

  let rec pred_double = function
  | XI p -> XI (XO p)
  | XO p -> XI (pred_double p)
  | XH -> XH

  (** val eqb : positive -> positive -> bool **)

  let rec eqb p q =
    match p with
    | XI p0 -> (match q with
                | XI q0 -> eqb p0 q0
                | _ -> false)
    | XO p0 -> (match q with
                | XO q0 -> eqb p0 q0
                | _ -> false)
    | XH -> (match q with
             | XH -> true
             | _ -> false)
 end

module N =
 struct
  (** val add : n -> n -> n **)

  let add n0 m =
    match n0 with
    | N0 -> m
    | Npos p -> (match m with
                 | N0 -> n0
                 | Npos q -> Npos (Pos.add p q))

  (** val eqb : n -> n -> bool **)

  let eqb n0 m =
    match n0 with
    | N0 -> (match m with
             | N0 -> true
             | Npos _ -> false)
    | Npos p -> (match m with
                 | N0 -> false
                 | Npos q -> Pos.eqb p q)
 end

module Z =
 struct
  (** val double : z -> z **)

  let double = function
  | Z0 -> Z0
  | Zpos p -> Zpos (XO p)
  | Zneg p -> Zneg (XO p)

  (** val succ_double : z -> z **)

  let succ_double = function
  | Z0 -> Zpos XH
  | Zpos p -> Zpos (XI p)
  | Zneg p -> Zneg (Pos.pred_double p)

  (** val pred_double : z -> z **)

  let pred_double = function
  | Z0 -> Zneg XH
  | Zpos p -> Zpos (Pos.pred_double p)
  | Zneg p -> Zneg (XI p)

  (** val pos_sub : positive -> positive -> z **)

  let rec pos_sub x y =
    match x with
    | XI p ->
      (match y with
       | XI q -> double (pos_sub p q)
       | XO q -> succ_double (pos_sub p q)
       | XH -> Zpos (XO p))
    | XO p ->
      (match y with
       | XI q -> pred_double (pos_sub p q)
       | XO q -> double (pos_sub p q)
       | XH -> Zpos (Pos.pred_double p))
    | XH ->
      (match y with
       | XI q -> Zneg (XO q)
       | XO q -> Zneg (Pos.pred_double q)
       | XH -> Z0)

  (** val add : z -> z -> z **)

  let add x y =
    match x with
    | Z0 -> y
    | Zpos x' ->
      (match y with
       | Z0 -> x
       | Zpos y' -> Zpos (Pos.add x' y')
       | Zneg y' -> pos_sub x' y')
    | Zneg x' ->
      (match y with
       | Z0 -> x
       | Zpos y' -> pos_sub y' x'
       | Zneg y' -> Zneg (Pos.add x' y'))
 end

type byte = n

type bytes = byte list

(** val bytes_eqb : bytes -> bytes -> bool **)

let rec bytes_eqb a b =
  match a with
  | [] -> (match b with
           | [] -> true
           | _ :: _ -> false)
  | x :: a' ->
    (match b with
     | [] -> false
     | y :: b' -> (&&) (N.eqb x y) (bytes_eqb a' b'))

(** val b_slash : byte **)

let b_slash =
  Npos (XI (XI (XI (XI (XO XH)))))

(** val b_dot : byte **)

let b_dot =
  Npos (XO (XI (XI (XI (XO XH)))))

(** val split_slash_aux : bytes -> bytes -> bytes list **)

let rec split_slash_aux cur = function
| [] -> (rev cur) :: []
| c :: s' ->
  if N.eqb c b_slash
  then (rev cur) :: (split_slash_aux [] s')
  else split_slash_aux (c :: cur) s'

(** val split_slash : bytes -> bytes list **)

let split_slash s =
  split_slash_aux [] s

(** val join_slash : bytes list -> bytes **)

let rec join_slash = function
| [] -> []
| c :: l' ->
  (match l' with
   | [] -> c
   | _ :: _ -> app c (b_slash :: (join_slash l')))

(** val is_dot : bytes -> bool **)

let is_dot c =
  bytes_eqb c (b_dot :: [])

(** val is_dotdot : bytes -> bool **)

let is_dotdot c =
  bytes_eqb c (b_dot :: (b_dot :: []))

(** val is_empty : bytes -> bool **)

let is_empty = function
| [] -> true
| _ :: _ -> false

(** val backup_loop : nat -> bytes -> bytes **)

let rec backup_loop dst0 out = match out with
| [] -> []
| c :: out' ->
  if Nat.ltb dst0 (length out)
  then if N.eqb c b_slash then out else backup_loop dst0 out'
  else out

(** val backup : nat -> bytes -> bytes **)

let backup dst0 out =
  backup_loop dst0 (tl out)

(** val strip_dotdot_run : nat -> bytes -> nat * bytes **)

let rec strip_dotdot_run fuel s =
  match fuel with
  | O -> (O, s)
  | S f ->
    (match s with
     | [] -> (O, s)
     | a :: l ->
       (match l with
        | [] -> (O, s)
        | b :: l0 ->
          (match l0 with
           | [] -> (O, s)
           | c :: s' ->
             if (&&) ((&&) (N.eqb a b_dot) (N.eqb b b_dot)) (N.eqb c b_slash)
             then let (k, r) = strip_dotdot_run f s' in ((S k), r)
             else (O, s))))

(** val dotdot_prefix_rev : nat -> bytes **)

let rec dotdot_prefix_rev = function
| O -> []
| S k' -> b_slash :: (b_dot :: (b_dot :: (dotdot_prefix_rev k')))

(** val mid_step : nat -> (nat * bytes) -> bytes -> nat * bytes **)

let mid_step dst0 st c =
  let (count, out) = st in
  if is_empty c
  then st
  else if is_dot c
       then st
       else if is_dotdot c
            then (match count with
                  | O -> (O, (b_slash :: (b_dot :: (b_dot :: out))))
                  | S n0 -> (n0, (backup dst0 out)))
            else ((S count), (b_slash :: (app (rev c) out)))

(** val last_step : nat -> (nat * bytes) -> bytes -> bytes **)

let last_step dst0 st c =
  let (count, out) = st in
  if is_empty c
  then out
  else if is_dot c
       then out
       else if is_dotdot c
            then (match count with
                  | O -> b_dot :: (b_dot :: out)
                  | S _ -> backup dst0 out)
            else app (rev c) out

(** val canon : bytes -> bytes **)

let canon s = match s with
| [] -> []
| c0 :: s1 ->
  if N.eqb c0 b_slash
  then let p = ((S O), (b_slash :: [])) in
       let (dst_start, out0) = p in
       let dst0 = length out0 in
       let comps = split_slash s1 in
       let st = fold_left (mid_step dst0) (removelast comps) (O, out0) in
       let out1 = last_step dst0 st (last comps []) in
       let out2 =
         match out1 with
         | [] -> out1
         | c :: o' ->
           if (&&) (Nat.ltb dst_start (length out1)) (N.eqb c b_slash)
           then o'
           else out1
       in
       (match out2 with
        | [] -> b_dot :: []
        | _ :: _ -> rev out2)
  else let (k, r) = strip_dotdot_run (length s) s in
       let p = (O, (dotdot_prefix_rev k)) in
       let (dst_start, out0) = p in
       let dst0 = length out0 in
       let comps = split_slash r in
       let st = fold_left (mid_step dst0) (removelast comps) (O, out0) in
       let out1 = last_step dst0 st (last comps []) in
       let out2 =
         match out1 with
         | [] -> out1
         | c :: o' ->
           if (&&) (Nat.ltb dst_start (length out1)) (N.eqb c b_slash)
           then o'
           else out1
       in
       (match out2 with
        | [] -> b_dot :: []
        | _ :: _ -> rev out2)

(** val parse_path : bytes -> bool * bytes list **)

let parse_path s = match s with
| [] -> (false, (split_slash s))
| c :: s' ->
  if N.eqb c b_slash
  then (true, (split_slash s'))
  else (false, (split_slash s))

(** val nf_step : bytes list -> bytes -> bytes list **)

let nf_step st c =
  if is_empty c
  then st
  else if is_dot c
       then st
       else if is_dotdot c
            then (match st with
                  | [] -> c :: []
                  | t :: st' -> if is_dotdot t then c :: st else st')
            else c :: st

(** val nf : bytes list -> bytes list **)

let nf comps =
  rev (fold_left nf_step comps [])

(** val render : bool -> bytes list -> bytes **)

let render abs l =
  if abs
  then b_slash :: (join_slash l)
  else (match l with
        | [] -> b_dot :: []
        | _ :: _ -> join_slash l)

(** val canon_spec : bytes -> bytes **)

let canon_spec s = match s with
| [] -> []
| _ :: _ -> let (abs, comps) = parse_path s in render abs (nf comps)
