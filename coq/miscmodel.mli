
val negb : bool -> bool

type nat =
| O
| S of nat

type ('a, 'b) sum =
| Inl of 'a
| Inr of 'b

val fst : ('a1 * 'a2) -> 'a1

val snd : ('a1 * 'a2) -> 'a2

val length : 'a1 list -> nat

val app : 'a1 list -> 'a1 list -> 'a1 list

type comparison =
| Eq
| Lt
| Gt

val compOpp : comparison -> comparison

val sub : nat -> nat -> nat

module Nat :
 sig
  val add : nat -> nat -> nat

  val leb : nat -> nat -> bool

  val ltb : nat -> nat -> bool
 end

val tl : 'a1 list -> 'a1 list

val last : 'a1 list -> 'a1 -> 'a1

val removelast : 'a1 list -> 'a1 list

val rev : 'a1 list -> 'a1 list

val map : ('a1 -> 'a2) -> 'a1 list -> 'a2 list

val fold_left : ('a1 -> 'a2 -> 'a1) -> 'a2 list -> 'a1 -> 'a1

val existsb : ('a1 -> bool) -> 'a1 list -> bool

val skipn : nat -> 'a1 list -> 'a1 list

type positive =
| XI of positive
| XO of positive
| XH

type n =
| N0
| Npos of positive

type z =
| Z0
| Zpos of positive
| Zneg of positive

module Pos :
 sig
  val succ : positive -> positive

  val add : positive -> positive -> positive

  val add_carry : positive -> positive -> positive

  val pred_double : positive -> positive

  val mul : positive -> positive -> positive

  val compare_cont : comparison -> positive -> positive -> comparison

  val compare : positive -> positive -> comparison

  val eqb : positive -> positive -> bool
 end

module N :
 sig
  val add : n -> n -> n

  val compare : n -> n -> comparison

  val eqb : n -> n -> bool

  val leb : n -> n -> bool
 end

module Z :
 sig
  val double : z -> z

  val succ_double : z -> z

  val pred_double : z -> z

  val pos_sub : positive -> positive -> z

  val add : z -> z -> z

  val opp : z -> z

  val sub : z -> z -> z

  val mul : z -> z -> z

  val compare : z -> z -> comparison

  val leb : z -> z -> bool

  val ltb : z -> z -> bool

  val max : z -> z -> z

  val min : z -> z -> z

  val of_N : n -> z

  val pos_div_eucl : positive -> z -> z * z

  val div_eucl : z -> z -> z * z

  val modulo : z -> z -> z
 end

type byte = n

type bytes = byte list

val bytes_eqb : bytes -> bytes -> bool

val mem_bytes : bytes -> bytes list -> bool

val b_tab : byte

val b_lf : byte

val b_cr : byte

val b_sp : byte

val b_slash : byte

val b_dot : byte

val split_slash_aux : bytes -> bytes -> bytes list

val split_slash : bytes -> bytes list

val is_dot : bytes -> bool

val is_dotdot : bytes -> bool

val is_empty : bytes -> bool

val backup_loop : nat -> bytes -> bytes

val backup : nat -> bytes -> bytes

val strip_dotdot_run : nat -> bytes -> nat * bytes

val dotdot_prefix_rev : nat -> bytes

val mid_step : nat -> (nat * bytes) -> bytes -> nat * bytes

val last_step : nat -> (nat * bytes) -> bytes -> bytes

val canon : bytes -> bytes

val k_english : bytes

val k_program_files : bytes

val k_msvs : bytes

val k_ext_c : bytes

val k_ext_cc : bytes

val k_ext_cxx : bytes

val k_ext_cpp : bytes

val k_ext_cplus : bytes

val to_lower : byte -> byte

val starts_with : bytes -> bytes -> bool

val has_infix : bytes -> bytes -> bool

val ends_with : bytes -> bytes -> bool

val drop_spaces : bytes -> bytes

val eff_prefix : bytes -> bytes

val filter_show_includes : bytes -> bytes -> bytes

val is_system_include : bytes -> bool

val filter_input_filename : bytes -> bool

val is_eol : byte -> bool

val take_line : bytes -> bytes * bytes

val skip_eol : bytes -> bytes

type cl_state = { cs_seen : bool; cs_out : bytes; cs_incs : bytes list }

val cl_init : cl_state

type line_class =
| LInclude of bytes
| LDrop
| LKeep

val classify : bytes -> bool -> bytes -> line_class

val set_insert : bytes -> bytes list -> bytes list

val cl_step : bytes -> cl_state -> bytes -> cl_state

val cl_loop : nat -> bytes -> bytes -> cl_state -> cl_state option

val cl_parse : bytes -> bytes -> cl_state option

val lines_loop : nat -> bytes -> bytes list option

val cl_lines : bytes -> bytes list

val k_auth : bytes

val k_fds : bytes

val k_fifo : bytes

type mf_mode =
| ModeNone
| ModePipe
| ModePosixFifo
| ModeWin32Sem

type mf_config = { cfg_mode : mf_mode; cfg_path : bytes }

val cfg_default : mf_config

type mf_error =
| ENone
| EBadPair of bytes
| EPipe
| ESem

type mf_result = { r_ok : bool; r_cfg : mf_config; r_err : mf_error }

val cstr : bytes -> bytes

val is_sep : byte -> bool

val mf_args_aux : bytes -> bytes -> bytes list

val mf_args : bytes -> bytes list

val is_space : byte -> bool

val skip_ws : bytes -> bytes

val is_digit : byte -> bool

val take_digits : bytes -> bytes * bytes

val digits_value : bytes -> z

val clamp64 : z -> z

val wrap32 : z -> z

val scan_int : bytes -> (z * bytes) option

val fd_pair : bytes -> (z * z) option

val pair_mode : (z * z) -> mf_mode

val get_prefixed : bytes -> bytes -> bytes option

val mf_step : mf_config -> bytes -> (mf_config, bytes) sum

val mf_loop : bytes list -> mf_config -> mf_result

val first_word_n : bytes list -> bool

val parse_makeflags : bytes -> mf_result

val parse_native_makeflags : bytes -> mf_result
