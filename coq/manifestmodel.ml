
(** val negb : bool -> bool **)

let negb = function
| true -> false
| false -> true

type nat =
| O
| S of nat

(** val option_map : ('a1 -> 'a2) -> 'a1 option -> 'a2 option **)

let option_map f = function
| Some a -> Some (f a)
| None -> None

(** val fst : ('a1 * 'a2) -> 'a1 **)

let fst = function
| (x, _) -> x

(** val length : 'a1 list -> nat **)

let rec length = function
| [] -> O
| _ :: l' -> S (length l')

(** val app : 'a1 list -> 'a1 list -> 'a1 list **)

let rec app l m =
  match l with
  | [] -> m
  | a :: l1 -> a :: (app l1 m)

type comparison =
| Eq
| Lt
| Gt

(** val compOpp : comparison -> comparison **)

let compOpp = function
| Eq -> Eq
| Lt -> Gt
| Gt -> Lt

(** val add : nat -> nat -> nat **)

let rec add n0 m =
  match n0 with
  | O -> m
  | S p -> S (add p m)

(** val sub : nat -> nat -> nat **)

let rec sub n0 m =
  match n0 with
  | O -> n0
  | S k -> (match m with
            | O -> n0
            | S l -> sub k l)

(** val eqb : bool -> bool -> bool **)

let eqb b1 b2 =
  if b1 then b2 else if b2 then false else true

module Nat =
 struct
  (** val eqb : nat -> nat -> bool **)

  let rec eqb n0 m =
    match n0 with
    | O -> (match m with
            | O -> true
            | S _ -> false)
    | S n' -> (match m with
               | O -> false
               | S m' -> eqb n' m')

  (** val leb : nat -> nat -> bool **)

  let rec leb n0 m =
    match n0 with
    | O -> true
    | S n' -> (match m with
               | O -> false
               | S m' -> leb n' m')

  (** val ltb : nat -> nat -> bool **)

  let ltb n0 m =
    leb (S n0) m
 end

(** val hd : 'a1 -> 'a1 list -> 'a1 **)

let hd default = function
| [] -> default
| x :: _ -> x

(** val tl : 'a1 list -> 'a1 list **)

let tl = function
| [] -> []
| _ :: m -> m

(** val nth : nat -> 'a1 list -> 'a1 -> 'a1 **)

let rec nth n0 l default =
  match n0 with
  | O -> (match l with
          | [] -> default
          | x :: _ -> x)
  | S m -> (match l with
            | [] -> default
            | _ :: t -> nth m t default)

(** val last : 'a1 list -> 'a1 -> 'a1 **)

let rec last l d =
  match l with
  | [] -> d
  | a :: l0 -> (match l0 with
                | [] -> a
                | _ :: _ -> last l0 d)

(** val removelast : 'a1 list -> 'a1 list **)

let rec removelast = function
| [] -> []
| a :: l0 -> (match l0 with
              | [] -> []
              | _ :: _ -> a :: (removelast l0))

(** val rev : 'a1 list -> 'a1 list **)

let rec rev = function
| [] -> []
| x :: l' -> app (rev l') (x :: [])

(** val map : ('a1 -> 'a2) -> 'a1 list -> 'a2 list **)

let rec map f = function
| [] -> []
| a :: t -> (f a) :: (map f t)

(** val fold_left : ('a1 -> 'a2 -> 'a1) -> 'a2 list -> 'a1 -> 'a1 **)

let rec fold_left f l a0 =
  match l with
  | [] -> a0
  | b :: t -> fold_left f t (f a0 b)

(** val forallb : ('a1 -> bool) -> 'a1 list -> bool **)

let rec forallb f = function
| [] -> true
| a :: l0 -> (&&) (f a) (forallb f l0)

(** val firstn : nat -> 'a1 list -> 'a1 list **)

let rec firstn n0 l =
  match n0 with
  | O -> []
  | S n1 -> (match l with
             | [] -> []
             | a :: l0 -> a :: (firstn n1 l0))

(** val skipn : nat -> 'a1 list -> 'a1 list **)

let rec skipn n0 l =
  match n0 with
  | O -> l
  | S n1 -> (match l with
             | [] -> []
             | _ :: l0 -> skipn n1 l0)

type positive =
| XI of positive
| XO of positive
| XH

type n =
| N0
| Npos of positive

type z =
| Z0
| Zpos of positive
| Zneg of positive

module Pos =
 struct
  type mask =
  | IsNul
  | IsPos of positive
  | IsNeg
 end

module Coq_Pos =
 struct
  (** val succ : positive -> positive **)

  let rec succ = function
  | XI p -> XO (succ p)
  | XO p -> XI p
  | XH -> XO XH

  (** val add : positive -> positive -> positive **)

  let rec add x y =
    match x with
    | XI p ->
      (match y with
       | XI q -> XO (add_carry p q)
       | XO q -> XI (add p q)
       | XH -> XO (succ p))
    | XO p ->
      (match y with
       | XI q -> XI (add p q)
       | XO q -> XO (add p q)
       | XH -> XI p)
    | XH -> (match y with
             | XI q -> XO (succ q)
             | XO q -> XI q
             | XH -> XO XH)

  (** val add_carry : positive -> positive -> positive **)

  and add_carry x y =
    match x with
    | XI p ->
      (match y with
       | XI q -> XI (add_carry p q)
       | XO q -> XO (add_carry p q)
       | XH -> XI (succ p))
    | XO p ->
      (match y with
       | XI q -> XO (add_carry p q)
       | XO q -> XI (add p q)
       | XH -> XO (succ p))
    | XH ->
      (match y with
       | XI q -> XI (succ q)
       | XO q -> XO (succ q)
       | XH -> XI XH)

  (** val pred_double : positive -> positive **)

  let rec pred_double = function
  | XI p -> XI (XO p)
  | XO p -> XI (pred_double p)
  | XH -> XH

  type mask = Pos.mask =
  | IsNul
  | IsPos of positive
  | IsNeg

  (** val succ_double_mask : mask -> mask **)

  let succ_double_mask = function
  | IsNul -> IsPos XH
  | IsPos p -> IsPos (XI p)
  | IsNeg -> IsNeg

  (** val double_mask : mask -> mask **)

  let double_mask = function
  | IsPos p -> IsPos (XO p)
  | x0 -> x0

  (** val double_pred_mask : positive -> mask **)

  let double_pred_mask = function
  | XI p -> IsPos (XO (XO p))
  | XO p -> IsPos (XO (pred_double p))
  | XH -> IsNul

  (** val sub_mask : positive -> positive -> mask **)

  let rec sub_mask x y =
    match x with
    | XI p ->
      (match y with
       | XI q -> double_mask (sub_mask p q)
       | XO q -> succ_double_mask (sub_mask p q)
       | XH -> IsPos (XO p))
    | XO p ->
      (match y with
       | XI q -> succ_double_mask (sub_mask_carry p q)
       | XO q -> double_mask (sub_mask p q)
       | XH -> IsPos (pred_double p))
    | XH -> (match y with
             | XH -> IsNul
             | _ -> IsNeg)

  (** val sub_mask_carry : positive -> positive -> mask **)

  and sub_mask_carry x y =
    match x with
    | XI p ->
      (match y with
       | XI q -> succ_double_mask (sub_mask_carry p q)
       | XO q -> double_mask (sub_mask p q)
       | XH -> IsPos (pred_double p))
    | XO p ->
      (match y with
       | XI q -> double_mask (sub_mask_carry p q)
       | XO q -> succ_double_mask (sub_mask_carry p q)
       | XH -> double_pred_mask p)
    | XH -> IsNeg

  (** val mul : positive -> positive -> positive **)

  let rec mul x y =
    match x with
    | XI p -> add y (XO (mul p y))
    | XO p -> XO (mul p y)
    | XH -> y

  (** val compare_cont : comparison -> positive -> positive -> comparison **)

  let rec compare_cont r x y =
    match x with
    | XI p ->
      (match y with
       | XI q -> compare_cont r p q
       | XO q -> compare_cont Gt p q
       | XH -> Gt)
    | XO p ->
      (match y with
       | XI q -> compare_cont Lt p q
       | XO q -> compare_cont r p q
       | XH -> Gt)
    | XH -> (match y with
             | XH -> r
             | _ -> Lt)

  (** val compare : positive -> positive -> comparison **)

  let compare =
    compare_cont Eq

  (** val eqb : positive -> positive -> bool **)

  let rec eqb p q =
    match p with
    | XI p0 -> (match q with
                | XI q0 -> eqb p0 q0
                | _ -> false)
    | XO p0 -> (match q with
                | XO q0 -> eqb p0 q0
                | _ -> false)
    | XH -> (match q with
             | XH -> true
             | _ -> false)
 end

module N =
 struct
  (** val sub : n -> n -> n **)

  let sub n0 m =
    match n0 with
    | N0 -> N0
    | Npos n' ->
      (match m with
       | N0 -> n0
       | Npos m' ->
         (match Coq_Pos.sub_mask n' m' with
          | Coq_Pos.IsPos p -> Npos p
          | _ -> N0))

  (** val compare : n -> n -> comparison **)

  let compare n0 m =
    match n0 with
    | N0 -> (match m with
             | N0 -> Eq
             | Npos _ -> Lt)
    | Npos n' -> (match m with
                  | N0 -> Gt
                  | Npos m' -> Coq_Pos.compare n' m')

  (** val eqb : n -> n -> bool **)

  let eqb n0 m =
    match n0 with
    | N0 -> (match m with
             | N0 -> true
             | Npos _ -> false)
    | Npos p -> (match m with
                 | N0 -> false
                 | Npos q -> Coq_Pos.eqb p q)

  (** val leb : n -> n -> bool **)

  let leb x y =
    match compare x y with
    | Gt -> false
    | _ -> true

  (** val ltb : n -> n -> bool **)

  let ltb x y =
    match compare x y with
    | Lt -> true
    | _ -> false
 end

module Z =
 struct
  (** val double : z -> z **)

  let double = function
  | Z0 -> Z0
  | Zpos p -> Zpos (XO p)
  | Zneg p -> Zneg (XO p)

  (** val succ_double : z -> z **)

  let succ_double = function
  | Z0 -> Zpos XH
  | Zpos p -> Zpos (XI p)
  | Zneg p -> Zneg (Coq_Pos.pred_double p)

  (** val pred_double : z -> z **)

  let pred_double = function
  | Z0 -> Zneg XH
  | Zpos p -> Zpos (Coq_Pos.pred_double p)
  | Zneg p -> Zneg (XI p)

  (** val pos_sub : positive -> positive -> z **)

  let rec pos_sub x y =
    match x with
    | XI p ->
      (match y with
       | XI q -> double (pos_sub p q)
       | XO q -> succ_double (pos_sub p q)
       | XH -> Zpos (XO p))
    | XO p ->
      (match y with
       | XI q -> pred_double (pos_sub p q)
       | XO q -> double (pos_sub p q)
       | XH -> Zpos (Coq_Pos.pred_double p))
    | XH ->
      (match y with
       | XI q -> Zneg (XO q)
       | XO q -> Zneg (Coq_Pos.pred_double q)
       | XH -> Z0)

  (** val add : z -> z -> z **)

  let add x y =
    match x with
    | Z0 -> y
    | Zpos x' ->
      (match y with
       | Z0 -> x
       | Zpos y' -> Zpos (Coq_Pos.add x' y')
       | Zneg y' -> pos_sub x' y')
    | Zneg x' ->
      (match y with
       | Z0 -> x
       | Zpos y' -> pos_sub y' x'
       | Zneg y' -> Zneg (Coq_Pos.add x' y'))

  (** val opp : z -> z **)

  let opp = function
  | Z0 -> Z0
  | Zpos x0 -> Zneg x0
  | Zneg x0 -> Zpos x0

  (** val sub : z -> z -> z **)

  let sub m n0 =
    add m (opp n0)

  (** val mul : z -> z -> z **)

  let mul x y =
    match x with
    | Z0 -> Z0
    | Zpos x' ->
      (match y with
       | Z0 -> Z0
       | Zpos y' -> Zpos (Coq_Pos.mul x' y')
       | Zneg y' -> Zneg (Coq_Pos.mul x' y'))
    | Zneg x' ->
      (match y with
       | Z0 -> Z0
       | Zpos y' -> Zneg (Coq_Pos.mul x' y')
       | Zneg y' -> Zpos (Coq_Pos.mul x' y'))

  (** val compare : z -> z -> comparison **)

  let compare x y =
    match x with
    | Z0 -> (match y with
             | Z0 -> Eq
             | Zpos _ -> Lt
             | Zneg _ -> Gt)
    | Zpos x' -> (match y with
                  | Zpos y' -> Coq_Pos.compare x' y'
                  | _ -> Gt)
    | Zneg x' ->
      (match y with
       | Zneg y' -> compOpp (Coq_Pos.compare x' y')
       | _ -> Lt)

  (** val leb : z -> z -> bool **)

  let leb x y =
    match compare x y with
    | Gt -> false
    | _ -> true

  (** val ltb : z -> z -> bool **)

  let ltb x y =
    match compare x y with
    | Lt -> true
    | _ -> false

  (** val eqb : z -> z -> bool **)

  let eqb x y =
    match x with
    | Z0 -> (match y with
             | Z0 -> true
             | _ -> false)
    | Zpos p -> (match y with
                 | Zpos q -> Coq_Pos.eqb p q
                 | _ -> false)
    | Zneg p -> (match y with
                 | Zneg q -> Coq_Pos.eqb p q
                 | _ -> false)

  (** val max : z -> z -> z **)

  let max n0 m =
    match compare n0 m with
    | Lt -> m
    | _ -> n0

  (** val min : z -> z -> z **)

  let min n0 m =
    match compare n0 m with
    | Gt -> m
    | _ -> n0

  (** val of_N : n -> z **)

  let of_N = function
  | N0 -> Z0
  | Npos p -> Zpos p

  (** val pos_div_eucl : positive -> z -> z * z **)

  let rec pos_div_eucl a b =
    match a with
    | XI a' ->
      let (q, r) = pos_div_eucl a' b in
      let r' = add (mul (Zpos (XO XH)) r) (Zpos XH) in
      if ltb r' b
      then ((mul (Zpos (XO XH)) q), r')
      else ((add (mul (Zpos (XO XH)) q) (Zpos XH)), (sub r' b))
    | XO a' ->
      let (q, r) = pos_div_eucl a' b in
      let r' = mul (Zpos (XO XH)) r in
      if ltb r' b
      then ((mul (Zpos (XO XH)) q), r')
      else ((add (mul (Zpos (XO XH)) q) (Zpos XH)), (sub r' b))
    | XH -> if leb (Zpos (XO XH)) b then (Z0, (Zpos XH)) else ((Zpos XH), Z0)

  (** val div_eucl : z -> z -> z * z **)

  let div_eucl a b =
    match a with
    | Z0 -> (Z0, Z0)
    | Zpos a' ->
      (match b with
       | Z0 -> (Z0, a)
       | Zpos _ -> pos_div_eucl a' b
       | Zneg b' ->
         let (q, r) = pos_div_eucl a' (Zpos b') in
         (match r with
          | Z0 -> ((opp q), Z0)
          | _ -> ((opp (add q (Zpos XH))), (add b r))))
    | Zneg a' ->
      (match b with
       | Z0 -> (Z0, a)
       | Zpos _ ->
         let (q, r) = pos_div_eucl a' b in
         (match r with
          | Z0 -> ((opp q), Z0)
          | _ -> ((opp (add q (Zpos XH))), (sub b r)))
       | Zneg b' -> let (q, r) = pos_div_eucl a' (Zpos b') in (q, (opp r)))

  (** val modulo : z -> z -> z **)

  let modulo a b =
    let (_, r) = div_eucl a b in r
 end

type byte = n

type bytes = byte list

(** val bytes_eqb : bytes -> bytes -> bool **)

let rec bytes_eqb a b =
  match a with
  | [] -> (match b with
           | [] -> true
           | _ :: _ -> false)
  | x :: a' ->
    (match b with
     | [] -> false
     | y :: b' -> (&&) (N.eqb x y) (bytes_eqb a' b'))

(** val mem_bytes : bytes -> bytes list -> bool **)

let rec mem_bytes x = function
| [] -> false
| y :: l' -> (||) (bytes_eqb x y) (mem_bytes x l')

(** val b_slash : byte **)

let b_slash =
  Npos (XI (XI (XI (XI (XO XH)))))

(** val b_dot : byte **)

let b_dot =
  Npos (XO (XI (XI (XI (XO XH)))))

(** val s_build : bytes **)

let s_build =
  (Npos (XO (XI (XO (XO (XO (XI XH))))))) :: ((Npos (XI (XO (XI (XO (XI (XI
    XH))))))) :: ((Npos (XI (XO (XO (XI (XO (XI XH))))))) :: ((Npos (XO (XO
    (XI (XI (XO (XI XH))))))) :: ((Npos (XO (XO (XI (XO (XO (XI
    XH))))))) :: []))))

(** val s_pool : bytes **)

let s_pool =
  (Npos (XO (XO (XO (XO (XI (XI XH))))))) :: ((Npos (XI (XI (XI (XI (XO (XI
    XH))))))) :: ((Npos (XI (XI (XI (XI (XO (XI XH))))))) :: ((Npos (XO (XO
    (XI (XI (XO (XI XH))))))) :: [])))

(** val s_rule : bytes **)

let s_rule =
  (Npos (XO (XI (XO (XO (XI (XI XH))))))) :: ((Npos (XI (XO (XI (XO (XI (XI
    XH))))))) :: ((Npos (XO (XO (XI (XI (XO (XI XH))))))) :: ((Npos (XI (XO
    (XI (XO (XO (XI XH))))))) :: [])))

(** val s_default : bytes **)

let s_default =
  (Npos (XO (XO (XI (XO (XO (XI XH))))))) :: ((Npos (XI (XO (XI (XO (XO (XI
    XH))))))) :: ((Npos (XO (XI (XI (XO (XO (XI XH))))))) :: ((Npos (XI (XO
    (XO (XO (XO (XI XH))))))) :: ((Npos (XI (XO (XI (XO (XI (XI
    XH))))))) :: ((Npos (XO (XO (XI (XI (XO (XI XH))))))) :: ((Npos (XO (XO
    (XI (XO (XI (XI XH))))))) :: []))))))

(** val s_include : bytes **)

let s_include =
  (Npos (XI (XO (XO (XI (XO (XI XH))))))) :: ((Npos (XO (XI (XI (XI (XO (XI
    XH))))))) :: ((Npos (XI (XI (XO (XO (XO (XI XH))))))) :: ((Npos (XO (XO
    (XI (XI (XO (XI XH))))))) :: ((Npos (XI (XO (XI (XO (XI (XI
    XH))))))) :: ((Npos (XO (XO (XI (XO (XO (XI XH))))))) :: ((Npos (XI (XO
    (XI (XO (XO (XI XH))))))) :: []))))))

(** val s_subninja : bytes **)

let s_subninja =
  (Npos (XI (XI (XO (XO (XI (XI XH))))))) :: ((Npos (XI (XO (XI (XO (XI (XI
    XH))))))) :: ((Npos (XO (XI (XO (XO (XO (XI XH))))))) :: ((Npos (XO (XI
    (XI (XI (XO (XI XH))))))) :: ((Npos (XI (XO (XO (XI (XO (XI
    XH))))))) :: ((Npos (XO (XI (XI (XI (XO (XI XH))))))) :: ((Npos (XO (XI
    (XO (XI (XO (XI XH))))))) :: ((Npos (XI (XO (XO (XO (XO (XI
    XH))))))) :: [])))))))

(** val s_phony : bytes **)

let s_phony =
  (Npos (XO (XO (XO (XO (XI (XI XH))))))) :: ((Npos (XO (XO (XO (XI (XO (XI
    XH))))))) :: ((Npos (XI (XI (XI (XI (XO (XI XH))))))) :: ((Npos (XO (XI
    (XI (XI (XO (XI XH))))))) :: ((Npos (XI (XO (XO (XI (XI (XI
    XH))))))) :: []))))

(** val s_command : bytes **)

let s_command =
  (Npos (XI (XI (XO (XO (XO (XI XH))))))) :: ((Npos (XI (XI (XI (XI (XO (XI
    XH))))))) :: ((Npos (XI (XO (XI (XI (XO (XI XH))))))) :: ((Npos (XI (XO
    (XI (XI (XO (XI XH))))))) :: ((Npos (XI (XO (XO (XO (XO (XI
    XH))))))) :: ((Npos (XO (XI (XI (XI (XO (XI XH))))))) :: ((Npos (XO (XO
    (XI (XO (XO (XI XH))))))) :: []))))))

(** val s_depfile : bytes **)

let s_depfile =
  (Npos (XO (XO (XI (XO (XO (XI XH))))))) :: ((Npos (XI (XO (XI (XO (XO (XI
    XH))))))) :: ((Npos (XO (XO (XO (XO (XI (XI XH))))))) :: ((Npos (XO (XI
    (XI (XO (XO (XI XH))))))) :: ((Npos (XI (XO (XO (XI (XO (XI
    XH))))))) :: ((Npos (XO (XO (XI (XI (XO (XI XH))))))) :: ((Npos (XI (XO
    (XI (XO (XO (XI XH))))))) :: []))))))

(** val s_dyndep : bytes **)

let s_dyndep =
  (Npos (XO (XO (XI (XO (XO (XI XH))))))) :: ((Npos (XI (XO (XO (XI (XI (XI
    XH))))))) :: ((Npos (XO (XI (XI (XI (XO (XI XH))))))) :: ((Npos (XO (XO
    (XI (XO (XO (XI XH))))))) :: ((Npos (XI (XO (XI (XO (XO (XI
    XH))))))) :: ((Npos (XO (XO (XO (XO (XI (XI XH))))))) :: [])))))

(** val s_description : bytes **)

let s_description =
  (Npos (XO (XO (XI (XO (XO (XI XH))))))) :: ((Npos (XI (XO (XI (XO (XO (XI
    XH))))))) :: ((Npos (XI (XI (XO (XO (XI (XI XH))))))) :: ((Npos (XI (XI
    (XO (XO (XO (XI XH))))))) :: ((Npos (XO (XI (XO (XO (XI (XI
    XH))))))) :: ((Npos (XI (XO (XO (XI (XO (XI XH))))))) :: ((Npos (XO (XO
    (XO (XO (XI (XI XH))))))) :: ((Npos (XO (XO (XI (XO (XI (XI
    XH))))))) :: ((Npos (XI (XO (XO (XI (XO (XI XH))))))) :: ((Npos (XI (XI
    (XI (XI (XO (XI XH))))))) :: ((Npos (XO (XI (XI (XI (XO (XI
    XH))))))) :: []))))))))))

(** val s_deps : bytes **)

let s_deps =
  (Npos (XO (XO (XI (XO (XO (XI XH))))))) :: ((Npos (XI (XO (XI (XO (XO (XI
    XH))))))) :: ((Npos (XO (XO (XO (XO (XI (XI XH))))))) :: ((Npos (XI (XI
    (XO (XO (XI (XI XH))))))) :: [])))

(** val s_generator : bytes **)

let s_generator =
  (Npos (XI (XI (XI (XO (XO (XI XH))))))) :: ((Npos (XI (XO (XI (XO (XO (XI
    XH))))))) :: ((Npos (XO (XI (XI (XI (XO (XI XH))))))) :: ((Npos (XI (XO
    (XI (XO (XO (XI XH))))))) :: ((Npos (XO (XI (XO (XO (XI (XI
    XH))))))) :: ((Npos (XI (XO (XO (XO (XO (XI XH))))))) :: ((Npos (XO (XO
    (XI (XO (XI (XI XH))))))) :: ((Npos (XI (XI (XI (XI (XO (XI
    XH))))))) :: ((Npos (XO (XI (XO (XO (XI (XI XH))))))) :: []))))))))

(** val s_restat : bytes **)

let s_restat =
  (Npos (XO (XI (XO (XO (XI (XI XH))))))) :: ((Npos (XI (XO (XI (XO (XO (XI
    XH))))))) :: ((Npos (XI (XI (XO (XO (XI (XI XH))))))) :: ((Npos (XO (XO
    (XI (XO (XI (XI XH))))))) :: ((Npos (XI (XO (XO (XO (XO (XI
    XH))))))) :: ((Npos (XO (XO (XI (XO (XI (XI XH))))))) :: [])))))

(** val s_rspfile : bytes **)

let s_rspfile =
  (Npos (XO (XI (XO (XO (XI (XI XH))))))) :: ((Npos (XI (XI (XO (XO (XI (XI
    XH))))))) :: ((Npos (XO (XO (XO (XO (XI (XI XH))))))) :: ((Npos (XO (XI
    (XI (XO (XO (XI XH))))))) :: ((Npos (XI (XO (XO (XI (XO (XI
    XH))))))) :: ((Npos (XO (XO (XI (XI (XO (XI XH))))))) :: ((Npos (XI (XO
    (XI (XO (XO (XI XH))))))) :: []))))))

(** val s_rspfile_content : bytes **)

let s_rspfile_content =
  (Npos (XO (XI (XO (XO (XI (XI XH))))))) :: ((Npos (XI (XI (XO (XO (XI (XI
    XH))))))) :: ((Npos (XO (XO (XO (XO (XI (XI XH))))))) :: ((Npos (XO (XI
    (XI (XO (XO (XI XH))))))) :: ((Npos (XI (XO (XO (XI (XO (XI
    XH))))))) :: ((Npos (XO (XO (XI (XI (XO (XI XH))))))) :: ((Npos (XI (XO
    (XI (XO (XO (XI XH))))))) :: ((Npos (XI (XI (XI (XI (XI (XO
    XH))))))) :: ((Npos (XI (XI (XO (XO (XO (XI XH))))))) :: ((Npos (XI (XI
    (XI (XI (XO (XI XH))))))) :: ((Npos (XO (XI (XI (XI (XO (XI
    XH))))))) :: ((Npos (XO (XO (XI (XO (XI (XI XH))))))) :: ((Npos (XI (XO
    (XI (XO (XO (XI XH))))))) :: ((Npos (XO (XI (XI (XI (XO (XI
    XH))))))) :: ((Npos (XO (XO (XI (XO (XI (XI XH))))))) :: []))))))))))))))

(** val s_msvc_deps_prefix : bytes **)

let s_msvc_deps_prefix =
  (Npos (XI (XO (XI (XI (XO (XI XH))))))) :: ((Npos (XI (XI (XO (XO (XI (XI
    XH))))))) :: ((Npos (XO (XI (XI (XO (XI (XI XH))))))) :: ((Npos (XI (XI
    (XO (XO (XO (XI XH))))))) :: ((Npos (XI (XI (XI (XI (XI (XO
    XH))))))) :: ((Npos (XO (XO (XI (XO (XO (XI XH))))))) :: ((Npos (XI (XO
    (XI (XO (XO (XI XH))))))) :: ((Npos (XO (XO (XO (XO (XI (XI
    XH))))))) :: ((Npos (XI (XI (XO (XO (XI (XI XH))))))) :: ((Npos (XI (XI
    (XI (XI (XI (XO XH))))))) :: ((Npos (XO (XO (XO (XO (XI (XI
    XH))))))) :: ((Npos (XO (XI (XO (XO (XI (XI XH))))))) :: ((Npos (XI (XO
    (XI (XO (XO (XI XH))))))) :: ((Npos (XO (XI (XI (XO (XO (XI
    XH))))))) :: ((Npos (XI (XO (XO (XI (XO (XI XH))))))) :: ((Npos (XO (XO
    (XO (XI (XI (XI XH))))))) :: [])))))))))))))))

(** val s_in : bytes **)

let s_in =
  (Npos (XI (XO (XO (XI (XO (XI XH))))))) :: ((Npos (XO (XI (XI (XI (XO (XI
    XH))))))) :: [])

(** val s_in_newline : bytes **)

let s_in_newline =
  (Npos (XI (XO (XO (XI (XO (XI XH))))))) :: ((Npos (XO (XI (XI (XI (XO (XI
    XH))))))) :: ((Npos (XI (XI (XI (XI (XI (XO XH))))))) :: ((Npos (XO (XI
    (XI (XI (XO (XI XH))))))) :: ((Npos (XI (XO (XI (XO (XO (XI
    XH))))))) :: ((Npos (XI (XI (XI (XO (XI (XI XH))))))) :: ((Npos (XO (XO
    (XI (XI (XO (XI XH))))))) :: ((Npos (XI (XO (XO (XI (XO (XI
    XH))))))) :: ((Npos (XO (XI (XI (XI (XO (XI XH))))))) :: ((Npos (XI (XO
    (XI (XO (XO (XI XH))))))) :: [])))))))))

(** val s_out : bytes **)

let s_out =
  (Npos (XI (XI (XI (XI (XO (XI XH))))))) :: ((Npos (XI (XO (XI (XO (XI (XI
    XH))))))) :: ((Npos (XO (XO (XI (XO (XI (XI XH))))))) :: []))

(** val s_depth : bytes **)

let s_depth =
  (Npos (XO (XO (XI (XO (XO (XI XH))))))) :: ((Npos (XI (XO (XI (XO (XO (XI
    XH))))))) :: ((Npos (XO (XO (XO (XO (XI (XI XH))))))) :: ((Npos (XO (XO
    (XI (XO (XI (XI XH))))))) :: ((Npos (XO (XO (XO (XI (XO (XI
    XH))))))) :: []))))

(** val s_ninja_required_version : bytes **)

let s_ninja_required_version =
  (Npos (XO (XI (XI (XI (XO (XI XH))))))) :: ((Npos (XI (XO (XO (XI (XO (XI
    XH))))))) :: ((Npos (XO (XI (XI (XI (XO (XI XH))))))) :: ((Npos (XO (XI
    (XO (XI (XO (XI XH))))))) :: ((Npos (XI (XO (XO (XO (XO (XI
    XH))))))) :: ((Npos (XI (XI (XI (XI (XI (XO XH))))))) :: ((Npos (XO (XI
    (XO (XO (XI (XI XH))))))) :: ((Npos (XI (XO (XI (XO (XO (XI
    XH))))))) :: ((Npos (XI (XO (XO (XO (XI (XI XH))))))) :: ((Npos (XI (XO
    (XI (XO (XI (XI XH))))))) :: ((Npos (XI (XO (XO (XI (XO (XI
    XH))))))) :: ((Npos (XO (XI (XO (XO (XI (XI XH))))))) :: ((Npos (XI (XO
    (XI (XO (XO (XI XH))))))) :: ((Npos (XO (XO (XI (XO (XO (XI
    XH))))))) :: ((Npos (XI (XI (XI (XI (XI (XO XH))))))) :: ((Npos (XO (XI
    (XI (XO (XI (XI XH))))))) :: ((Npos (XI (XO (XI (XO (XO (XI
    XH))))))) :: ((Npos (XO (XI (XO (XO (XI (XI XH))))))) :: ((Npos (XI (XI
    (XO (XO (XI (XI XH))))))) :: ((Npos (XI (XO (XO (XI (XO (XI
    XH))))))) :: ((Npos (XI (XI (XI (XI (XO (XI XH))))))) :: ((Npos (XO (XI
    (XI (XI (XO (XI XH))))))) :: [])))))))))))))))))))))

(** val s_console : bytes **)

let s_console =
  (Npos (XI (XI (XO (XO (XO (XI XH))))))) :: ((Npos (XI (XI (XI (XI (XO (XI
    XH))))))) :: ((Npos (XO (XI (XI (XI (XO (XI XH))))))) :: ((Npos (XI (XI
    (XO (XO (XI (XI XH))))))) :: ((Npos (XI (XI (XI (XI (XO (XI
    XH))))))) :: ((Npos (XO (XO (XI (XI (XO (XI XH))))))) :: ((Npos (XI (XO
    (XI (XO (XO (XI XH))))))) :: []))))))

(** val in_range : byte -> byte -> byte -> bool **)

let in_range lo hi c =
  (&&) (N.leb lo c) (N.leb c hi)

(** val is_alnum : byte -> bool **)

let is_alnum c =
  (||)
    ((||)
      (in_range (Npos (XI (XO (XO (XO (XO (XI XH))))))) (Npos (XO (XI (XO (XI
        (XI (XI XH))))))) c)
      (in_range (Npos (XI (XO (XO (XO (XO (XO XH))))))) (Npos (XO (XI (XO (XI
        (XI (XO XH))))))) c))
    (in_range (Npos (XO (XO (XO (XO (XI XH)))))) (Npos (XI (XO (XO (XI (XI
      XH)))))) c)

(** val is_simple_varname_char : byte -> bool **)

let is_simple_varname_char c =
  (||) ((||) (is_alnum c) (N.eqb c (Npos (XI (XI (XI (XI (XI (XO XH)))))))))
    (N.eqb c (Npos (XI (XO (XI (XI (XO XH)))))))

(** val is_varname_char : byte -> bool **)

let is_varname_char c =
  (||) (is_simple_varname_char c) (N.eqb c (Npos (XO (XI (XI (XI (XO XH)))))))

type token =
| T_ERROR
| T_BUILD
| T_COLON
| T_DEFAULT
| T_EQUALS
| T_IDENT
| T_INCLUDE
| T_INDENT
| T_NEWLINE
| T_PIPE
| T_PIPE2
| T_PIPEAT
| T_POOL
| T_RULE
| T_SUBNINJA
| T_TEOF

(** val token_eqb : token -> token -> bool **)

let token_eqb a b =
  match a with
  | T_ERROR -> (match b with
                | T_ERROR -> true
                | _ -> false)
  | T_BUILD -> (match b with
                | T_BUILD -> true
                | _ -> false)
  | T_COLON -> (match b with
                | T_COLON -> true
                | _ -> false)
  | T_DEFAULT -> (match b with
                  | T_DEFAULT -> true
                  | _ -> false)
  | T_EQUALS -> (match b with
                 | T_EQUALS -> true
                 | _ -> false)
  | T_IDENT -> (match b with
                | T_IDENT -> true
                | _ -> false)
  | T_INCLUDE -> (match b with
                  | T_INCLUDE -> true
                  | _ -> false)
  | T_INDENT -> (match b with
                 | T_INDENT -> true
                 | _ -> false)
  | T_NEWLINE -> (match b with
                  | T_NEWLINE -> true
                  | _ -> false)
  | T_PIPE -> (match b with
               | T_PIPE -> true
               | _ -> false)
  | T_PIPE2 -> (match b with
                | T_PIPE2 -> true
                | _ -> false)
  | T_PIPEAT -> (match b with
                 | T_PIPEAT -> true
                 | _ -> false)
  | T_POOL -> (match b with
               | T_POOL -> true
               | _ -> false)
  | T_RULE -> (match b with
               | T_RULE -> true
               | _ -> false)
  | T_SUBNINJA -> (match b with
                   | T_SUBNINJA -> true
                   | _ -> false)
  | T_TEOF -> (match b with
               | T_TEOF -> true
               | _ -> false)

(** val eat_ws : bytes -> nat option **)

let rec eat_ws = function
| [] -> None
| c :: s1 ->
  if N.eqb c (Npos (XO (XO (XO (XO (XO XH))))))
  then option_map (fun x -> S x) (eat_ws s1)
  else if N.eqb c (Npos (XO (XO (XI (XO (XO XH))))))
       then (match s1 with
             | [] -> None
             | d :: s2 ->
               if N.eqb d (Npos (XO (XI (XO XH))))
               then option_map (fun n0 -> S (S n0)) (eat_ws s2)
               else if N.eqb d (Npos (XI (XO (XI XH))))
                    then (match s2 with
                          | [] -> None
                          | e :: s3 ->
                            if N.eqb e (Npos (XO (XI (XO XH))))
                            then option_map (fun n0 -> S (S (S n0)))
                                   (eat_ws s3)
                            else Some O)
                    else Some O)
       else Some O

(** val span_varname : bytes -> (bytes * bytes) option **)

let rec span_varname s = match s with
| [] -> None
| c :: s' ->
  if is_varname_char c
  then (match span_varname s' with
        | Some p -> let (w, r) = p in Some ((c :: w), r)
        | None -> None)
  else Some ([], s)

(** val keyword_or_ident : bytes -> token **)

let keyword_or_ident w =
  if bytes_eqb w s_build
  then T_BUILD
  else if bytes_eqb w s_pool
       then T_POOL
       else if bytes_eqb w s_rule
            then T_RULE
            else if bytes_eqb w s_default
                 then T_DEFAULT
                 else if bytes_eqb w s_include
                      then T_INCLUDE
                      else if bytes_eqb w s_subninja
                           then T_SUBNINJA
                           else T_IDENT

(** val scan_plain : byte -> bytes -> (token * nat) option **)

let scan_plain c s' =
  if is_varname_char c
  then (match span_varname s' with
        | Some p ->
          let (w, _) = p in Some ((keyword_or_ident (c :: w)), (S (length w)))
        | None -> None)
  else if N.eqb c (Npos (XI (XO (XI (XI (XI XH))))))
       then Some (T_EQUALS, (S O))
       else if N.eqb c (Npos (XO (XI (XO (XI (XI XH))))))
            then Some (T_COLON, (S O))
            else if N.eqb c (Npos (XO (XO (XI (XI (XI (XI XH)))))))
                 then (match s' with
                       | [] -> None
                       | d :: _ ->
                         if N.eqb d (Npos (XO (XO (XO (XO (XO (XO XH)))))))
                         then Some (T_PIPEAT, (S (S O)))
                         else if N.eqb d (Npos (XO (XO (XI (XI (XI (XI
                                   XH)))))))
                              then Some (T_PIPE2, (S (S O)))
                              else Some (T_PIPE, (S O)))
                 else if N.eqb c N0
                      then Some (T_TEOF, (S O))
                      else Some (T_ERROR, (S O))

type tokres =
| TR of token * nat * nat
| TR_overrun

type rtmode =
| RT_spaces
| RT_comment of nat

(** val read_token_aux : bytes -> nat -> nat -> rtmode -> tokres **)

let rec read_token_aux s start pos m =
  match s with
  | [] -> TR_overrun
  | c :: s' ->
    (match m with
     | RT_spaces ->
       if N.eqb c (Npos (XO (XO (XO (XO (XO XH))))))
       then read_token_aux s' start (S pos) RT_spaces
       else if N.eqb c (Npos (XI (XI (XO (XO (XO XH))))))
            then read_token_aux s' start (S pos) (RT_comment pos)
            else if N.eqb c (Npos (XO (XI (XO XH))))
                 then TR (T_NEWLINE, start, (S pos))
                 else let fallback =
                        if Nat.ltb start pos
                        then TR (T_INDENT, start, pos)
                        else (match scan_plain c s' with
                              | Some p ->
                                let (t, n0) = p in
                                TR (t, start, (add start n0))
                              | None -> TR_overrun)
                      in
                      if N.eqb c (Npos (XI (XO (XI XH))))
                      then (match s' with
                            | [] -> TR_overrun
                            | d :: _ ->
                              if N.eqb d (Npos (XO (XI (XO XH))))
                              then TR (T_NEWLINE, start, (S (S pos)))
                              else fallback)
                      else fallback
     | RT_comment hp ->
       if N.eqb c (Npos (XO (XI (XO XH))))
       then read_token_aux s' (S pos) (S pos) RT_spaces
       else if N.eqb c N0
            then if Nat.ltb start hp
                 then TR (T_INDENT, start, hp)
                 else TR (T_ERROR, start, (S start))
            else read_token_aux s' start (S pos) (RT_comment hp))

(** val scan_ident : bytes -> bytes option option **)

let scan_ident = function
| [] -> None
| c :: s' ->
  if is_varname_char c
  then (match span_varname s' with
        | Some p -> let (w, _) = p in Some (Some (c :: w))
        | None -> None)
  else Some None

type evtok =
| ET_raw of bytes
| ET_special of bytes

type evalstring = evtok list

(** val add_text : evalstring -> bytes -> evalstring **)

let rec add_text es t =
  match es with
  | [] -> (ET_raw t) :: []
  | x :: es' ->
    (match x with
     | ET_raw r ->
       (match es' with
        | [] -> (ET_raw (app r t)) :: []
        | _ :: _ -> x :: (add_text es' t))
     | ET_special _ -> x :: (add_text es' t))

(** val add_special : evalstring -> bytes -> evalstring **)

let add_special es v =
  app es ((ET_special v) :: [])

type lexerr =
| LE_bad_escape
| LE_unexpected_eof
| LE_lexing
| LE_newline_version

type evres =
| EV_ok of evalstring * nat * nat * bool
| EV_err of lexerr * nat option
| EV_overrun

type evmode =
| EM_normal
| EM_dollar of nat
| EM_dollar_cr of nat
| EM_cont
| EM_var of bytes
| EM_brace of nat * bytes
| EM_cr of nat

(** val read_eval_aux :
    bool -> bool -> bytes -> nat -> evmode -> evalstring -> bool -> evres **)

let rec read_eval_aux path caret_ok s pos m es caret =
  match s with
  | [] -> EV_overrun
  | c :: s' ->
    let normal = fun es0 ->
      if N.eqb c (Npos (XO (XO (XI (XO (XO XH))))))
      then read_eval_aux path caret_ok s' (S pos) (EM_dollar pos) es0 caret
      else if N.eqb c (Npos (XI (XO (XI XH))))
           then read_eval_aux path caret_ok s' (S pos) (EM_cr pos) es0 caret
           else if N.eqb c N0
                then EV_err (LE_unexpected_eof, (Some pos))
                else if (||)
                          ((||)
                            ((||)
                              (N.eqb c (Npos (XO (XO (XO (XO (XO XH)))))))
                              (N.eqb c (Npos (XO (XI (XO (XI (XI XH))))))))
                            (N.eqb c (Npos (XO (XO (XI (XI (XI (XI XH)))))))))
                          (N.eqb c (Npos (XO (XI (XO XH)))))
                     then if path
                          then EV_ok (es0, pos, pos, caret)
                          else if N.eqb c (Npos (XO (XI (XO XH))))
                               then EV_ok (es0, (S pos), pos, caret)
                               else read_eval_aux path caret_ok s' (S pos)
                                      EM_normal (add_text es0 (c :: [])) caret
                     else read_eval_aux path caret_ok s' (S pos) EM_normal
                            (add_text es0 (c :: [])) caret
    in
    (match m with
     | EM_normal -> normal es
     | EM_dollar dp ->
       if N.eqb c (Npos (XO (XO (XI (XO (XO XH))))))
       then read_eval_aux path caret_ok s' (S pos) EM_normal
              (add_text es ((Npos (XO (XO (XI (XO (XO XH)))))) :: [])) caret
       else if N.eqb c (Npos (XO (XO (XO (XO (XO XH))))))
            then read_eval_aux path caret_ok s' (S pos) EM_normal
                   (add_text es ((Npos (XO (XO (XO (XO (XO XH)))))) :: []))
                   caret
            else if N.eqb c (Npos (XO (XI (XO (XI (XI XH))))))
                 then read_eval_aux path caret_ok s' (S pos) EM_normal
                        (add_text es ((Npos (XO (XI (XO (XI (XI
                          XH)))))) :: [])) caret
                 else if N.eqb c (Npos (XO (XI (XI (XI (XI (XO XH)))))))
                      then if caret_ok
                           then read_eval_aux path caret_ok s' (S pos)
                                  EM_normal
                                  (add_text es ((Npos (XO (XI (XO
                                    XH)))) :: [])) true
                           else EV_err (LE_newline_version, None)
                      else if N.eqb c (Npos (XO (XI (XO XH))))
                           then read_eval_aux path caret_ok s' (S pos)
                                  EM_cont es caret
                           else if N.eqb c (Npos (XI (XO (XI XH))))
                                then read_eval_aux path caret_ok s' (S pos)
                                       (EM_dollar_cr dp) es caret
                                else if N.eqb c (Npos (XI (XI (XO (XI (XI (XI
                                          XH)))))))
                                     then read_eval_aux path caret_ok s' (S
                                            pos) (EM_brace (dp, [])) es caret
                                     else if is_simple_varname_char c
                                          then read_eval_aux path caret_ok s'
                                                 (S pos) (EM_var (c :: []))
                                                 es caret
                                          else EV_err (LE_bad_escape, (Some
                                                 dp))
     | EM_dollar_cr dp ->
       if N.eqb c (Npos (XO (XI (XO XH))))
       then read_eval_aux path caret_ok s' (S pos) EM_cont es caret
       else EV_err (LE_bad_escape, (Some dp))
     | EM_cont ->
       if N.eqb c (Npos (XO (XO (XO (XO (XO XH))))))
       then read_eval_aux path caret_ok s' (S pos) EM_cont es caret
       else normal es
     | EM_var v ->
       if is_simple_varname_char c
       then read_eval_aux path caret_ok s' (S pos) (EM_var (c :: v)) es caret
       else normal (add_special es (rev v))
     | EM_brace (dp, v) ->
       if is_varname_char c
       then read_eval_aux path caret_ok s' (S pos) (EM_brace (dp, (c :: v)))
              es caret
       else if (&&) (N.eqb c (Npos (XI (XO (XI (XI (XI (XI XH))))))))
                 (negb (match v with
                        | [] -> true
                        | _ :: _ -> false))
            then read_eval_aux path caret_ok s' (S pos) EM_normal
                   (add_special es (rev v)) caret
            else EV_err (LE_bad_escape, (Some dp))
     | EM_cr cp ->
       if N.eqb c (Npos (XO (XI (XO XH))))
       then if path
            then EV_ok (es, cp, cp, caret)
            else EV_ok (es, (S pos), cp, caret)
       else EV_err (LE_lexing, (Some cp)))

type lexer = { lx_file : bytes; lx_input : bytes; lx_ofs : nat;
               lx_last : nat; lx_major : z; lx_minor : z; lx_checked : 
               bool }

(** val lex_start : bytes -> bytes -> z -> z -> bool -> lexer **)

let lex_start file contents major minor checked =
  { lx_file = file; lx_input = (app contents (N0 :: [])); lx_ofs = O;
    lx_last = O; lx_major = major; lx_minor = minor; lx_checked = checked }

(** val lx_rest : lexer -> bytes **)

let lx_rest lx =
  skipn lx.lx_ofs lx.lx_input

(** val lx_set : lexer -> nat -> nat -> lexer **)

let lx_set lx ofs last0 =
  { lx_file = lx.lx_file; lx_input = lx.lx_input; lx_ofs = ofs; lx_last =
    last0; lx_major = lx.lx_major; lx_minor = lx.lx_minor; lx_checked =
    lx.lx_checked }

(** val lx_set_checked : lexer -> lexer **)

let lx_set_checked lx =
  { lx_file = lx.lx_file; lx_input = lx.lx_input; lx_ofs = lx.lx_ofs;
    lx_last = lx.lx_last; lx_major = lx.lx_major; lx_minor = lx.lx_minor;
    lx_checked = true }

(** val lx_set_version : lexer -> z -> z -> lexer **)

let lx_set_version lx major minor =
  { lx_file = lx.lx_file; lx_input = lx.lx_input; lx_ofs = lx.lx_ofs;
    lx_last = lx.lx_last; lx_major = major; lx_minor = minor; lx_checked =
    lx.lx_checked }

(** val count_nl : bytes -> nat **)

let rec count_nl = function
| [] -> O
| c :: s' ->
  if N.eqb c (Npos (XO (XI (XO XH)))) then S (count_nl s') else count_nl s'

(** val lx_line : lexer -> nat **)

let lx_line lx =
  S (count_nl (firstn lx.lx_last lx.lx_input))

(** val lx_eat : lexer -> nat -> nat -> lexer option **)

let lx_eat lx ofs last0 =
  match eat_ws (skipn ofs lx.lx_input) with
  | Some n0 -> Some (lx_set lx (add ofs n0) last0)
  | None -> None

(** val lex_read_token : lexer -> (token * lexer) option **)

let lex_read_token lx =
  match read_token_aux (lx_rest lx) lx.lx_ofs lx.lx_ofs RT_spaces with
  | TR (t, start, stop) ->
    (match t with
     | T_NEWLINE -> Some (t, (lx_set lx stop start))
     | T_TEOF -> Some (t, (lx_set lx stop start))
     | _ ->
       (match lx_eat lx stop start with
        | Some lx' -> Some (t, lx')
        | None -> None))
  | TR_overrun -> None

(** val lex_unread : lexer -> lexer **)

let lex_unread lx =
  lx_set lx lx.lx_last lx.lx_last

(** val lex_peek : lexer -> token -> (bool * lexer) option **)

let lex_peek lx want =
  match lex_read_token lx with
  | Some p ->
    let (t, lx') = p in
    if token_eqb t want
    then Some (true, lx')
    else Some (false, (lex_unread lx'))
  | None -> None

(** val lex_read_ident : lexer -> (bytes option * lexer) option **)

let lex_read_ident lx =
  match scan_ident (lx_rest lx) with
  | Some o ->
    (match o with
     | Some w ->
       (match lx_eat lx (add lx.lx_ofs (length w)) lx.lx_ofs with
        | Some lx' -> Some ((Some w), lx')
        | None -> None)
     | None -> Some (None, (lx_set lx lx.lx_ofs lx.lx_ofs)))
  | None -> None

(** val version_ge_1_14 : z -> z -> bool **)

let version_ge_1_14 major minor =
  negb
    ((||) (Z.ltb major (Zpos XH))
      ((&&) (Z.eqb major (Zpos XH)) (Z.ltb minor (Zpos (XO (XI (XI XH)))))))

type lexevres =
| LV_ok of evalstring * lexer
| LV_err of lexerr * lexer
| LV_overrun

(** val lex_read_eval : bool -> lexer -> lexevres **)

let lex_read_eval path lx =
  let caret_ok = (||) lx.lx_checked (version_ge_1_14 lx.lx_major lx.lx_minor)
  in
  (match read_eval_aux path caret_ok (lx_rest lx) lx.lx_ofs EM_normal [] false with
   | EV_ok (es, stop, last0, caret) ->
     let lx1 = if caret then lx_set_checked lx else lx in
     if path
     then (match lx_eat lx1 stop last0 with
           | Some lx' -> LV_ok (es, lx')
           | None -> LV_overrun)
     else LV_ok (es, (lx_set lx1 stop last0))
   | EV_err (e, last0) ->
     (match last0 with
      | Some l -> LV_err (e, (lx_set lx lx.lx_ofs l))
      | None -> LV_err (e, lx))
   | EV_overrun -> LV_overrun)

(** val lx_last_is_tab : lexer -> bool **)

let lx_last_is_tab lx =
  match skipn lx.lx_last lx.lx_input with
  | [] -> false
  | c :: _ -> N.eqb c (Npos (XI (XO (XO XH))))

(** val split_slash_aux : bytes -> bytes -> bytes list **)

let rec split_slash_aux cur = function
| [] -> (rev cur) :: []
| c :: s' ->
  if N.eqb c b_slash
  then (rev cur) :: (split_slash_aux [] s')
  else split_slash_aux (c :: cur) s'

(** val split_slash : bytes -> bytes list **)

let split_slash s =
  split_slash_aux [] s

(** val is_dot : bytes -> bool **)

let is_dot c =
  bytes_eqb c (b_dot :: [])

(** val is_dotdot : bytes -> bool **)

let is_dotdot c =
  bytes_eqb c (b_dot :: (b_dot :: []))

(** val is_empty : bytes -> bool **)

let is_empty = function
| [] -> true
| _ :: _ -> false

(** val backup_loop : nat -> bytes -> bytes **)

let rec backup_loop dst0 out = match out with
| [] -> []
| c :: out' ->
  if Nat.ltb dst0 (length out)
  then if N.eqb c b_slash then out else backup_loop dst0 out'
  else out

(** val backup : nat -> bytes -> bytes **)

let backup dst0 out =
  backup_loop dst0 (tl out)

(** val strip_dotdot_run : nat -> bytes -> nat * bytes **)

let rec strip_dotdot_run fuel s =
  match fuel with
  | O -> (O, s)
  | S f ->
    (match s with
     | [] -> (O, s)
     | a :: l ->
       (match l with
        | [] -> (O, s)
        | b :: l0 ->
          (match l0 with
           | [] -> (O, s)
           | c :: s' ->
             if (&&) ((&&) (N.eqb a b_dot) (N.eqb b b_dot)) (N.eqb c b_slash)
             then let (k, r) = strip_dotdot_run f s' in ((S k), r)
             else (O, s))))

(** val dotdot_prefix_rev : nat -> bytes **)

let rec dotdot_prefix_rev = function
| O -> []
| S k' -> b_slash :: (b_dot :: (b_dot :: (dotdot_prefix_rev k')))

(** val mid_step : nat -> (nat * bytes) -> bytes -> nat * bytes **)

let mid_step dst0 st c =
  let (count, out) = st in
  if is_empty c
  then st
  else if is_dot c
       then st
       else if is_dotdot c
            then (match count with
                  | O -> (O, (b_slash :: (b_dot :: (b_dot :: out))))
                  | S n0 -> (n0, (backup dst0 out)))
            else ((S count), (b_slash :: (app (rev c) out)))

(** val last_step : nat -> (nat * bytes) -> bytes -> bytes **)

let last_step dst0 st c =
  let (count, out) = st in
  if is_empty c
  then out
  else if is_dot c
       then out
       else if is_dotdot c
            then (match count with
                  | O -> b_dot :: (b_dot :: out)
                  | S _ -> backup dst0 out)
            else app (rev c) out

(** val canon : bytes -> bytes **)

let canon s = match s with
| [] -> []
| c0 :: s1 ->
  if N.eqb c0 b_slash
  then let p = ((S O), (b_slash :: [])) in
       let (dst_start, out0) = p in
       let dst0 = length out0 in
       let comps = split_slash s1 in
       let st = fold_left (mid_step dst0) (removelast comps) (O, out0) in
       let out1 = last_step dst0 st (last comps []) in
       let out2 =
         match out1 with
         | [] -> out1
         | c :: o' ->
           if (&&) (Nat.ltb dst_start (length out1)) (N.eqb c b_slash)
           then o'
           else out1
       in
       (match out2 with
        | [] -> b_dot :: []
        | _ :: _ -> rev out2)
  else let (k, r) = strip_dotdot_run (length s) s in
       let p = (O, (dotdot_prefix_rev k)) in
       let (dst_start, out0) = p in
       let dst0 = length out0 in
       let comps = split_slash r in
       let st = fold_left (mid_step dst0) (removelast comps) (O, out0) in
       let out1 = last_step dst0 st (last comps []) in
       let out2 =
         match out1 with
         | [] -> out1
         | c :: o' ->
           if (&&) (Nat.ltb dst_start (length out1)) (N.eqb c b_slash)
           then o'
           else out1
       in
       (match out2 with
        | [] -> b_dot :: []
        | _ :: _ -> rev out2)

type perr =
| E_lexing
| E_tabs
| E_unexpected of token
| E_expected of token * token
| E_expected_pool_name
| E_dup_pool
| E_bad_depth
| E_unexpected_var
| E_expected_depth
| E_expected_rule_name
| E_dup_rule
| E_rspfile
| E_expected_command
| E_expected_var_name
| E_expected_target
| E_empty_path
| E_unknown_target
| E_expected_path
| E_expected_rule_ref
| E_unknown_rule
| E_unknown_pool
| E_multiple_rules
| E_output_twice
| E_dyndep_not_input
| E_bad_escape
| E_unexpected_eof
| E_newline_version
| E_loading
| E_include_depth
| E_fatal_cycle
| E_fatal_version
| E_include_fuel
| E_overrun
| E_loop_fuel
| E_lookup_fuel

type 'a pres =
| P_ok of 'a
| P_err of bytes * nat * perr

(** val lex_error : lexer -> perr -> 'a1 pres **)

let lex_error lx c =
  P_err (lx.lx_file, (lx_line lx), c)

(** val overrun : lexer -> 'a1 pres **)

let overrun lx =
  P_err (lx.lx_file, O, E_overrun)

(** val lexerr_class : lexerr -> perr **)

let lexerr_class = function
| LE_bad_escape -> E_bad_escape
| LE_unexpected_eof -> E_unexpected_eof
| LE_lexing -> E_lexing
| LE_newline_version -> E_newline_version

(** val assoc_get : bytes -> (bytes * 'a1) list -> 'a1 option **)

let rec assoc_get k = function
| [] -> None
| p :: l' ->
  let (k', v) = p in if bytes_eqb k k' then Some v else assoc_get k l'

type rule = { r_name : bytes; r_bindings : (bytes * evalstring) list;
              r_phony : bool }

(** val phony_rule : rule **)

let phony_rule =
  { r_name = s_phony; r_bindings = []; r_phony = true }

type scope = { sc_bindings : (bytes * bytes) list;
               sc_rules : (bytes * rule) list }

(** val empty_scope : scope **)

let empty_scope =
  { sc_bindings = []; sc_rules = [] }

type env = nat list

type store = scope list

(** val scope_at : store -> nat -> scope **)

let scope_at st id =
  nth id st empty_scope

(** val store_update : store -> nat -> (scope -> scope) -> store **)

let rec store_update st id f =
  match st with
  | [] -> []
  | s :: st' ->
    (match id with
     | O -> (f s) :: st'
     | S n0 -> s :: (store_update st' n0 f))

(** val env_id : env -> nat **)

let env_id e =
  hd O e

(** val add_binding : store -> env -> bytes -> bytes -> store **)

let add_binding st e k v =
  store_update st (env_id e) (fun s -> { sc_bindings = ((k,
    v) :: s.sc_bindings); sc_rules = s.sc_rules })

(** val add_rule : store -> env -> rule -> store **)

let add_rule st e r =
  store_update st (env_id e) (fun s -> { sc_bindings = s.sc_bindings;
    sc_rules = ((r.r_name, r) :: s.sc_rules) })

(** val lookup_var : store -> env -> bytes -> bytes **)

let rec lookup_var st e v =
  match e with
  | [] -> []
  | id :: parents ->
    (match assoc_get v (scope_at st id).sc_bindings with
     | Some x -> x
     | None -> lookup_var st parents v)

(** val lookup_rule : store -> env -> bytes -> rule option **)

let rec lookup_rule st e n0 =
  match e with
  | [] -> None
  | id :: parents ->
    (match assoc_get n0 (scope_at st id).sc_rules with
     | Some r -> Some r
     | None -> lookup_rule st parents n0)

(** val lookup_rule_current : store -> env -> bytes -> rule option **)

let lookup_rule_current st e n0 =
  assoc_get n0 (scope_at st (env_id e)).sc_rules

(** val eval_es : (bytes -> bytes) -> evalstring -> bytes **)

let rec eval_es look = function
| [] -> []
| e :: es' ->
  (match e with
   | ET_raw t -> app t (eval_es look es')
   | ET_special v -> app (look v) (eval_es look es'))

(** val eval_in : store -> env -> evalstring -> bytes **)

let eval_in st e es =
  eval_es (lookup_var st e) es

(** val reserved_names : bytes list **)

let reserved_names =
  s_command :: (s_depfile :: (s_dyndep :: (s_description :: (s_deps :: (s_generator :: (s_pool :: (s_restat :: (s_rspfile :: (s_rspfile_content :: (s_msvc_deps_prefix :: []))))))))))

(** val is_reserved_binding : bytes -> bool **)

let is_reserved_binding v =
  mem_bytes v reserved_names

(** val is_shell_safe : byte -> bool **)

let is_shell_safe c =
  (||)
    ((||)
      ((||)
        ((||)
          ((||) (is_alnum c)
            (N.eqb c (Npos (XI (XI (XI (XI (XI (XO XH)))))))))
          (N.eqb c (Npos (XI (XI (XO (XI (XO XH))))))))
        (N.eqb c (Npos (XI (XO (XI (XI (XO XH))))))))
      (N.eqb c (Npos (XO (XI (XI (XI (XO XH))))))))
    (N.eqb c (Npos (XI (XI (XI (XI (XO XH)))))))

(** val quote_body : bytes -> bytes **)

let rec quote_body = function
| [] -> []
| c :: s' ->
  if N.eqb c (Npos (XI (XI (XI (XO (XO XH))))))
  then (Npos (XI (XI (XI (XO (XO XH)))))) :: ((Npos (XO (XO (XI (XI (XI (XO
         XH))))))) :: ((Npos (XI (XI (XI (XO (XO XH)))))) :: ((Npos (XI (XI
         (XI (XO (XO XH)))))) :: (quote_body s'))))
  else c :: (quote_body s')

(** val shell_escape : bytes -> bytes **)

let shell_escape s =
  if forallb is_shell_safe s
  then s
  else (Npos (XI (XI (XI (XO (XO
         XH)))))) :: (app (quote_body s) ((Npos (XI (XI (XI (XO (XO
                       XH)))))) :: []))

type pool = { p_name : bytes; p_depth : z }

(** val default_pool : pool **)

let default_pool =
  { p_name = []; p_depth = Z0 }

(** val console_pool : pool **)

let console_pool =
  { p_name = s_console; p_depth = (Zpos XH) }

(** val bytes_ltb : bytes -> bytes -> bool **)

let rec bytes_ltb a b =
  match a with
  | [] -> (match b with
           | [] -> false
           | _ :: _ -> true)
  | x :: a' ->
    (match b with
     | [] -> false
     | y :: b' ->
       if N.ltb x y
       then true
       else if N.ltb y x then false else bytes_ltb a' b')

(** val pool_insert : pool -> pool list -> pool list **)

let rec pool_insert p l = match l with
| [] -> p :: []
| q :: l' ->
  if bytes_ltb p.p_name q.p_name then p :: l else q :: (pool_insert p l')

(** val lookup_pool : bytes -> pool list -> pool option **)

let rec lookup_pool n0 = function
| [] -> None
| q :: l' -> if bytes_eqb n0 q.p_name then Some q else lookup_pool n0 l'

type edge = { e_rule : rule; e_env : env; e_pool : pool; e_outs : bytes list;
              e_implicit_outs : nat; e_ins : bytes list;
              e_implicit_deps : nat; e_order_only_deps : nat;
              e_validations : bytes list; e_dyndep : bytes }

(** val path_list : bool -> byte -> bytes list -> bytes **)

let path_list esc sep paths =
  fold_left (fun acc p ->
    app (match acc with
         | [] -> []
         | _ :: _ -> app acc (sep :: [])) (if esc then shell_escape p else p))
    paths []

type lres =
| L_ok of bytes
| L_cycle
| L_fuel

(** val eval_es_l : (bytes -> lres) -> evalstring -> lres **)

let rec eval_es_l look = function
| [] -> L_ok []
| e :: es' ->
  (match e with
   | ET_raw t ->
     (match eval_es_l look es' with
      | L_ok r -> L_ok (app t r)
      | x -> x)
   | ET_special v ->
     (match look v with
      | L_ok a ->
        (match eval_es_l look es' with
         | L_ok r -> L_ok (app a r)
         | x -> x)
      | x -> x))

(** val edge_lookup :
    nat -> store -> edge -> bool -> bytes list -> bool -> bytes -> lres **)

let rec edge_lookup fuel st e esc lookups recursive var =
  match fuel with
  | O -> L_fuel
  | S f ->
    if (||) (bytes_eqb var s_in) (bytes_eqb var s_in_newline)
    then let n0 =
           sub (sub (length e.e_ins) e.e_implicit_deps) e.e_order_only_deps
         in
         L_ok
         (path_list esc
           (if bytes_eqb var s_in
            then Npos (XO (XO (XO (XO (XO XH)))))
            else Npos (XO (XI (XO XH)))) (firstn n0 e.e_ins))
    else if bytes_eqb var s_out
         then let n0 = sub (length e.e_outs) e.e_implicit_outs in
              L_ok
              (path_list esc (Npos (XO (XO (XO (XO (XO XH))))))
                (firstn n0 e.e_outs))
         else if (&&) recursive (mem_bytes var lookups)
              then L_cycle
              else let ev = assoc_get var e.e_rule.r_bindings in
                   let lookups' =
                     match ev with
                     | Some _ ->
                       if recursive then app lookups (var :: []) else lookups
                     | None -> lookups
                   in
                   (match assoc_get var
                            (scope_at st (env_id e.e_env)).sc_bindings with
                    | Some x -> L_ok x
                    | None ->
                      (match ev with
                       | Some es ->
                         eval_es_l (edge_lookup f st e esc lookups' true) es
                       | None -> L_ok (lookup_var st (tl e.e_env) var)))

(** val lookup_fuel : edge -> nat **)

let lookup_fuel e =
  add (length e.e_rule.r_bindings) (S (S (S O)))

(** val get_binding : store -> edge -> bytes -> lres **)

let get_binding st e k =
  edge_lookup (lookup_fuel e) st e true [] false k

(** val get_unescaped : store -> edge -> bytes -> lres **)

let get_unescaped st e k =
  edge_lookup (lookup_fuel e) st e false [] false k

(** val is_digit : byte -> bool **)

let is_digit c =
  in_range (Npos (XO (XO (XO (XO (XI XH)))))) (Npos (XI (XO (XO (XI (XI
    XH)))))) c

(** val digits_value : z -> bytes -> z **)

let rec digits_value acc = function
| [] -> acc
| c :: s' ->
  digits_value
    (Z.add (Z.mul acc (Zpos (XO (XI (XO XH)))))
      (Z.of_N (N.sub c (Npos (XO (XO (XO (XO (XI XH))))))))) s'

(** val parse_depth : bytes -> z option **)

let parse_depth s = match s with
| [] ->
  let neg = false in
  (match s with
   | [] -> None
   | _ :: _ ->
     if forallb is_digit s
     then let v = digits_value Z0 s in
          let v' = if neg then Z.opp v else v in
          if (&&)
               ((&&)
                 (Z.leb (Zneg (XO (XO (XO (XO (XO (XO (XO (XO (XO (XO (XO (XO
                   (XO (XO (XO (XO (XO (XO (XO (XO (XO (XO (XO (XO (XO (XO
                   (XO (XO (XO (XO (XO XH)))))))))))))))))))))))))))))))) v')
                 (Z.leb v' (Zpos (XI (XI (XI (XI (XI (XI (XI (XI (XI (XI (XI
                   (XI (XI (XI (XI (XI (XI (XI (XI (XI (XI (XI (XI (XI (XI
                   (XI (XI (XI (XI (XI XH)))))))))))))))))))))))))))))))))
               (Z.leb Z0 v')
          then Some v'
          else None
     else None)
| c :: s' ->
  if N.eqb c (Npos (XI (XO (XI (XI (XO XH))))))
  then let neg = true in
       (match s' with
        | [] -> None
        | _ :: _ ->
          if forallb is_digit s'
          then let v = digits_value Z0 s' in
               let v' = if neg then Z.opp v else v in
               if (&&)
                    ((&&)
                      (Z.leb (Zneg (XO (XO (XO (XO (XO (XO (XO (XO (XO (XO
                        (XO (XO (XO (XO (XO (XO (XO (XO (XO (XO (XO (XO (XO
                        (XO (XO (XO (XO (XO (XO (XO (XO
                        XH)))))))))))))))))))))))))))))))) v')
                      (Z.leb v' (Zpos (XI (XI (XI (XI (XI (XI (XI (XI (XI (XI
                        (XI (XI (XI (XI (XI (XI (XI (XI (XI (XI (XI (XI (XI
                        (XI (XI (XI (XI (XI (XI (XI
                        XH))))))))))))))))))))))))))))))))) (Z.leb Z0 v')
               then Some v'
               else None
          else None)
  else let neg = false in
       (match s with
        | [] -> None
        | _ :: _ ->
          if forallb is_digit s
          then let v = digits_value Z0 s in
               let v' = if neg then Z.opp v else v in
               if (&&)
                    ((&&)
                      (Z.leb (Zneg (XO (XO (XO (XO (XO (XO (XO (XO (XO (XO
                        (XO (XO (XO (XO (XO (XO (XO (XO (XO (XO (XO (XO (XO
                        (XO (XO (XO (XO (XO (XO (XO (XO
                        XH)))))))))))))))))))))))))))))))) v')
                      (Z.leb v' (Zpos (XI (XI (XI (XI (XI (XI (XI (XI (XI (XI
                        (XI (XI (XI (XI (XI (XI (XI (XI (XI (XI (XI (XI (XI
                        (XI (XI (XI (XI (XI (XI (XI
                        XH))))))))))))))))))))))))))))))))) (Z.leb Z0 v')
               then Some v'
               else None
          else None)

(** val is_c_space : byte -> bool **)

let is_c_space c =
  (||) (in_range (Npos (XI (XO (XO XH)))) (Npos (XI (XO (XI XH)))) c)
    (N.eqb c (Npos (XO (XO (XO (XO (XO XH)))))))

(** val skip_c_space : bytes -> bytes **)

let rec skip_c_space s = match s with
| [] -> []
| c :: s' -> if is_c_space c then skip_c_space s' else s

(** val take_digits : bytes -> bytes **)

let rec take_digits = function
| [] -> []
| c :: s' -> if is_digit c then c :: (take_digits s') else []

(** val wrap_int32 : z -> z **)

let wrap_int32 z0 =
  let m =
    Z.modulo z0 (Zpos (XO (XO (XO (XO (XO (XO (XO (XO (XO (XO (XO (XO (XO (XO
      (XO (XO (XO (XO (XO (XO (XO (XO (XO (XO (XO (XO (XO (XO (XO (XO (XO (XO
      XH)))))))))))))))))))))))))))))))))
  in
  if Z.ltb m (Zpos (XO (XO (XO (XO (XO (XO (XO (XO (XO (XO (XO (XO (XO (XO
       (XO (XO (XO (XO (XO (XO (XO (XO (XO (XO (XO (XO (XO (XO (XO (XO (XO
       XH))))))))))))))))))))))))))))))))
  then m
  else Z.sub m (Zpos (XO (XO (XO (XO (XO (XO (XO (XO (XO (XO (XO (XO (XO (XO
         (XO (XO (XO (XO (XO (XO (XO (XO (XO (XO (XO (XO (XO (XO (XO (XO (XO
         (XO XH)))))))))))))))))))))))))))))))))

(** val atoi : bytes -> z **)

let atoi s =
  let s1 = skip_c_space s in
  (match s1 with
   | [] ->
     let neg = false in
     let v = digits_value Z0 (take_digits s1) in
     let v' = if neg then Z.opp v else v in
     let clamped =
       Z.max (Zneg (XO (XO (XO (XO (XO (XO (XO (XO (XO (XO (XO (XO (XO (XO
         (XO (XO (XO (XO (XO (XO (XO (XO (XO (XO (XO (XO (XO (XO (XO (XO (XO
         (XO (XO (XO (XO (XO (XO (XO (XO (XO (XO (XO (XO (XO (XO (XO (XO (XO
         (XO (XO (XO (XO (XO (XO (XO (XO (XO (XO (XO (XO (XO (XO (XO
         XH))))))))))))))))))))))))))))))))))))))))))))))))))))))))))))))))
         (Z.min (Zpos (XI (XI (XI (XI (XI (XI (XI (XI (XI (XI (XI (XI (XI (XI
           (XI (XI (XI (XI (XI (XI (XI (XI (XI (XI (XI (XI (XI (XI (XI (XI
           (XI (XI (XI (XI (XI (XI (XI (XI (XI (XI (XI (XI (XI (XI (XI (XI
           (XI (XI (XI (XI (XI (XI (XI (XI (XI (XI (XI (XI (XI (XI (XI (XI
           XH)))))))))))))))))))))))))))))))))))))))))))))))))))))))))))))))
           v')
     in
     wrap_int32 clamped
   | c :: s' ->
     if N.eqb c (Npos (XI (XO (XI (XI (XO XH))))))
     then let neg = true in
          let v = digits_value Z0 (take_digits s') in
          let v' = if neg then Z.opp v else v in
          let clamped =
            Z.max (Zneg (XO (XO (XO (XO (XO (XO (XO (XO (XO (XO (XO (XO (XO
              (XO (XO (XO (XO (XO (XO (XO (XO (XO (XO (XO (XO (XO (XO (XO (XO
              (XO (XO (XO (XO (XO (XO (XO (XO (XO (XO (XO (XO (XO (XO (XO (XO
              (XO (XO (XO (XO (XO (XO (XO (XO (XO (XO (XO (XO (XO (XO (XO (XO
              (XO (XO
              XH))))))))))))))))))))))))))))))))))))))))))))))))))))))))))))))))
              (Z.min (Zpos (XI (XI (XI (XI (XI (XI (XI (XI (XI (XI (XI (XI
                (XI (XI (XI (XI (XI (XI (XI (XI (XI (XI (XI (XI (XI (XI (XI
                (XI (XI (XI (XI (XI (XI (XI (XI (XI (XI (XI (XI (XI (XI (XI
                (XI (XI (XI (XI (XI (XI (XI (XI (XI (XI (XI (XI (XI (XI (XI
                (XI (XI (XI (XI (XI
                XH)))))))))))))))))))))))))))))))))))))))))))))))))))))))))))))))
                v')
          in
          wrap_int32 clamped
     else if N.eqb c (Npos (XI (XI (XO (XI (XO XH))))))
          then let neg = false in
               let v = digits_value Z0 (take_digits s') in
               let v' = if neg then Z.opp v else v in
               let clamped =
                 Z.max (Zneg (XO (XO (XO (XO (XO (XO (XO (XO (XO (XO (XO (XO
                   (XO (XO (XO (XO (XO (XO (XO (XO (XO (XO (XO (XO (XO (XO
                   (XO (XO (XO (XO (XO (XO (XO (XO (XO (XO (XO (XO (XO (XO
                   (XO (XO (XO (XO (XO (XO (XO (XO (XO (XO (XO (XO (XO (XO
                   (XO (XO (XO (XO (XO (XO (XO (XO (XO
                   XH))))))))))))))))))))))))))))))))))))))))))))))))))))))))))))))))
                   (Z.min (Zpos (XI (XI (XI (XI (XI (XI (XI (XI (XI (XI (XI
                     (XI (XI (XI (XI (XI (XI (XI (XI (XI (XI (XI (XI (XI (XI
                     (XI (XI (XI (XI (XI (XI (XI (XI (XI (XI (XI (XI (XI (XI
                     (XI (XI (XI (XI (XI (XI (XI (XI (XI (XI (XI (XI (XI (XI
                     (XI (XI (XI (XI (XI (XI (XI (XI (XI
                     XH)))))))))))))))))))))))))))))))))))))))))))))))))))))))))))))))
                     v')
               in
               wrap_int32 clamped
          else let neg = false in
               let v = digits_value Z0 (take_digits s1) in
               let v' = if neg then Z.opp v else v in
               let clamped =
                 Z.max (Zneg (XO (XO (XO (XO (XO (XO (XO (XO (XO (XO (XO (XO
                   (XO (XO (XO (XO (XO (XO (XO (XO (XO (XO (XO (XO (XO (XO
                   (XO (XO (XO (XO (XO (XO (XO (XO (XO (XO (XO (XO (XO (XO
                   (XO (XO (XO (XO (XO (XO (XO (XO (XO (XO (XO (XO (XO (XO
                   (XO (XO (XO (XO (XO (XO (XO (XO (XO
                   XH))))))))))))))))))))))))))))))))))))))))))))))))))))))))))))))))
                   (Z.min (Zpos (XI (XI (XI (XI (XI (XI (XI (XI (XI (XI (XI
                     (XI (XI (XI (XI (XI (XI (XI (XI (XI (XI (XI (XI (XI (XI
                     (XI (XI (XI (XI (XI (XI (XI (XI (XI (XI (XI (XI (XI (XI
                     (XI (XI (XI (XI (XI (XI (XI (XI (XI (XI (XI (XI (XI (XI
                     (XI (XI (XI (XI (XI (XI (XI (XI (XI
                     XH)))))))))))))))))))))))))))))))))))))))))))))))))))))))))))))))
                     v')
               in
               wrap_int32 clamped)

(** val split_at_dot : bytes -> bytes * bytes option **)

let rec split_at_dot = function
| [] -> ([], None)
| c :: s' ->
  if N.eqb c (Npos (XO (XI (XI (XI (XO XH))))))
  then ([], (Some s'))
  else let (a, b) = split_at_dot s' in ((c :: a), b)

(** val parse_version : bytes -> z * z **)

let parse_version s =
  let (a, b) = split_at_dot s in
  ((atoi a), (match b with
              | Some r -> atoi r
              | None -> Z0))

(** val version_fatal : z -> z -> bool **)

let version_fatal major minor =
  if Z.ltb major (Zpos XH)
  then false
  else (||)
         ((&&) (Z.eqb major (Zpos XH)) (Z.ltb (Zpos (XO (XI (XI XH)))) minor))
         (Z.ltb (Zpos XH) major)

type lexflags = (z * z) * bool

(** val default_flags : lexflags **)

let default_flags =
  ((Z0, Z0), false)

type pstate = { ps_store : store; ps_pools : pool list; ps_edges : edge list;
                ps_nodes : bytes list; ps_outs : bytes list;
                ps_defaults : bytes list; ps_subflags : lexflags list }

(** val ps_with_store : pstate -> store -> pstate **)

let ps_with_store ps st =
  { ps_store = st; ps_pools = ps.ps_pools; ps_edges = ps.ps_edges; ps_nodes =
    ps.ps_nodes; ps_outs = ps.ps_outs; ps_defaults = ps.ps_defaults;
    ps_subflags = ps.ps_subflags }

(** val set_nth_flags : lexflags list -> nat -> lexflags -> lexflags list **)

let rec set_nth_flags l n0 f =
  match n0 with
  | O -> (match l with
          | [] -> f :: []
          | _ :: l' -> f :: l')
  | S n' ->
    (match l with
     | [] -> default_flags :: (set_nth_flags [] n' f)
     | x :: l' -> x :: (set_nth_flags l' n' f))

(** val initial_state : pstate **)

let initial_state =
  { ps_store = ({ sc_bindings = []; sc_rules = ((s_phony,
    phony_rule) :: []) } :: []); ps_pools =
    (pool_insert console_pool (pool_insert default_pool [])); ps_edges = [];
    ps_nodes = []; ps_outs = []; ps_defaults = []; ps_subflags = [] }

(** val p_read_token : lexer -> (token * lexer) pres **)

let p_read_token lx =
  match lex_read_token lx with
  | Some r -> P_ok r
  | None -> overrun lx

(** val p_peek : lexer -> token -> (bool * lexer) pres **)

let p_peek lx t =
  match lex_peek lx t with
  | Some r -> P_ok r
  | None -> overrun lx

(** val expect_token : lexer -> token -> lexer pres **)

let expect_token lx want =
  match lex_read_token lx with
  | Some p ->
    let (t, lx') = p in
    if token_eqb t want
    then P_ok lx'
    else lex_error lx' (E_expected (want, t))
  | None -> overrun lx

(** val p_read_eval : bool -> lexer -> (evalstring * lexer) pres **)

let p_read_eval path lx =
  match lex_read_eval path lx with
  | LV_ok (es, lx') -> P_ok (es, lx')
  | LV_err (e, lx') -> lex_error lx' (lexerr_class e)
  | LV_overrun -> overrun lx

(** val p_read_ident : lexer -> perr -> (bytes * lexer) pres **)

let p_read_ident lx c =
  match lex_read_ident lx with
  | Some p ->
    let (o, lx') = p in
    (match o with
     | Some w -> P_ok (w, lx')
     | None -> lex_error lx' c)
  | None -> overrun lx

(** val es_empty : evalstring -> bool **)

let es_empty = function
| [] -> true
| _ :: _ -> false

(** val b_empty : bytes -> bool **)

let b_empty = function
| [] -> true
| _ :: _ -> false

(** val parse_let : lexer -> ((bytes * evalstring) * lexer) pres **)

let parse_let lx =
  match p_read_ident lx E_expected_var_name with
  | P_ok a ->
    let (key, lx1) = a in
    (match expect_token lx1 T_EQUALS with
     | P_ok lx2 ->
       (match p_read_eval false lx2 with
        | P_ok a0 -> let (val0, lx3) = a0 in P_ok ((key, val0), lx3)
        | P_err (f, l, c) -> P_err (f, l, c))
     | P_err (f, l, c) -> P_err (f, l, c))
  | P_err (f, l, c) -> P_err (f, l, c)

(** val read_paths : nat -> lexer -> (evalstring list * lexer) pres **)

let rec read_paths fuel lx =
  match fuel with
  | O -> P_err (lx.lx_file, O, E_loop_fuel)
  | S f ->
    (match p_read_eval true lx with
     | P_ok a ->
       let (es, lx1) = a in
       if es_empty es
       then P_ok ([], lx1)
       else (match read_paths f lx1 with
             | P_ok a0 -> let (l, lx2) = a0 in P_ok ((es :: l), lx2)
             | P_err (f0, l0, c) -> P_err (f0, l0, c))
     | P_err (f0, l0, c) -> P_err (f0, l0, c))

(** val read_opt_paths :
    nat -> lexer -> token -> (evalstring list * lexer) pres **)

let read_opt_paths fuel lx tok =
  match p_peek lx tok with
  | P_ok a ->
    let (b, lx1) = a in if b then read_paths fuel lx1 else P_ok ([], lx1)
  | P_err (f, l, c) -> P_err (f, l, c)

(** val pool_block : nat -> store -> env -> lexer -> z -> (z * lexer) pres **)

let rec pool_block fuel st e lx depth =
  match fuel with
  | O -> P_err (lx.lx_file, O, E_loop_fuel)
  | S f ->
    (match p_peek lx T_INDENT with
     | P_ok a ->
       let (b, lx1) = a in
       if b
       then (match parse_let lx1 with
             | P_ok a0 ->
               let (p, lx2) = a0 in
               let (key, val0) = p in
               if bytes_eqb key s_depth
               then (match parse_depth (eval_in st e val0) with
                     | Some d -> pool_block f st e lx2 d
                     | None -> lex_error lx2 E_bad_depth)
               else lex_error lx2 E_unexpected_var
             | P_err (f0, l, c) -> P_err (f0, l, c))
       else P_ok (depth, lx1)
     | P_err (f0, l, c) -> P_err (f0, l, c))

(** val parse_pool :
    nat -> env -> lexer -> pstate -> (lexer * pstate) pres **)

let parse_pool fuel e lx ps =
  match p_read_ident lx E_expected_pool_name with
  | P_ok a ->
    let (name, lx1) = a in
    (match expect_token lx1 T_NEWLINE with
     | P_ok lx2 ->
       (match lookup_pool name ps.ps_pools with
        | Some _ -> lex_error lx2 E_dup_pool
        | None ->
          (match pool_block fuel ps.ps_store e lx2 (Zneg XH) with
           | P_ok a0 ->
             let (depth, lx3) = a0 in
             if Z.ltb depth Z0
             then lex_error lx3 E_expected_depth
             else P_ok (lx3, { ps_store = ps.ps_store; ps_pools =
                    (pool_insert { p_name = name; p_depth = depth }
                      ps.ps_pools); ps_edges = ps.ps_edges; ps_nodes =
                    ps.ps_nodes; ps_outs = ps.ps_outs; ps_defaults =
                    ps.ps_defaults; ps_subflags = ps.ps_subflags })
           | P_err (f, l, c) -> P_err (f, l, c)))
     | P_err (f, l, c) -> P_err (f, l, c))
  | P_err (f, l, c) -> P_err (f, l, c)

(** val rule_block :
    nat -> lexer -> (bytes * evalstring) list -> ((bytes * evalstring)
    list * lexer) pres **)

let rec rule_block fuel lx acc =
  match fuel with
  | O -> P_err (lx.lx_file, O, E_loop_fuel)
  | S f ->
    (match p_peek lx T_INDENT with
     | P_ok a ->
       let (b, lx1) = a in
       if b
       then (match parse_let lx1 with
             | P_ok a0 ->
               let (p, lx2) = a0 in
               let (key, val0) = p in
               if is_reserved_binding key
               then rule_block f lx2 ((key, val0) :: acc)
               else lex_error lx2 E_unexpected_var
             | P_err (f0, l, c) -> P_err (f0, l, c))
       else P_ok (acc, lx1)
     | P_err (f0, l, c) -> P_err (f0, l, c))

(** val touch_binding :
    bytes -> (bytes * evalstring) list -> (bytes * evalstring) list **)

let touch_binding k l =
  match assoc_get k l with
  | Some _ -> l
  | None -> (k, []) :: l

(** val binding_empty : bytes -> (bytes * evalstring) list -> bool **)

let binding_empty k l =
  match assoc_get k l with
  | Some es -> es_empty es
  | None -> true

(** val parse_rule :
    nat -> env -> lexer -> pstate -> (lexer * pstate) pres **)

let parse_rule fuel e lx ps =
  match p_read_ident lx E_expected_rule_name with
  | P_ok a ->
    let (name, lx1) = a in
    (match expect_token lx1 T_NEWLINE with
     | P_ok lx2 ->
       (match lookup_rule_current ps.ps_store e name with
        | Some _ -> lex_error lx2 E_dup_rule
        | None ->
          (match rule_block fuel lx2 [] with
           | P_ok a0 ->
             let (bl, lx3) = a0 in
             let bl1 =
               touch_binding s_rspfile_content (touch_binding s_rspfile bl)
             in
             if negb
                  (eqb (binding_empty s_rspfile bl1)
                    (binding_empty s_rspfile_content bl1))
             then lex_error lx3 E_rspfile
             else let bl2 = touch_binding s_command bl1 in
                  if binding_empty s_command bl2
                  then lex_error lx3 E_expected_command
                  else P_ok (lx3,
                         (ps_with_store ps
                           (add_rule ps.ps_store e { r_name = name;
                             r_bindings = bl2; r_phony = false })))
           | P_err (f, l, c) -> P_err (f, l, c)))
     | P_err (f, l, c) -> P_err (f, l, c))
  | P_err (f, l, c) -> P_err (f, l, c)

(** val default_loop :
    nat -> env -> lexer -> pstate -> evalstring -> (lexer * pstate) pres **)

let rec default_loop fuel e lx ps es =
  match fuel with
  | O -> P_err (lx.lx_file, O, E_loop_fuel)
  | S f ->
    let path = eval_in ps.ps_store e es in
    if b_empty path
    then lex_error lx E_empty_path
    else let path' = canon path in
         if mem_bytes path' ps.ps_nodes
         then let ps' = { ps_store = ps.ps_store; ps_pools = ps.ps_pools;
                ps_edges = ps.ps_edges; ps_nodes = ps.ps_nodes; ps_outs =
                ps.ps_outs; ps_defaults = (path' :: ps.ps_defaults);
                ps_subflags = ps.ps_subflags }
              in
              (match p_read_eval true lx with
               | P_ok a ->
                 let (es', lx1) = a in
                 if es_empty es'
                 then (match expect_token lx1 T_NEWLINE with
                       | P_ok lx2 -> P_ok (lx2, ps')
                       | P_err (f0, l, c) -> P_err (f0, l, c))
                 else default_loop f e lx1 ps' es'
               | P_err (f0, l, c) -> P_err (f0, l, c))
         else lex_error lx E_unknown_target

(** val parse_default :
    nat -> env -> lexer -> pstate -> (lexer * pstate) pres **)

let parse_default fuel e lx ps =
  match p_read_eval true lx with
  | P_ok a ->
    let (es, lx1) = a in
    if es_empty es
    then lex_error lx1 E_expected_target
    else default_loop fuel e lx1 ps es
  | P_err (f, l, c) -> P_err (f, l, c)

(** val edge_block :
    nat -> env -> env -> lexer -> store -> (lexer * store) pres **)

let rec edge_block fuel file_env edge_env lx st =
  match fuel with
  | O -> P_err (lx.lx_file, O, E_loop_fuel)
  | S f ->
    (match parse_let lx with
     | P_ok a ->
       let (p, lx1) = a in
       let (key, val0) = p in
       let st' = add_binding st edge_env key (eval_in st file_env val0) in
       (match p_peek lx1 T_INDENT with
        | P_ok a0 ->
          let (b, lx2) = a0 in
          if b
          then edge_block f file_env edge_env lx2 st'
          else P_ok (lx2, st')
        | P_err (f0, l, c) -> P_err (f0, l, c))
     | P_err (f0, l, c) -> P_err (f0, l, c))

(** val add_outs :
    lexer -> store -> env -> bytes list -> evalstring list -> bytes list ->
    bytes list pres **)

let rec add_outs lx st e global_outs l acc =
  match l with
  | [] -> P_ok (rev acc)
  | es :: l' ->
    let path = eval_in st e es in
    if b_empty path
    then lex_error lx E_empty_path
    else let path' = canon path in
         if mem_bytes path' acc
         then lex_error lx E_output_twice
         else if mem_bytes path' global_outs
              then lex_error lx E_multiple_rules
              else add_outs lx st e global_outs l' (path' :: acc)

(** val eval_paths :
    lexer -> store -> env -> evalstring list -> bytes list pres **)

let rec eval_paths lx st e = function
| [] -> P_ok []
| es :: l' ->
  let path = eval_in st e es in
  if b_empty path
  then lex_error lx E_empty_path
  else (match eval_paths lx st e l' with
        | P_ok r -> P_ok ((canon path) :: r)
        | P_err (f, l0, c) -> P_err (f, l0, c))

(** val lres_to_pres : lres -> bytes pres **)

let lres_to_pres = function
| L_ok v -> P_ok v
| L_cycle -> P_err ([], O, E_fatal_cycle)
| L_fuel -> P_err ([], O, E_lookup_fuel)

(** val remove_bytes : bytes -> bytes list -> bytes list **)

let rec remove_bytes x = function
| [] -> []
| y :: l' ->
  if bytes_eqb y x then remove_bytes x l' else y :: (remove_bytes x l')

(** val count_bytes : bytes -> bytes list -> nat **)

let rec count_bytes x = function
| [] -> O
| y :: l' -> if bytes_eqb y x then S (count_bytes x l') else count_bytes x l'

(** val phony_filter : bytes -> bytes list -> nat -> bytes list * nat **)

let phony_filter out ins order_only =
  ((remove_bytes out ins),
    (sub order_only
      (count_bytes out (skipn (sub (length ins) order_only) ins))))

(** val maybe_phonycycle : rule -> bytes list -> nat -> nat -> bool **)

let maybe_phonycycle r outs implicit_outs implicit =
  (&&)
    ((&&) ((&&) r.r_phony (Nat.eqb (length outs) (S O)))
      (Nat.eqb implicit_outs O)) (Nat.eqb implicit O)

(** val parse_edge :
    nat -> env -> lexer -> pstate -> (lexer * pstate) pres **)

let parse_edge fuel e lx ps =
  match read_paths fuel lx with
  | P_ok a ->
    let (outs1, lx1) = a in
    (match read_opt_paths fuel lx1 T_PIPE with
     | P_ok a0 ->
       let (outs2, lx2) = a0 in
       let outs = app outs1 outs2 in
       let implicit_outs = length outs2 in
       (match outs with
        | [] -> lex_error lx2 E_expected_path
        | _ :: _ ->
          (match expect_token lx2 T_COLON with
           | P_ok lx3 ->
             (match p_read_ident lx3 E_expected_rule_ref with
              | P_ok a1 ->
                let (rule_name, lx4) = a1 in
                (match lookup_rule ps.ps_store e rule_name with
                 | Some rule0 ->
                   (match read_paths fuel lx4 with
                    | P_ok a2 ->
                      let (ins1, lx5) = a2 in
                      (match read_opt_paths fuel lx5 T_PIPE with
                       | P_ok a3 ->
                         let (ins2, lx6) = a3 in
                         (match read_opt_paths fuel lx6 T_PIPE2 with
                          | P_ok a4 ->
                            let (ins3, lx7) = a4 in
                            (match read_opt_paths fuel lx7 T_PIPEAT with
                             | P_ok a5 ->
                               let (vals, lx8) = a5 in
                               (match expect_token lx8 T_NEWLINE with
                                | P_ok lx9 ->
                                  let ins = app ins1 (app ins2 ins3) in
                                  let implicit = length ins2 in
                                  let order_only = length ins3 in
                                  (match p_peek lx9 T_INDENT with
                                   | P_ok a6 ->
                                     let (has_indent, lx10) = a6 in
                                     (match if has_indent
                                            then let st0 =
                                                   app ps.ps_store
                                                     (empty_scope :: [])
                                                 in
                                                 let eenv =
                                                   (length ps.ps_store) :: e
                                                 in
                                                 (match edge_block fuel e
                                                          eenv lx10 st0 with
                                                  | P_ok a7 -> P_ok (a7, eenv)
                                                  | P_err (f, l, c) ->
                                                    P_err (f, l, c))
                                            else P_ok ((lx10, ps.ps_store), e) with
                                      | P_ok a7 ->
                                        let (p, eenv) = a7 in
                                        let (lx11, st1) = p in
                                        let edge0 = { e_rule = rule0; e_env =
                                          eenv; e_pool = default_pool;
                                          e_outs = []; e_implicit_outs = O;
                                          e_ins = []; e_implicit_deps = O;
                                          e_order_only_deps = O;
                                          e_validations = []; e_dyndep = [] }
                                        in
                                        (match lres_to_pres
                                                 (get_binding st1 edge0
                                                   s_pool) with
                                         | P_ok pool_name ->
                                           (match if b_empty pool_name
                                                  then P_ok default_pool
                                                  else (match lookup_pool
                                                                pool_name
                                                                ps.ps_pools with
                                                        | Some p0 -> P_ok p0
                                                        | None ->
                                                          lex_error lx11
                                                            E_unknown_pool) with
                                            | P_ok the_pool ->
                                              (match add_outs lx11 st1 eenv
                                                       ps.ps_outs outs [] with
                                               | P_ok out_paths ->
                                                 (match eval_paths lx11 st1
                                                          eenv ins with
                                                  | P_ok in_paths ->
                                                    (match eval_paths lx11
                                                             st1 eenv vals with
                                                     | P_ok val_paths ->
                                                       let (in_paths',
                                                            order_only') =
                                                         if maybe_phonycycle
                                                              rule0 out_paths
                                                              implicit_outs
                                                              implicit
                                                         then phony_filter
                                                                (hd []
                                                                  out_paths)
                                                                in_paths
                                                                order_only
                                                         else (in_paths,
                                                                order_only)
                                                       in
                                                       let edge1 = { e_rule =
                                                         rule0; e_env = eenv;
                                                         e_pool = the_pool;
                                                         e_outs = out_paths;
                                                         e_implicit_outs =
                                                         implicit_outs;
                                                         e_ins = in_paths';
                                                         e_implicit_deps =
                                                         implicit;
                                                         e_order_only_deps =
                                                         order_only';
                                                         e_validations =
                                                         val_paths;
                                                         e_dyndep = [] }
                                                       in
                                                       (match lres_to_pres
                                                                (get_unescaped
                                                                  st1 edge1
                                                                  s_dyndep) with
                                                        | P_ok dyndep ->
                                                          let fresh =
                                                            (&&)
                                                              (negb
                                                                (b_empty
                                                                  dyndep))
                                                              (negb
                                                                has_indent)
                                                          in
                                                          let st2 =
                                                            if fresh
                                                            then app st1
                                                                   (empty_scope :: [])
                                                            else st1
                                                          in
                                                          let eenv2 =
                                                            if fresh
                                                            then (length st1) :: e
                                                            else eenv
                                                          in
                                                          (match if b_empty
                                                                    dyndep
                                                                 then 
                                                                   P_ok edge1
                                                                 else 
                                                                   let dd =
                                                                    canon
                                                                    dyndep
                                                                   in
                                                                   if 
                                                                    mem_bytes
                                                                    dd
                                                                    in_paths'
                                                                   then 
                                                                    P_ok
                                                                    { e_rule =
                                                                    rule0;
                                                                    e_env =
                                                                    eenv2;
                                                                    e_pool =
                                                                    the_pool;
                                                                    e_outs =
                                                                    out_paths;
                                                                    e_implicit_outs =
                                                                    implicit_outs;
                                                                    e_ins =
                                                                    in_paths';
                                                                    e_implicit_deps =
                                                                    implicit;
                                                                    e_order_only_deps =
                                                                    order_only';
                                                                    e_validations =
                                                                    val_paths;
                                                                    e_dyndep =
                                                                    dd }
                                                                   else 
                                                                    lex_error
                                                                    lx11
                                                                    E_dyndep_not_input with
                                                           | P_ok edge2 ->
                                                             P_ok (lx11,
                                                               { ps_store =
                                                               st2;
                                                               ps_pools =
                                                               ps.ps_pools;
                                                               ps_edges =
                                                               (edge2 :: ps.ps_edges);
                                                               ps_nodes =
                                                               (app val_paths
                                                                 (app
                                                                   in_paths
                                                                   (app
                                                                    out_paths
                                                                    ps.ps_nodes)));
                                                               ps_outs =
                                                               (app out_paths
                                                                 ps.ps_outs);
                                                               ps_defaults =
                                                               ps.ps_defaults;
                                                               ps_subflags =
                                                               ps.ps_subflags })
                                                           | P_err (f, l, c) ->
                                                             P_err (f, l, c))
                                                        | P_err (f, l, c) ->
                                                          P_err (f, l, c))
                                                     | P_err (f, l, c) ->
                                                       P_err (f, l, c))
                                                  | P_err (f, l, c) ->
                                                    P_err (f, l, c))
                                               | P_err (f, l, c) ->
                                                 P_err (f, l, c))
                                            | P_err (f, l, c) ->
                                              P_err (f, l, c))
                                         | P_err (f, l, c) -> P_err (f, l, c))
                                      | P_err (f, l, c) -> P_err (f, l, c))
                                   | P_err (f, l, c) -> P_err (f, l, c))
                                | P_err (f, l, c) -> P_err (f, l, c))
                             | P_err (f, l, c) -> P_err (f, l, c))
                          | P_err (f, l, c) -> P_err (f, l, c))
                       | P_err (f, l, c) -> P_err (f, l, c))
                    | P_err (f, l, c) -> P_err (f, l, c))
                 | None -> lex_error lx4 E_unknown_rule)
              | P_err (f, l, c) -> P_err (f, l, c))
           | P_err (f, l, c) -> P_err (f, l, c)))
     | P_err (f, l, c) -> P_err (f, l, c))
  | P_err (f, l, c) -> P_err (f, l, c)

type loader = lexer -> bytes -> env -> pstate -> pstate pres

(** val max_include_depth : nat **)

let max_include_depth =
  S (S (S (S (S (S (S (S (S (S (S (S (S (S (S (S (S (S (S (S (S (S (S (S (S
    (S (S (S (S (S (S (S (S (S (S (S (S (S (S (S (S (S (S (S (S (S (S (S (S
    (S (S (S (S (S (S (S (S (S (S (S (S (S (S (S (S (S (S (S (S (S (S (S (S
    (S (S (S (S (S (S (S (S (S (S (S (S (S (S (S (S (S (S (S (S (S (S (S (S
    (S (S (S (S (S (S (S (S (S (S (S (S (S (S (S (S (S (S (S (S (S (S (S (S
    (S (S (S (S (S (S (S (S (S (S (S (S (S (S (S (S (S (S (S (S (S (S (S (S
    (S (S (S (S (S (S (S (S (S (S (S (S (S (S (S (S (S (S (S (S (S (S (S (S
    (S (S (S (S (S (S (S (S (S (S (S (S (S (S (S (S (S (S (S (S (S (S (S (S
    (S (S (S (S (S (S (S
    O)))))))))))))))))))))))))))))))))))))))))))))))))))))))))))))))))))))))))))))))))))))))))))))))))))))))))))))))))))))))))))))))))))))))))))))))))))))))))))))))))))))))))))))))))))))))))))))))))))))))

(** val parse_include :
    loader -> nat -> bool -> env -> lexer -> pstate -> (lexer * pstate) pres **)

let parse_include incl depth new_scope e lx ps =
  match p_read_eval true lx with
  | P_ok a ->
    let (es, lx1) = a in
    let path = eval_in ps.ps_store e es in
    if Nat.leb max_include_depth depth
    then lex_error lx1 E_include_depth
    else if new_scope
         then let sub_env = (length ps.ps_store) :: e in
              let ps1 = ps_with_store ps (app ps.ps_store (empty_scope :: []))
              in
              (match incl lx1 path sub_env ps1 with
               | P_ok ps2 ->
                 (match expect_token lx1 T_NEWLINE with
                  | P_ok lx2 -> P_ok (lx2, ps2)
                  | P_err (f, l, c) -> P_err (f, l, c))
               | P_err (f, l, c) -> P_err (f, l, c))
         else (match incl lx1 path e ps with
               | P_ok ps2 ->
                 (match expect_token lx1 T_NEWLINE with
                  | P_ok lx2 -> P_ok (lx2, ps2)
                  | P_err (f, l, c) -> P_err (f, l, c))
               | P_err (f, l, c) -> P_err (f, l, c))
  | P_err (f, l, c) -> P_err (f, l, c)

(** val parse_loop :
    nat -> nat -> loader -> nat -> env -> lexer -> pstate -> (lexer * pstate)
    pres **)

let rec parse_loop fuel total incl depth e lx ps =
  match fuel with
  | O -> P_err (lx.lx_file, O, E_loop_fuel)
  | S f ->
    (match p_read_token lx with
     | P_ok a ->
       let (tok, lx1) = a in
       (match tok with
        | T_ERROR ->
          lex_error lx1 (if lx_last_is_tab lx1 then E_tabs else E_lexing)
        | T_BUILD ->
          (match parse_edge total e lx1 ps with
           | P_ok a0 ->
             let (lx2, ps2) = a0 in parse_loop f total incl depth e lx2 ps2
           | P_err (f0, l, c) -> P_err (f0, l, c))
        | T_DEFAULT ->
          (match parse_default total e lx1 ps with
           | P_ok a0 ->
             let (lx2, ps2) = a0 in parse_loop f total incl depth e lx2 ps2
           | P_err (f0, l, c) -> P_err (f0, l, c))
        | T_IDENT ->
          (match parse_let (lex_unread lx1) with
           | P_ok a0 ->
             let (p, lx2) = a0 in
             let (name, val0) = p in
             let value = eval_in ps.ps_store e val0 in
             if bytes_eqb name s_ninja_required_version
             then let (major, minor) = parse_version value in
                  if version_fatal major minor
                  then P_err ([], O, E_fatal_version)
                  else parse_loop f total incl depth e
                         (lx_set_version lx2 major minor)
                         (ps_with_store ps
                           (add_binding ps.ps_store e name value))
             else parse_loop f total incl depth e lx2
                    (ps_with_store ps (add_binding ps.ps_store e name value))
           | P_err (f0, l, c) -> P_err (f0, l, c))
        | T_INCLUDE ->
          (match parse_include incl depth false e lx1 ps with
           | P_ok a0 ->
             let (lx2, ps2) = a0 in parse_loop f total incl depth e lx2 ps2
           | P_err (f0, l, c) -> P_err (f0, l, c))
        | T_NEWLINE -> parse_loop f total incl depth e lx1 ps
        | T_POOL ->
          (match parse_pool total e lx1 ps with
           | P_ok a0 ->
             let (lx2, ps2) = a0 in parse_loop f total incl depth e lx2 ps2
           | P_err (f0, l, c) -> P_err (f0, l, c))
        | T_RULE ->
          (match parse_rule total e lx1 ps with
           | P_ok a0 ->
             let (lx2, ps2) = a0 in parse_loop f total incl depth e lx2 ps2
           | P_err (f0, l, c) -> P_err (f0, l, c))
        | T_SUBNINJA ->
          (match parse_include incl depth true e lx1 ps with
           | P_ok a0 ->
             let (lx2, ps2) = a0 in parse_loop f total incl depth e lx2 ps2
           | P_err (f0, l, c) -> P_err (f0, l, c))
        | T_TEOF -> P_ok (lx1, ps)
        | _ -> lex_error lx1 (E_unexpected tok))
     | P_err (f0, l, c) -> P_err (f0, l, c))

(** val load :
    nat -> (bytes -> bytes option) -> nat -> lexer option -> bytes -> env ->
    pstate -> pstate pres **)

let rec load ifuel fm depth parent file e ps =
  match ifuel with
  | O ->
    (match parent with
     | Some plx -> lex_error plx E_include_fuel
     | None -> P_err ([], O, E_include_fuel))
  | S f ->
    (match fm file with
     | Some contents ->
       let (p, checked) = nth depth ps.ps_subflags default_flags in
       let (major, minor) = p in
       let lx = lex_start file contents major minor checked in
       let n0 = S (S (length contents)) in
       (match parse_loop n0 n0 (fun plx -> load f fm (S depth) (Some plx))
                depth e lx ps with
        | P_ok a ->
          let (lx', ps') = a in
          P_ok { ps_store = ps'.ps_store; ps_pools = ps'.ps_pools; ps_edges =
          ps'.ps_edges; ps_nodes = ps'.ps_nodes; ps_outs = ps'.ps_outs;
          ps_defaults = ps'.ps_defaults; ps_subflags =
          (set_nth_flags ps'.ps_subflags depth ((lx'.lx_major, lx'.lx_minor),
            lx'.lx_checked)) }
        | P_err (f0, l, c) -> P_err (f0, l, c))
     | None ->
       (match parent with
        | Some plx -> lex_error plx E_loading
        | None -> P_err ([], O, E_loading)))

type edge_dump = { d_rule : bytes; d_outs : bytes list;
                   d_implicit_outs : nat; d_ins : bytes list;
                   d_implicit_deps : nat; d_order_only_deps : nat;
                   d_validations : bytes list; d_pool : bytes;
                   d_pool_depth : z; d_dyndep_node : bytes;
                   d_bindings : bytes list }

type graph_dump = { g_pools : (bytes * z) list; g_defaults : bytes list;
                    g_edges : edge_dump list }

type result =
| Ok of graph_dump
| Err of bytes * nat * perr

(** val dump_keys : (bool * bytes) list **)

let dump_keys =
  (true, s_command) :: ((true, s_description) :: ((false,
    s_depfile) :: ((false, s_dyndep) :: ((false, s_rspfile) :: ((true,
    s_rspfile_content) :: ((true, s_deps) :: ((true, s_restat) :: ((true,
    s_generator) :: ((true, s_msvc_deps_prefix) :: ((true,
    s_pool) :: []))))))))))

(** val eval_keys :
    store -> edge -> (bool * bytes) list -> bytes list pres **)

let rec eval_keys st e = function
| [] -> P_ok []
| p :: ks' ->
  let (esc, k) = p in
  (match lres_to_pres (edge_lookup (lookup_fuel e) st e esc [] false k) with
   | P_ok v ->
     (match eval_keys st e ks' with
      | P_ok r -> P_ok (v :: r)
      | P_err (f, l, c) -> P_err (f, l, c))
   | P_err (f, l, c) -> P_err (f, l, c))

(** val dump_edge : store -> edge -> edge_dump pres **)

let dump_edge st e =
  match eval_keys st e dump_keys with
  | P_ok bl ->
    P_ok { d_rule = e.e_rule.r_name; d_outs = e.e_outs; d_implicit_outs =
      e.e_implicit_outs; d_ins = e.e_ins; d_implicit_deps =
      e.e_implicit_deps; d_order_only_deps = e.e_order_only_deps;
      d_validations = e.e_validations; d_pool = e.e_pool.p_name;
      d_pool_depth = e.e_pool.p_depth; d_dyndep_node = e.e_dyndep;
      d_bindings = bl }
  | P_err (f, l, c) -> P_err (f, l, c)

(** val dump_edges : store -> edge list -> edge_dump list pres **)

let rec dump_edges st = function
| [] -> P_ok []
| e :: l' ->
  (match dump_edge st e with
   | P_ok d ->
     (match dump_edges st l' with
      | P_ok r -> P_ok (d :: r)
      | P_err (f, l0, c) -> P_err (f, l0, c))
   | P_err (f, l0, c) -> P_err (f, l0, c))

(** val dump_state : pstate -> graph_dump pres **)

let dump_state ps =
  match dump_edges ps.ps_store (rev ps.ps_edges) with
  | P_ok el ->
    P_ok { g_pools = (map (fun p -> (p.p_name, p.p_depth)) ps.ps_pools);
      g_defaults = (rev ps.ps_defaults); g_edges = el }
  | P_err (f, l, c) -> P_err (f, l, c)

(** val eval_manifest : (bytes -> bytes option) -> nat -> bytes -> result **)

let eval_manifest fm ifuel root =
  match load ifuel fm O None root (O :: []) initial_state with
  | P_ok ps ->
    (match dump_state ps with
     | P_ok g -> Ok g
     | P_err (f, l, c) -> Err (f, l, c))
  | P_err (f, l, c) -> Err (f, l, c)

type binding_ast = bytes * evalstring

type stmt =
| S_let of nat * bytes * evalstring
| S_rule of nat * bytes * binding_ast list
| S_pool of nat * bytes * binding_ast list
| S_build of nat * evalstring list * evalstring list * bytes
   * evalstring list * evalstring list * evalstring list * evalstring list
   * binding_ast list
| S_default of nat * evalstring list
| S_include of nat * bool * evalstring

(** val parse_block : nat -> lexer -> (binding_ast list * lexer) pres **)

let rec parse_block fuel lx =
  match fuel with
  | O -> P_err (lx.lx_file, O, E_loop_fuel)
  | S f ->
    (match p_peek lx T_INDENT with
     | P_ok a ->
       let (b, lx1) = a in
       if b
       then (match parse_let lx1 with
             | P_ok a0 ->
               let (p, lx2) = a0 in
               (match parse_block f lx2 with
                | P_ok a1 -> let (l, lx3) = a1 in P_ok ((p :: l), lx3)
                | P_err (f0, l0, c) -> P_err (f0, l0, c))
             | P_err (f0, l0, c) -> P_err (f0, l0, c))
       else P_ok ([], lx1)
     | P_err (f0, l0, c) -> P_err (f0, l0, c))

(** val parse_stmts : nat -> nat -> lexer -> stmt list pres **)

let rec parse_stmts fuel total lx =
  match fuel with
  | O -> P_err (lx.lx_file, O, E_loop_fuel)
  | S f ->
    (match p_read_token lx with
     | P_ok a ->
       let (tok, lx1) = a in
       let line = lx_line lx1 in
       (match tok with
        | T_ERROR ->
          lex_error lx1 (if lx_last_is_tab lx1 then E_tabs else E_lexing)
        | T_BUILD ->
          (match read_paths total lx1 with
           | P_ok a0 ->
             let (outs, lx2) = a0 in
             (match read_opt_paths total lx2 T_PIPE with
              | P_ok a1 ->
                let (iouts, lx3) = a1 in
                (match app outs iouts with
                 | [] -> lex_error lx3 E_expected_path
                 | _ :: _ ->
                   (match expect_token lx3 T_COLON with
                    | P_ok lx4 ->
                      (match p_read_ident lx4 E_expected_rule_ref with
                       | P_ok a2 ->
                         let (rule0, lx5) = a2 in
                         (match read_paths total lx5 with
                          | P_ok a3 ->
                            let (ins, lx6) = a3 in
                            (match read_opt_paths total lx6 T_PIPE with
                             | P_ok a4 ->
                               let (imps, lx7) = a4 in
                               (match read_opt_paths total lx7 T_PIPE2 with
                                | P_ok a5 ->
                                  let (oos, lx8) = a5 in
                                  (match read_opt_paths total lx8 T_PIPEAT with
                                   | P_ok a6 ->
                                     let (vals, lx9) = a6 in
                                     (match expect_token lx9 T_NEWLINE with
                                      | P_ok lx10 ->
                                        (match parse_block total lx10 with
                                         | P_ok a7 ->
                                           let (bl, lx11) = a7 in
                                           (match parse_stmts f total lx11 with
                                            | P_ok r ->
                                              P_ok ((S_build (line, outs,
                                                iouts, rule0, ins, imps, oos,
                                                vals, bl)) :: r)
                                            | P_err (f0, l, c) ->
                                              P_err (f0, l, c))
                                         | P_err (f0, l, c) ->
                                           P_err (f0, l, c))
                                      | P_err (f0, l, c) -> P_err (f0, l, c))
                                   | P_err (f0, l, c) -> P_err (f0, l, c))
                                | P_err (f0, l, c) -> P_err (f0, l, c))
                             | P_err (f0, l, c) -> P_err (f0, l, c))
                          | P_err (f0, l, c) -> P_err (f0, l, c))
                       | P_err (f0, l, c) -> P_err (f0, l, c))
                    | P_err (f0, l, c) -> P_err (f0, l, c)))
              | P_err (f0, l, c) -> P_err (f0, l, c))
           | P_err (f0, l, c) -> P_err (f0, l, c))
        | T_DEFAULT ->
          (match read_paths total lx1 with
           | P_ok a0 ->
             let (ts, lx2) = a0 in
             (match ts with
              | [] -> lex_error lx2 E_expected_target
              | _ :: _ ->
                (match expect_token lx2 T_NEWLINE with
                 | P_ok lx3 ->
                   (match parse_stmts f total lx3 with
                    | P_ok r -> P_ok ((S_default (line, ts)) :: r)
                    | P_err (f0, l, c) -> P_err (f0, l, c))
                 | P_err (f0, l, c) -> P_err (f0, l, c)))
           | P_err (f0, l, c) -> P_err (f0, l, c))
        | T_IDENT ->
          (match parse_let (lex_unread lx1) with
           | P_ok a0 ->
             let (p, lx2) = a0 in
             let (name, val0) = p in
             (match parse_stmts f total lx2 with
              | P_ok r -> P_ok ((S_let (line, name, val0)) :: r)
              | P_err (f0, l, c) -> P_err (f0, l, c))
           | P_err (f0, l, c) -> P_err (f0, l, c))
        | T_INCLUDE ->
          (match p_read_eval true lx1 with
           | P_ok a0 ->
             let (p, lx2) = a0 in
             (match expect_token lx2 T_NEWLINE with
              | P_ok lx3 ->
                (match parse_stmts f total lx3 with
                 | P_ok r -> P_ok ((S_include (line, false, p)) :: r)
                 | P_err (f0, l, c) -> P_err (f0, l, c))
              | P_err (f0, l, c) -> P_err (f0, l, c))
           | P_err (f0, l, c) -> P_err (f0, l, c))
        | T_NEWLINE -> parse_stmts f total lx1
        | T_POOL ->
          (match p_read_ident lx1 E_expected_pool_name with
           | P_ok a0 ->
             let (name, lx2) = a0 in
             (match expect_token lx2 T_NEWLINE with
              | P_ok lx3 ->
                (match parse_block total lx3 with
                 | P_ok a1 ->
                   let (bl, lx4) = a1 in
                   (match parse_stmts f total lx4 with
                    | P_ok r -> P_ok ((S_pool (line, name, bl)) :: r)
                    | P_err (f0, l, c) -> P_err (f0, l, c))
                 | P_err (f0, l, c) -> P_err (f0, l, c))
              | P_err (f0, l, c) -> P_err (f0, l, c))
           | P_err (f0, l, c) -> P_err (f0, l, c))
        | T_RULE ->
          (match p_read_ident lx1 E_expected_rule_name with
           | P_ok a0 ->
             let (name, lx2) = a0 in
             (match expect_token lx2 T_NEWLINE with
              | P_ok lx3 ->
                (match parse_block total lx3 with
                 | P_ok a1 ->
                   let (bl, lx4) = a1 in
                   (match parse_stmts f total lx4 with
                    | P_ok r -> P_ok ((S_rule (line, name, bl)) :: r)
                    | P_err (f0, l, c) -> P_err (f0, l, c))
                 | P_err (f0, l, c) -> P_err (f0, l, c))
              | P_err (f0, l, c) -> P_err (f0, l, c))
           | P_err (f0, l, c) -> P_err (f0, l, c))
        | T_SUBNINJA ->
          (match p_read_eval true lx1 with
           | P_ok a0 ->
             let (p, lx2) = a0 in
             (match expect_token lx2 T_NEWLINE with
              | P_ok lx3 ->
                (match parse_stmts f total lx3 with
                 | P_ok r -> P_ok ((S_include (line, true, p)) :: r)
                 | P_err (f0, l, c) -> P_err (f0, l, c))
              | P_err (f0, l, c) -> P_err (f0, l, c))
           | P_err (f0, l, c) -> P_err (f0, l, c))
        | T_TEOF -> P_ok []
        | _ -> lex_error lx1 (E_unexpected tok))
     | P_err (f0, l, c) -> P_err (f0, l, c))

(** val parse_file : bytes -> bytes -> stmt list pres **)

let parse_file file contents =
  let n0 = S (S (length contents)) in
  parse_stmts n0 n0 (lex_start file contents Z0 Z0 true)

type frames = (bytes * bytes) list list

(** val lookup_frames : frames -> bytes -> bytes **)

let rec lookup_frames fr v =
  match fr with
  | [] -> []
  | f :: fr' ->
    (match assoc_get v f with
     | Some x -> x
     | None -> lookup_frames fr' v)

type sframe = { f_vars : (bytes * bytes) list; f_rules : (bytes * rule) list }

type senv = sframe list

(** val senv_frames : senv -> frames **)

let senv_frames e =
  map (fun s -> s.f_vars) e

(** val slookup_rule : senv -> bytes -> rule option **)

let rec slookup_rule e n0 =
  match e with
  | [] -> None
  | f :: e' ->
    (match assoc_get n0 f.f_rules with
     | Some r -> Some r
     | None -> slookup_rule e' n0)

(** val senv_bind : senv -> bytes -> bytes -> senv **)

let senv_bind e k v =
  match e with
  | [] -> { f_vars = ((k, v) :: []); f_rules = [] } :: []
  | f :: e' -> { f_vars = ((k, v) :: f.f_vars); f_rules = f.f_rules } :: e'

(** val senv_add_rule : senv -> rule -> senv **)

let senv_add_rule e r =
  match e with
  | [] -> { f_vars = []; f_rules = ((r.r_name, r) :: []) } :: []
  | f :: e' ->
    { f_vars = f.f_vars; f_rules = ((r.r_name, r) :: f.f_rules) } :: e'

(** val eval_es_o : (bytes -> bytes option) -> evalstring -> bytes option **)

let rec eval_es_o look = function
| [] -> Some []
| e :: es' ->
  (match e with
   | ET_raw t ->
     (match eval_es_o look es' with
      | Some r -> Some (app t r)
      | None -> None)
   | ET_special v ->
     (match look v with
      | Some a ->
        (match eval_es_o look es' with
         | Some r -> Some (app a r)
         | None -> None)
      | None -> None))

(** val spec_lookup :
    nat -> (bytes * bytes) list -> (bytes * evalstring) list -> frames ->
    bytes list -> bytes list -> bool -> bytes -> bytes option **)

let rec spec_lookup fuel block rl file ins outs esc var =
  match fuel with
  | O -> None
  | S f ->
    if bytes_eqb var s_in
    then Some (path_list esc (Npos (XO (XO (XO (XO (XO XH)))))) ins)
    else if bytes_eqb var s_in_newline
         then Some (path_list esc (Npos (XO (XI (XO XH)))) ins)
         else if bytes_eqb var s_out
              then Some
                     (path_list esc (Npos (XO (XO (XO (XO (XO XH)))))) outs)
              else (match assoc_get var block with
                    | Some v -> Some v
                    | None ->
                      (match assoc_get var rl with
                       | Some es ->
                         eval_es_o (spec_lookup f block rl file ins outs esc)
                           es
                       | None -> Some (lookup_frames file var)))

type sstate = { ss_pools : pool list; ss_edges : edge_dump list;
                ss_nodes : bytes list; ss_outs : bytes list;
                ss_defaults : bytes list }

(** val serr : bytes -> nat -> perr -> 'a1 pres **)

let serr file line c =
  P_err (file, line, c)

(** val eval_block :
    frames -> binding_ast list -> (bytes * bytes) list -> (bytes * bytes) list **)

let rec eval_block file bl acc =
  match bl with
  | [] -> acc
  | b :: bl' ->
    let (k, es) = b in
    eval_block file bl' ((k, (eval_es (lookup_frames file) es)) :: acc)

(** val spec_paths :
    bytes -> nat -> (bytes -> bytes) -> evalstring list -> bytes list pres **)

let rec spec_paths fname line look = function
| [] -> P_ok []
| es :: l' ->
  let p = eval_es look es in
  if b_empty p
  then serr fname line E_empty_path
  else (match spec_paths fname line look l' with
        | P_ok r -> P_ok ((canon p) :: r)
        | P_err (f, l0, c) -> P_err (f, l0, c))

(** val check_outs :
    bytes -> nat -> bytes list -> bytes list -> bytes list -> unit pres **)

let rec check_outs fname line global l acc =
  match l with
  | [] -> P_ok ()
  | p :: l' ->
    if mem_bytes p acc
    then serr fname line E_output_twice
    else if mem_bytes p global
         then serr fname line E_multiple_rules
         else check_outs fname line global l' (p :: acc)

(** val spec_eval_keys :
    (bool -> bytes -> bytes option) -> (bool * bytes) list -> bytes list pres **)

let rec spec_eval_keys look = function
| [] -> P_ok []
| p :: ks' ->
  let (esc, k) = p in
  (match look esc k with
   | Some v ->
     (match spec_eval_keys look ks' with
      | P_ok r -> P_ok (v :: r)
      | P_err (f, l, c) -> P_err (f, l, c))
   | None -> P_err ([], O, E_fatal_cycle))

(** val spec_build :
    bytes -> nat -> senv -> sstate -> evalstring list -> evalstring list ->
    bytes -> evalstring list -> evalstring list -> evalstring list ->
    evalstring list -> binding_ast list -> sstate pres **)

let spec_build fname line env0 st outs iouts rname ins imps oos vals bl =
  match slookup_rule env0 rname with
  | Some r ->
    let file = senv_frames env0 in
    let block = eval_block file bl [] in
    let plook = lookup_frames (block :: file) in
    (match spec_paths fname line plook outs with
     | P_ok o1 ->
       (match spec_paths fname line plook iouts with
        | P_ok o2 ->
          (match check_outs fname line st.ss_outs (app o1 o2) [] with
           | P_ok _ ->
             (match spec_paths fname line plook ins with
              | P_ok i1 ->
                (match spec_paths fname line plook imps with
                 | P_ok i2 ->
                   (match spec_paths fname line plook oos with
                    | P_ok i3 ->
                      (match spec_paths fname line plook vals with
                       | P_ok vs ->
                         let self = hd [] o1 in
                         let legacy =
                           (&&)
                             ((&&)
                               ((&&) r.r_phony
                                 (Nat.eqb (length (app o1 o2)) (S O)))
                               (Nat.eqb (length o2) O))
                             (Nat.eqb (length i2) O)
                         in
                         let i1' = if legacy then remove_bytes self i1 else i1
                         in
                         let i3' = if legacy then remove_bytes self i3 else i3
                         in
                         let all_ins = app i1' (app i2 i3') in
                         let fuel = add (length r.r_bindings) (S (S (S O))) in
                         let look = fun esc ->
                           spec_lookup fuel block r.r_bindings file i1' o1 esc
                         in
                         (match look true s_pool with
                          | Some pool_name ->
                            (match look false s_dyndep with
                             | Some dyndep ->
                               (match if b_empty pool_name
                                      then P_ok default_pool
                                      else (match lookup_pool pool_name
                                                    st.ss_pools with
                                            | Some p -> P_ok p
                                            | None ->
                                              serr fname line E_unknown_pool) with
                                | P_ok the_pool ->
                                  (match if b_empty dyndep
                                         then P_ok []
                                         else if mem_bytes (canon dyndep)
                                                   all_ins
                                              then P_ok (canon dyndep)
                                              else serr fname line
                                                     E_dyndep_not_input with
                                   | P_ok dd ->
                                     (match spec_eval_keys look dump_keys with
                                      | P_ok bvals ->
                                        let d = { d_rule = r.r_name; d_outs =
                                          (app o1 o2); d_implicit_outs =
                                          (length o2); d_ins = all_ins;
                                          d_implicit_deps = (length i2);
                                          d_order_only_deps = (length i3');
                                          d_validations = vs; d_pool =
                                          the_pool.p_name; d_pool_depth =
                                          the_pool.p_depth; d_dyndep_node =
                                          dd; d_bindings = bvals }
                                        in
                                        P_ok { ss_pools = st.ss_pools;
                                        ss_edges = (d :: st.ss_edges);
                                        ss_nodes =
                                        (app vs
                                          (app i1
                                            (app i2
                                              (app i3
                                                (app o1 (app o2 st.ss_nodes))))));
                                        ss_outs =
                                        (app (app o1 o2) st.ss_outs);
                                        ss_defaults = st.ss_defaults }
                                      | P_err (f, l, c) -> P_err (f, l, c))
                                   | P_err (f, l, c) -> P_err (f, l, c))
                                | P_err (f, l, c) -> P_err (f, l, c))
                             | None -> P_err ([], O, E_fatal_cycle))
                          | None -> P_err ([], O, E_fatal_cycle))
                       | P_err (f, l, c) -> P_err (f, l, c))
                    | P_err (f, l, c) -> P_err (f, l, c))
                 | P_err (f, l, c) -> P_err (f, l, c))
              | P_err (f, l, c) -> P_err (f, l, c))
           | P_err (f, l, c) -> P_err (f, l, c))
        | P_err (f, l, c) -> P_err (f, l, c))
     | P_err (f, l, c) -> P_err (f, l, c))
  | None -> serr fname line E_unknown_rule

(** val spec_defaults :
    bytes -> nat -> (bytes -> bytes) -> sstate -> evalstring list -> sstate
    pres **)

let rec spec_defaults fname line look st = function
| [] -> P_ok st
| es :: l' ->
  let p = eval_es look es in
  if b_empty p
  then serr fname line E_empty_path
  else if mem_bytes (canon p) st.ss_nodes
       then spec_defaults fname line look { ss_pools = st.ss_pools;
              ss_edges = st.ss_edges; ss_nodes = st.ss_nodes; ss_outs =
              st.ss_outs; ss_defaults = ((canon p) :: st.ss_defaults) } l'
       else serr fname line E_unknown_target

(** val spec_rule :
    bytes -> nat -> senv -> bytes -> binding_ast list -> senv pres **)

let spec_rule fname line env0 name bl =
  match env0 with
  | [] -> serr fname line E_loop_fuel
  | f :: _ ->
    (match assoc_get name f.f_rules with
     | Some _ -> serr fname line E_dup_rule
     | None ->
       if negb (forallb (fun b -> is_reserved_binding (fst b)) bl)
       then serr fname line E_unexpected_var
       else let rb = rev bl in
            let empty = fun k ->
              match assoc_get k rb with
              | Some es -> es_empty es
              | None -> true
            in
            if negb (eqb (empty s_rspfile) (empty s_rspfile_content))
            then serr fname line E_rspfile
            else if empty s_command
                 then serr fname line E_expected_command
                 else P_ok
                        (senv_add_rule env0 { r_name = name; r_bindings = rb;
                          r_phony = false }))

(** val spec_pool_depth :
    bytes -> nat -> (bytes -> bytes) -> binding_ast list -> z option -> z
    option pres **)

let rec spec_pool_depth fname line look bl depth =
  match bl with
  | [] -> P_ok depth
  | b :: bl' ->
    let (k, es) = b in
    if bytes_eqb k s_depth
    then (match parse_depth (eval_es look es) with
          | Some d -> spec_pool_depth fname line look bl' (Some d)
          | None -> serr fname line E_bad_depth)
    else serr fname line E_unexpected_var

type sloader = bytes -> nat -> bytes -> senv -> sstate -> (senv * sstate) pres

(** val spec_stmts :
    sloader -> bytes -> stmt list -> senv -> sstate -> (senv * sstate) pres **)

let rec spec_stmts incl fname l env0 st =
  match l with
  | [] -> P_ok (env0, st)
  | s :: l' ->
    let look = lookup_frames (senv_frames env0) in
    (match s with
     | S_let (_, name, val0) ->
       let value = eval_es look val0 in
       if (&&) (bytes_eqb name s_ninja_required_version)
            (let (major, minor) = parse_version value in
             version_fatal major minor)
       then P_err ([], O, E_fatal_version)
       else spec_stmts incl fname l' (senv_bind env0 name value) st
     | S_rule (line, name, bl) ->
       (match spec_rule fname line env0 name bl with
        | P_ok env' -> spec_stmts incl fname l' env' st
        | P_err (f, l0, c) -> P_err (f, l0, c))
     | S_pool (line, name, bl) ->
       (match lookup_pool name st.ss_pools with
        | Some _ -> serr fname line E_dup_pool
        | None ->
          (match spec_pool_depth fname line look bl None with
           | P_ok d ->
             (match d with
              | Some depth ->
                spec_stmts incl fname l' env0 { ss_pools =
                  (pool_insert { p_name = name; p_depth = depth } st.ss_pools);
                  ss_edges = st.ss_edges; ss_nodes = st.ss_nodes; ss_outs =
                  st.ss_outs; ss_defaults = st.ss_defaults }
              | None -> serr fname line E_expected_depth)
           | P_err (f, l0, c) -> P_err (f, l0, c)))
     | S_build (line, outs, iouts, rname, ins, imps, oos, vals, bl) ->
       (match spec_build fname line env0 st outs iouts rname ins imps oos
                vals bl with
        | P_ok st' -> spec_stmts incl fname l' env0 st'
        | P_err (f, l0, c) -> P_err (f, l0, c))
     | S_default (line, ts) ->
       (match spec_defaults fname line look st ts with
        | P_ok st' -> spec_stmts incl fname l' env0 st'
        | P_err (f, l0, c) -> P_err (f, l0, c))
     | S_include (line, new_scope, p) ->
       let path = eval_es look p in
       if new_scope
       then (match incl fname line path ({ f_vars = []; f_rules =
                     [] } :: env0) st with
             | P_ok a -> let (_, st') = a in spec_stmts incl fname l' env0 st'
             | P_err (f, l0, c) -> P_err (f, l0, c))
       else (match incl fname line path env0 st with
             | P_ok a ->
               let (env', st') = a in spec_stmts incl fname l' env' st'
             | P_err (f, l0, c) -> P_err (f, l0, c)))

(** val spec_load :
    nat -> (bytes -> bytes option) -> bytes -> nat -> bytes -> senv -> sstate
    -> (senv * sstate) pres **)

let rec spec_load ifuel fm parent line file env0 st =
  match ifuel with
  | O -> P_err (parent, line, E_include_depth)
  | S f ->
    (match fm file with
     | Some contents ->
       (match parse_file file contents with
        | P_ok stmts -> spec_stmts (spec_load f fm) file stmts env0 st
        | P_err (f0, l, c) -> P_err (f0, l, c))
     | None -> P_err (parent, line, E_loading))

(** val spec_initial : sstate **)

let spec_initial =
  { ss_pools = (pool_insert console_pool (pool_insert default_pool []));
    ss_edges = []; ss_nodes = []; ss_outs = []; ss_defaults = [] }

(** val spec_manifest : (bytes -> bytes option) -> nat -> bytes -> result **)

let spec_manifest fm ifuel root =
  match spec_load ifuel fm [] O root ({ f_vars = []; f_rules = ((s_phony,
          phony_rule) :: []) } :: []) spec_initial with
  | P_ok a ->
    let (_, st) = a in
    Ok { g_pools = (map (fun p -> (p.p_name, p.p_depth)) st.ss_pools);
    g_defaults = (rev st.ss_defaults); g_edges = (rev st.ss_edges) }
  | P_err (f, l, c) -> Err (f, l, c)
