(* Extraction of the status-reporting model (C20, output part) into its own OCaml module. *)
Require Import ExtrOcamlBasic.
From NinjaV Require Import Base.Bytes Status.StatusDefs.
Extraction Language OCaml.
Set Extraction KeepSingleton.
Extraction "statusmodel.ml" run run_from step init_state render render_err default_format
  elide_middle strip_ansi cstr dec_Z.
