
(** val negb : bool -> bool **)

let negb = function
| true -> false
| false -> true

type nat =
| O
| S of nat

(** val option_map : ('a1 -> 'a2) -> 'a1 option -> 'a2 option **)

let option_map f = function
| Some a -> Some (f a)
| None -> None

(** val length : 'a1 list -> nat **)

let rec length = function
| [] -> O
| _ :: l' -> S (length l')

(** val app : 'a1 list -> 'a1 list -> 'a1 list **)

let rec app l m =
  match l with
  | [] -> m
  | a :: l1 -> a :: (app l1 m)

type comparison =
| Eq
| Lt
| Gt

(** val compOpp : comparison -> comparison **)

let compOpp = function
| Eq -> Eq
| Lt -> Gt
| Gt -> Lt

(** val add : nat -> nat -> nat **)

let rec add n0 m =
  match n0 with
  | O -> m
  | S p -> S (add p m)

(** val sub : nat -> nat -> nat **)

let rec sub n0 m =
  match n0 with
  | O -> n0
  | S k -> (match m with
            | O -> n0
            | S l -> sub k l)

module Nat =
 struct
  (** val eqb : nat -> nat -> bool **)

  let rec eqb n0 m =
    match n0 with
    | O -> (match m with
            | O -> true
            | S _ -> false)
    | S n' -> (match m with
               | O -> false
               | S m' -> eqb n' m')

  (** val leb : nat -> nat -> bool **)

  let rec leb n0 m =
    match n0 with
    | O -> true
    | S n' -> (match m with
               | O -> false
               | S m' -> leb n' m')

  (** val ltb : nat -> nat -> bool **)

  let ltb n0 m =
    leb (S n0) m
 end

(** val tl : 'a1 list -> 'a1 list **)

let tl = function
| [] -> []
| _ :: m -> m

(** val nth_error : 'a1 list -> nat -> 'a1 option **)

let rec nth_error l = function
| O -> (match l with
        | [] -> None
        | x :: _ -> Some x)
| S n1 -> (match l with
           | [] -> None
           | _ :: l0 -> nth_error l0 n1)

(** val last : 'a1 list -> 'a1 -> 'a1 **)

let rec last l d =
  match l with
  | [] -> d
  | a :: l0 -> (match l0 with
                | [] -> a
                | _ :: _ -> last l0 d)

(** val removelast : 'a1 list -> 'a1 list **)

let rec removelast = function
| [] -> []
| a :: l0 -> (match l0 with
              | [] -> []
              | _ :: _ -> a :: (removelast l0))

(** val rev : 'a1 list -> 'a1 list **)

let rec rev = function
| [] -> []
| x :: l' -> app (rev l') (x :: [])

(** val flat_map : ('a1 -> 'a2 list) -> 'a1 list -> 'a2 list **)

let rec flat_map f = function
| [] -> []
| x :: t -> app (f x) (flat_map f t)

(** val fold_left : ('a1 -> 'a2 -> 'a1) -> 'a2 list -> 'a1 -> 'a1 **)

let rec fold_left f l a0 =
  match l with
  | [] -> a0
  | b :: t -> fold_left f t (f a0 b)

(** val existsb : ('a1 -> bool) -> 'a1 list -> bool **)

let rec existsb f = function
| [] -> false
| a :: l0 -> (||) (f a) (existsb f l0)

(** val forallb : ('a1 -> bool) -> 'a1 list -> bool **)

let rec forallb f = function
| [] -> true
| a :: l0 -> (&&) (f a) (forallb f l0)

(** val find : ('a1 -> bool) -> 'a1 list -> 'a1 option **)

let rec find f = function
| [] -> None
| x :: tl0 -> if f x then Some x else find f tl0

(** val firstn : nat -> 'a1 list -> 'a1 list **)

let rec firstn n0 l =
  match n0 with
  | O -> []
  | S n1 -> (match l with
             | [] -> []
             | a :: l0 -> a :: (firstn n1 l0))

(** val skipn : nat -> 'a1 list -> 'a1 list **)

let rec skipn n0 l =
  match n0 with
  | O -> l
  | S n1 -> (match l with
             | [] -> []
             | _ :: l0 -> skipn n1 l0)

(** val repeat : 'a1 -> nat -> 'a1 list **)

let rec repeat x = function
| O -> []
| S k -> x :: (repeat x k)

type positive =
| XI of positive
| XO of positive
| XH

type n =
| N0
| Npos of positive

type z =
| Z0
| Zpos of positive
| Zneg of positive

module Pos =
 struct
  type mask =
  | IsNul
  | IsPos of positive
  | IsNeg
 end

module Coq_Pos =
 struct
  (** val succ : positive -> positive **)

  let rec succ = function
  | XI p -> XO (succ p)
  | XO p -> XI p
  | XH -> XO XH

  (** val add : positive -> positive -> positive **)

  let rec add x y =
    match x with
    | XI p ->
      (match y with
       | XI q -> XO (add_carry p q)
       | XO q -> XI (add p q)
       | XH -> XO (succ p))
    | XO p ->
      (match y with
       | XI q -> XI (add p q)
       | XO q -> XO (add p q)
       | XH -> XI p)
    | XH -> (match y with
             | XI q -> XO (succ q)
             | XO q -> XI q
             | XH -> XO XH)

  (** val add_carry : positive -> positive -> positive **)

  and add_carry x y =
    match x with
    | XI p ->
      (match y with
       | XI q -> XI (add_carry p q)
       | XO q -> XO (add_carry p q)
       | XH -> XI (succ p))
    | XO p ->
      (match y with
       | XI q -> XO (add_carry p q)
       | XO q -> XI (add p q)
       | XH -> XO (succ p))
    | XH ->
      (match y with
       | XI q -> XI (succ q)
       | XO q -> XO (succ q)
       | XH -> XI XH)

  (** val pred_double : positive -> positive **)

  let rec pred_double = function
  | XI p -> XI (XO p)
  | XO p -> XI (pred_double p)
  | XH -> XH

  type mask = Pos.mask =
  | IsNul
  | IsPos of positive
  | IsNeg

  (** val succ_double_mask : mask -> mask **)

  let succ_double_mask = function
  | IsNul -> IsPos XH
  | IsPos p -> IsPos (XI p)
  | IsNeg -> IsNeg

  (** val double_mask : mask -> mask **)

  let double_mask = function
  | IsPos p -> IsPos (XO p)
  | x0 -> x0

  (** val double_pred_mask : positive -> mask **)

  let double_pred_mask = function
  | XI p -> IsPos (XO (XO p))
  | XO p -> IsPos (XO (pred_double p))
  | XH -> IsNul

  (** val sub_mask : positive -> positive -> mask **)

  let rec sub_mask x y =
    match x with
    | XI p ->
      (match y with
       | XI q -> double_mask (sub_mask p q)
       | XO q -> succ_double_mask (sub_mask p q)
       | XH -> IsPos (XO p))
    | XO p ->
      (match y with
       | XI q -> succ_double_mask (sub_mask_carry p q)
       | XO q -> double_mask (sub_mask p q)
       | XH -> IsPos (pred_double p))
    | XH -> (match y with
             | XH -> IsNul
             | _ -> IsNeg)

  (** val sub_mask_carry : positive -> positive -> mask **)

  and sub_mask_carry x y =
    match x with
    | XI p ->
      (match y with
       | XI q -> succ_double_mask (sub_mask_carry p q)
       | XO q -> double_mask (sub_mask p q)
       | XH -> IsPos (pred_double p))
    | XO p ->
      (match y with
       | XI q -> double_mask (sub_mask_carry p q)
       | XO q -> succ_double_mask (sub_mask_carry p q)
       | XH -> double_pred_mask p)
    | XH -> IsNeg

  (** val mul : positive -> positive -> positive **)

  let rec mul x y =
    match x with
    | XI p -> add y (XO (mul p y))
    | XO p -> XO (mul p y)
    | XH -> y

  (** val compare_cont : comparison -> positive -> positive -> comparison **)

  let rec compare_cont r x y =
    match x with
    | XI p ->
      (match y with
       | XI q -> compare_cont r p q
       | XO q -> compare_cont Gt p q
       | XH -> Gt)
    | XO p ->
      (match y with
       | XI q -> compare_cont Lt p q
       | XO q -> compare_cont r p q
       | XH -> Gt)
    | XH -> (match y with
             | XH -> r
             | _ -> Lt)

  (** val compare : positive -> positive -> comparison **)

  let compare =
    compare_cont Eq

  (** val eqb : positive -> positive -> bool **)

  let rec eqb p q =
    match p with
    | XI p0 -> (match q with
                | XI q0 -> eqb p0 q0
                | _ -> false)
    | XO p0 -> (match q with
                | XO q0 -> eqb p0 q0
                | _ -> false)
    | XH -> (match q with
             | XH -> true
             | _ -> false)
 end

module N =
 struct
  (** val sub : n -> n -> n **)

  let sub n0 m =
    match n0 with
    | N0 -> N0
    | Npos n' ->
      (match m with
       | N0 -> n0
       | Npos m' ->
         (match Coq_Pos.sub_mask n' m' with
          | Coq_Pos.IsPos p -> Npos p
          | _ -> N0))

  (** val compare : n -> n -> comparison **)

  let compare n0 m =
    match n0 with
    | N0 -> (match m with
             | N0 -> Eq
             | Npos _ -> Lt)
    | Npos n' -> (match m with
                  | N0 -> Gt
                  | Npos m' -> Coq_Pos.compare n' m')

  (** val eqb : n -> n -> bool **)

  let eqb n0 m =
    match n0 with
    | N0 -> (match m with
             | N0 -> true
             | Npos _ -> false)
    | Npos p -> (match m with
                 | N0 -> false
                 | Npos q -> Coq_Pos.eqb p q)

  (** val leb : n -> n -> bool **)

  let leb x y =
    match compare x y with
    | Gt -> false
    | _ -> true
 end

module Z =
 struct
  (** val double : z -> z **)

  let double = function
  | Z0 -> Z0
  | Zpos p -> Zpos (XO p)
  | Zneg p -> Zneg (XO p)

  (** val succ_double : z -> z **)

  let succ_double = function
  | Z0 -> Zpos XH
  | Zpos p -> Zpos (XI p)
  | Zneg p -> Zneg (Coq_Pos.pred_double p)

  (** val pred_double : z -> z **)

  let pred_double = function
  | Z0 -> Zneg XH
  | Zpos p -> Zpos (Coq_Pos.pred_double p)
  | Zneg p -> Zneg (XI p)

  (** val pos_sub : positive -> positive -> z **)

  let rec pos_sub x y =
    match x with
    | XI p ->
      (match y with
       | XI q -> double (pos_sub p q)
       | XO q -> succ_double (pos_sub p q)
       | XH -> Zpos (XO p))
    | XO p ->
      (match y with
       | XI q -> pred_double (pos_sub p q)
       | XO q -> double (pos_sub p q)
       | XH -> Zpos (Coq_Pos.pred_double p))
    | XH ->
      (match y with
       | XI q -> Zneg (XO q)
       | XO q -> Zneg (Coq_Pos.pred_double q)
       | XH -> Z0)

  (** val add : z -> z -> z **)

  let add x y =
    match x with
    | Z0 -> y
    | Zpos x' ->
      (match y with
       | Z0 -> x
       | Zpos y' -> Zpos (Coq_Pos.add x' y')
       | Zneg y' -> pos_sub x' y')
    | Zneg x' ->
      (match y with
       | Z0 -> x
       | Zpos y' -> pos_sub y' x'
       | Zneg y' -> Zneg (Coq_Pos.add x' y'))

  (** val opp : z -> z **)

  let opp = function
  | Z0 -> Z0
  | Zpos x0 -> Zneg x0
  | Zneg x0 -> Zpos x0

  (** val sub : z -> z -> z **)

  let sub m n0 =
    add m (opp n0)

  (** val mul : z -> z -> z **)

  let mul x y =
    match x with
    | Z0 -> Z0
    | Zpos x' ->
      (match y with
       | Z0 -> Z0
       | Zpos y' -> Zpos (Coq_Pos.mul x' y')
       | Zneg y' -> Zneg (Coq_Pos.mul x' y'))
    | Zneg x' ->
      (match y with
       | Z0 -> Z0
       | Zpos y' -> Zneg (Coq_Pos.mul x' y')
       | Zneg y' -> Zpos (Coq_Pos.mul x' y'))

  (** val compare : z -> z -> comparison **)

  let compare x y =
    match x with
    | Z0 -> (match y with
             | Z0 -> Eq
             | Zpos _ -> Lt
             | Zneg _ -> Gt)
    | Zpos x' -> (match y with
                  | Zpos y' -> Coq_Pos.compare x' y'
                  | _ -> Gt)
    | Zneg x' ->
      (match y with
       | Zneg y' -> compOpp (Coq_Pos.compare x' y')
       | _ -> Lt)

  (** val leb : z -> z -> bool **)

  let leb x y =
    match compare x y with
    | Gt -> false
    | _ -> true

  (** val ltb : z -> z -> bool **)

  let ltb x y =
    match compare x y with
    | Lt -> true
    | _ -> false

  (** val eqb : z -> z -> bool **)

  let eqb x y =
    match x with
    | Z0 -> (match y with
             | Z0 -> true
             | _ -> false)
    | Zpos p -> (match y with
                 | Zpos q -> Coq_Pos.eqb p q
                 | _ -> false)
    | Zneg p -> (match y with
                 | Zneg q -> Coq_Pos.eqb p q
                 | _ -> false)

  (** val max : z -> z -> z **)

  let max n0 m =
    match compare n0 m with
    | Lt -> m
    | _ -> n0

  (** val min : z -> z -> z **)

  let min n0 m =
    match compare n0 m with
    | Gt -> m
    | _ -> n0

  (** val of_N : n -> z **)

  let of_N = function
  | N0 -> Z0
  | Npos p -> Zpos p

  (** val pos_div_eucl : positive -> z -> z * z **)

  let rec pos_div_eucl a b =
    match a with
    | XI a' ->
      let (q, r) = pos_div_eucl a' b in
      let r' = add (mul (Zpos (XO XH)) r) (Zpos XH) in
      if ltb r' b
      then ((mul (Zpos (XO XH)) q), r')
      else ((add (mul (Zpos (XO XH)) q) (Zpos XH)), (sub r' b))
    | XO a' ->
      let (q, r) = pos_div_eucl a' b in
      let r' = mul (Zpos (XO XH)) r in
      if ltb r' b
      then ((mul (Zpos (XO XH)) q), r')
      else ((add (mul (Zpos (XO XH)) q) (Zpos XH)), (sub r' b))
    | XH -> if leb (Zpos (XO XH)) b then (Z0, (Zpos XH)) else ((Zpos XH), Z0)

  (** val div_eucl : z -> z -> z * z **)

  let div_eucl a b =
    match a with
    | Z0 -> (Z0, Z0)
    | Zpos a' ->
      (match b with
       | Z0 -> (Z0, a)
       | Zpos _ -> pos_div_eucl a' b
       | Zneg b' ->
         let (q, r) = pos_div_eucl a' (Zpos b') in
         (match r with
          | Z0 -> ((opp q), Z0)
          | _ -> ((opp (add q (Zpos XH))), (add b r))))
    | Zneg a' ->
      (match b with
       | Z0 -> (Z0, a)
       | Zpos _ ->
         let (q, r) = pos_div_eucl a' b in
         (match r with
          | Z0 -> ((opp q), Z0)
          | _ -> ((opp (add q (Zpos XH))), (sub b r)))
       | Zneg b' -> let (q, r) = pos_div_eucl a' (Zpos b') in (q, (opp r)))

  (** val modulo : z -> z -> z **)

  let modulo a b =
    let (_, r) = div_eucl a b in r
 end

type byte = n

type bytes = byte list

(** val bytes_eqb : bytes -> bytes -> bool **)

let rec bytes_eqb a b =
  match a with
  | [] -> (match b with
           | [] -> true
           | _ :: _ -> false)
  | x :: a' ->
    (match b with
     | [] -> false
     | y :: b' -> (&&) (N.eqb x y) (bytes_eqb a' b'))

(** val mem_bytes : bytes -> bytes list -> bool **)

let rec mem_bytes x = function
| [] -> false
| y :: l' -> (||) (bytes_eqb x y) (mem_bytes x l')

(** val b_slash : byte **)

let b_slash =
  Npos (XI (XI (XI (XI (XO XH)))))

(** val b_dot : byte **)

let b_dot =
  Npos (XO (XI (XI (XI (XO XH)))))

(** val split_slash_aux : bytes -> bytes -> bytes list **)

let rec split_slash_aux cur = function
| [] -> (rev cur) :: []
| c :: s' ->
  if N.eqb c b_slash
  then (rev cur) :: (split_slash_aux [] s')
  else split_slash_aux (c :: cur) s'

(** val split_slash : bytes -> bytes list **)

let split_slash s =
  split_slash_aux [] s

(** val is_dot : bytes -> bool **)

let is_dot c =
  bytes_eqb c (b_dot :: [])

(** val is_dotdot : bytes -> bool **)

let is_dotdot c =
  bytes_eqb c (b_dot :: (b_dot :: []))

(** val is_empty : bytes -> bool **)

let is_empty = function
| [] -> true
| _ :: _ -> false

(** val backup_loop : nat -> bytes -> bytes **)

let rec backup_loop dst0 out = match out with
| [] -> []
| c :: out' ->
  if Nat.ltb dst0 (length out)
  then if N.eqb c b_slash then out else backup_loop dst0 out'
  else out

(** val backup : nat -> bytes -> bytes **)

let backup dst0 out =
  backup_loop dst0 (tl out)

(** val strip_dotdot_run : nat -> bytes -> nat * bytes **)

let rec strip_dotdot_run fuel s =
  match fuel with
  | O -> (O, s)
  | S f ->
    (match s with
     | [] -> (O, s)
     | a :: l ->
       (match l with
        | [] -> (O, s)
        | b :: l0 ->
          (match l0 with
           | [] -> (O, s)
           | c :: s' ->
             if (&&) ((&&) (N.eqb a b_dot) (N.eqb b b_dot)) (N.eqb c b_slash)
             then let (k, r) = strip_dotdot_run f s' in ((S k), r)
             else (O, s))))

(** val dotdot_prefix_rev : nat -> bytes **)

let rec dotdot_prefix_rev = function
| O -> []
| S k' -> b_slash :: (b_dot :: (b_dot :: (dotdot_prefix_rev k')))

(** val mid_step : nat -> (nat * bytes) -> bytes -> nat * bytes **)

let mid_step dst0 st c =
  let (count, out) = st in
  if is_empty c
  then st
  else if is_dot c
       then st
       else if is_dotdot c
            then (match count with
                  | O -> (O, (b_slash :: (b_dot :: (b_dot :: out))))
                  | S n0 -> (n0, (backup dst0 out)))
            else ((S count), (b_slash :: (app (rev c) out)))

(** val last_step : nat -> (nat * bytes) -> bytes -> bytes **)

let last_step dst0 st c =
  let (count, out) = st in
  if is_empty c
  then out
  else if is_dot c
       then out
       else if is_dotdot c
            then (match count with
                  | O -> b_dot :: (b_dot :: out)
                  | S _ -> backup dst0 out)
            else app (rev c) out

(** val canon : bytes -> bytes **)

let canon s = match s with
| [] -> []
| c0 :: s1 ->
  if N.eqb c0 b_slash
  then let p = ((S O), (b_slash :: [])) in
       let (dst_start, out0) = p in
       let dst0 = length out0 in
       let comps = split_slash s1 in
       let st = fold_left (mid_step dst0) (removelast comps) (O, out0) in
       let out1 = last_step dst0 st (last comps []) in
       let out2 =
         match out1 with
         | [] -> out1
         | c :: o' ->
           if (&&) (Nat.ltb dst_start (length out1)) (N.eqb c b_slash)
           then o'
           else out1
       in
       (match out2 with
        | [] -> b_dot :: []
        | _ :: _ -> rev out2)
  else let (k, r) = strip_dotdot_run (length s) s in
       let p = (O, (dotdot_prefix_rev k)) in
       let (dst_start, out0) = p in
       let dst0 = length out0 in
       let comps = split_slash r in
       let st = fold_left (mid_step dst0) (removelast comps) (O, out0) in
       let out1 = last_step dst0 st (last comps []) in
       let out2 =
         match out1 with
         | [] -> out1
         | c :: o' ->
           if (&&) (Nat.ltb dst_start (length out1)) (N.eqb c b_slash)
           then o'
           else out1
       in
       (match out2 with
        | [] -> b_dot :: []
        | _ :: _ -> rev out2)

type token =
| T_ERROR
| T_BUILD
| T_COLON
| T_DEFAULT
| T_EQUALS
| T_IDENT
| T_INCLUDE
| T_INDENT
| T_NEWLINE
| T_PIPE
| T_PIPE2
| T_PIPEAT
| T_POOL
| T_RULE
| T_SUBNINJA
| T_TEOF

(** val token_eqb : token -> token -> bool **)

let token_eqb a b =
  match a with
  | T_ERROR -> (match b with
                | T_ERROR -> true
                | _ -> false)
  | T_BUILD -> (match b with
                | T_BUILD -> true
                | _ -> false)
  | T_COLON -> (match b with
                | T_COLON -> true
                | _ -> false)
  | T_DEFAULT -> (match b with
                  | T_DEFAULT -> true
                  | _ -> false)
  | T_EQUALS -> (match b with
                 | T_EQUALS -> true
                 | _ -> false)
  | T_IDENT -> (match b with
                | T_IDENT -> true
                | _ -> false)
  | T_INCLUDE -> (match b with
                  | T_INCLUDE -> true
                  | _ -> false)
  | T_INDENT -> (match b with
                 | T_INDENT -> true
                 | _ -> false)
  | T_NEWLINE -> (match b with
                  | T_NEWLINE -> true
                  | _ -> false)
  | T_PIPE -> (match b with
               | T_PIPE -> true
               | _ -> false)
  | T_PIPE2 -> (match b with
                | T_PIPE2 -> true
                | _ -> false)
  | T_PIPEAT -> (match b with
                 | T_PIPEAT -> true
                 | _ -> false)
  | T_POOL -> (match b with
               | T_POOL -> true
               | _ -> false)
  | T_RULE -> (match b with
               | T_RULE -> true
               | _ -> false)
  | T_SUBNINJA -> (match b with
                   | T_SUBNINJA -> true
                   | _ -> false)
  | T_TEOF -> (match b with
               | T_TEOF -> true
               | _ -> false)

type dd_err =
| E_loading
| E_version_expected_build
| E_version_expected_eof
| E_version_expected_name
| E_unexpected of token
| E_lex_token of bool
| E_unsupported_version
| E_expected_var_name
| E_expected of token * token
| E_expected_path
| E_empty_path
| E_no_build_stmt
| E_multiple_stmts
| E_explicit_outs
| E_expected_dyndep
| E_explicit_ins
| E_order_only
| E_binding_not_restat
| E_bad_escape
| E_unexpected_eof
| E_lexing
| E_newline_version
| E_not_mentioned
| E_not_bound
| E_multiple_rules
| E_overrun
| E_fuel

type 'a result =
| Ok of 'a
| Err of dd_err

(** val s_build : bytes **)

let s_build =
  (Npos (XO (XI (XO (XO (XO (XI XH))))))) :: ((Npos (XI (XO (XI (XO (XI (XI
    XH))))))) :: ((Npos (XI (XO (XO (XI (XO (XI XH))))))) :: ((Npos (XO (XO
    (XI (XI (XO (XI XH))))))) :: ((Npos (XO (XO (XI (XO (XO (XI
    XH))))))) :: []))))

(** val s_pool : bytes **)

let s_pool =
  (Npos (XO (XO (XO (XO (XI (XI XH))))))) :: ((Npos (XI (XI (XI (XI (XO (XI
    XH))))))) :: ((Npos (XI (XI (XI (XI (XO (XI XH))))))) :: ((Npos (XO (XO
    (XI (XI (XO (XI XH))))))) :: [])))

(** val s_rule : bytes **)

let s_rule =
  (Npos (XO (XI (XO (XO (XI (XI XH))))))) :: ((Npos (XI (XO (XI (XO (XI (XI
    XH))))))) :: ((Npos (XO (XO (XI (XI (XO (XI XH))))))) :: ((Npos (XI (XO
    (XI (XO (XO (XI XH))))))) :: [])))

(** val s_default : bytes **)

let s_default =
  (Npos (XO (XO (XI (XO (XO (XI XH))))))) :: ((Npos (XI (XO (XI (XO (XO (XI
    XH))))))) :: ((Npos (XO (XI (XI (XO (XO (XI XH))))))) :: ((Npos (XI (XO
    (XO (XO (XO (XI XH))))))) :: ((Npos (XI (XO (XI (XO (XI (XI
    XH))))))) :: ((Npos (XO (XO (XI (XI (XO (XI XH))))))) :: ((Npos (XO (XO
    (XI (XO (XI (XI XH))))))) :: []))))))

(** val s_include : bytes **)

let s_include =
  (Npos (XI (XO (XO (XI (XO (XI XH))))))) :: ((Npos (XO (XI (XI (XI (XO (XI
    XH))))))) :: ((Npos (XI (XI (XO (XO (XO (XI XH))))))) :: ((Npos (XO (XO
    (XI (XI (XO (XI XH))))))) :: ((Npos (XI (XO (XI (XO (XI (XI
    XH))))))) :: ((Npos (XO (XO (XI (XO (XO (XI XH))))))) :: ((Npos (XI (XO
    (XI (XO (XO (XI XH))))))) :: []))))))

(** val s_subninja : bytes **)

let s_subninja =
  (Npos (XI (XI (XO (XO (XI (XI XH))))))) :: ((Npos (XI (XO (XI (XO (XI (XI
    XH))))))) :: ((Npos (XO (XI (XO (XO (XO (XI XH))))))) :: ((Npos (XO (XI
    (XI (XI (XO (XI XH))))))) :: ((Npos (XI (XO (XO (XI (XO (XI
    XH))))))) :: ((Npos (XO (XI (XI (XI (XO (XI XH))))))) :: ((Npos (XO (XI
    (XO (XI (XO (XI XH))))))) :: ((Npos (XI (XO (XO (XO (XO (XI
    XH))))))) :: [])))))))

(** val s_dyndep : bytes **)

let s_dyndep =
  (Npos (XO (XO (XI (XO (XO (XI XH))))))) :: ((Npos (XI (XO (XO (XI (XI (XI
    XH))))))) :: ((Npos (XO (XI (XI (XI (XO (XI XH))))))) :: ((Npos (XO (XO
    (XI (XO (XO (XI XH))))))) :: ((Npos (XI (XO (XI (XO (XO (XI
    XH))))))) :: ((Npos (XO (XO (XO (XO (XI (XI XH))))))) :: [])))))

(** val s_restat : bytes **)

let s_restat =
  (Npos (XO (XI (XO (XO (XI (XI XH))))))) :: ((Npos (XI (XO (XI (XO (XO (XI
    XH))))))) :: ((Npos (XI (XI (XO (XO (XI (XI XH))))))) :: ((Npos (XO (XO
    (XI (XO (XI (XI XH))))))) :: ((Npos (XI (XO (XO (XO (XO (XI
    XH))))))) :: ((Npos (XO (XO (XI (XO (XI (XI XH))))))) :: [])))))

(** val s_version_var : bytes **)

let s_version_var =
  (Npos (XO (XI (XI (XI (XO (XI XH))))))) :: ((Npos (XI (XO (XO (XI (XO (XI
    XH))))))) :: ((Npos (XO (XI (XI (XI (XO (XI XH))))))) :: ((Npos (XO (XI
    (XO (XI (XO (XI XH))))))) :: ((Npos (XI (XO (XO (XO (XO (XI
    XH))))))) :: ((Npos (XI (XI (XI (XI (XI (XO XH))))))) :: ((Npos (XO (XO
    (XI (XO (XO (XI XH))))))) :: ((Npos (XI (XO (XO (XI (XI (XI
    XH))))))) :: ((Npos (XO (XI (XI (XI (XO (XI XH))))))) :: ((Npos (XO (XO
    (XI (XO (XO (XI XH))))))) :: ((Npos (XI (XO (XI (XO (XO (XI
    XH))))))) :: ((Npos (XO (XO (XO (XO (XI (XI XH))))))) :: ((Npos (XI (XI
    (XI (XI (XI (XO XH))))))) :: ((Npos (XO (XI (XI (XO (XI (XI
    XH))))))) :: ((Npos (XI (XO (XI (XO (XO (XI XH))))))) :: ((Npos (XO (XI
    (XO (XO (XI (XI XH))))))) :: ((Npos (XI (XI (XO (XO (XI (XI
    XH))))))) :: ((Npos (XI (XO (XO (XI (XO (XI XH))))))) :: ((Npos (XI (XI
    (XI (XI (XO (XI XH))))))) :: ((Npos (XO (XI (XI (XI (XO (XI
    XH))))))) :: [])))))))))))))))))))

(** val in_range : byte -> byte -> byte -> bool **)

let in_range lo hi c =
  (&&) (N.leb lo c) (N.leb c hi)

(** val is_alnum : byte -> bool **)

let is_alnum c =
  (||)
    ((||)
      (in_range (Npos (XI (XO (XO (XO (XO (XI XH))))))) (Npos (XO (XI (XO (XI
        (XI (XI XH))))))) c)
      (in_range (Npos (XI (XO (XO (XO (XO (XO XH))))))) (Npos (XO (XI (XO (XI
        (XI (XO XH))))))) c))
    (in_range (Npos (XO (XO (XO (XO (XI XH)))))) (Npos (XI (XO (XO (XI (XI
      XH)))))) c)

(** val is_simple_varname_char : byte -> bool **)

let is_simple_varname_char c =
  (||) ((||) (is_alnum c) (N.eqb c (Npos (XI (XI (XI (XI (XI (XO XH)))))))))
    (N.eqb c (Npos (XI (XO (XI (XI (XO XH)))))))

(** val is_varname_char : byte -> bool **)

let is_varname_char c =
  (||) (is_simple_varname_char c) (N.eqb c (Npos (XO (XI (XI (XI (XO XH)))))))

(** val eat_ws : bytes -> bytes result **)

let rec eat_ws s = match s with
| [] -> Err E_overrun
| c :: s1 ->
  if N.eqb c (Npos (XO (XO (XO (XO (XO XH))))))
  then eat_ws s1
  else if N.eqb c (Npos (XO (XO (XI (XO (XO XH))))))
       then (match s1 with
             | [] -> Err E_overrun
             | d :: s2 ->
               if N.eqb d (Npos (XO (XI (XO XH))))
               then eat_ws s2
               else if N.eqb d (Npos (XI (XO (XI XH))))
                    then (match s2 with
                          | [] -> Err E_overrun
                          | e :: s3 ->
                            if N.eqb e (Npos (XO (XI (XO XH))))
                            then eat_ws s3
                            else Ok s)
                    else Ok s)
       else Ok s

(** val span_varname : bytes -> (bytes * bytes) result **)

let rec span_varname s = match s with
| [] -> Err E_overrun
| c :: s' ->
  if is_varname_char c
  then (match span_varname s' with
        | Ok a -> let (w, r) = a in Ok ((c :: w), r)
        | Err e -> Err e)
  else Ok ([], s)

(** val keyword_or_ident : bytes -> token **)

let keyword_or_ident w =
  if bytes_eqb w s_build
  then T_BUILD
  else if bytes_eqb w s_pool
       then T_POOL
       else if bytes_eqb w s_rule
            then T_RULE
            else if bytes_eqb w s_default
                 then T_DEFAULT
                 else if bytes_eqb w s_include
                      then T_INCLUDE
                      else if bytes_eqb w s_subninja
                           then T_SUBNINJA
                           else T_IDENT

(** val scan_plain : byte -> bytes -> (token * bytes) result **)

let scan_plain c s' =
  if is_varname_char c
  then (match span_varname s' with
        | Ok a -> let (w, r) = a in Ok ((keyword_or_ident (c :: w)), r)
        | Err e -> Err e)
  else if N.eqb c (Npos (XI (XO (XI (XI (XI XH))))))
       then Ok (T_EQUALS, s')
       else if N.eqb c (Npos (XO (XI (XO (XI (XI XH))))))
            then Ok (T_COLON, s')
            else if N.eqb c (Npos (XO (XO (XI (XI (XI (XI XH)))))))
                 then (match s' with
                       | [] -> Err E_overrun
                       | d :: s'' ->
                         if N.eqb d (Npos (XO (XO (XO (XO (XO (XO XH)))))))
                         then Ok (T_PIPEAT, s'')
                         else if N.eqb d (Npos (XO (XO (XI (XI (XI (XI
                                   XH)))))))
                              then Ok (T_PIPE2, s'')
                              else Ok (T_PIPE, s'))
                 else if N.eqb c N0 then Ok (T_TEOF, s') else Ok (T_ERROR, s')

type rtmode =
| RT_spaces
| RT_comment of bytes

(** val read_token_aux :
    bytes -> bytes -> bool -> rtmode -> ((token * bytes) * bytes) result **)

let rec read_token_aux s st sp m =
  match s with
  | [] -> Err E_overrun
  | c :: s' ->
    (match m with
     | RT_spaces ->
       if N.eqb c (Npos (XO (XO (XO (XO (XO XH))))))
       then read_token_aux s' st true RT_spaces
       else if N.eqb c (Npos (XI (XI (XO (XO (XO XH))))))
            then read_token_aux s' st sp (RT_comment s)
            else if N.eqb c (Npos (XO (XI (XO XH))))
                 then Ok ((T_NEWLINE, st), s')
                 else let fallback =
                        if sp
                        then Ok ((T_INDENT, st), s)
                        else (match scan_plain c s' with
                              | Ok a -> let (t, r) = a in Ok ((t, st), r)
                              | Err e -> Err e)
                      in
                      if N.eqb c (Npos (XI (XO (XI XH))))
                      then (match s' with
                            | [] -> Err E_overrun
                            | d :: s'' ->
                              if N.eqb d (Npos (XO (XI (XO XH))))
                              then Ok ((T_NEWLINE, st), s'')
                              else fallback)
                      else fallback
     | RT_comment hr ->
       if N.eqb c (Npos (XO (XI (XO XH))))
       then read_token_aux s' s' false RT_spaces
       else if N.eqb c N0
            then if sp
                 then Ok ((T_INDENT, st), hr)
                 else Ok ((T_ERROR, st), (tl hr))
            else read_token_aux s' st sp (RT_comment hr))

(** val read_token : bytes -> ((token * bytes) * bytes) result **)

let read_token s =
  match read_token_aux s s false RT_spaces with
  | Ok a ->
    let (p, r) = a in
    let (t, st) = p in
    (match t with
     | T_NEWLINE -> Ok ((t, st), r)
     | T_TEOF -> Ok ((t, st), r)
     | _ -> (match eat_ws r with
             | Ok r' -> Ok ((t, st), r')
             | Err e -> Err e))
  | Err e -> Err e

(** val peek_token : token -> bytes -> (bool * bytes) result **)

let peek_token want s =
  match read_token s with
  | Ok a ->
    let (p, r) = a in
    let (t, st) = p in
    if token_eqb t want then Ok (true, r) else Ok (false, st)
  | Err e -> Err e

(** val expect_token : token -> bytes -> bytes result **)

let expect_token want s =
  match read_token s with
  | Ok a ->
    let (p, r) = a in
    let (t, _) = p in
    if token_eqb t want then Ok r else Err (E_expected (want, t))
  | Err e -> Err e

(** val read_ident : bytes -> (bytes * bytes) option result **)

let read_ident = function
| [] -> Err E_overrun
| c :: s' ->
  if is_varname_char c
  then (match span_varname s' with
        | Ok a ->
          let (w, r) = a in
          (match eat_ws r with
           | Ok r' -> Ok (Some ((c :: w), r'))
           | Err e -> Err e)
        | Err e -> Err e)
  else Ok None

type ckind =
| K_text
| K_dollar
| K_space
| K_colon
| K_pipe
| K_cr
| K_lf
| K_nul

(** val ckind_of : byte -> ckind **)

let ckind_of c =
  if N.eqb c (Npos (XO (XO (XI (XO (XO XH))))))
  then K_dollar
  else if N.eqb c (Npos (XO (XO (XO (XO (XO XH))))))
       then K_space
       else if N.eqb c (Npos (XO (XI (XO (XI (XI XH))))))
            then K_colon
            else if N.eqb c (Npos (XO (XO (XI (XI (XI (XI XH)))))))
                 then K_pipe
                 else if N.eqb c (Npos (XI (XO (XI XH))))
                      then K_cr
                      else if N.eqb c (Npos (XO (XI (XO XH))))
                           then K_lf
                           else if N.eqb c N0 then K_nul else K_text

type evmode =
| EM_normal
| EM_skipsp
| EM_simple
| EM_brace of bool

(** val read_eval :
    bool -> bytes -> evmode -> bytes -> bool -> ((bytes * bool) * bytes)
    result **)

let rec read_eval path s m acc ne =
  match s with
  | [] -> Err E_overrun
  | c :: s' ->
    let normal =
      match ckind_of c with
      | K_text -> read_eval path s' EM_normal (c :: acc) true
      | K_dollar ->
        (match s' with
         | [] -> Err E_overrun
         | d :: s'' ->
           if N.eqb d (Npos (XO (XO (XI (XO (XO XH))))))
           then read_eval path s'' EM_normal ((Npos (XO (XO (XI (XO (XO
                  XH)))))) :: acc) true
           else if N.eqb d (Npos (XO (XO (XO (XO (XO XH))))))
                then read_eval path s'' EM_normal ((Npos (XO (XO (XO (XO (XO
                       XH)))))) :: acc) true
                else if N.eqb d (Npos (XO (XI (XO (XI (XI XH))))))
                     then read_eval path s'' EM_normal ((Npos (XO (XI (XO (XI
                            (XI XH)))))) :: acc) true
                     else if N.eqb d (Npos (XO (XI (XO XH))))
                          then read_eval path s'' EM_skipsp acc ne
                          else if N.eqb d (Npos (XI (XO (XI XH))))
                               then (match s'' with
                                     | [] -> Err E_overrun
                                     | e :: s3 ->
                                       if N.eqb e (Npos (XO (XI (XO XH))))
                                       then read_eval path s3 EM_skipsp acc ne
                                       else Err E_bad_escape)
                               else if N.eqb d (Npos (XI (XI (XO (XI (XI (XI
                                         XH)))))))
                                    then read_eval path s'' (EM_brace false)
                                           acc ne
                                    else if N.eqb d (Npos (XO (XI (XI (XI (XI
                                              (XO XH)))))))
                                         then Err E_newline_version
                                         else if is_simple_varname_char d
                                              then read_eval path s''
                                                     EM_simple acc true
                                              else Err E_bad_escape)
      | K_cr ->
        (match s' with
         | [] -> Err E_overrun
         | d :: s'' ->
           if N.eqb d (Npos (XO (XI (XO XH))))
           then Ok (((rev acc), ne), (if path then s else s''))
           else Err E_lexing)
      | K_lf -> Ok (((rev acc), ne), (if path then s else s'))
      | K_nul -> Err E_unexpected_eof
      | _ ->
        if path
        then Ok (((rev acc), ne), s)
        else read_eval path s' EM_normal (c :: acc) true
    in
    (match m with
     | EM_normal -> normal
     | EM_skipsp ->
       if N.eqb c (Npos (XO (XO (XO (XO (XO XH))))))
       then read_eval path s' EM_skipsp acc ne
       else normal
     | EM_simple ->
       if is_simple_varname_char c
       then read_eval path s' EM_simple acc ne
       else normal
     | EM_brace b ->
       if is_varname_char c
       then read_eval path s' (EM_brace true) acc ne
       else if (&&) (N.eqb c (Npos (XI (XO (XI (XI (XI (XI XH)))))))) b
            then read_eval path s' EM_normal acc true
            else Err E_bad_escape)

(** val read_path : bytes -> ((bytes * bool) * bytes) result **)

let read_path s =
  match read_eval true s EM_normal [] false with
  | Ok a ->
    let (p, r) = a in
    (match eat_ws r with
     | Ok r' -> Ok (p, r')
     | Err e -> Err e)
  | Err e -> Err e

(** val read_var_value : bytes -> ((bytes * bool) * bytes) result **)

let read_var_value s =
  read_eval false s EM_normal [] false

(** val ev_empty : bytes -> bool -> bool **)

let ev_empty _ =
  negb

(** val is_cspace : byte -> bool **)

let is_cspace c =
  (||) (N.eqb c (Npos (XO (XO (XO (XO (XO XH)))))))
    (in_range (Npos (XI (XO (XO XH)))) (Npos (XI (XO (XI XH)))) c)

(** val skip_cspaces : bytes -> bytes **)

let rec skip_cspaces s = match s with
| [] -> []
| c :: s' -> if is_cspace c then skip_cspaces s' else s

(** val digits_val : bytes -> z -> z **)

let rec digits_val s acc =
  match s with
  | [] -> acc
  | c :: s' ->
    if in_range (Npos (XO (XO (XO (XO (XI XH)))))) (Npos (XI (XO (XO (XI (XI
         XH)))))) c
    then digits_val s'
           (Z.add (Z.mul acc (Zpos (XO (XI (XO XH)))))
             (Z.of_N (N.sub c (Npos (XO (XO (XO (XO (XI XH)))))))))
    else acc

(** val strtol10 : bytes -> z **)

let strtol10 s =
  let s1 = skip_cspaces s in
  (match s1 with
   | [] ->
     let neg = false in
     let v = digits_val s1 Z0 in
     let v' = if neg then Z.opp v else v in
     Z.max (Zneg (XO (XO (XO (XO (XO (XO (XO (XO (XO (XO (XO (XO (XO (XO (XO
       (XO (XO (XO (XO (XO (XO (XO (XO (XO (XO (XO (XO (XO (XO (XO (XO (XO
       (XO (XO (XO (XO (XO (XO (XO (XO (XO (XO (XO (XO (XO (XO (XO (XO (XO
       (XO (XO (XO (XO (XO (XO (XO (XO (XO (XO (XO (XO (XO (XO
       XH))))))))))))))))))))))))))))))))))))))))))))))))))))))))))))))))
       (Z.min (Zpos (XI (XI (XI (XI (XI (XI (XI (XI (XI (XI (XI (XI (XI (XI
         (XI (XI (XI (XI (XI (XI (XI (XI (XI (XI (XI (XI (XI (XI (XI (XI (XI
         (XI (XI (XI (XI (XI (XI (XI (XI (XI (XI (XI (XI (XI (XI (XI (XI (XI
         (XI (XI (XI (XI (XI (XI (XI (XI (XI (XI (XI (XI (XI (XI
         XH))))))))))))))))))))))))))))))))))))))))))))))))))))))))))))))) v')
   | c :: r ->
     if N.eqb c (Npos (XI (XO (XI (XI (XO XH))))))
     then let neg = true in
          let v = digits_val r Z0 in
          let v' = if neg then Z.opp v else v in
          Z.max (Zneg (XO (XO (XO (XO (XO (XO (XO (XO (XO (XO (XO (XO (XO (XO
            (XO (XO (XO (XO (XO (XO (XO (XO (XO (XO (XO (XO (XO (XO (XO (XO
            (XO (XO (XO (XO (XO (XO (XO (XO (XO (XO (XO (XO (XO (XO (XO (XO
            (XO (XO (XO (XO (XO (XO (XO (XO (XO (XO (XO (XO (XO (XO (XO (XO
            (XO
            XH))))))))))))))))))))))))))))))))))))))))))))))))))))))))))))))))
            (Z.min (Zpos (XI (XI (XI (XI (XI (XI (XI (XI (XI (XI (XI (XI (XI
              (XI (XI (XI (XI (XI (XI (XI (XI (XI (XI (XI (XI (XI (XI (XI (XI
              (XI (XI (XI (XI (XI (XI (XI (XI (XI (XI (XI (XI (XI (XI (XI (XI
              (XI (XI (XI (XI (XI (XI (XI (XI (XI (XI (XI (XI (XI (XI (XI (XI
              (XI
              XH)))))))))))))))))))))))))))))))))))))))))))))))))))))))))))))))
              v')
     else if N.eqb c (Npos (XI (XI (XO (XI (XO XH))))))
          then let neg = false in
               let v = digits_val r Z0 in
               let v' = if neg then Z.opp v else v in
               Z.max (Zneg (XO (XO (XO (XO (XO (XO (XO (XO (XO (XO (XO (XO
                 (XO (XO (XO (XO (XO (XO (XO (XO (XO (XO (XO (XO (XO (XO (XO
                 (XO (XO (XO (XO (XO (XO (XO (XO (XO (XO (XO (XO (XO (XO (XO
                 (XO (XO (XO (XO (XO (XO (XO (XO (XO (XO (XO (XO (XO (XO (XO
                 (XO (XO (XO (XO (XO (XO
                 XH))))))))))))))))))))))))))))))))))))))))))))))))))))))))))))))))
                 (Z.min (Zpos (XI (XI (XI (XI (XI (XI (XI (XI (XI (XI (XI (XI
                   (XI (XI (XI (XI (XI (XI (XI (XI (XI (XI (XI (XI (XI (XI
                   (XI (XI (XI (XI (XI (XI (XI (XI (XI (XI (XI (XI (XI (XI
                   (XI (XI (XI (XI (XI (XI (XI (XI (XI (XI (XI (XI (XI (XI
                   (XI (XI (XI (XI (XI (XI (XI (XI
                   XH)))))))))))))))))))))))))))))))))))))))))))))))))))))))))))))))
                   v')
          else let neg = false in
               let v = digits_val s1 Z0 in
               let v' = if neg then Z.opp v else v in
               Z.max (Zneg (XO (XO (XO (XO (XO (XO (XO (XO (XO (XO (XO (XO
                 (XO (XO (XO (XO (XO (XO (XO (XO (XO (XO (XO (XO (XO (XO (XO
                 (XO (XO (XO (XO (XO (XO (XO (XO (XO (XO (XO (XO (XO (XO (XO
                 (XO (XO (XO (XO (XO (XO (XO (XO (XO (XO (XO (XO (XO (XO (XO
                 (XO (XO (XO (XO (XO (XO
                 XH))))))))))))))))))))))))))))))))))))))))))))))))))))))))))))))))
                 (Z.min (Zpos (XI (XI (XI (XI (XI (XI (XI (XI (XI (XI (XI (XI
                   (XI (XI (XI (XI (XI (XI (XI (XI (XI (XI (XI (XI (XI (XI
                   (XI (XI (XI (XI (XI (XI (XI (XI (XI (XI (XI (XI (XI (XI
                   (XI (XI (XI (XI (XI (XI (XI (XI (XI (XI (XI (XI (XI (XI
                   (XI (XI (XI (XI (XI (XI (XI (XI
                   XH)))))))))))))))))))))))))))))))))))))))))))))))))))))))))))))))
                   v'))

(** val wrap_int32 : z -> z **)

let wrap_int32 z0 =
  Z.sub
    (Z.modulo
      (Z.add z0 (Zpos (XO (XO (XO (XO (XO (XO (XO (XO (XO (XO (XO (XO (XO (XO
        (XO (XO (XO (XO (XO (XO (XO (XO (XO (XO (XO (XO (XO (XO (XO (XO (XO
        XH))))))))))))))))))))))))))))))))) (Zpos (XO (XO (XO (XO (XO (XO (XO
      (XO (XO (XO (XO (XO (XO (XO (XO (XO (XO (XO (XO (XO (XO (XO (XO (XO (XO
      (XO (XO (XO (XO (XO (XO (XO XH)))))))))))))))))))))))))))))))))) (Zpos
    (XO (XO (XO (XO (XO (XO (XO (XO (XO (XO (XO (XO (XO (XO (XO (XO (XO (XO
    (XO (XO (XO (XO (XO (XO (XO (XO (XO (XO (XO (XO (XO
    XH))))))))))))))))))))))))))))))))

(** val c_atoi : bytes -> z **)

let c_atoi s =
  wrap_int32 (strtol10 s)

(** val after_dot : bytes -> bytes option **)

let rec after_dot = function
| [] -> None
| c :: s' ->
  if N.eqb c (Npos (XO (XI (XI (XI (XO XH)))))) then Some s' else after_dot s'

(** val version_ok : bytes -> bool **)

let version_ok v =
  (&&) (Z.eqb (c_atoi v) (Zpos XH))
    (Z.eqb (match after_dot v with
            | Some r -> c_atoi r
            | None -> Z0) Z0)

type dd_stmt = { dd_out : bytes; dd_imp_outs : bytes list;
                 dd_imp_ins : bytes list; dd_restat : bool }

(** val parse_let : bytes -> ((bytes * (bytes * bool)) * bytes) result **)

let parse_let s =
  match read_ident s with
  | Ok a ->
    (match a with
     | Some p ->
       let (key, r1) = p in
       (match expect_token T_EQUALS r1 with
        | Ok r2 ->
          (match read_var_value r2 with
           | Ok a0 -> let (p0, r3) = a0 in Ok ((key, p0), r3)
           | Err e -> Err e)
        | Err e -> Err e)
     | None -> Err E_expected_var_name)
  | Err e -> Err e

(** val parse_version : bytes -> bytes result **)

let parse_version s =
  match parse_let s with
  | Ok a ->
    let (p, r) = a in
    let (name, p0) = p in
    let (v, _) = p0 in
    if negb (bytes_eqb name s_version_var)
    then Err E_version_expected_name
    else if version_ok v then Ok r else Err E_unsupported_version
  | Err e -> Err e

(** val read_paths : nat -> bytes -> (bytes list * bytes) result **)

let rec read_paths fuel s =
  match fuel with
  | O -> Err E_fuel
  | S f ->
    (match read_path s with
     | Ok a ->
       let (p, r) = a in
       let (t, ne) = p in
       if ev_empty t ne
       then Ok ([], r)
       else (match read_paths f r with
             | Ok a0 -> let (l, r') = a0 in Ok ((t :: l), r')
             | Err e -> Err e)
     | Err e -> Err e)

(** val canon_paths : bytes list -> bytes list result **)

let rec canon_paths = function
| [] -> Ok []
| p :: l' ->
  (match p with
   | [] -> Err E_empty_path
   | _ :: _ ->
     (match canon_paths l' with
      | Ok r -> Ok ((canon p) :: r)
      | Err e -> Err e))

(** val parse_edge :
    nat -> (dd_stmt list -> bytes -> dd_err option) -> dd_stmt list -> bytes
    -> (dd_stmt * bytes) result **)

let parse_edge fuel chk seen s =
  match read_path s with
  | Ok a ->
    let (p, r1) = a in
    let (t0, ne0) = p in
    if ev_empty t0 ne0
    then Err E_expected_path
    else if is_empty t0
         then Err E_empty_path
         else let out = canon t0 in
              (match chk seen out with
               | Some e -> Err e
               | None ->
                 (match read_path r1 with
                  | Ok a0 ->
                    let (p0, r2) = a0 in
                    let (t1, ne1) = p0 in
                    if negb (ev_empty t1 ne1)
                    then Err E_explicit_outs
                    else (match peek_token T_PIPE r2 with
                          | Ok a1 ->
                            let (has_outs, r3) = a1 in
                            (match if has_outs
                                   then read_paths fuel r3
                                   else Ok ([], r3) with
                             | Ok a2 ->
                               let (outs, r4) = a2 in
                               (match expect_token T_COLON r4 with
                                | Ok r5 ->
                                  (match read_ident r5 with
                                   | Ok a3 ->
                                     (match a3 with
                                      | Some p1 ->
                                        let (rule, r6) = p1 in
                                        if negb (bytes_eqb rule s_dyndep)
                                        then Err E_expected_dyndep
                                        else (match read_path r6 with
                                              | Ok a4 ->
                                                let (p2, r7) = a4 in
                                                let (t2, ne2) = p2 in
                                                if negb (ev_empty t2 ne2)
                                                then Err E_explicit_ins
                                                else (match peek_token T_PIPE
                                                              r7 with
                                                      | Ok a5 ->
                                                        let (has_ins, r8) = a5
                                                        in
                                                        (match if has_ins
                                                               then read_paths
                                                                    fuel r8
                                                               else Ok ([],
                                                                    r8) with
                                                         | Ok a6 ->
                                                           let (ins, r9) = a6
                                                           in
                                                           (match peek_token
                                                                    T_PIPE2 r9 with
                                                            | Ok a7 ->
                                                              let (b, r10) =
                                                                a7
                                                              in
                                                              if b
                                                              then Err
                                                                    E_order_only
                                                              else (match 
                                                                    expect_token
                                                                    T_NEWLINE
                                                                    r10 with
                                                                    | Ok r11 ->
                                                                    (match 
                                                                    peek_token
                                                                    T_INDENT
                                                                    r11 with
                                                                    | Ok a8 ->
                                                                    let (
                                                                    has_let,
                                                                    r12) = a8
                                                                    in
                                                                    if has_let
                                                                    then 
                                                                    (match 
                                                                    parse_let
                                                                    r12 with
                                                                    | Ok a9 ->
                                                                    let (
                                                                    p3, r13) =
                                                                    a9
                                                                    in
                                                                    let (
                                                                    key, p4) =
                                                                    p3
                                                                    in
                                                                    let (
                                                                    v, _) = p4
                                                                    in
                                                                    if 
                                                                    negb
                                                                    (bytes_eqb
                                                                    key
                                                                    s_restat)
                                                                    then 
                                                                    let e =
                                                                    E_binding_not_restat
                                                                    in
                                                                    Err e
                                                                    else 
                                                                    let a10 =
                                                                    ((negb
                                                                    (is_empty
                                                                    v)), r13)
                                                                    in
                                                                    let (
                                                                    restat,
                                                                    r14) = a10
                                                                    in
                                                                    (
                                                                    match 
                                                                    canon_paths
                                                                    ins with
                                                                    | Ok cins ->
                                                                    (match 
                                                                    canon_paths
                                                                    outs with
                                                                    | Ok couts ->
                                                                    Ok
                                                                    ({ dd_out =
                                                                    out;
                                                                    dd_imp_outs =
                                                                    couts;
                                                                    dd_imp_ins =
                                                                    cins;
                                                                    dd_restat =
                                                                    restat },
                                                                    r14)
                                                                    | Err e ->
                                                                    Err e)
                                                                    | Err e ->
                                                                    Err e)
                                                                    | Err e ->
                                                                    Err e)
                                                                    else 
                                                                    let a9 =
                                                                    (false,
                                                                    r12)
                                                                    in
                                                                    let (
                                                                    restat,
                                                                    r14) = a9
                                                                    in
                                                                    (
                                                                    match 
                                                                    canon_paths
                                                                    ins with
                                                                    | Ok cins ->
                                                                    (match 
                                                                    canon_paths
                                                                    outs with
                                                                    | Ok couts ->
                                                                    Ok
                                                                    ({ dd_out =
                                                                    out;
                                                                    dd_imp_outs =
                                                                    couts;
                                                                    dd_imp_ins =
                                                                    cins;
                                                                    dd_restat =
                                                                    restat },
                                                                    r14)
                                                                    | Err e ->
                                                                    Err e)
                                                                    | Err e ->
                                                                    Err e)
                                                                    | Err e ->
                                                                    Err e)
                                                                    | Err e ->
                                                                    Err e)
                                                            | Err e -> Err e)
                                                         | Err e -> Err e)
                                                      | Err e -> Err e)
                                              | Err e -> Err e)
                                      | None -> Err E_expected_dyndep)
                                   | Err e -> Err e)
                                | Err e -> Err e)
                             | Err e -> Err e)
                          | Err e -> Err e)
                  | Err e -> Err e))
  | Err e -> Err e

(** val parse_loop :
    nat -> nat -> (dd_stmt list -> bytes -> dd_err option) -> bytes -> bool
    -> dd_stmt list -> dd_stmt list result **)

let rec parse_loop fuel fuel0 chk s have acc =
  match fuel with
  | O -> Err E_fuel
  | S f ->
    (match read_token s with
     | Ok a ->
       let (p, r) = a in
       let (t, st) = p in
       (match t with
        | T_ERROR ->
          Err (E_lex_token
            (match st with
             | [] -> false
             | c :: _ -> N.eqb c (Npos (XI (XO (XO XH))))))
        | T_BUILD ->
          if negb have
          then Err E_version_expected_build
          else (match parse_edge fuel0 chk acc r with
                | Ok a0 ->
                  let (stmt, r') = a0 in
                  parse_loop f fuel0 chk r' have (stmt :: acc)
                | Err e -> Err e)
        | T_IDENT ->
          if have
          then Err (E_unexpected T_IDENT)
          else (match parse_version st with
                | Ok r' -> parse_loop f fuel0 chk r' true acc
                | Err e -> Err e)
        | T_NEWLINE -> parse_loop f fuel0 chk r have acc
        | T_TEOF -> if have then Ok (rev acc) else Err E_version_expected_eof
        | _ -> Err (E_unexpected t))
     | Err e -> Err e)

(** val parse_raw :
    (dd_stmt list -> bytes -> dd_err option) -> bytes -> dd_stmt list result **)

let parse_raw chk buf =
  parse_loop (S (length buf)) (S (length buf)) chk buf false []

(** val parse_gen :
    (dd_stmt list -> bytes -> dd_err option) -> bytes -> dd_stmt list result **)

let parse_gen chk content =
  parse_raw chk (app content (N0 :: []))

(** val no_chk : dd_stmt list -> bytes -> dd_err option **)

let no_chk _ _ =
  None

(** val parse_dyndep : bytes -> dd_stmt list result **)

let parse_dyndep content =
  parse_gen no_chk content

type node = bytes

type scope =
| NoScope
| Scope of bool option

type edge = { e_outs : node list; e_nimp_out : nat; e_ins : node list;
              e_nimp : nat; e_noo : nat; e_dyndep : node option;
              e_scope : scope; e_rule_restat : bool option }

type graph = { g_edges : edge list; g_file_restat : bool option }

(** val or_else : bool option -> bool option -> bool option **)

let or_else a b =
  match a with
  | Some _ -> a
  | None -> b

(** val edge_restat : graph -> edge -> bool **)

let edge_restat g e =
  match match e.e_scope with
        | NoScope -> or_else g.g_file_restat e.e_rule_restat
        | Scope own -> or_else own (or_else e.e_rule_restat g.g_file_restat) with
  | Some b -> b
  | None -> false

(** val find_index : ('a1 -> bool) -> 'a1 list -> nat option **)

let rec find_index p = function
| [] -> None
| x :: l' ->
  if p x then Some O else option_map (fun x0 -> S x0) (find_index p l')

(** val producer : graph -> node -> nat option **)

let producer g n0 =
  find_index (fun e -> mem_bytes n0 e.e_outs) g.g_edges

(** val count_bytes : node -> node list -> nat **)

let rec count_bytes n0 = function
| [] -> O
| x :: l' -> add (if bytes_eqb n0 x then S O else O) (count_bytes n0 l')

(** val out_edges_from : nat -> edge list -> node -> nat list **)

let rec out_edges_from i es n0 =
  match es with
  | [] -> []
  | e :: es' ->
    app (repeat i (count_bytes n0 e.e_ins)) (out_edges_from (S i) es' n0)

(** val out_edges : graph -> node -> nat list **)

let out_edges g n0 =
  out_edges_from O g.g_edges n0

(** val update_nth : nat -> ('a1 -> 'a1) -> 'a1 list -> 'a1 list **)

let rec update_nth i f = function
| [] -> []
| x :: l' ->
  (match i with
   | O -> (f x) :: l'
   | S i' -> x :: (update_nth i' f l'))

(** val opt_node_eqb : node option -> node -> bool **)

let opt_node_eqb a b =
  match a with
  | Some x -> bytes_eqb x b
  | None -> false

(** val scope_restat : edge -> edge **)

let scope_restat e =
  { e_outs = e.e_outs; e_nimp_out = e.e_nimp_out; e_ins = e.e_ins; e_nimp =
    e.e_nimp; e_noo = e.e_noo; e_dyndep = e.e_dyndep; e_scope = (Scope (Some
    true)); e_rule_restat = e.e_rule_restat }

(** val set_restat : graph -> nat -> graph **)

let set_restat g i =
  { g_edges = (update_nth i scope_restat g.g_edges); g_file_restat =
    g.g_file_restat }

(** val set_restat_old : graph -> nat -> graph **)

let set_restat_old g i =
  match nth_error g.g_edges i with
  | Some e ->
    (match e.e_scope with
     | NoScope -> { g_edges = g.g_edges; g_file_restat = (Some true) }
     | Scope _ ->
       { g_edges = (update_nth i scope_restat g.g_edges); g_file_restat =
         g.g_file_restat })
  | None -> g

(** val add_out : edge -> node -> edge **)

let add_out e o =
  { e_outs = (app e.e_outs (o :: [])); e_nimp_out = (S e.e_nimp_out); e_ins =
    e.e_ins; e_nimp = e.e_nimp; e_noo = e.e_noo; e_dyndep = e.e_dyndep;
    e_scope = e.e_scope; e_rule_restat = e.e_rule_restat }

(** val add_outs : graph -> nat -> node list -> graph result **)

let rec add_outs g i = function
| [] -> Ok g
| o :: outs' ->
  (match producer g o with
   | Some _ -> Err E_multiple_rules
   | None ->
     add_outs { g_edges = (update_nth i (fun e -> add_out e o) g.g_edges);
       g_file_restat = g.g_file_restat } i outs')

(** val splice_ins : edge -> node list -> edge **)

let splice_ins e new0 =
  let k = sub (length e.e_ins) e.e_noo in
  { e_outs = e.e_outs; e_nimp_out = e.e_nimp_out; e_ins =
  (app (firstn k e.e_ins) (app new0 (skipn k e.e_ins))); e_nimp =
  (add e.e_nimp (length new0)); e_noo = e.e_noo; e_dyndep = e.e_dyndep;
  e_scope = e.e_scope; e_rule_restat = e.e_rule_restat }

(** val update_edge : graph -> nat -> dd_stmt -> graph result **)

let update_edge g i st =
  let g1 = if st.dd_restat then set_restat g i else g in
  (match add_outs g1 i st.dd_imp_outs with
   | Ok g2 ->
     Ok { g_edges =
       (update_nth i (fun e -> splice_ins e st.dd_imp_ins) g2.g_edges);
       g_file_restat = g2.g_file_restat }
   | Err e -> Err e)

(** val stmt_key : graph -> dd_stmt -> nat option **)

let stmt_key g st =
  producer g st.dd_out

(** val key_is : graph -> nat -> dd_stmt -> bool **)

let key_is g i st =
  match stmt_key g st with
  | Some j -> Nat.eqb i j
  | None -> false

(** val find_stmt : graph -> dd_stmt list -> nat -> dd_stmt option **)

let find_stmt g stmts i =
  find (key_is g i) stmts

(** val graph_chk : graph -> dd_stmt list -> bytes -> dd_err option **)

let graph_chk g seen out =
  match producer g out with
  | Some i ->
    if existsb (key_is g i) seen then Some E_multiple_stmts else None
  | None -> Some E_no_build_stmt

(** val check_stmts :
    graph -> dd_stmt list -> dd_stmt list -> dd_err option **)

let rec check_stmts g seen = function
| [] -> None
| st :: stmts' ->
  (match graph_chk g seen st.dd_out with
   | Some e -> Some e
   | None -> check_stmts g (st :: seen) stmts')

(** val bound_to : graph -> node -> nat -> bool **)

let bound_to g0 f i =
  match nth_error g0.g_edges i with
  | Some e -> opt_node_eqb e.e_dyndep f
  | None -> false

(** val load_edges :
    graph -> node -> dd_stmt list -> nat list -> graph -> graph result **)

let rec load_edges g0 f stmts oe g =
  match oe with
  | [] -> Ok g
  | i :: oe' ->
    if negb (bound_to g0 f i)
    then load_edges g0 f stmts oe' g
    else (match find_stmt g0 stmts i with
          | Some st ->
            (match update_edge g i st with
             | Ok g' -> load_edges g0 f stmts oe' g'
             | Err e -> Err e)
          | None -> Err E_not_mentioned)

(** val stmt_used : graph -> node -> nat list -> dd_stmt -> bool **)

let stmt_used g0 f oe st =
  match stmt_key g0 st with
  | Some i -> (&&) (existsb (Nat.eqb i) oe) (bound_to g0 f i)
  | None -> false

(** val load_dyndep : graph -> node -> dd_stmt list -> graph result **)

let load_dyndep g f stmts =
  match check_stmts g [] stmts with
  | Some e -> Err e
  | None ->
    let oe = out_edges g f in
    (match load_edges g f stmts oe g with
     | Ok g' ->
       if forallb (stmt_used g f oe) stmts then Ok g' else Err E_not_bound
     | Err e -> Err e)

(** val update_edge_old : graph -> nat -> dd_stmt -> graph result **)

let update_edge_old g i st =
  let g1 = if st.dd_restat then set_restat_old g i else g in
  (match add_outs g1 i st.dd_imp_outs with
   | Ok g2 ->
     Ok { g_edges =
       (update_nth i (fun e -> splice_ins e st.dd_imp_ins) g2.g_edges);
       g_file_restat = g2.g_file_restat }
   | Err e -> Err e)

(** val load_edges_old :
    graph -> node -> dd_stmt list -> nat list -> graph -> graph result **)

let rec load_edges_old g0 f stmts oe g =
  match oe with
  | [] -> Ok g
  | i :: oe' ->
    if negb (bound_to g0 f i)
    then load_edges_old g0 f stmts oe' g
    else (match find_stmt g0 stmts i with
          | Some st ->
            (match update_edge_old g i st with
             | Ok g' -> load_edges_old g0 f stmts oe' g'
             | Err e -> Err e)
          | None -> Err E_not_mentioned)

(** val load_dyndep_old : graph -> node -> dd_stmt list -> graph result **)

let load_dyndep_old g f stmts =
  match check_stmts g [] stmts with
  | Some e -> Err e
  | None ->
    let oe = out_edges g f in
    (match load_edges_old g f stmts oe g with
     | Ok g' ->
       if forallb (stmt_used g f oe) stmts then Ok g' else Err E_not_bound
     | Err e -> Err e)

(** val dyndep_load : graph -> node -> bytes option -> graph result **)

let dyndep_load g f = function
| Some c ->
  (match parse_gen (graph_chk g) c with
   | Ok stmts -> load_dyndep g f stmts
   | Err e -> Err e)
| None -> Err E_loading

(** val apply_stmt : edge -> dd_stmt -> edge **)

let apply_stmt e st =
  let k = sub (length e.e_ins) e.e_noo in
  { e_outs = (app e.e_outs st.dd_imp_outs); e_nimp_out =
  (add e.e_nimp_out (length st.dd_imp_outs)); e_ins =
  (app (firstn k e.e_ins) (app st.dd_imp_ins (skipn k e.e_ins))); e_nimp =
  (add e.e_nimp (length st.dd_imp_ins)); e_noo = e.e_noo; e_dyndep =
  e.e_dyndep; e_scope =
  (if st.dd_restat then Scope (Some true) else e.e_scope); e_rule_restat =
  e.e_rule_restat }

(** val inline_edges :
    graph -> dd_stmt list -> nat -> edge list -> edge list **)

let rec inline_edges g0 stmts i = function
| [] -> []
| e :: es' ->
  (match find_stmt g0 stmts i with
   | Some st -> apply_stmt e st
   | None -> e) :: (inline_edges g0 stmts (S i) es')

(** val inline_dyndep : graph -> dd_stmt list -> graph **)

let inline_dyndep g stmts =
  { g_edges = (inline_edges g stmts O g.g_edges); g_file_restat =
    g.g_file_restat }

(** val esc_char : byte -> bytes **)

let esc_char c =
  if (||)
       ((||) (N.eqb c (Npos (XO (XO (XI (XO (XO XH)))))))
         (N.eqb c (Npos (XO (XO (XO (XO (XO XH))))))))
       (N.eqb c (Npos (XO (XI (XO (XI (XI XH)))))))
  then (Npos (XO (XO (XI (XO (XO XH)))))) :: (c :: [])
  else c :: []

(** val esc_path : bytes -> bytes **)

let esc_path p =
  flat_map esc_char p

(** val print_list : bytes list -> bytes **)

let print_list l = match l with
| [] -> []
| _ :: _ ->
  (Npos (XO (XO (XO (XO (XO XH)))))) :: ((Npos (XO (XO (XI (XI (XI (XI
    XH))))))) :: (flat_map (fun p -> (Npos (XO (XO (XO (XO (XO
                   XH)))))) :: (esc_path p)) l))

(** val s_restat_line : bytes **)

let s_restat_line =
  app ((Npos (XO (XO (XO (XO (XO XH)))))) :: ((Npos (XO (XO (XO (XO (XO
    XH)))))) :: []))
    (app s_restat ((Npos (XO (XO (XO (XO (XO XH)))))) :: ((Npos (XI (XO (XI
      (XI (XI XH)))))) :: ((Npos (XO (XO (XO (XO (XO XH)))))) :: ((Npos (XI
      (XO (XO (XO (XI XH)))))) :: ((Npos (XO (XI (XO XH)))) :: []))))))

(** val print_stmt : dd_stmt -> bytes **)

let print_stmt st =
  app s_build ((Npos (XO (XO (XO (XO (XO
    XH)))))) :: (app (esc_path st.dd_out)
                  (app (print_list st.dd_imp_outs) ((Npos (XO (XI (XO (XI (XI
                    XH)))))) :: ((Npos (XO (XO (XO (XO (XO
                    XH)))))) :: (app s_dyndep
                                  (app (print_list st.dd_imp_ins)
                                    (app ((Npos (XO (XI (XO XH)))) :: [])
                                      (if st.dd_restat
                                       then s_restat_line
                                       else [])))))))))

(** val s_version_line : bytes **)

let s_version_line =
  app s_version_var ((Npos (XO (XO (XO (XO (XO XH)))))) :: ((Npos (XI (XO (XI
    (XI (XI XH)))))) :: ((Npos (XO (XO (XO (XO (XO XH)))))) :: ((Npos (XI (XO
    (XO (XO (XI XH)))))) :: ((Npos (XO (XI (XO XH)))) :: [])))))

(** val print_body : dd_stmt list -> bytes **)

let print_body stmts =
  flat_map print_stmt stmts

(** val print_dyndep : dd_stmt list -> bytes **)

let print_dyndep stmts =
  app s_version_line (print_body stmts)

(** val name_char_ok : byte -> bool **)

let name_char_ok c =
  negb
    ((||)
      ((||) ((||) (N.eqb c N0) (N.eqb c (Npos (XO (XI (XO XH))))))
        (N.eqb c (Npos (XI (XO (XI XH))))))
      (N.eqb c (Npos (XO (XO (XI (XI (XI (XI XH)))))))))

(** val wf_name : bytes -> bool **)

let wf_name p = match p with
| [] -> false
| _ :: _ -> (&&) (forallb name_char_ok p) (bytes_eqb (canon p) p)

(** val wf_stmt : dd_stmt -> bool **)

let wf_stmt st =
  (&&) ((&&) (wf_name st.dd_out) (forallb wf_name st.dd_imp_outs))
    (forallb wf_name st.dd_imp_ins)
