(* C15 / C13: Gallina model of DepfileParser::Parse (src/depfile_parser.in.cc; what is compiled is the
   generated src/depfile_parser.cc).  The scanner is the function of DESIGN.md Appendix E: no regex
   engine, but direct recursion on "the backslash run and the byte after it".

   Buffer model.  The C++ works on a NUL-terminated std::string.  Here a buffer position is the list
   of the remaining bytes of the content, and every look-up past the end of the content returns 0
   ([at0]), i.e. the buffer is [s ++ [0;0;0;...]] exactly as in Appendix E.  Consuming more bytes than
   remain ([skipn] saturates) models the scanner stepping over the terminating NUL ([in == end+1]),
   after which [while (in < end)] stops.

   ONLY definitions here (proofs: DepfileProofs.v). *)
From NinjaV Require Import Base.Bytes.
Local Open Scope N_scope.

(* ------------------------------------------------------------------------------------------ *)
(* Results *)

Inductive depfile_err :=
| ErrNoColon              (* "expected ':' in depfile" *)
| ErrInputsHaveInputs.    (* "inputs may not also have inputs" *)

Inductive dresult :=
| DOk (outs ins : list bytes)
| DErr (e : depfile_err)
| DOutOfFuel.             (* never returned: DepfileProofs.C13_depfile_total *)

(* ------------------------------------------------------------------------------------------ *)
(* Character classes *)

Definition in_range (lo hi c : byte) : bool := N.leb lo c && N.leb c hi.

Fixpoint mem_byte (c : byte) (l : bytes) : bool :=
  match l with
  | [] => false
  | d :: l' => N.eqb c d || mem_byte c l'
  end.

(* [a-zA-Z0-9+?DQUOTE'&,/_:.~()}{%=@\x5B\x5D!\x80-\xFF-] (DQUOTE = byte 34): the plain-text class of the scanner
   (bit 128 of yybm[] in depfile_parser.cc). *)
Definition plain_punct : bytes :=
  [43; 63; 34; 39; 38; 44; 47; 95; 58; 46; 126; 40; 41; 125; 123; 37; 61; 64; 91; 93; 33; 45].

Definition is_plain (c : byte) : bool :=
  in_range 97 122 c || in_range 65 90 c || in_range 48 57 c
  || mem_byte c plain_punct || in_range 128 255 c.

(* [\x00\x20\r\n\t]: what may follow "\:" for it to be "normal text and not an escaped colon". *)
Definition is_colon_blank (e : byte) : bool :=
  N.eqb e 0 || N.eqb e 32 || N.eqb e 13 || N.eqb e 10 || N.eqb e 9.

(* ------------------------------------------------------------------------------------------ *)
(* One iteration of the inner [for(;;)] loop = one re2c match *)

(* look-up with the NUL terminator (and zeros after it) *)
Definition at0 (l : bytes) (k : nat) : byte := nth k l 0.

Fixpoint count_bs (l : bytes) : nat :=
  match l with
  | c :: l' => if N.eqb c 92 then S (count_bs l') else O
  | [] => O
  end.

Fixpoint plain_run (l : bytes) : nat :=
  match l with
  | c :: l' => if is_plain c then S (plain_run l') else O
  | [] => O
  end.

Definition bsN (n : nat) : bytes := repeat 92 n.

(* emit: bytes appended to the current file name (the in-place "out" writes)
   adv : how far "in" advances
   look: highest offset (relative to "in" at the start of the match) whose byte is inspected
   nl  : have_newline *)
Inductive sres :=
| SCont (emit : bytes) (adv look : nat)               (* "continue" *)
| SBrk  (emit : bytes) (adv look : nat) (nl : bool).  (* "break"    *)

Definition step (buf : bytes) : sres :=
  let n := count_bs buf in
  match n with
  | O =>
      let c := at0 buf 0 in
      if N.eqb c 36 then
        (if N.eqb (at0 buf 1) 36 then SCont [36] 2 1          (* '$$' *)
         else SBrk [] 1 1 false)                              (* [^] *)
      else if is_plain c then
        (let j := plain_run buf in SCont (firstn j buf) j j)  (* plain run, greedy *)
      else if N.eqb c 0 then SBrk [] 1 0 false                (* nul *)
      else if N.eqb c 10 then SBrk [] 1 0 true                (* newline *)
      else if N.eqb c 13 then
        (if N.eqb (at0 buf 1) 10 then SBrk [] 2 1 true        (* newline = \r\n *)
         else SBrk [] 1 1 false)                              (* [^] *)
      else SBrk [] 1 0 false                                  (* [^] *)
  | S m =>
      let d := at0 buf n in
      if N.eqb d 32 then
        (if Nat.odd n
         then SCont (bsN (Nat.div2 m) ++ [32]) (S n) n        (* 2N+1 backslashes, space *)
         else SBrk (bsN n) (S n) n false)                     (* 2N backslashes, space: end of name *)
      else if N.eqb d 35 then SCont (bsN m ++ [35]) (S n) n   (* '\\'+ '#' *)
      else if N.eqb d 58 then
        (let e := at0 buf (S n) in
         if is_colon_blank e
         then SBrk (bsN n ++ [58]) (S (S n)) (S n) (N.eqb e 10)  (* '\\'+ ':' blank: plain text *)
         else SCont (bsN m ++ [58]) (S n) (S n))                 (* '\\'+ ':' : escaped colon *)
      else if N.eqb d 0 || N.eqb d 13 || N.eqb d 10 then
        match m with
        | O =>
            if N.eqb d 10 then SBrk [] 2 1 false                 (* '\\' newline: continuation *)
            else if N.eqb d 13 then
              (if N.eqb (at0 buf 2) 10 then SBrk [] 3 2 false    (* '\\' \r\n: continuation *)
               else SBrk [] 1 2 false)                           (* [^] swallows the lone backslash *)
            else SBrk [] 1 1 false                               (* [^] *)
        | S _ => SCont (bsN n) n n     (* '\\'+ [^\0\r\n], the last backslash being the "any" byte *)
        end
      else SCont (bsN n ++ [d]) (S n) n                          (* '\\'+ [^\0\r\n] *)
  end.

(* ------------------------------------------------------------------------------------------ *)
(* The inner loop: one file-name token.  [None] = out of fuel. *)

Fixpoint tok (fuel : nat) (buf fn : bytes) : option (bytes * bytes * bool) :=
  match fuel with
  | O => None
  | S f =>
      match step buf with
      | SCont e k _ => tok f (skipn k buf) (fn ++ e)
      | SBrk e k _ nl => Some (fn ++ e, skipn k buf, nl)
      end
  end.

(* ------------------------------------------------------------------------------------------ *)
(* The target/dependency state machine *)

Record pstate := mkP {
  p_outs : list bytes;
  p_ins : list bytes;
  p_have_target : bool;
  p_parsing_targets : bool;
  p_poisoned : bool;
  p_is_empty : bool
}.

Definition p_init : pstate := mkP [] [] false true false true.

(* "if (len > 0 && filename[len - 1] == ':') len--": (name without the colon, was there a colon) *)
Definition strip_colon (fn : bytes) : bytes * bool :=
  match rev fn with
  | c :: r => if N.eqb c 58 then (rev r, true) else (fn, false)
  | [] => ([], false)
  end.

Definition is_nil {A} (l : list A) : bool := match l with [] => true | _ => false end.

(* the body of the outer loop after the token has been scanned; [inl e] = "return false" *)
Definition absorb (st : pstate) (fn : bytes) (nl : bool) : depfile_err + pstate :=
  let is_dep := negb (p_parsing_targets st) in
  let '(piece, colon) := strip_colon fn in
  let pt := if colon then false else p_parsing_targets st in
  let ht := if colon then true else p_have_target st in
  let r :=
    if is_nil piece then inr (p_outs st, p_ins st, p_poisoned st, p_is_empty st)
    else if negb (mem_bytes piece (p_ins st)) then
      (if is_dep then
         (if p_poisoned st then inl ErrInputsHaveInputs
          else inr (p_outs st, p_ins st ++ [piece], p_poisoned st, false))
       else if mem_bytes piece (p_outs st) then inr (p_outs st, p_ins st, p_poisoned st, false)
       else inr (p_outs st ++ [piece], p_ins st, p_poisoned st, false))
    else if is_dep then inr (p_outs st, p_ins st, p_poisoned st, false)
    else inr (p_outs st, p_ins st, true, false) in
  match r with
  | inl e => inl e
  | inr (o, i, po, em) =>
      if nl then inr (mkP o i ht true false em) else inr (mkP o i ht pt po em)
  end.

Definition finish (st : pstate) : dresult :=
  if negb (p_have_target st) && negb (p_is_empty st) then DErr ErrNoColon
  else DOk (p_outs st) (p_ins st).

(* the outer loop: while (in < end) *)
Fixpoint run (fuel : nat) (buf : bytes) (st : pstate) : dresult :=
  match buf with
  | [] => finish st
  | _ :: _ =>
      match fuel with
      | O => DOutOfFuel
      | S f =>
          match tok (S (length buf)) buf [] with
          | None => DOutOfFuel
          | Some (fn, rest, nl) =>
              match absorb st fn nl with
              | inl e => DErr e
              | inr st' => run f rest st'
              end
          end
      end
  end.

Definition parse_depfile (s : bytes) : dresult := run (S (length s)) s p_init.

(* ------------------------------------------------------------------------------------------ *)
(* The same, instrumented with buffer indices (C13).
   pos = index of "in" in the buffer; hi = highest buffer index inspected so far. *)

Fixpoint tok_idx (fuel : nat) (buf fn : bytes) (pos hi : nat)
  : option (bytes * bytes * bool * nat * nat) :=
  match fuel with
  | O => None
  | S f =>
      match step buf with
      | SCont e k lk => tok_idx f (skipn k buf) (fn ++ e) (Nat.add pos k) (Nat.max hi (Nat.add pos lk))
      | SBrk e k lk nl => Some (fn ++ e, skipn k buf, nl, Nat.add pos k, Nat.max hi (Nat.add pos lk))
      end
  end.

Fixpoint run_idx (fuel : nat) (buf : bytes) (st : pstate) (pos hi : nat) : dresult * nat :=
  match buf with
  | [] => (finish st, hi)
  | _ :: _ =>
      match fuel with
      | O => (DOutOfFuel, hi)
      | S f =>
          match tok_idx (S (length buf)) buf [] pos hi with
          | None => (DOutOfFuel, hi)
          | Some (fn, rest, nl, pos', hi') =>
              match absorb st fn nl with
              | inl e => (DErr e, hi')
              | inr st' => run_idx f rest st' pos' hi'
              end
          end
      end
  end.

(* (result, highest index of the NUL-terminated buffer that the scanner inspects; 0 if none) *)
Definition parse_depfile_idx (s : bytes) : dresult * nat := run_idx (S (length s)) s p_init 0 0.

(* "foo.o: foo.c my\ file.h" *)
Example parse_sample :
  parse_depfile [102;111;111;46;111;58;32;102;111;111;46;99;32;109;121;92;32;102;105;108;101;46;104;10]
  = DOk [[102;111;111;46;111]] [[102;111;111;46;99]; [109;121;32;102;105;108;101;46;104]].
Proof. vm_compute. reflexivity. Qed.
