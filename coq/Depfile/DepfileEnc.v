(* C15: the Makefile dialect that GCC/Clang emit into depfiles (encoder side), the class of names
   that survive it, the layouts, and the specification-level meaning of a list of rules.
   ONLY definitions (proofs: DepfileProofs.v). *)
From NinjaV Require Import Base.Bytes Depfile.DepfileDefs.
Local Open Scope N_scope.

(* ------------------------------------------------------------------------------------------ *)
(* Name encoder (GCC mkdeps.c "munge", Clang DependencyFile.cpp PrintFilename):
     space  -> BS SP, and every backslash of the run immediately before that space is doubled
     #      -> BS #
     $      -> $ $
     :      -> BS :   only with [esc_colon = true]
     others -> verbatim (backslashes that do not precede a space are NOT doubled).        *)

(* is x = BS^k ++ SP :: _ ? *)
Fixpoint run_then_space (x : bytes) : bool :=
  match x with
  | c :: x' => if N.eqb c 92 then run_then_space x' else N.eqb c 32
  | [] => false
  end.

Definition enc_byte (esc_colon : bool) (c : byte) (x' : bytes) : bytes :=
  if N.eqb c 92 then (if run_then_space x' then [92; 92] else [92])
  else if N.eqb c 32 then [92; 32]
  else if N.eqb c 35 then [92; 35]
  else if N.eqb c 36 then [36; 36]
  else if esc_colon && N.eqb c 58 then [92; 58]
  else [c].

Fixpoint enc_gen (esc_colon : bool) (x : bytes) : bytes :=
  match x with
  | [] => []
  | c :: x' => enc_byte esc_colon c x' ++ enc_gen esc_colon x'
  end.

Definition enc_name : bytes -> bytes := enc_gen false.
Definition enc_name_colon : bytes -> bytes := enc_gen true.

(* ------------------------------------------------------------------------------------------ *)
(* Names that round-trip, in every position (any target, any dependency) of every layout below.

   wf_gen esc_colon x  :=
     x is not empty
     /\ every byte is in the scanner's plain class or is one of SP # $ BS
        (so: no NUL, LF, CR, TAB, no  * ; < > ^ ` |  DEL, no other control byte, nothing >= 256)
     /\ no backslash is immediately followed by $                   ("\$$" is read as "\$" "$")
     /\ unless colons are escaped: no backslash is immediately followed by ':'
                                   (BS^n ':' x is read as BS^(n-1) ':' x: one backslash is lost)
     /\ the last byte is not ':'    (a trailing colon is the target/dependency separator; this
                                     holds for the escaped form too: "\:" before a blank is
                                     defined to be plain text followed by the separator colon)
     /\ the run of backslashes at the END of the name has even length
        (2N+1 backslashes before the separating space would escape it).                    *)

Definition allowed (c : byte) : bool :=
  is_plain c || N.eqb c 32 || N.eqb c 35 || N.eqb c 36 || N.eqb c 92.

Definition bad_pair (esc_colon : bool) (c d : byte) : bool :=
  N.eqb c 92 && (N.eqb d 36 || (negb esc_colon && N.eqb d 58)).

Fixpoint ok_adj (esc_colon : bool) (x : bytes) : bool :=
  match x with
  | c :: x' =>
      match x' with
      | d :: _ => negb (bad_pair esc_colon c d)
      | [] => true
      end && ok_adj esc_colon x'
  | [] => true
  end.

Definition wf_gen (esc_colon : bool) (x : bytes) : bool :=
  negb (is_nil x)
  && forallb allowed x
  && ok_adj esc_colon x
  && negb (N.eqb (hd 0 (rev x)) 58)
  && Nat.even (count_bs (rev x)).

Definition wf_name : bytes -> bool := wf_gen false.        (* for enc_name *)
Definition wf_name_colon : bytes -> bool := wf_gen true.   (* for enc_name_colon; a superset *)

(* ------------------------------------------------------------------------------------------ *)
(* Layouts.  The modifiers are flags: Crlf is idempotent, each TrailBlank adds one more space
   before the end of line.
     OneLine      t1 t2: d1 d2 LF
     ContPerName  t1 t2: BS LF SP d1 SP BS LF SP d2 LF      ("t: \" / " d1 \" / " d2")
     Crlf l       every LF of l (also the one of a continuation) becomes CR LF
     TrailBlank l one more space before the final end of line *)

Inductive layout := OneLine | ContPerName | Crlf (l : layout) | TrailBlank (l : layout).

Fixpoint lay_cont (l : layout) : bool :=
  match l with
  | OneLine => false
  | ContPerName => true
  | Crlf l' => lay_cont l'
  | TrailBlank l' => lay_cont l'
  end.

Fixpoint lay_crlf (l : layout) : bool :=
  match l with
  | OneLine => false
  | ContPerName => false
  | Crlf _ => true
  | TrailBlank l' => lay_crlf l'
  end.

Fixpoint lay_trail (l : layout) : nat :=
  match l with
  | OneLine => O
  | ContPerName => O
  | Crlf l' => lay_trail l'
  | TrailBlank l' => S (lay_trail l')
  end.

Definition eol (l : layout) : bytes := if lay_crlf l then [13; 10] else [10].

(* what is written before every dependency *)
Definition dep_sep (l : layout) : bytes :=
  if lay_cont l then [32; 92] ++ eol l ++ [32] else [32].

Definition join_sp (xs : list bytes) : bytes :=
  match xs with
  | [] => []
  | x :: xs' => x ++ concat (map (fun y => 32 :: y) xs')
  end.

Definition render_gen (esc_colon : bool) (l : layout) (ts ds : list bytes) : bytes :=
  join_sp (map (enc_gen esc_colon) ts) ++ [58]
  ++ concat (map (fun d => dep_sep l ++ enc_gen esc_colon d) ds)
  ++ repeat 32 (lay_trail l) ++ eol l.

Definition render_rules_gen (esc_colon : bool) (l : layout) (rules : list (list bytes * list bytes))
  : bytes :=
  concat (map (fun r => render_gen esc_colon l (fst r) (snd r)) rules).

Definition render : layout -> list bytes -> list bytes -> bytes := render_gen false.
Definition render_rules : layout -> list (list bytes * list bytes) -> bytes := render_rules_gen false.
Definition render_colon : layout -> list bytes -> list bytes -> bytes := render_gen true.
Definition render_rules_colon : layout -> list (list bytes * list bytes) -> bytes :=
  render_rules_gen true.

(* a line of names without any colon *)
Definition render_no_colon (esc_colon : bool) (names : list bytes) : bytes :=
  join_sp (map (enc_gen esc_colon) names) ++ [10].

(* ------------------------------------------------------------------------------------------ *)
(* What the parser is specified to return, on names (no bytes of the file involved). *)

(* first occurrences, in order *)
Fixpoint dedup_acc (acc l : list bytes) : list bytes :=
  match l with
  | [] => acc
  | x :: l' => dedup_acc (if mem_bytes x acc then acc else acc ++ [x]) l'
  end.
Definition dedup (l : list bytes) : list bytes := dedup_acc [] l.

(* targets of one rule: a target already known as an input is NOT recorded as an output and
   "poisons" the rule; otherwise it is recorded once *)
Fixpoint targets_sem (outs ins : list bytes) (poisoned : bool) (ts : list bytes)
  : list bytes * bool :=
  match ts with
  | [] => (outs, poisoned)
  | t :: ts' =>
      if mem_bytes t ins then targets_sem outs ins true ts'
      else targets_sem (if mem_bytes t outs then outs else outs ++ [t]) ins poisoned ts'
  end.

(* dependencies of one rule: known ones are skipped, a new one in a poisoned rule is the error *)
Fixpoint deps_sem (ins : list bytes) (poisoned : bool) (ds : list bytes) : option (list bytes) :=
  match ds with
  | [] => Some ins
  | d :: ds' =>
      if mem_bytes d ins then deps_sem ins poisoned ds'
      else if poisoned then None
      else deps_sem (ins ++ [d]) poisoned ds'
  end.

Fixpoint rules_sem_acc (outs ins : list bytes) (rules : list (list bytes * list bytes)) : dresult :=
  match rules with
  | [] => DOk outs ins
  | r :: rs =>
      let '(outs', po) := targets_sem outs ins false (fst r) in
      match deps_sem ins po (snd r) with
      | None => DErr ErrInputsHaveInputs
      | Some ins' => rules_sem_acc outs' ins' rs
      end
  end.

Definition rules_sem (rules : list (list bytes * list bytes)) : dresult := rules_sem_acc [] [] rules.

Definition wf_rule (esc_colon : bool) (r : list bytes * list bytes) : Prop :=
  fst r <> [] /\ Forall (fun x => wf_gen esc_colon x = true) (fst r)
  /\ Forall (fun x => wf_gen esc_colon x = true) (snd r).
