(* C15 / C13 (depfile part): proofs about DepfileDefs / DepfileEnc.  No axioms. *)
From NinjaV Require Import Base.Bytes Depfile.DepfileDefs Depfile.DepfileEnc.
From Coq Require Import Arith PeanoNat.
Local Open Scope N_scope.

Arguments N.eqb : simpl never.
Arguments N.leb : simpl never.

(* ========================================================================================== *)
(* Part A.  The scanner step: sizes.  Fuel elimination.                                        *)
(* ========================================================================================== *)

Lemma bsN_length n : length (bsN n) = n.
Proof. apply repeat_length. Qed.

Lemma count_bs_le l : (count_bs l <= length l)%nat.
Proof.
  induction l as [|c l IH]; cbn [count_bs length]; [lia|].
  destruct (N.eqb c 92); lia.
Qed.

Lemma plain_run_le l : (plain_run l <= length l)%nat.
Proof.
  induction l as [|c l IH]; cbn [plain_run length]; [lia|].
  destruct (is_plain c); lia.
Qed.

Lemma at0_nonzero_lt l k : at0 l k <> 0 -> (k < length l)%nat.
Proof.
  intros H. destruct (Nat.lt_ge_cases k (length l)) as [Hlt|Hge]; [exact Hlt|].
  exfalso. apply H. unfold at0. apply nth_overflow. exact Hge.
Qed.

Lemma eqb_at0_lt l k v : v <> 0 -> N.eqb (at0 l k) v = true -> (k < length l)%nat.
Proof.
  intros Hv H. apply N.eqb_eq in H. apply at0_nonzero_lt. congruence.
Qed.

Lemma is_plain_at0_lt l k : is_plain (at0 l k) = true -> (k < length l)%nat.
Proof.
  intros H. apply at0_nonzero_lt. intros E. rewrite E in H. vm_compute in H. discriminate.
Qed.

Lemma length_skipn_le {A} k (l : list A) : (length (skipn k l) <= length l)%nat.
Proof. rewrite skipn_length. lia. Qed.

Definition step_ok (buf : bytes) (r : sres) : Prop :=
  match r with
  | SCont e k lk =>
      (lk <= length buf)%nat /\ (1 <= k)%nat /\ (k <= length buf)%nat /\ (length e <= k)%nat
  | SBrk e k lk nl =>
      (lk <= length buf)%nat /\ (1 <= k)%nat
      /\ (length e + length (skipn k buf) <= length buf)%nat
  end.

Lemma firstn_length_plain buf : length (firstn (plain_run buf) buf) = plain_run buf.
Proof. rewrite firstn_length. pose proof (plain_run_le buf). lia. Qed.

(* every match inspects only indices <= length buf (the NUL terminator), advances, and never
   emits more than it consumes (in-place de-escaping stays behind the read cursor) *)
Lemma step_bounds buf : step_ok buf (step buf).
Proof.
  unfold step.
  pose proof (count_bs_le buf) as Hcb.
  destruct (count_bs buf) as [|m] eqn:Hn.
  - (* no backslash *)
    destruct (N.eqb (at0 buf 0) 36) eqn:E36.
    + assert (H0 : (0 < length buf)%nat) by (eapply eqb_at0_lt; [|exact E36]; discriminate).
      destruct (N.eqb (at0 buf 1) 36) eqn:E36'.
      * assert (H1 : (1 < length buf)%nat) by (eapply eqb_at0_lt; [|exact E36']; discriminate).
        cbn [step_ok length]. lia.
      * cbn [step_ok length]. rewrite skipn_length. lia.
    + destruct (is_plain (at0 buf 0)) eqn:Epl.
      * assert (H0 : (0 < length buf)%nat) by (apply is_plain_at0_lt; exact Epl).
        pose proof (plain_run_le buf) as Hpr.
        assert (Hp1 : (1 <= plain_run buf)%nat).
        { destruct buf as [|c buf']; [cbn in H0; lia|]. cbn [plain_run].
          unfold at0 in Epl. cbn [nth] in Epl. rewrite Epl. lia. }
        cbn [step_ok]. rewrite firstn_length_plain. lia.
      * destruct (N.eqb (at0 buf 0) 0) eqn:E0; [cbn [step_ok length]; rewrite skipn_length; lia|].
        assert (H0 : (0 < length buf)%nat).
        { apply at0_nonzero_lt. apply N.eqb_neq. exact E0. }
        destruct (N.eqb (at0 buf 0) 10) eqn:E10; [cbn [step_ok length]; rewrite skipn_length; lia|].
        destruct (N.eqb (at0 buf 0) 13) eqn:E13; [|cbn [step_ok length]; rewrite skipn_length; lia].
        destruct (N.eqb (at0 buf 1) 10) eqn:E10'; [|cbn [step_ok length]; rewrite skipn_length; lia].
        assert (H1 : (1 < length buf)%nat) by (eapply eqb_at0_lt; [|exact E10']; discriminate).
        cbn [step_ok length]. rewrite skipn_length. lia.
  - (* S m backslashes, then d *)
    set (n := S m) in *.
    destruct (N.eqb (at0 buf n) 32) eqn:E32.
    + assert (Hd : (n < length buf)%nat) by (eapply eqb_at0_lt; [|exact E32]; discriminate).
      destruct (Nat.odd n) eqn:Eodd.
      * cbn [step_ok]. rewrite app_length, bsN_length. cbn [length].
        assert (Nat.div2 m <= m)%nat by (apply Nat.div2_decr; lia). lia.
      * cbn [step_ok]. rewrite bsN_length, skipn_length. lia.
    + destruct (N.eqb (at0 buf n) 35) eqn:E35.
      * assert (Hd : (n < length buf)%nat) by (eapply eqb_at0_lt; [|exact E35]; discriminate).
        cbn [step_ok]. rewrite app_length, bsN_length. cbn [length]. lia.
      * destruct (N.eqb (at0 buf n) 58) eqn:E58.
        -- assert (Hd : (n < length buf)%nat) by (eapply eqb_at0_lt; [|exact E58]; discriminate).
           destruct (is_colon_blank (at0 buf (S n))) eqn:Ebl.
           ++ cbn [step_ok]. rewrite app_length, bsN_length, skipn_length. cbn [length]. lia.
           ++ assert (He : (S n < length buf)%nat).
              { apply at0_nonzero_lt. intros E. rewrite E in Ebl. vm_compute in Ebl. discriminate. }
              cbn [step_ok]. rewrite app_length, bsN_length. cbn [length]. lia.
        -- destruct (N.eqb (at0 buf n) 0 || N.eqb (at0 buf n) 13 || N.eqb (at0 buf n) 10) eqn:Eend.
           ++ destruct m as [|m'].
              ** destruct (N.eqb (at0 buf n) 10) eqn:E10.
                 { assert (Hd : (n < length buf)%nat) by (eapply eqb_at0_lt; [|exact E10]; discriminate).
                   cbn [step_ok length]. rewrite skipn_length. lia. }
                 destruct (N.eqb (at0 buf n) 13) eqn:E13.
                 { assert (Hd : (n < length buf)%nat) by (eapply eqb_at0_lt; [|exact E13]; discriminate).
                   destruct (N.eqb (at0 buf 2) 10) eqn:E10'.
                   - assert (H2 : (2 < length buf)%nat) by (eapply eqb_at0_lt; [|exact E10']; discriminate).
                     cbn [step_ok length]. rewrite skipn_length. lia.
                   - cbn [step_ok length]. rewrite skipn_length. subst n. lia. }
                 cbn [step_ok length]. rewrite skipn_length. subst n. lia.
              ** cbn [step_ok]. rewrite bsN_length. subst n. lia.
           ++ assert (Hd : (n < length buf)%nat).
              { apply at0_nonzero_lt. intros E. rewrite E in Eend. vm_compute in Eend. discriminate. }
              cbn [step_ok]. rewrite app_length, bsN_length. cbn [length]. lia.
Qed.

(* ---------------------------------------------------------------------------------------- *)
(* tok: fuel *)

Lemma step_cont_shrinks buf e k lk :
  step buf = SCont e k lk -> (length (skipn k buf) < length buf)%nat.
Proof.
  intros H. pose proof (step_bounds buf) as Hb. rewrite H in Hb. cbn [step_ok] in Hb.
  rewrite skipn_length. lia.
Qed.

Lemma tok_mono f : forall buf fn r, tok f buf fn = Some r ->
  forall f', (f <= f')%nat -> tok f' buf fn = Some r.
Proof.
  induction f as [|f IH]; intros buf fn r H f' Hle; [discriminate|].
  destruct f' as [|f']; [lia|].
  cbn [tok] in *. destruct (step buf) as [e k lk|e k lk nl].
  - apply IH with (f' := f') in H; [exact H|lia].
  - exact H.
Qed.

Lemma tok_total f : forall buf fn, (length buf < f)%nat -> exists r, tok f buf fn = Some r.
Proof.
  induction f as [|f IH]; intros buf fn Hlt; [lia|].
  cbn [tok]. destruct (step buf) as [e k lk|e k lk nl] eqn:Hs.
  - apply IH. apply step_cont_shrinks in Hs. lia.
  - eexists. reflexivity.
Qed.

(* the fuel-free token scanner *)
Definition tokR (buf fn : bytes) : option (bytes * bytes * bool) := tok (S (length buf)) buf fn.

Lemma tok_tokR f buf fn : (length buf < f)%nat -> tok f buf fn = tokR buf fn.
Proof.
  intros Hlt. unfold tokR.
  destruct (tok_total (S (length buf)) buf fn) as [r Hr]; [lia|].
  rewrite Hr. apply tok_mono with (f := S (length buf)); [exact Hr|lia].
Qed.

Lemma tokR_eq buf fn :
  tokR buf fn =
  match step buf with
  | SCont e k _ => tokR (skipn k buf) (fn ++ e)
  | SBrk e k _ nl => Some (fn ++ e, skipn k buf, nl)
  end.
Proof.
  unfold tokR at 1. cbn [tok].
  destruct (step buf) as [e k lk|e k lk nl] eqn:Hs; [|reflexivity].
  apply tok_tokR. apply step_cont_shrinks in Hs. exact Hs.
Qed.

Lemma tokR_total buf fn : exists r, tokR buf fn = Some r.
Proof. apply tok_total. lia. Qed.

(* a token consumes at least one byte of a non-empty buffer, and what it wrote fits behind "in" *)
Lemma tok_sizes f : forall buf fn fn' rest nl,
  tok f buf fn = Some (fn', rest, nl) ->
  (length fn' + length rest <= length fn + length buf)%nat
  /\ (length fn <= length fn')%nat
  /\ (buf <> [] -> length rest < length buf)%nat.
Proof.
  induction f as [|f IH]; intros buf fn fn' rest nl H; [discriminate|].
  cbn [tok] in H. pose proof (step_bounds buf) as Hb.
  destruct (step buf) as [e k lk|e k lk nl0].
  - cbn [step_ok] in Hb. apply IH in H. destruct H as (H1 & H2 & H3).
    rewrite app_length in H1, H2. rewrite skipn_length in H1.
    split; [lia|]. split; [lia|].
    intros Hne.
    assert (Hb0 : (0 < length buf)%nat) by (destruct buf; [congruence|cbn [length]; lia]).
    destruct (skipn k buf) as [|c sk] eqn:Esk.
    + lia.
    + assert (Hlt : (length rest < length (c :: sk))%nat) by (apply H3; discriminate).
      rewrite <- Esk in Hlt. rewrite skipn_length in Hlt. lia.
  - cbn [step_ok] in Hb. inversion H; subst fn' rest nl0. rewrite app_length.
    split; [lia|]. split; [lia|].
    intros Hne. rewrite skipn_length. destruct buf; [congruence|]. cbn [length]. lia.
Qed.

Lemma tokR_rest_shorter buf fn fn' rest nl :
  tokR buf fn = Some (fn', rest, nl) -> buf <> [] -> (length rest < length buf)%nat.
Proof. intros H Hne. apply tok_sizes in H. destruct H as (_ & _ & H). auto. Qed.

(* ---------------------------------------------------------------------------------------- *)
(* run: fuel *)

Lemma run_fuel_irrel f1 : forall f2 buf st,
  (length buf < f1)%nat -> (length buf < f2)%nat -> run f1 buf st = run f2 buf st.
Proof.
  induction f1 as [|f1 IH]; intros f2 buf st H1 H2; [lia|].
  destruct f2 as [|f2]; [lia|].
  destruct buf as [|c buf']; [reflexivity|].
  cbn [run]. set (buf := c :: buf') in *.
  destruct (tok (S (length buf)) buf []) as [[[fn rest] nl]|] eqn:Ht; [|reflexivity].
  destruct (absorb st fn nl) as [e|st']; [reflexivity|].
  assert (Hlt : (length rest < length buf)%nat).
  { apply tok_sizes in Ht. destruct Ht as (_ & _ & Ht). apply Ht. discriminate. }
  apply IH; lia.
Qed.

Definition runR (buf : bytes) (st : pstate) : dresult := run (S (length buf)) buf st.

Lemma runR_nil st : runR [] st = finish st.
Proof. reflexivity. Qed.

Lemma runR_eq buf st : buf <> [] ->
  runR buf st =
  match tokR buf [] with
  | None => DOutOfFuel
  | Some (fn, rest, nl) =>
      match absorb st fn nl with
      | inl e => DErr e
      | inr st' => runR rest st'
      end
  end.
Proof.
  intros Hne. destruct buf as [|c buf']; [congruence|].
  unfold runR at 1. cbn [run]. fold (tokR (c :: buf') []).
  destruct (tokR (c :: buf') []) as [[[fn rest] nl]|] eqn:Ht; [|reflexivity].
  destruct (absorb st fn nl) as [e|st']; [reflexivity|].
  apply run_fuel_irrel; [|lia].
  apply tokR_rest_shorter in Ht; [|discriminate]. cbn [length] in *. lia.
Qed.

Lemma parse_depfile_runR s : parse_depfile s = runR s p_init.
Proof. reflexivity. Qed.

Lemma run_never_out_of_fuel f : forall buf st, (length buf < f)%nat -> run f buf st <> DOutOfFuel.
Proof.
  induction f as [|f IH]; intros buf st Hlt; [lia|].
  destruct buf as [|c buf'].
  - cbn [run]. unfold finish. destruct (negb (p_have_target st) && negb (p_is_empty st)); discriminate.
  - cbn [run]. set (buf := c :: buf') in *.
    destruct (tok_total (S (length buf)) buf []) as [[[fn rest] nl] Hr]; [lia|].
    rewrite Hr. destruct (absorb st fn nl) as [e|st']; [discriminate|].
    apply IH. apply tok_sizes in Hr. destruct Hr as (_ & _ & Hr).
    assert (length rest < length buf)%nat by (apply Hr; discriminate). lia.
Qed.

(* the fuel given by parse_depfile is always sufficient *)
Theorem parse_fuel_sufficient s : parse_depfile s <> DOutOfFuel.
Proof. apply run_never_out_of_fuel. lia. Qed.

(* ========================================================================================== *)
(* Part A2.  C13: the instrumented parser; index safety.                                       *)
(* ========================================================================================== *)

Definition strip5 (r : bytes * bytes * bool * nat * nat) : bytes * bytes * bool :=
  let '(a, b, c, _, _) := r in (a, b, c).

Lemma tok_idx_erase f : forall buf fn pos hi,
  option_map strip5 (tok_idx f buf fn pos hi) = tok f buf fn.
Proof.
  induction f as [|f IH]; intros buf fn pos hi; [reflexivity|].
  cbn [tok tok_idx]. destruct (step buf) as [e k lk|e k lk nl]; [apply IH|reflexivity].
Qed.

Lemma run_idx_erase f : forall buf st pos hi, fst (run_idx f buf st pos hi) = run f buf st.
Proof.
  induction f as [|f IH]; intros buf st pos hi.
  - destruct buf; reflexivity.
  - destruct buf as [|c buf']; [reflexivity|].
    cbn [run run_idx]. set (buf := c :: buf') in *.
    pose proof (tok_idx_erase (S (length buf)) buf [] pos hi) as He.
    destruct (tok_idx (S (length buf)) buf [] pos hi) as [[[[[fn rest] nl] pos'] hi']|];
      cbn [option_map strip5] in He; rewrite <- He; [|reflexivity].
    destruct (absorb st fn nl) as [e|st']; [reflexivity|apply IH].
Qed.

(* the instrumented parser computes the same result *)
Theorem parse_depfile_idx_fst s : fst (parse_depfile_idx s) = parse_depfile s.
Proof. apply run_idx_erase. Qed.

Lemma tok_idx_bound f : forall buf fn pos hi L fn' rest nl pos' hi',
  (pos + length buf = L)%nat -> (hi <= L)%nat ->
  tok_idx f buf fn pos hi = Some (fn', rest, nl, pos', hi') ->
  (hi' <= L)%nat /\ (rest <> [] -> pos' + length rest = L)%nat.
Proof.
  induction f as [|f IH]; intros buf fn pos hi L fn' rest nl pos' hi' HL Hhi H; [discriminate|].
  cbn [tok_idx] in H. pose proof (step_bounds buf) as Hb.
  destruct (step buf) as [e k lk|e k lk nl0]; cbn [step_ok] in Hb.
  - eapply IH in H; [exact H| |lia].
    rewrite skipn_length. lia.
  - inversion H; subst fn' rest nl0 pos' hi'. split; [lia|].
    intros Hne. rewrite skipn_length.
    assert (k < length buf)%nat; [|lia].
    destruct (Nat.lt_ge_cases k (length buf)) as [Hlt|Hge]; [exact Hlt|].
    exfalso. apply Hne. apply skipn_all2. exact Hge.
Qed.

Lemma run_idx_bound f : forall buf st pos hi L,
  (buf <> [] -> pos + length buf = L)%nat -> (hi <= L)%nat ->
  (snd (run_idx f buf st pos hi) <= L)%nat.
Proof.
  induction f as [|f IH]; intros buf st pos hi L HL Hhi.
  - destruct buf; exact Hhi.
  - destruct buf as [|c buf']; [exact Hhi|].
    cbn [run_idx]. set (buf := c :: buf') in *.
    destruct (tok_idx (S (length buf)) buf [] pos hi) as [[[[[fn rest] nl] pos'] hi']|] eqn:Ht;
      [|exact Hhi].
    eapply tok_idx_bound in Ht; [|apply HL; discriminate|exact Hhi].
    destruct Ht as [Hhi' Hrest].
    destruct (absorb st fn nl) as [e|st']; [exact Hhi'|].
    apply IH; assumption.
Qed.

(* C13 (depfile): the scanner never inspects a byte beyond the NUL terminator, which sits at
   index [length s] of the buffer. *)
Theorem C13_depfile_bounds s : (snd (parse_depfile_idx s) <= length s)%nat.
Proof. apply run_idx_bound; [intros _; reflexivity|lia]. Qed.

(* C13 (depfile): the parser is total: an Ok or an Err for every byte string. *)
Theorem C13_depfile_total s :
  (exists outs ins, parse_depfile s = DOk outs ins) \/ (exists e, parse_depfile s = DErr e).
Proof.
  pose proof (parse_fuel_sufficient s) as H.
  destruct (parse_depfile s) as [o i|e|]; [left; eauto|right; eauto|congruence].
Qed.

Theorem C13_depfile_idx_total s : fst (parse_depfile_idx s) <> DOutOfFuel.
Proof. rewrite parse_depfile_idx_fst. apply parse_fuel_sufficient. Qed.

(* C13 (depfile): in-place de-escaping is safe: at the end of every token the write cursor
   ("out", = start + length of the name written) has not passed the read cursor ("in"), and a
   token started inside the content consumes at least one byte (the outer loop progresses). *)
Theorem C13_depfile_write_behind buf fn rest nl :
  tokR buf [] = Some (fn, rest, nl) ->
  (length fn + length rest <= length buf)%nat /\ (buf <> [] -> length rest < length buf)%nat.
Proof.
  intros H. apply tok_sizes in H. destruct H as (H1 & _ & H3). cbn [length] in H1. auto.
Qed.

(* ========================================================================================== *)
(* Part B.  What one scanner step does on the fragments the encoder writes.                    *)
(* ========================================================================================== *)

Lemma bsN_S n : bsN (S n) = 92 :: bsN n.
Proof. reflexivity. Qed.

Lemma bsN_snoc n l : bsN n ++ 92 :: l = bsN (S n) ++ l.
Proof. unfold bsN. induction n as [|n IH]; [reflexivity|]. cbn [repeat app] in *. rewrite IH. reflexivity. Qed.

Lemma count_bs_run k d l : d <> 92 -> count_bs (bsN k ++ d :: l) = k.
Proof.
  intros Hd. induction k as [|k IH]; cbn [bsN repeat app count_bs].
  - apply N.eqb_neq in Hd. rewrite Hd. reflexivity.
  - change (N.eqb 92 92) with true. cbn iota. fold (bsN k). rewrite IH. reflexivity.
Qed.

Lemma count_bs_run_nil k : count_bs (bsN k) = k.
Proof. induction k as [|k IH]; [reflexivity|]. cbn [bsN repeat count_bs]. change (N.eqb 92 92) with true. cbn iota. fold (bsN k). rewrite IH. reflexivity. Qed.

Lemma count_bs_run_app k l : count_bs (bsN k ++ l) = (k + count_bs l)%nat.
Proof.
  induction k as [|k IH]; [reflexivity|]. cbn [bsN repeat app count_bs].
  change (N.eqb 92 92) with true. cbn iota. fold (bsN k). rewrite IH. reflexivity.
Qed.

Lemma at0_run k d l : at0 (bsN k ++ d :: l) k = d.
Proof.
  unfold at0. rewrite <- (bsN_length k) at 1. apply nth_middle.
Qed.

Lemma at0_run_S k d l : at0 (bsN k ++ d :: l) (S k) = at0 l 0.
Proof.
  unfold at0. rewrite app_nth2; rewrite bsN_length; [|lia].
  replace (S k - k)%nat with 1%nat by lia. reflexivity.
Qed.

Lemma skipn_run k l : skipn k (bsN k ++ l) = l.
Proof. induction k as [|k IH]; [reflexivity|]. cbn [bsN repeat app skipn]. exact IH. Qed.

Lemma skipn_run_S k d l : skipn (S k) (bsN k ++ d :: l) = l.
Proof. induction k as [|k IH]; [reflexivity|]. cbn [bsN repeat app skipn] in *. exact IH. Qed.

Lemma skipn_run_SS k d e l : skipn (S (S k)) (bsN k ++ d :: e :: l) = l.
Proof. induction k as [|k IH]; [reflexivity|]. cbn [bsN repeat app skipn] in *. exact IH. Qed.

(* 2k+1 backslashes and a space: k backslashes and a space, the name goes on *)
Lemma step_bs_space_odd k R :
  exists lk, step (bsN (S (k + k)) ++ 32 :: R) = SCont (bsN k ++ [32]) (S (S (k + k))) lk.
Proof.
  unfold step. rewrite count_bs_run by discriminate. cbv beta iota zeta.
  rewrite at0_run. change (N.eqb 32 32) with true. cbv iota.
  assert (Ho : Nat.odd (S (k + k)) = true).
  { rewrite Nat.odd_succ. replace (k + k)%nat with (2 * k)%nat by lia. apply Nat.even_mul. }
  rewrite Ho.
  assert (Hd : Nat.div2 (k + k) = k).
  { replace (k + k)%nat with (2 * k)%nat by lia. apply Nat.div2_double. }
  rewrite Hd. eexists. reflexivity.
Qed.

(* an even, non-zero number of backslashes and a space: all of them, end of the name *)
Lemma step_bs_space_even j R : Nat.even (S j) = true ->
  exists lk, step (bsN (S j) ++ 32 :: R) = SBrk (bsN (S j)) (S (S j)) lk false.
Proof.
  intros He. unfold step. rewrite count_bs_run by discriminate. cbv beta iota zeta.
  rewrite at0_run. change (N.eqb 32 32) with true. cbv iota.
  unfold Nat.odd. rewrite He. cbn [negb]. eexists. reflexivity.
Qed.

Lemma step_bs_hash k R :
  exists lk, step (bsN (S k) ++ 35 :: R) = SCont (bsN k ++ [35]) (S (S k)) lk.
Proof.
  unfold step. rewrite count_bs_run by discriminate. cbv beta iota zeta.
  rewrite at0_run. change (N.eqb 35 32) with false. change (N.eqb 35 35) with true. cbv iota.
  eexists. reflexivity.
Qed.

(* backslashes, a colon, and then something that is not blank: an escaped colon *)
Lemma step_bs_colon_esc k R : is_colon_blank (at0 R 0) = false ->
  exists lk, step (bsN (S k) ++ 58 :: R) = SCont (bsN k ++ [58]) (S (S k)) lk.
Proof.
  intros Hb. unfold step. rewrite count_bs_run by discriminate. cbv beta iota zeta.
  rewrite at0_run, at0_run_S, Hb.
  change (N.eqb 58 32) with false. change (N.eqb 58 35) with false. change (N.eqb 58 58) with true.
  cbv iota. eexists. reflexivity.
Qed.

(* backslashes, a colon, and a blank: plain text; the blank is consumed too *)
Lemma step_bs_colon_blank k e R : is_colon_blank e = true ->
  exists lk, step (bsN (S k) ++ 58 :: e :: R) = SBrk (bsN (S k) ++ [58]) (S (S (S k))) lk (N.eqb e 10).
Proof.
  intros Hb. unfold step. rewrite count_bs_run by discriminate. cbv beta iota zeta.
  rewrite at0_run, at0_run_S. unfold at0 at 1. cbn [nth]. rewrite Hb.
  change (N.eqb 58 32) with false. change (N.eqb 58 35) with false. change (N.eqb 58 58) with true.
  cbv iota. eexists. reflexivity.
Qed.

(* backslashes and an ordinary byte: verbatim *)
Lemma step_bs_other k d R :
  d <> 92 -> d <> 32 -> d <> 35 -> d <> 58 -> d <> 0 -> d <> 13 -> d <> 10 ->
  exists lk, step (bsN (S k) ++ d :: R) = SCont (bsN (S k) ++ [d]) (S (S k)) lk.
Proof.
  intros H92 H32 H35 H58 H0 H13 H10.
  unfold step. rewrite count_bs_run by exact H92. cbv beta iota zeta.
  rewrite at0_run.
  apply N.eqb_neq in H32, H35, H58, H0, H13, H10.
  rewrite H32, H35, H58, H0, H13, H10. cbn [orb]. eexists. reflexivity.
Qed.

(* two or more backslashes before a newline or CR: verbatim, the name goes on (and ends at once) *)
Lemma step_bs_eol j d R : d = 10 \/ d = 13 ->
  exists lk, step (bsN (S (S j)) ++ d :: R) = SCont (bsN (S (S j))) (S (S j)) lk.
Proof.
  intros Hd. unfold step. rewrite count_bs_run by (destruct Hd; subst d; discriminate).
  cbv beta iota zeta. rewrite at0_run.
  destruct Hd; subst d.
  - change (N.eqb 10 32) with false. change (N.eqb 10 35) with false. change (N.eqb 10 58) with false.
    change (N.eqb 10 0 || N.eqb 10 13 || N.eqb 10 10) with true. cbv iota. eexists. reflexivity.
  - change (N.eqb 13 32) with false. change (N.eqb 13 35) with false. change (N.eqb 13 58) with false.
    change (N.eqb 13 0 || N.eqb 13 13 || N.eqb 13 10) with true. cbv iota. eexists. reflexivity.
Qed.

Lemma step_dollar2 R : step (36 :: 36 :: R) = SCont [36] 2 1.
Proof. reflexivity. Qed.

Lemma step_sp R : step (32 :: R) = SBrk [] 1 0 false.
Proof. reflexivity. Qed.

Lemma step_nl R : step (10 :: R) = SBrk [] 1 0 true.
Proof. reflexivity. Qed.

Lemma step_crnl R : step (13 :: 10 :: R) = SBrk [] 2 1 true.
Proof. reflexivity. Qed.

Lemma step_bs_nl R : step (92 :: 10 :: R) = SBrk [] 2 1 false.
Proof. reflexivity. Qed.

Lemma step_bs_crnl R : step (92 :: 13 :: 10 :: R) = SBrk [] 3 2 false.
Proof. reflexivity. Qed.

(* the greedy plain run is the same as taking plain bytes one at a time *)
Lemma is_plain_facts c : is_plain c = true ->
  c <> 92 /\ c <> 32 /\ c <> 35 /\ c <> 36 /\ c <> 0 /\ c <> 13 /\ c <> 10 /\ c <> 9.
Proof.
  intros H. repeat split; intros E; subst c; vm_compute in H; discriminate.
Qed.

Lemma step_plain c R : is_plain c = true ->
  step (c :: R) = SCont (c :: firstn (plain_run R) R) (S (plain_run R)) (S (plain_run R)).
Proof.
  intros Hp. destruct (is_plain_facts c Hp) as (H92 & _ & _ & H36 & _).
  unfold step. cbn [count_bs]. apply N.eqb_neq in H92. rewrite H92. cbv beta iota zeta.
  unfold at0. cbn [nth]. apply N.eqb_neq in H36. rewrite H36, Hp.
  cbn [plain_run]. rewrite Hp. reflexivity.
Qed.

Lemma tokR_plain_one c R fn : is_plain c = true -> tokR (c :: R) fn = tokR R (fn ++ [c]).
Proof.
  intros Hp. rewrite tokR_eq, (step_plain c R Hp). cbn [skipn].
  destruct R as [|d R'].
  - cbn [plain_run firstn skipn]. reflexivity.
  - destruct (is_plain d) eqn:Hd.
    + rewrite (tokR_eq (d :: R')), (step_plain d R' Hd).
      cbn [plain_run]. rewrite Hd. cbn [firstn skipn].
      rewrite <- app_assoc. reflexivity.
    + cbn [plain_run]. rewrite Hd. cbn [firstn skipn]. reflexivity.
Qed.

(* ========================================================================================== *)
(* Part C.  Shape of the encoder output.                                                       *)
(* ========================================================================================== *)

Lemma run_then_space_run k d l : d <> 92 -> run_then_space (bsN k ++ d :: l) = N.eqb d 32.
Proof.
  intros Hd. induction k as [|k IH]; cbn [bsN repeat app run_then_space].
  - apply N.eqb_neq in Hd. rewrite Hd. reflexivity.
  - change (N.eqb 92 92) with true. cbv iota. exact IH.
Qed.

Lemma run_then_space_nil k : run_then_space (bsN k) = false.
Proof.
  induction k as [|k IH]; [reflexivity|]. cbn [bsN repeat run_then_space].
  change (N.eqb 92 92) with true. cbv iota. exact IH.
Qed.

Lemma enc_byte_bs b y : enc_byte b 92 y = if run_then_space y then [92; 92] else [92].
Proof. reflexivity. Qed.

Lemma enc_run b k d x' : d <> 92 ->
  enc_gen b (bsN k ++ d :: x')
  = (if N.eqb d 32 then bsN (k + k) else bsN k) ++ enc_byte b d x' ++ enc_gen b x'.
Proof.
  intros Hd. induction k as [|k IH].
  - cbn [bsN repeat app enc_gen Nat.add]. destruct (N.eqb d 32); reflexivity.
  - cbn [bsN repeat app enc_gen]. fold (bsN k). rewrite IH, enc_byte_bs, run_then_space_run by exact Hd.
    destruct (N.eqb d 32).
    + replace (S k + S k)%nat with (S (S (k + k))) by lia. reflexivity.
    + reflexivity.
Qed.

Lemma enc_trailing b k : enc_gen b (bsN k) = bsN k.
Proof.
  induction k as [|k IH]; [reflexivity|].
  cbn [bsN repeat enc_gen]. fold (bsN k). rewrite IH, enc_byte_bs, run_then_space_nil. reflexivity.
Qed.

Lemma allowed_cases c : allowed c = true ->
  c = 92 \/ c = 32 \/ c = 35 \/ c = 36 \/ is_plain c = true.
Proof.
  unfold allowed. intros H.
  destruct (is_plain c); [tauto|]. cbn [orb] in H.
  destruct (N.eqb_spec c 32); [tauto|]. destruct (N.eqb_spec c 35); [tauto|].
  destruct (N.eqb_spec c 36); [tauto|]. destruct (N.eqb_spec c 92); [tauto|]. discriminate.
Qed.

Lemma is_plain_58 : is_plain 58 = true.
Proof. reflexivity. Qed.

(* the first byte written for a non-empty name is never one of NUL SP CR LF TAB *)
Lemma enc_hd_nonblank b x rest : x <> [] -> forallb allowed x = true ->
  is_colon_blank (at0 (enc_gen b x ++ rest) 0) = false.
Proof.
  intros Hne Hall. destruct x as [|c x']; [congruence|].
  cbn [forallb] in Hall. apply andb_true_iff in Hall. destruct Hall as [Hc _].
  cbn [enc_gen].
  destruct (allowed_cases c Hc) as [->|[->|[->|[->|Hp]]]].
  - rewrite enc_byte_bs. destruct (run_then_space x'); reflexivity.
  - reflexivity.
  - reflexivity.
  - reflexivity.
  - destruct (is_plain_facts c Hp) as (H92 & H32 & H35 & H36 & H0 & H13 & H10 & H9).
    unfold enc_byte. apply N.eqb_neq in H92, H32, H35, H36, H0, H13, H10, H9.
    rewrite H92, H32, H35, H36.
    destruct (b && N.eqb c 58); [reflexivity|].
    cbn [app]. unfold at0. cbn [nth].
    unfold is_colon_blank. rewrite H32, H0, H13, H10, H9. reflexivity.
Qed.

(* ========================================================================================== *)
(* Part D.  The scanner reads an encoded name back.                                            *)
(* ========================================================================================== *)

Lemma tokR_cont buf fn e k lk : step buf = SCont e k lk -> tokR buf fn = tokR (skipn k buf) (fn ++ e).
Proof. intros H. rewrite tokR_eq, H. reflexivity. Qed.

Lemma tokR_brk buf fn e k lk nl :
  step buf = SBrk e k lk nl -> tokR buf fn = Some (fn ++ e, skipn k buf, nl).
Proof. intros H. rewrite tokR_eq, H. reflexivity. Qed.

(* k pending backslashes of the name followed by the (non-backslash) name byte c *)
Lemma tok_name_char b c k x' fn R :
  c <> 92 -> allowed c = true ->
  (k <> 0%nat -> bad_pair b 92 c = false) ->
  (c = 58 -> b = true -> is_colon_blank (at0 R 0) = false) ->
  tokR ((if N.eqb c 32 then bsN (k + k) else bsN k) ++ enc_byte b c x' ++ R) fn
  = tokR R (fn ++ bsN k ++ [c]).
Proof.
  intros H92 Hal Hbad Hcolon.
  destruct (allowed_cases c Hal) as [->|[->|[->|[->|Hp]]]]; [congruence| | | |].
  - (* space *)
    change (N.eqb 32 32) with true. cbv iota. change (enc_byte b 32 x') with [92; 32].
    cbn [app]. rewrite bsN_snoc.
    destruct (step_bs_space_odd k R) as [lk Hs].
    rewrite (tokR_cont _ _ _ _ _ Hs), skipn_run_S. reflexivity.
  - (* # *)
    change (N.eqb 35 32) with false. cbv iota. change (enc_byte b 35 x') with [92; 35].
    cbn [app]. rewrite bsN_snoc.
    destruct (step_bs_hash k R) as [lk Hs].
    rewrite (tokR_cont _ _ _ _ _ Hs), skipn_run_S. reflexivity.
  - (* $ *)
    change (N.eqb 36 32) with false. cbv iota. change (enc_byte b 36 x') with [36; 36].
    destruct k as [|k']; [|exfalso; specialize (Hbad ltac:(discriminate)); vm_compute in Hbad;
                           destruct b; discriminate].
    cbn [bsN repeat app]. rewrite (tokR_cont _ _ _ _ _ (step_dollar2 R)). reflexivity.
  - (* plain class *)
    destruct (is_plain_facts c Hp) as (_ & H32 & H35 & H36 & H0 & H13 & H10 & _).
    pose proof H32 as E32. apply N.eqb_neq in E32. rewrite E32.
    destruct (N.eqb_spec c 58) as [->|H58].
    + (* ':' *)
      destruct b.
      * change (enc_byte true 58 x') with [92; 58]. cbn [app]. rewrite bsN_snoc.
        destruct (step_bs_colon_esc k R (Hcolon eq_refl eq_refl)) as [lk Hs].
        rewrite (tokR_cont _ _ _ _ _ Hs), skipn_run_S. reflexivity.
      * change (enc_byte false 58 x') with [58].
        destruct k as [|k']; [|exfalso; specialize (Hbad ltac:(discriminate)); vm_compute in Hbad;
                               discriminate].
        cbn [bsN repeat app]. apply tokR_plain_one. reflexivity.
    + assert (Henc : enc_byte b c x' = [c]).
      { unfold enc_byte. apply N.eqb_neq in H92, H35, H36, H58. rewrite H92, E32, H35, H36, H58.
        rewrite andb_false_r. reflexivity. }
      rewrite Henc. destruct k as [|k'].
      * cbn [bsN repeat app]. apply tokR_plain_one. exact Hp.
      * cbn [app].
        destruct (step_bs_other k' c R H92 H32 H35 H58 H0 H13 H10) as [lk Hs].
        rewrite (tokR_cont _ _ _ _ _ Hs), skipn_run_S. reflexivity.
Qed.

Lemma ok_adj_app_r b l m : ok_adj b (l ++ m) = true -> ok_adj b m = true.
Proof.
  induction l as [|c l IH]; [auto|]. cbn [app ok_adj]. intros H.
  apply andb_true_iff in H. destruct H as [_ H]. auto.
Qed.

Lemma ok_adj_run_hd b k c x : ok_adj b (bsN (S k) ++ c :: x) = true -> bad_pair b 92 c = false.
Proof.
  induction k as [|k IH].
  - cbn [bsN repeat app ok_adj]. intros H. apply andb_true_iff in H. destruct H as [H _].
    apply negb_true_iff in H. exact H.
  - intros H. apply IH. change (bsN (S (S k))) with (92 :: bsN (S k)) in H.
    cbn [app ok_adj] in H. apply andb_true_iff in H. destruct H as [_ H]. exact H.
Qed.

Lemma hd_rev_cons (c : byte) x' : x' <> [] -> hd 0 (rev (c :: x')) = hd 0 (rev x').
Proof.
  intros Hne. cbn [rev]. destruct (rev x') as [|a l] eqn:E.
  - exfalso. apply Hne. rewrite <- (rev_involutive x'), E. reflexivity.
  - reflexivity.
Qed.

Lemma count_bs_app_zero l m : l <> [] -> count_bs l = 0%nat -> count_bs (l ++ m) = 0%nat.
Proof.
  intros Hne H. destruct l as [|a l]; [congruence|]. cbn [app count_bs] in *.
  destruct (N.eqb a 92); [discriminate|reflexivity].
Qed.

Lemma rev_bsN k : rev (bsN k) = bsN k.
Proof.
  induction k as [|k IH]; [reflexivity|]. cbn [bsN repeat rev]. fold (bsN k). rewrite IH.
  symmetry. apply (repeat_cons k 92).
Qed.

(* The scanner, started anywhere inside a token on the encoding of [bsN k ++ x], appends the name
   bytes up to the final run of backslashes, which is left for the context to decide. *)
Lemma tok_name_body b : forall x k fn rest,
  forallb allowed x = true ->
  ok_adj b (bsN k ++ x) = true ->
  N.eqb (hd 0 (rev x)) 58 = false ->
  exists j body,
    bsN k ++ x = body ++ bsN j /\ count_bs (rev body) = 0%nat /\
    tokR (enc_gen b (bsN k ++ x) ++ rest) fn = tokR (bsN j ++ rest) (fn ++ body).
Proof.
  induction x as [|c x' IH]; intros k fn rest Hall Hadj Hlast.
  - exists k, []. rewrite !app_nil_r, enc_trailing. cbn [app rev count_bs]. auto.
  - cbn [forallb] in Hall. apply andb_true_iff in Hall. destruct Hall as [Hc Hall'].
    assert (Hlast' : N.eqb (hd 0 (rev x')) 58 = false).
    { destruct x' as [|d x'']; [reflexivity|]. rewrite hd_rev_cons in Hlast by discriminate. exact Hlast. }
    destruct (N.eqb_spec c 92) as [->|H92].
    + rewrite bsN_snoc in *. apply IH; assumption.
    + rewrite enc_run by exact H92.
      assert (Hstep : tokR ((if N.eqb c 32 then bsN (k + k) else bsN k)
                              ++ enc_byte b c x' ++ enc_gen b x' ++ rest) fn
                      = tokR (enc_gen b x' ++ rest) (fn ++ bsN k ++ [c])).
      { apply tok_name_char; [exact H92|exact Hc| |].
        - intros Hk. destruct k as [|k']; [congruence|]. eapply ok_adj_run_hd. exact Hadj.
        - intros -> _. apply enc_hd_nonblank; [|exact Hall'].
          intros ->. cbn [rev app hd] in Hlast. vm_compute in Hlast. discriminate. }
      destruct (IH 0%nat (fn ++ bsN k ++ [c]) rest Hall') as (j & body' & Hx' & Hcnt & Htok).
      { cbn [bsN repeat app]. apply ok_adj_app_r with (l := bsN k ++ [c]).
        rewrite <- app_assoc. exact Hadj. }
      { exact Hlast'. }
      cbn [bsN repeat app] in Hx', Htok.
      exists j, (bsN k ++ c :: body'). split; [|split].
      * rewrite Hx', <- app_assoc. reflexivity.
      * rewrite rev_app_distr. cbn [rev]. rewrite <- app_assoc.
        destruct (rev body') as [|a l] eqn:Erev.
        -- cbn [app count_bs]. apply N.eqb_neq in H92. rewrite H92. reflexivity.
        -- apply count_bs_app_zero; [discriminate|exact Hcnt].
      * rewrite <- !app_assoc. rewrite Hstep, Htok. f_equal. rewrite <- !app_assoc. reflexivity.
Qed.

(* ========================================================================================== *)
(* Part E.  Names in context: what may follow a name, tokens, and the state machine.           *)
(* ========================================================================================== *)

(* what follows a name in the layouts: a space, a newline, or CR LF;
   [term T r nl]: T starts with such a terminator, r is what comes after it *)
Inductive term : bytes -> bytes -> bool -> Prop :=
| term_sp r : term (32 :: r) r false
| term_nl r : term (10 :: r) r true
| term_crnl r : term (13 :: 10 :: r) r true.

Lemma term_tok T r nl fn : term T r nl -> tokR T fn = Some (fn, r, nl).
Proof.
  intros H. destruct H as [r|r|r].
  - rewrite (tokR_brk _ _ _ _ _ _ (step_sp r)), app_nil_r. reflexivity.
  - rewrite (tokR_brk _ _ _ _ _ _ (step_nl r)), app_nil_r. reflexivity.
  - rewrite (tokR_brk _ _ _ _ _ _ (step_crnl r)), app_nil_r. reflexivity.
Qed.

Lemma term_nonnil T r nl : term T r nl -> T <> [].
Proof. intros H; destruct H; discriminate. Qed.

(* an even run of trailing backslashes stays in the name, whatever the terminator *)
Lemma tok_end j T r nl fn : Nat.even j = true -> term T r nl ->
  tokR (bsN j ++ T) fn = Some (fn ++ bsN j, r, nl).
Proof.
  intros He Ht. destruct j as [|[|j]].
  - cbn [bsN repeat app]. rewrite app_nil_r. apply term_tok. exact Ht.
  - discriminate.
  - destruct Ht as [r|r|r].
    + destruct (step_bs_space_even (S j) r He) as [lk Hs].
      rewrite (tokR_brk _ _ _ _ _ _ Hs), skipn_run_S. reflexivity.
    + destruct (step_bs_eol j 10 r (or_introl eq_refl)) as [lk Hs].
      rewrite (tokR_cont _ _ _ _ _ Hs), skipn_run. apply term_tok. constructor.
    + destruct (step_bs_eol j 13 (10 :: r) (or_intror eq_refl)) as [lk Hs].
      rewrite (tokR_cont _ _ _ _ _ Hs), skipn_run. apply term_tok. constructor.
Qed.

Lemma wf_gen_inv b x : wf_gen b x = true ->
  x <> [] /\ forallb allowed x = true /\ ok_adj b x = true
  /\ N.eqb (hd 0 (rev x)) 58 = false /\ Nat.even (count_bs (rev x)) = true.
Proof.
  unfold wf_gen. intros H.
  apply andb_true_iff in H. destruct H as [H H5].
  apply andb_true_iff in H. destruct H as [H H4].
  apply andb_true_iff in H. destruct H as [H H3].
  apply andb_true_iff in H. destruct H as [H1 H2].
  repeat split; try assumption.
  - intros ->. discriminate.
  - apply negb_true_iff. exact H4.
Qed.

(* decomposition of a well-formed name reached by the scanner *)
Lemma tok_name_wf b x rest fn : wf_gen b x = true ->
  exists j body, x = body ++ bsN j /\ Nat.even j = true /\
    tokR (enc_gen b x ++ rest) fn = tokR (bsN j ++ rest) (fn ++ body).
Proof.
  intros Hwf. destruct (wf_gen_inv b x Hwf) as (_ & Hall & Hadj & Hlast & Hev).
  destruct (tok_name_body b x 0%nat fn rest Hall Hadj Hlast) as (j & body & Hx & Hcnt & Htok).
  cbn [bsN repeat app] in Hx, Htok.
  exists j, body. split; [exact Hx|]. split; [|exact Htok].
  rewrite Hx, rev_app_distr, rev_bsN, count_bs_run_app, Hcnt, Nat.add_0_r in Hev. exact Hev.
Qed.

(* K1: a name followed by a terminator is one token *)
Lemma tok_name_term b x T r nl : wf_gen b x = true -> term T r nl ->
  tokR (enc_gen b x ++ T) [] = Some (x, r, nl).
Proof.
  intros Hwf Ht. destruct (tok_name_wf b x T [] Hwf) as (j & body & Hx & Hev & Htok).
  rewrite Htok, (tok_end j T r nl _ Hev Ht). cbn [app]. rewrite <- Hx. reflexivity.
Qed.

(* K2: a name followed by ':' and a terminator *)
Lemma tok_name_colon_term b x T r nl : wf_gen b x = true -> term T r nl ->
  tokR (enc_gen b x ++ 58 :: T) [] = Some (x ++ [58], r, nl)
  \/ (T = 13 :: 10 :: r /\ tokR (enc_gen b x ++ 58 :: T) [] = Some (x ++ [58], 10 :: r, false)).
Proof.
  intros Hwf Ht. destruct (tok_name_wf b x (58 :: T) [] Hwf) as (j & body & Hx & Hev & Htok).
  rewrite Htok. cbn [app]. destruct j as [|j].
  - left. cbn [bsN repeat app] in *. rewrite app_nil_r in Hx. subst body.
    rewrite tokR_plain_one by reflexivity. apply term_tok. exact Ht.
  - destruct Ht as [r|r|r].
    + left. destruct (step_bs_colon_blank j 32 r eq_refl) as [lk Hs].
      rewrite (tokR_brk _ _ _ _ _ _ Hs), skipn_run_SS, Hx, <- app_assoc. reflexivity.
    + left. destruct (step_bs_colon_blank j 10 r eq_refl) as [lk Hs].
      rewrite (tokR_brk _ _ _ _ _ _ Hs), skipn_run_SS, Hx, <- app_assoc. reflexivity.
    + right. split; [reflexivity|]. destruct (step_bs_colon_blank j 13 (10 :: r) eq_refl) as [lk Hs].
      rewrite (tokR_brk _ _ _ _ _ _ Hs), skipn_run_SS, Hx, <- app_assoc. reflexivity.
Qed.

(* ---------------------------------------------------------------------------------------- *)
(* the state machine *)

Definition newline (st : pstate) : pstate :=
  mkP (p_outs st) (p_ins st) (p_have_target st) true false (p_is_empty st).

Lemma absorb_nil st nl : absorb st [] nl = inr (if nl then newline st else st).
Proof. destruct st, nl; reflexivity. Qed.

Lemma absorb_split st fn nl :
  absorb st fn nl =
  match absorb st fn false with
  | inl e => inl e
  | inr st' => inr (if nl then newline st' else st')
  end.
Proof.
  destruct st as [o i ht pt po em]. unfold absorb. cbn [p_outs p_ins p_have_target p_parsing_targets p_poisoned p_is_empty].
  destruct (strip_colon fn) as [piece colon].
  destruct (is_nil piece); [destruct nl; reflexivity|].
  destruct (negb (mem_bytes piece i)).
  - destruct (negb pt).
    + destruct po; [reflexivity|destruct nl; reflexivity].
    + destruct (mem_bytes piece o); destruct nl; reflexivity.
  - destruct (negb pt); destruct nl; reflexivity.
Qed.

Lemma run_term T r nl st : term T r nl -> runR T st = runR r (if nl then newline st else st).
Proof.
  intros Ht. rewrite runR_eq by (eapply term_nonnil; exact Ht).
  rewrite (term_tok _ _ _ _ Ht), absorb_nil. reflexivity.
Qed.

Lemma run_sp r st : runR (32 :: r) st = runR r st.
Proof. apply (run_term _ _ _ st (term_sp r)). Qed.

Lemma run_bs_nl r st : runR (92 :: 10 :: r) st = runR r st.
Proof.
  rewrite runR_eq by discriminate.
  rewrite (tokR_brk _ _ _ _ _ _ (step_bs_nl r)). cbn [app skipn]. rewrite absorb_nil. reflexivity.
Qed.

Lemma run_bs_crnl r st : runR (92 :: 13 :: 10 :: r) st = runR r st.
Proof.
  rewrite runR_eq by discriminate.
  rewrite (tokR_brk _ _ _ _ _ _ (step_bs_crnl r)). cbn [app skipn]. rewrite absorb_nil. reflexivity.
Qed.

(* K1': the name is consumed, its terminator is left to be scanned *)
Lemma run_name b x T r nl st : wf_gen b x = true -> term T r nl ->
  runR (enc_gen b x ++ T) st =
  match absorb st x false with
  | inl e => DErr e
  | inr st' => runR T st'
  end.
Proof.
  intros Hwf Ht. pose proof (term_nonnil _ _ _ Ht) as Hne.
  rewrite runR_eq by (intros E; apply app_eq_nil in E; tauto).
  rewrite (tok_name_term b x T r nl Hwf Ht), absorb_split.
  destruct (absorb st x false) as [e|st']; [reflexivity|].
  rewrite (run_term _ _ _ st' Ht). reflexivity.
Qed.

(* K2': the name and the colon are consumed *)
Lemma run_name_colon b x T r nl st : wf_gen b x = true -> term T r nl ->
  runR (enc_gen b x ++ 58 :: T) st =
  match absorb st (x ++ [58]) false with
  | inl e => DErr e
  | inr st' => runR T st'
  end.
Proof.
  intros Hwf Ht.
  rewrite runR_eq by (intros E; apply app_eq_nil in E; destruct E; discriminate).
  destruct (tok_name_colon_term b x T r nl Hwf Ht) as [Htok|[HT Htok]]; rewrite Htok.
  - rewrite absorb_split. destruct (absorb st (x ++ [58]) false) as [e|st']; [reflexivity|].
    rewrite (run_term _ _ _ st' Ht). reflexivity.
  - destruct (absorb st (x ++ [58]) false) as [e|st']; [reflexivity|].
    rewrite HT. rewrite (run_term _ _ _ st' (term_crnl r)), (run_term _ _ _ st' (term_nl r)).
    reflexivity.
Qed.

Lemma strip_colon_wf b x : wf_gen b x = true -> strip_colon x = (x, false).
Proof.
  intros Hwf. destruct (wf_gen_inv b x Hwf) as (_ & _ & _ & Hlast & _).
  unfold strip_colon. destruct (rev x) as [|c r] eqn:E.
  - rewrite <- (rev_involutive x), E. reflexivity.
  - cbn [hd] in Hlast. rewrite Hlast. reflexivity.
Qed.

Lemma strip_colon_snoc x : strip_colon (x ++ [58]) = (x, true).
Proof.
  unfold strip_colon. rewrite rev_app_distr. cbn [rev app].
  change (N.eqb 58 58) with true. cbv iota. rewrite rev_involutive. reflexivity.
Qed.

Lemma wf_is_nil b x : wf_gen b x = true -> is_nil x = false.
Proof. intros H. destruct x; [discriminate|reflexivity]. Qed.

Definition tgt_outs (o i : list bytes) (x : bytes) : list bytes :=
  if mem_bytes x i then o else if mem_bytes x o then o else o ++ [x].
Definition tgt_po (i : list bytes) (po : bool) (x : bytes) : bool :=
  if mem_bytes x i then true else po.

Lemma absorb_target b x o i ht po em : wf_gen b x = true ->
  absorb (mkP o i ht true po em) x false = inr (mkP (tgt_outs o i x) i ht true (tgt_po i po x) false).
Proof.
  intros Hwf. unfold absorb, tgt_outs, tgt_po. rewrite (strip_colon_wf b x Hwf), (wf_is_nil b x Hwf).
  cbn [p_outs p_ins p_have_target p_parsing_targets p_poisoned p_is_empty negb].
  destruct (mem_bytes x i); cbn [negb]; [reflexivity|].
  destruct (mem_bytes x o); reflexivity.
Qed.

Lemma absorb_target_colon b x o i ht po em : wf_gen b x = true ->
  absorb (mkP o i ht true po em) (x ++ [58]) false
  = inr (mkP (tgt_outs o i x) i true false (tgt_po i po x) false).
Proof.
  intros Hwf. unfold absorb, tgt_outs, tgt_po. rewrite strip_colon_snoc, (wf_is_nil b x Hwf).
  cbn [p_outs p_ins p_have_target p_parsing_targets p_poisoned p_is_empty negb].
  destruct (mem_bytes x i); cbn [negb]; [reflexivity|].
  destruct (mem_bytes x o); reflexivity.
Qed.

Lemma absorb_dep b x o i ht po em : wf_gen b x = true ->
  absorb (mkP o i ht false po em) x false =
  if mem_bytes x i then inr (mkP o i ht false po false)
  else if po then inl ErrInputsHaveInputs
  else inr (mkP o (i ++ [x]) ht false po false).
Proof.
  intros Hwf. unfold absorb. rewrite (strip_colon_wf b x Hwf), (wf_is_nil b x Hwf).
  cbn [p_outs p_ins p_have_target p_parsing_targets p_poisoned p_is_empty negb].
  destruct (mem_bytes x i); cbn [negb]; [reflexivity|].
  destruct po; reflexivity.
Qed.

(* ========================================================================================== *)
(* Part F.  A rendered rule, a rendered list of rules.                                         *)
(* ========================================================================================== *)

Definition wfP (b : bool) (x : bytes) : Prop := wf_gen b x = true.

(* everything after the colon of a rule, followed by R *)
Definition tailR (b : bool) (l : layout) (ds : list bytes) (R : bytes) : bytes :=
  concat (map (fun d => dep_sep l ++ enc_gen b d) ds) ++ repeat 32 (lay_trail l) ++ eol l ++ R.

Lemma render_tailR b l ts ds R :
  render_gen b l ts ds ++ R = join_sp (map (enc_gen b) ts) ++ 58 :: tailR b l ds R.
Proof. unfold render_gen, tailR. rewrite <- !app_assoc. reflexivity. Qed.

Lemma join_sp_cons2 a c l : join_sp (a :: c :: l) = a ++ 32 :: join_sp (c :: l).
Proof. reflexivity. Qed.

Lemma join_sp_one a : join_sp [a] = a.
Proof. cbn. apply app_nil_r. Qed.

Lemma dep_sep_hd l : exists s', dep_sep l = 32 :: s'.
Proof. unfold dep_sep. destruct (lay_cont l); eexists; reflexivity. Qed.

Lemma run_dep_sep l r st : runR (dep_sep l ++ r) st = runR r st.
Proof.
  unfold dep_sep, eol. destruct (lay_cont l); destruct (lay_crlf l); cbn [app].
  - rewrite run_sp, run_bs_crnl, run_sp. reflexivity.
  - rewrite run_sp, run_bs_nl, run_sp. reflexivity.
  - apply run_sp.
  - apply run_sp.
Qed.

Lemma run_line_end l R st : runR (repeat 32 (lay_trail l) ++ eol l ++ R) st = runR R (newline st).
Proof.
  induction (lay_trail l) as [|t IH].
  - cbn [repeat app]. unfold eol. destruct (lay_crlf l); cbn [app].
    + apply (run_term _ _ _ st (term_crnl R)).
    + apply (run_term _ _ _ st (term_nl R)).
  - cbn [repeat app]. rewrite run_sp. exact IH.
Qed.

Lemma term_tailR b l ds R : exists r nl, term (tailR b l ds R) r nl.
Proof.
  unfold tailR. destruct ds as [|d ds'].
  - cbn [map concat app]. destruct (lay_trail l) as [|t].
    + cbn [repeat app]. unfold eol. destruct (lay_crlf l); cbn [app]; do 2 eexists; constructor.
    + cbn [repeat app]. do 2 eexists. constructor.
  - cbn [map concat]. destruct (dep_sep_hd l) as [s' ->]. cbn [app]. do 2 eexists. constructor.
Qed.

Lemma run_targets b T r nl : term T r nl ->
  forall ts t o i ht po em, wfP b t -> Forall (wfP b) ts ->
  runR (join_sp (map (enc_gen b) (t :: ts)) ++ 58 :: T) (mkP o i ht true po em) =
  runR T (mkP (fst (targets_sem o i po (t :: ts))) i true false
              (snd (targets_sem o i po (t :: ts))) false).
Proof.
  intros Ht. induction ts as [|t2 ts IH]; intros t o i ht po em Hwt Hwts.
  - cbn [map]. rewrite join_sp_one.
    rewrite (run_name_colon b t T r nl _ Hwt Ht), (absorb_target_colon b t _ _ _ _ _ Hwt).
    unfold tgt_outs, tgt_po. cbn [targets_sem].
    destruct (mem_bytes t i); [reflexivity|]. destruct (mem_bytes t o); reflexivity.
  - inversion Hwts as [|? ? Hwt2 Hwts']; subst.
    cbn [map]. rewrite join_sp_cons2, <- app_assoc. cbn [app].
    rewrite (run_name b t _ _ _ _ Hwt (term_sp _)), (absorb_target b t _ _ _ _ _ Hwt), run_sp.
    change (enc_gen b t2 :: map (enc_gen b) ts) with (map (enc_gen b) (t2 :: ts)).
    rewrite (IH t2 _ _ _ _ _ Hwt2 Hwts').
    unfold tgt_outs, tgt_po. cbn [targets_sem].
    destruct (mem_bytes t i); [reflexivity|]. destruct (mem_bytes t o); reflexivity.
Qed.

Lemma run_deps b l R : forall ds o i po, Forall (wfP b) ds ->
  runR (tailR b l ds R) (mkP o i true false po false) =
  match deps_sem i po ds with
  | None => DErr ErrInputsHaveInputs
  | Some i' => runR R (mkP o i' true true false false)
  end.
Proof.
  induction ds as [|d ds IH]; intros o i po Hw.
  - unfold tailR. cbn [map concat app deps_sem]. rewrite run_line_end. reflexivity.
  - inversion Hw as [|? ? Hwd Hw']; subst.
    assert (E : tailR b l (d :: ds) R = dep_sep l ++ enc_gen b d ++ tailR b l ds R).
    { unfold tailR. cbn [map concat]. rewrite <- !app_assoc. reflexivity. }
    rewrite E, run_dep_sep.
    destruct (term_tailR b l ds R) as (r & nl & Ht).
    rewrite (run_name b d _ _ _ _ Hwd Ht), (absorb_dep b d _ _ _ _ _ Hwd).
    cbn [deps_sem]. destruct (mem_bytes d i); [apply IH; exact Hw'|].
    destruct po; [reflexivity|apply IH; exact Hw'].
Qed.

Lemma run_rule b l ts ds R o i ht em :
  ts <> [] -> Forall (wfP b) ts -> Forall (wfP b) ds ->
  runR (render_gen b l ts ds ++ R) (mkP o i ht true false em) =
  match deps_sem i (snd (targets_sem o i false ts)) ds with
  | None => DErr ErrInputsHaveInputs
  | Some i' => runR R (mkP (fst (targets_sem o i false ts)) i' true true false false)
  end.
Proof.
  intros Hne Hwt Hwd. destruct ts as [|t ts]; [congruence|].
  inversion Hwt as [|? ? Hwt1 Hwt']; subst.
  rewrite render_tailR. destruct (term_tailR b l ds R) as (r & nl & Ht).
  rewrite (run_targets b _ _ _ Ht ts t _ _ _ _ _ Hwt1 Hwt').
  apply run_deps. exact Hwd.
Qed.

Lemma rules_sem_acc_cons o i r rs :
  rules_sem_acc o i (r :: rs) =
  match deps_sem i (snd (targets_sem o i false (fst r))) (snd r) with
  | None => DErr ErrInputsHaveInputs
  | Some i' => rules_sem_acc (fst (targets_sem o i false (fst r))) i' rs
  end.
Proof. cbn [rules_sem_acc]. destruct (targets_sem o i false (fst r)); reflexivity. Qed.

Lemma run_rules b l : forall rules o i ht em,
  Forall (wf_rule b) rules -> ht = true \/ em = true ->
  runR (render_rules_gen b l rules) (mkP o i ht true false em) = rules_sem_acc o i rules.
Proof.
  induction rules as [|r rs IH]; intros o i ht em Hw Hst.
  - cbn. unfold finish. cbn [p_have_target p_is_empty p_outs p_ins].
    destruct Hst; subst; [reflexivity|]. rewrite andb_false_r. reflexivity.
  - inversion Hw as [|? ? Hr Hrs]; subst. destruct Hr as (Hne & Hwt & Hwd).
    unfold render_rules_gen. cbn [map concat]. fold (render_rules_gen b l rs).
    rewrite (run_rule b l _ _ _ _ _ _ _ Hne Hwt Hwd), rules_sem_acc_cons.
    destruct (deps_sem i _ (snd r)); [|reflexivity].
    apply IH; [exact Hrs|left; reflexivity].
Qed.

(* The master theorem: on the rendering (any layout, either colon convention) of well-formed
   rules the parser computes the specification [rules_sem]. *)
Theorem parse_render_rules_gen b l rules : Forall (wf_rule b) rules ->
  parse_depfile (render_rules_gen b l rules) = rules_sem rules.
Proof.
  intros Hw. rewrite parse_depfile_runR. unfold p_init, rules_sem.
  apply run_rules; [exact Hw|right; reflexivity].
Qed.

(* ========================================================================================== *)
(* Part G.  The specification functions; the C15 theorems.                                     *)
(* ========================================================================================== *)

Lemma mem_false_iff x l : mem_bytes x l = false <-> ~ In x l.
Proof.
  rewrite <- mem_bytes_In. destruct (mem_bytes x l); split; intros H; congruence.
Qed.

Lemma dedup_acc_In x : forall l acc, In x (dedup_acc acc l) <-> In x acc \/ In x l.
Proof.
  induction l as [|y l IH]; intros acc; cbn [dedup_acc In]; [tauto|].
  rewrite IH. destruct (mem_bytes y acc) eqn:E.
  - apply mem_bytes_In in E. split; [tauto|]. intros [H|[<-|H]]; tauto.
  - rewrite in_app_iff. cbn [In]. tauto.
Qed.

Lemma NoDup_snoc {A} (y : A) : forall acc, NoDup acc -> ~ In y acc -> NoDup (acc ++ [y]).
Proof.
  induction acc as [|a acc IH]; intros Hnd Hni; cbn [app].
  - constructor; [intros []|constructor].
  - inversion Hnd as [|? ? Ha Hnd']; subst. constructor.
    + rewrite in_app_iff. cbn [In]. intros [H|[H|[]]]; [contradiction|]. apply Hni. left. symmetry. exact H.
    + apply IH; [exact Hnd'|]. intros H. apply Hni. right. exact H.
Qed.

Lemma dedup_acc_NoDup : forall l acc, NoDup acc -> NoDup (dedup_acc acc l).
Proof.
  induction l as [|y l IH]; intros acc Hnd; cbn [dedup_acc]; [exact Hnd|].
  apply IH. destruct (mem_bytes y acc) eqn:E; [exact Hnd|].
  apply mem_false_iff in E. apply NoDup_snoc; assumption.
Qed.

Lemma dedup_acc_app : forall a c acc, dedup_acc acc (a ++ c) = dedup_acc (dedup_acc acc a) c.
Proof. induction a as [|y a IH]; intros c acc; cbn [app dedup_acc]; [reflexivity|apply IH]. Qed.

Lemma dedup_acc_fresh : forall l acc, NoDup (acc ++ l) -> dedup_acc acc l = acc ++ l.
Proof.
  induction l as [|y l IH]; intros acc Hnd; cbn [dedup_acc]; [symmetry; apply app_nil_r|].
  assert (E : mem_bytes y acc = false).
  { apply mem_false_iff. apply NoDup_remove_2 in Hnd. intros Hin. apply Hnd.
    apply in_or_app. left. exact Hin. }
  rewrite E. replace (acc ++ y :: l) with ((acc ++ [y]) ++ l) in * by (rewrite <- app_assoc; reflexivity).
  apply IH. exact Hnd.
Qed.

(* [dedup]: every name once, in order of first occurrence *)
Theorem dedup_In x l : In x (dedup l) <-> In x l.
Proof. unfold dedup. rewrite dedup_acc_In. cbn [In]. tauto. Qed.

Theorem dedup_NoDup l : NoDup (dedup l).
Proof. apply dedup_acc_NoDup. constructor. Qed.

Theorem dedup_id l : NoDup l -> dedup l = l.
Proof. intros H. unfold dedup. rewrite dedup_acc_fresh; [reflexivity|exact H]. Qed.

Lemma targets_sem_fresh : forall ts o i po, (forall t, In t ts -> ~ In t i) ->
  targets_sem o i po ts = (dedup_acc o ts, po).
Proof.
  induction ts as [|t ts IH]; intros o i po H; cbn [targets_sem dedup_acc]; [reflexivity|].
  assert (E : mem_bytes t i = false) by (apply mem_false_iff; apply H; left; reflexivity).
  rewrite E. apply IH. intros t' Ht'. apply H. right. exact Ht'.
Qed.

Lemma deps_sem_clean : forall ds i, deps_sem i false ds = Some (dedup_acc i ds).
Proof.
  induction ds as [|d ds IH]; intros i; cbn [deps_sem dedup_acc]; [reflexivity|].
  destruct (mem_bytes d i); apply IH.
Qed.

Lemma deps_sem_In : forall ds i po i', deps_sem i po ds = Some i' ->
  forall x, In x i' <-> In x i \/ In x ds.
Proof.
  induction ds as [|d ds IH]; intros i po i' H x; cbn [deps_sem] in H.
  - inversion H; subst. cbn [In]. tauto.
  - destruct (mem_bytes d i) eqn:E.
    + rewrite (IH _ _ _ H). apply mem_bytes_In in E. cbn [In]. split; [tauto|].
      intros [Hi|[<-|Hi]]; tauto.
    + destruct po; [discriminate|]. rewrite (IH _ _ _ H), in_app_iff. cbn [In]. tauto.
Qed.

Lemma targets_sem_po_true : forall ts o i, snd (targets_sem o i true ts) = true.
Proof.
  induction ts as [|t ts IH]; intros o i; cbn [targets_sem]; [reflexivity|].
  destruct (mem_bytes t i); apply IH.
Qed.

Lemma targets_sem_poison : forall ts o i po t, In t ts -> In t i -> snd (targets_sem o i po ts) = true.
Proof.
  induction ts as [|t0 ts IH]; intros o i po t Hin Hi; [destruct Hin|].
  cbn [targets_sem]. destruct (mem_bytes t0 i) eqn:E; [apply targets_sem_po_true|].
  destruct Hin as [->|Hin].
  - apply mem_bytes_In in Hi. congruence.
  - eapply IH; eassumption.
Qed.

Lemma deps_sem_poisoned_new : forall ds i d, In d ds -> ~ In d i -> deps_sem i true ds = None.
Proof.
  induction ds as [|d0 ds IH]; intros i d Hin Hni; [destruct Hin|].
  cbn [deps_sem]. destruct (mem_bytes d0 i) eqn:E; [|reflexivity].
  destruct Hin as [->|Hin].
  - apply mem_bytes_In in E. contradiction.
  - eapply IH; eassumption.
Qed.

(* ---------------------------------------------------------------------------------------- *)
(* C15_roundtrip *)

Theorem C15_roundtrip_gen b l ts ds :
  ts <> [] -> Forall (wfP b) ts -> Forall (wfP b) ds ->
  parse_depfile (render_gen b l ts ds) = DOk (dedup ts) (dedup ds).
Proof.
  intros Hne Hwt Hwd.
  assert (E : render_gen b l ts ds = render_rules_gen b l [(ts, ds)]).
  { unfold render_rules_gen. cbn [map concat fst snd]. symmetry. apply app_nil_r. }
  rewrite E, parse_render_rules_gen.
  - unfold rules_sem. rewrite rules_sem_acc_cons. cbn [fst snd].
    rewrite targets_sem_fresh by (intros t _ []). cbn [fst snd].
    rewrite deps_sem_clean. reflexivity.
  - constructor; [|constructor]. repeat split; assumption.
Qed.

(* One rule, any layout: targets once each, dependencies once each, both in order of first
   occurrence, and kept apart (a name that is both a target and a dependency is reported in both
   lists; the parser does not subtract). *)
Theorem C15_roundtrip l ts ds :
  ts <> [] -> Forall (fun x => wf_name x = true) ts -> Forall (fun x => wf_name x = true) ds ->
  parse_depfile (render l ts ds) = DOk (dedup ts) (dedup ds).
Proof. apply (C15_roundtrip_gen false). Qed.

(* the same with ':' written as "\:" ; the class of names is larger *)
Theorem C15_roundtrip_colon l ts ds :
  ts <> [] -> Forall (fun x => wf_name_colon x = true) ts ->
  Forall (fun x => wf_name_colon x = true) ds ->
  parse_depfile (render_colon l ts ds) = DOk (dedup ts) (dedup ds).
Proof. apply (C15_roundtrip_gen true). Qed.

(* ---------------------------------------------------------------------------------------- *)
(* C15_multi_rule *)

(* no target of a rule is a dependency of an earlier rule *)
Definition no_reappear (rules : list (list bytes * list bytes)) : Prop :=
  forall pre r post, rules = pre ++ r :: post ->
  forall t, In t (fst r) -> ~ In t (concat (map snd pre)).

Lemma rules_sem_acc_union : forall rules o i,
  (forall pre r post, rules = pre ++ r :: post ->
     forall t, In t (fst r) -> ~ In t i /\ ~ In t (concat (map snd pre))) ->
  rules_sem_acc o i rules
  = DOk (dedup_acc o (concat (map fst rules))) (dedup_acc i (concat (map snd rules))).
Proof.
  induction rules as [|r rs IH]; intros o i H; [reflexivity|].
  rewrite rules_sem_acc_cons. cbn [map concat].
  rewrite targets_sem_fresh.
  2:{ intros t Ht. apply (H [] r rs eq_refl t Ht). }
  cbn [fst snd]. rewrite deps_sem_clean, !dedup_acc_app. apply IH.
  intros pre r' post E t Ht.
  destruct (H (r :: pre) r' post) with (t := t) as [H1 H2]; [rewrite E; reflexivity|exact Ht|].
  cbn [map concat] in H2. rewrite in_app_iff in H2. rewrite dedup_acc_In. tauto.
Qed.

Theorem C15_multi_rule_gen b l rules :
  Forall (wf_rule b) rules -> no_reappear rules ->
  parse_depfile (render_rules_gen b l rules)
  = DOk (dedup (concat (map fst rules))) (dedup (concat (map snd rules))).
Proof.
  intros Hw Hno. rewrite parse_render_rules_gen by exact Hw.
  unfold rules_sem, dedup. apply rules_sem_acc_union.
  intros pre r post E t Ht. split; [intros []|]. eapply Hno; eassumption.
Qed.

(* Several rules are unified: outs = all targets, ins = all dependencies (first occurrences),
   provided no dependency reappears as a target of a later rule. *)
Theorem C15_multi_rule l rules :
  Forall (wf_rule false) rules -> no_reappear rules ->
  parse_depfile (render_rules l rules)
  = DOk (dedup (concat (map fst rules))) (dedup (concat (map snd rules))).
Proof. apply (C15_multi_rule_gen false). Qed.

(* ---------------------------------------------------------------------------------------- *)
(* C15_rejects_inputs_have_inputs *)

Lemma rules_sem_acc_pre : forall pre o i rest,
  rules_sem_acc o i (pre ++ rest) = DErr ErrInputsHaveInputs
  \/ exists o' i', (forall x, In x i' <-> In x i \/ In x (concat (map snd pre)))
                   /\ rules_sem_acc o i (pre ++ rest) = rules_sem_acc o' i' rest.
Proof.
  induction pre as [|r pre IH]; intros o i rest.
  - right. exists o, i. split; [cbn; tauto|reflexivity].
  - cbn [app]. rewrite rules_sem_acc_cons.
    destruct (deps_sem i _ (snd r)) as [i1|] eqn:Ed; [|left; reflexivity].
    destruct (IH (fst (targets_sem o i false (fst r))) i1 rest) as [He|(o' & i' & Hin & He)].
    + left. exact He.
    + right. exists o', i'. split; [|exact He].
      intros x. rewrite Hin, (deps_sem_In _ _ _ _ Ed). cbn [map concat]. rewrite in_app_iff. tauto.
Qed.

Theorem C15_rejects_inputs_have_inputs_gen b l pre ts ds post t d :
  Forall (wf_rule b) (pre ++ (ts, ds) :: post) ->
  In t ts -> In t (concat (map snd pre)) ->       (* a target that was a dependency before *)
  In d ds -> ~ In d (concat (map snd pre)) ->     (* and that brings a new dependency *)
  parse_depfile (render_rules_gen b l (pre ++ (ts, ds) :: post)) = DErr ErrInputsHaveInputs.
Proof.
  intros Hw Ht Htpre Hd Hdpre. rewrite parse_render_rules_gen by exact Hw. unfold rules_sem.
  destruct (rules_sem_acc_pre pre [] [] ((ts, ds) :: post)) as [He|(o' & i' & Hin & He)];
    [exact He|].
  rewrite He, rules_sem_acc_cons. cbn [fst snd].
  rewrite (targets_sem_poison ts o' i' false t Ht) by (apply Hin; right; exact Htpre).
  rewrite (deps_sem_poisoned_new ds i' d Hd); [reflexivity|].
  rewrite Hin. cbn [In]. tauto.
Qed.

Theorem C15_rejects_inputs_have_inputs l pre ts ds post t d :
  Forall (wf_rule false) (pre ++ (ts, ds) :: post) ->
  In t ts -> In t (concat (map snd pre)) ->
  In d ds -> ~ In d (concat (map snd pre)) ->
  parse_depfile (render_rules l (pre ++ (ts, ds) :: post)) = DErr ErrInputsHaveInputs.
Proof. apply (C15_rejects_inputs_have_inputs_gen false). Qed.

(* ---------------------------------------------------------------------------------------- *)
(* C15_rejects_no_colon *)

Lemma run_no_colon b : forall names n o em, wfP b n -> Forall (wfP b) names ->
  runR (join_sp (map (enc_gen b) (n :: names)) ++ [10]) (mkP o [] false true false em)
  = DErr ErrNoColon.
Proof.
  induction names as [|n2 names IH]; intros n o em Hn Hw.
  - cbn [map]. rewrite join_sp_one.
    rewrite (run_name b n _ _ _ _ Hn (term_nl [])), (absorb_target b n _ _ _ _ _ Hn).
    rewrite (run_term _ _ _ _ (term_nl [])), runR_nil. reflexivity.
  - inversion Hw as [|? ? Hn2 Hw']; subst.
    cbn [map]. rewrite join_sp_cons2, <- app_assoc. cbn [app].
    rewrite (run_name b n _ _ _ _ Hn (term_sp _)), (absorb_target b n _ _ _ _ _ Hn), run_sp.
    change (enc_gen b n2 :: map (enc_gen b) names) with (map (enc_gen b) (n2 :: names)).
    unfold tgt_po. cbn [mem_bytes]. apply IH; assumption.
Qed.

Theorem C15_rejects_no_colon_gen b names :
  names <> [] -> Forall (wfP b) names ->
  parse_depfile (render_no_colon b names) = DErr ErrNoColon.
Proof.
  intros Hne Hw. destruct names as [|n names]; [congruence|].
  inversion Hw; subst. rewrite parse_depfile_runR. unfold render_no_colon, p_init.
  apply run_no_colon; assumption.
Qed.

(* a line of names and no colon anywhere at the end of a name: "expected ':' in depfile" *)
Theorem C15_rejects_no_colon names :
  names <> [] -> Forall (fun x => wf_name x = true) names ->
  parse_depfile (join_sp (map enc_name names) ++ [10]) = DErr ErrNoColon.
Proof. apply (C15_rejects_no_colon_gen false). Qed.

(* names made of plain bytes only are written verbatim by enc_name *)
Lemma enc_name_plain_id x : forallb is_plain x = true -> enc_name x = x.
Proof.
  induction x as [|c x IH]; [reflexivity|]. cbn [forallb]. intros H.
  apply andb_true_iff in H. destruct H as [Hc Hx].
  unfold enc_name in *. cbn [enc_gen]. rewrite (IH Hx).
  destruct (is_plain_facts c Hc) as (H92 & H32 & H35 & H36 & _).
  unfold enc_byte. apply N.eqb_neq in H92, H32, H35, H36. rewrite H92, H32, H35, H36. reflexivity.
Qed.

(* ---------------------------------------------------------------------------------------- *)
(* Printable ASCII: which bytes are covered *)

Definition bad_printable : bytes := [42; 59; 60; 62; 94; 96; 124].   (*  * ; < > ^ ` |  *)
Definition escapable : bytes := [32; 35; 36; 92].                    (*  SP # $ BS  *)

(* for every printable ASCII byte: it is usable in a name iff it is not one of * ; < > ^ ` |,
   and the usable ones are the plain class plus SP # $ BS *)
Lemma plain_or_escapable_table c : 32 <= c <= 126 ->
  allowed c = negb (mem_byte c bad_printable)
  /\ allowed c = (is_plain c || mem_byte c escapable)
  /\ is_plain c = negb (mem_byte c bad_printable || mem_byte c escapable).
Proof.
  intros Hc.
  assert (T : forallb (fun n =>
                let c := N.of_nat n in
                Bool.eqb (allowed c) (negb (mem_byte c bad_printable))
                && Bool.eqb (allowed c) (is_plain c || mem_byte c escapable)
                && Bool.eqb (is_plain c) (negb (mem_byte c bad_printable || mem_byte c escapable)))
              (seq 32 95) = true) by (vm_compute; reflexivity).
  rewrite forallb_forall in T. specialize (T (N.to_nat c)).
  rewrite N2Nat.id in T. cbv zeta in T.
  assert (Hin : In (N.to_nat c) (seq 32 95)) by (apply in_seq; lia).
  apply T in Hin. apply andb_true_iff in Hin. destruct Hin as [Hin H3].
  apply andb_true_iff in Hin. destruct Hin as [H1 H2].
  apply Bool.eqb_prop in H1, H2, H3. auto.
Qed.

(* FINDING.  Each of the seven printable bytes  * ; < > ^ ` |  splits a file name in two: the
   dependency "a<c>b" is read back as the two dependencies "a" and "b". *)
Theorem C15_refuted_unlisted_punct c : In c bad_printable ->
  parse_depfile (render OneLine [[116]] [[97; c; 98]]) = DOk [[116]] [[97]; [98]].
Proof.
  intros H. cbn [bad_printable In] in H.
  destruct H as [<-|[<-|[<-|[<-|[<-|[<-|[<-|[]]]]]]]]; vm_compute; reflexivity.
Qed.

Definition printable (c : byte) : bool := N.leb 32 c && N.leb c 126.

(* The property as quantified ("all names over printable ASCII ...") is false of the code. *)
Definition C15_roundtrip_printable_full : Prop :=
  forall l ts ds, ts <> [] ->
    Forall (fun x => x <> [] /\ forallb printable x = true) ts ->
    Forall (fun x => x <> [] /\ forallb printable x = true) ds ->
    parse_depfile (render l ts ds) = DOk (dedup ts) (dedup ds).

Theorem C15_roundtrip_printable_refuted : ~ C15_roundtrip_printable_full.
Proof.
  intros H.
  assert (E : parse_depfile (render OneLine [[116]] [[97; 42; 98]])
              = DOk (dedup [[116]]) (dedup [[97; 42; 98]])).
  { apply H; [discriminate| |]; repeat constructor; discriminate. }
  pose proof (C15_refuted_unlisted_punct 42 (or_introl eq_refl)) as Q.
  pose proof (eq_trans (eq_sym Q) E) as X. vm_compute in X. discriminate.
Qed.

Theorem C15_refuted_unlisted_punct_ex :
  exists t n, forallb printable n = true /\
    parse_depfile (render OneLine [t] [n]) <> DOk [t] [n].
Proof.
  exists [116], [97; 42; 98]. split; [reflexivity|].
  intros Hc. pose proof (C15_refuted_unlisted_punct 42 (or_introl eq_refl)) as Q.
  pose proof (eq_trans (eq_sym Q) Hc) as X. discriminate.
Qed.

(* ---------------------------------------------------------------------------------------- *)
(* Every clause of wf_name is needed (witnesses, by evaluation) *)

(* name ending in ':' *)
Example wf_needs_no_final_colon :
  parse_depfile (render OneLine [[116]] [[97; 58]; [98]]) = DOk [[116]] [[97]; [98]]
  /\ parse_depfile (render_colon OneLine [[116]] [[97; 58]; [98]]) = DOk [[116]] [[97; 92]; [98]].
Proof. split; vm_compute; reflexivity. Qed.

(* backslash before '$':  a\$b  is read as  a\$  and  b *)
Example wf_needs_no_bs_dollar :
  parse_depfile (render OneLine [[116]] [[97; 92; 36; 98]]) = DOk [[116]] [[97; 92; 36]; [98]].
Proof. vm_compute; reflexivity. Qed.

(* backslash before ':' with the unescaped-colon encoder:  a\:b  loses the backslash *)
Example wf_needs_no_bs_colon :
  parse_depfile (render OneLine [[116]] [[97; 92; 58; 98]]) = DOk [[116]] [[97; 58; 98]]
  /\ parse_depfile (render_colon OneLine [[116]] [[97; 92; 58; 98]]) = DOk [[116]] [[97; 92; 58; 98]].
Proof. split; vm_compute; reflexivity. Qed.

(* odd run of backslashes at the end of a name: glued to the next name *)
Example wf_needs_even_trailing_bs :
  parse_depfile (render OneLine [[116]] [[97; 92]; [98]]) = DOk [[116]] [[97; 32; 98]]
  /\ parse_depfile (render OneLine [[116]] [[97; 92; 92]; [98]]) = DOk [[116]] [[97; 92; 92]; [98]].
Proof. split; vm_compute; reflexivity. Qed.

(* a single backslash at the end of the last name of a line is a line continuation: the next
   rule's target becomes a dependency *)
Example wf_needs_even_trailing_bs_eol :
  parse_depfile (render_rules OneLine [([[116]], [[97; 92]]); ([[117]], [[98]])])
  = DOk [[116]] [[97]; [117]; [98]].
Proof. vm_compute; reflexivity. Qed.

(* TAB, and an empty name *)
Example wf_needs_no_tab :
  parse_depfile (render OneLine [[116]] [[97; 9; 98]]) = DOk [[116]] [[97]; [98]].
Proof. vm_compute; reflexivity. Qed.

(* Outside wf_name but surviving by accident: a name ENDING in backslash-dollar ("a\$" is written
   "a\$$", read as "a\$" followed by a lone '$' that is swallowed as a delimiter). *)
Example accidental_survivor :
  wf_name [97; 92; 36] = false
  /\ parse_depfile (render OneLine [[116]] [[97; 92; 36]; [98]]) = DOk [[116]] [[97; 92; 36]; [98]].
Proof. split; vm_compute; reflexivity. Qed.
