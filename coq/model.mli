
type nat =
| O
| S of nat

val length : 'a1 list -> nat

val app : 'a1 list -> 'a1 list -> 'a1 list

module Nat :
 sig
  val add : nat -> nat -> nat

  val leb : nat -> nat -> bool

  val ltb : nat -> nat -> bool
 end

val tl : 'a1 list -> 'a1 list

val last : 'a1 list -> 'a1 -> 'a1

val removelast : 'a1 list -> 'a1 list

val rev : 'a1 list -> 'a1 list

val fold_left : ('a1 -> 'a2 -> 'a1) -> 'a2 list -> 'a1 -> 'a1

type positive =
| XI of positive
| XO of positive
| XH

type n =
| N0
| Npos of positive

type z =
| Z0
| Zpos of positive
| Zneg of positive

module Pos :
 sig
  val succ : positive -> positive

  val add : positive -> positive -> positive

  val add_carry : positive -> positive -> positive

  val pred_double : positive -> positive

  val eqb : positive -> positive -> bool
 end

module N :
 sig
  val add : n -> n -> n

  val eqb : n -> n -> bool
 end

module Z :
 sig
  val double : z -> z

  val succ_double : z -> z

  val pred_double : z -> z

  val pos_sub : positive -> positive -> z

  val add : z -> z -> z
 end

type byte = n

type bytes = byte list

val bytes_eqb : bytes -> bytes -> bool

val b_slash : byte

val b_dot : byte

val split_slash_aux : bytes -> bytes -> bytes list

val split_slash : bytes -> bytes list

val join_slash : bytes list -> bytes

val is_dot : bytes -> bool

val is_dotdot : bytes -> bool

val is_empty : bytes -> bool

val backup_loop : nat -> bytes -> bytes

val backup : nat -> bytes -> bytes

val strip_dotdot_run : nat -> bytes -> nat * bytes

val dotdot_prefix_rev : nat -> bytes

val mid_step : nat -> (nat * bytes) -> bytes -> nat * bytes

val last_step : nat -> (nat * bytes) -> bytes -> bytes

val canon : bytes -> bytes

val parse_path : bytes -> bool * bytes list

val nf_step : bytes list -> bytes -> bytes list

val nf : bytes list -> bytes list

val render : bool -> bytes list -> bytes

val canon_spec : bytes -> bytes
