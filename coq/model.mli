
val negb : bool -> bool

type nat =
| O
| S of nat

type ('a, 'b) sum =
| Inl of 'a
| Inr of 'b

val fst : ('a1 * 'a2) -> 'a1

val snd : ('a1 * 'a2) -> 'a2

val length : 'a1 list -> nat

val app : 'a1 list -> 'a1 list -> 'a1 list

type comparison =
| Eq
| Lt
| Gt

module Nat :
 sig
  val add : nat -> nat -> nat

  val leb : nat -> nat -> bool

  val ltb : nat -> nat -> bool

  val max : nat -> nat -> nat

  val even : nat -> bool

  val odd : nat -> bool

  val div2 : nat -> nat
 end

val hd : 'a1 -> 'a1 list -> 'a1

val tl : 'a1 list -> 'a1 list

val nth : nat -> 'a1 list -> 'a1 -> 'a1

val last : 'a1 list -> 'a1 -> 'a1

val removelast : 'a1 list -> 'a1 list

val rev : 'a1 list -> 'a1 list

val concat : 'a1 list list -> 'a1 list

val map : ('a1 -> 'a2) -> 'a1 list -> 'a2 list

val fold_left : ('a1 -> 'a2 -> 'a1) -> 'a2 list -> 'a1 -> 'a1

val forallb : ('a1 -> bool) -> 'a1 list -> bool

val firstn : nat -> 'a1 list -> 'a1 list

val skipn : nat -> 'a1 list -> 'a1 list

val repeat : 'a1 -> nat -> 'a1 list

type positive =
| XI of positive
| XO of positive
| XH

type n =
| N0
| Npos of positive

type z =
| Z0
| Zpos of positive
| Zneg of positive

module Pos :
 sig
  type mask =
  | IsNul
  | IsPos of positive
  | IsNeg
 end

module Coq_Pos :
 sig
  val succ : positive -> positive

  val add : positive -> positive -> positive

  val add_carry : positive -> positive -> positive

  val pred_double : positive -> positive

  type mask = Pos.mask =
  | IsNul
  | IsPos of positive
  | IsNeg

  val succ_double_mask : mask -> mask

  val double_mask : mask -> mask

  val double_pred_mask : positive -> mask

  val sub_mask : positive -> positive -> mask

  val sub_mask_carry : positive -> positive -> mask

  val mul : positive -> positive -> positive

  val iter : ('a1 -> 'a1) -> 'a1 -> positive -> 'a1

  val compare_cont : comparison -> positive -> positive -> comparison

  val compare : positive -> positive -> comparison

  val eqb : positive -> positive -> bool

  val coq_Nsucc_double : n -> n

  val coq_Ndouble : n -> n

  val coq_land : positive -> positive -> n
 end

module N :
 sig
  val add : n -> n -> n

  val sub : n -> n -> n

  val mul : n -> n -> n

  val compare : n -> n -> comparison

  val eqb : n -> n -> bool

  val leb : n -> n -> bool

  val ltb : n -> n -> bool

  val div2 : n -> n

  val coq_land : n -> n -> n

  val shiftr : n -> n -> n
 end

module Z :
 sig
  val double : z -> z

  val succ_double : z -> z

  val pred_double : z -> z

  val pos_sub : positive -> positive -> z

  val add : z -> z -> z
 end

type byte = n

type bytes = byte list

val bytes_eqb : bytes -> bytes -> bool

val mem_bytes : bytes -> bytes list -> bool

val b_slash : byte

val b_dot : byte

val split_slash_aux : bytes -> bytes -> bytes list

val split_slash : bytes -> bytes list

val join_slash : bytes list -> bytes

val is_dot : bytes -> bool

val is_dotdot : bytes -> bool

val is_empty : bytes -> bool

val backup_loop : nat -> bytes -> bytes

val backup : nat -> bytes -> bytes

val strip_dotdot_run : nat -> bytes -> nat * bytes

val dotdot_prefix_rev : nat -> bytes

val mid_step : nat -> (nat * bytes) -> bytes -> nat * bytes

val last_step : nat -> (nat * bytes) -> bytes -> bytes

val canon : bytes -> bytes

val parse_path : bytes -> bool * bytes list

val nf_step : bytes list -> bytes -> bytes list

val nf : bytes list -> bytes list

val render : bool -> bytes list -> bytes

val canon_spec : bytes -> bytes

val in_range : byte -> byte -> byte -> bool

val shell_safe : byte -> bool

val needs_escaping : bytes -> bool

val esc_body : bytes -> bytes

val shell_escape : bytes -> bytes

val make_path_list_from : byte -> bytes -> bytes list -> bytes

val make_path_list : byte -> bytes list -> bytes

type sh_mode =
| ShUnq
| ShInQ
| ShBsl

val sh_blank : byte -> bool

val sh_cur_bytes : bytes option -> bytes

val sh_push : bytes option -> byte -> bytes option

val sh_start : bytes option -> bytes option

val sh_go : sh_mode -> bytes option -> bytes -> bytes list option

val sh_words : bytes -> bytes list option

val jbetween : byte -> byte -> byte -> bool

val hex_digit : n -> byte

val json_encode_byte : byte -> bytes

val json_encode : bytes -> bytes

val hex_val : byte -> n option

val hex4 : byte -> byte -> byte -> byte -> n option

val json_simple_escape : byte -> byte option

val cons_opt : byte -> bytes option -> bytes option

val json_decode : bytes -> bytes option

type u8_state =
| U0
| U1
| U2
| U2_E0
| U2_ED
| U3
| U3_F0
| U3_F4

val u8_step : u8_state -> byte -> u8_state option

val utf8_go : u8_state -> bytes -> bool

val utf8_valid : bytes -> bool

type depfile_err =
| ErrNoColon
| ErrInputsHaveInputs

type dresult =
| DOk of bytes list * bytes list
| DErr of depfile_err
| DOutOfFuel

val in_range0 : byte -> byte -> byte -> bool

val mem_byte : byte -> bytes -> bool

val plain_punct : bytes

val is_plain : byte -> bool

val is_colon_blank : byte -> bool

val at0 : bytes -> nat -> byte

val count_bs : bytes -> nat

val plain_run : bytes -> nat

val bsN : nat -> bytes

type sres =
| SCont of bytes * nat * nat
| SBrk of bytes * nat * nat * bool

val step : bytes -> sres

val tok : nat -> bytes -> bytes -> ((bytes * bytes) * bool) option

type pstate = { p_outs : bytes list; p_ins : bytes list;
                p_have_target : bool; p_parsing_targets : bool;
                p_poisoned : bool; p_is_empty : bool }

val p_init : pstate

val strip_colon : bytes -> bytes * bool

val is_nil : 'a1 list -> bool

val absorb : pstate -> bytes -> bool -> (depfile_err, pstate) sum

val finish : pstate -> dresult

val run : nat -> bytes -> pstate -> dresult

val parse_depfile : bytes -> dresult

val tok_idx :
  nat -> bytes -> bytes -> nat -> nat ->
  ((((bytes * bytes) * bool) * nat) * nat) option

val run_idx : nat -> bytes -> pstate -> nat -> nat -> dresult * nat

val parse_depfile_idx : bytes -> dresult * nat

val run_then_space : bytes -> bool

val enc_byte : bool -> byte -> bytes -> bytes

val enc_gen : bool -> bytes -> bytes

val allowed : byte -> bool

val bad_pair : bool -> byte -> byte -> bool

val ok_adj : bool -> bytes -> bool

val wf_gen : bool -> bytes -> bool

type layout =
| OneLine
| ContPerName
| Crlf of layout
| TrailBlank of layout

val lay_cont : layout -> bool

val lay_crlf : layout -> bool

val lay_trail : layout -> nat

val eol : layout -> bytes

val dep_sep : layout -> bytes

val join_sp : bytes list -> bytes

val render_gen : bool -> layout -> bytes list -> bytes list -> bytes

val render_rules_gen :
  bool -> layout -> (bytes list * bytes list) list -> bytes
