
type nat =
| O
| S of nat

val length : 'a1 list -> nat

val app : 'a1 list -> 'a1 list -> 'a1 list

type comparison =
| Eq
| Lt
| Gt

module Nat :
 sig
  val add : nat -> nat -> nat

  val leb : nat -> nat -> bool

  val ltb : nat -> nat -> bool
 end

val tl : 'a1 list -> 'a1 list

val last : 'a1 list -> 'a1 -> 'a1

val removelast : 'a1 list -> 'a1 list

val rev : 'a1 list -> 'a1 list

val fold_left : ('a1 -> 'a2 -> 'a1) -> 'a2 list -> 'a1 -> 'a1

type positive =
| XI of positive
| XO of positive
| XH

type n =
| N0
| Npos of positive

type z =
| Z0
| Zpos of positive
| Zneg of positive

module Pos :
 sig
  type mask =
  | IsNul
  | IsPos of positive
  | IsNeg
 end

module Coq_Pos :
 sig
  val succ : positive -> positive

  val add : positive -> positive -> positive

  val add_carry : positive -> positive -> positive

  val pred_double : positive -> positive

  type mask = Pos.mask =
  | IsNul
  | IsPos of positive
  | IsNeg

  val succ_double_mask : mask -> mask

  val double_mask : mask -> mask

  val double_pred_mask : positive -> mask

  val sub_mask : positive -> positive -> mask

  val sub_mask_carry : positive -> positive -> mask

  val mul : positive -> positive -> positive

  val iter : ('a1 -> 'a1) -> 'a1 -> positive -> 'a1

  val compare_cont : comparison -> positive -> positive -> comparison

  val compare : positive -> positive -> comparison

  val eqb : positive -> positive -> bool

  val coq_Nsucc_double : n -> n

  val coq_Ndouble : n -> n

  val coq_land : positive -> positive -> n
 end

module N :
 sig
  val add : n -> n -> n

  val sub : n -> n -> n

  val mul : n -> n -> n

  val compare : n -> n -> comparison

  val eqb : n -> n -> bool

  val leb : n -> n -> bool

  val ltb : n -> n -> bool

  val div2 : n -> n

  val coq_land : n -> n -> n

  val shiftr : n -> n -> n
 end

module Z :
 sig
  val double : z -> z

  val succ_double : z -> z

  val pred_double : z -> z

  val pos_sub : positive -> positive -> z

  val add : z -> z -> z
 end

type byte = n

type bytes = byte list

val bytes_eqb : bytes -> bytes -> bool

val b_slash : byte

val b_dot : byte

val split_slash_aux : bytes -> bytes -> bytes list

val split_slash : bytes -> bytes list

val join_slash : bytes list -> bytes

val is_dot : bytes -> bool

val is_dotdot : bytes -> bool

val is_empty : bytes -> bool

val backup_loop : nat -> bytes -> bytes

val backup : nat -> bytes -> bytes

val strip_dotdot_run : nat -> bytes -> nat * bytes

val dotdot_prefix_rev : nat -> bytes

val mid_step : nat -> (nat * bytes) -> bytes -> nat * bytes

val last_step : nat -> (nat * bytes) -> bytes -> bytes

val canon : bytes -> bytes

val parse_path : bytes -> bool * bytes list

val nf_step : bytes list -> bytes -> bytes list

val nf : bytes list -> bytes list

val render : bool -> bytes list -> bytes

val canon_spec : bytes -> bytes

val in_range : byte -> byte -> byte -> bool

val shell_safe : byte -> bool

val needs_escaping : bytes -> bool

val esc_body : bytes -> bytes

val shell_escape : bytes -> bytes

val make_path_list_from : byte -> bytes -> bytes list -> bytes

val make_path_list : byte -> bytes list -> bytes

type sh_mode =
| ShUnq
| ShInQ
| ShBsl

val sh_blank : byte -> bool

val sh_cur_bytes : bytes option -> bytes

val sh_push : bytes option -> byte -> bytes option

val sh_start : bytes option -> bytes option

val sh_go : sh_mode -> bytes option -> bytes -> bytes list option

val sh_words : bytes -> bytes list option

val jbetween : byte -> byte -> byte -> bool

val hex_digit : n -> byte

val json_encode_byte : byte -> bytes

val json_encode : bytes -> bytes

val hex_val : byte -> n option

val hex4 : byte -> byte -> byte -> byte -> n option

val json_simple_escape : byte -> byte option

val cons_opt : byte -> bytes option -> bytes option

val json_decode : bytes -> bytes option

type u8_state =
| U0
| U1
| U2
| U2_E0
| U2_ED
| U3
| U3_F0
| U3_F4

val u8_step : u8_state -> byte -> u8_state option

val utf8_go : u8_state -> bytes -> bool

val utf8_valid : bytes -> bool
