
(** val negb : bool -> bool **)

let negb = function
| true -> false
| false -> true

type nat =
| O
| S of nat

(** val fst : ('a1 * 'a2) -> 'a1 **)

let fst = function
| (x, _) -> x

(** val snd : ('a1 * 'a2) -> 'a2 **)

let snd = function
| (_, y) -> y

(** val length : 'a1 list -> nat **)

let rec length = function
| [] -> O
| _ :: l' -> S (length l')

(** val app : 'a1 list -> 'a1 list -> 'a1 list **)

let rec app l m =
  match l with
  | [] -> m
  | a :: l1 -> a :: (app l1 m)

type comparison =
| Eq
| Lt
| Gt

(** val compOpp : comparison -> comparison **)

let compOpp = function
| Eq -> Eq
| Lt -> Gt
| Gt -> Lt

module Coq__1 = struct
 (** val add : nat -> nat -> nat **)
 let rec add n0 m =
   match n0 with
   | O -> m
   | S p -> S (add p m)
end
include Coq__1

(** val sub : nat -> nat -> nat **)

let rec sub n0 m =
  match n0 with
  | O -> n0
  | S k -> (match m with
            | O -> n0
            | S l -> sub k l)

module Nat =
 struct
  (** val sub : nat -> nat -> nat **)

  let rec sub n0 m =
    match n0 with
    | O -> n0
    | S k -> (match m with
              | O -> n0
              | S l -> sub k l)

  (** val eqb : nat -> nat -> bool **)

  let rec eqb n0 m =
    match n0 with
    | O -> (match m with
            | O -> true
            | S _ -> false)
    | S n' -> (match m with
               | O -> false
               | S m' -> eqb n' m')

  (** val divmod : nat -> nat -> nat -> nat -> nat * nat **)

  let rec divmod x y q u =
    match x with
    | O -> (q, u)
    | S x' ->
      (match u with
       | O -> divmod x' y (S q) y
       | S u' -> divmod x' y q u')

  (** val modulo : nat -> nat -> nat **)

  let modulo x = function
  | O -> x
  | S y' -> sub y' (snd (divmod x y' O y'))
 end

(** val nth_error : 'a1 list -> nat -> 'a1 option **)

let rec nth_error l = function
| O -> (match l with
        | [] -> None
        | x :: _ -> Some x)
| S n1 -> (match l with
           | [] -> None
           | _ :: l0 -> nth_error l0 n1)

(** val rev : 'a1 list -> 'a1 list **)

let rec rev = function
| [] -> []
| x :: l' -> app (rev l') (x :: [])

(** val rev_append : 'a1 list -> 'a1 list -> 'a1 list **)

let rec rev_append l l' =
  match l with
  | [] -> l'
  | a :: l0 -> rev_append l0 (a :: l')

(** val map : ('a1 -> 'a2) -> 'a1 list -> 'a2 list **)

let rec map f = function
| [] -> []
| a :: t -> (f a) :: (map f t)

(** val flat_map : ('a1 -> 'a2 list) -> 'a1 list -> 'a2 list **)

let rec flat_map f = function
| [] -> []
| x :: t -> app (f x) (flat_map f t)

(** val existsb : ('a1 -> bool) -> 'a1 list -> bool **)

let rec existsb f = function
| [] -> false
| a :: l0 -> (||) (f a) (existsb f l0)

(** val forallb : ('a1 -> bool) -> 'a1 list -> bool **)

let rec forallb f = function
| [] -> true
| a :: l0 -> (&&) (f a) (forallb f l0)

(** val combine : 'a1 list -> 'a2 list -> ('a1 * 'a2) list **)

let rec combine l l' =
  match l with
  | [] -> []
  | x :: tl ->
    (match l' with
     | [] -> []
     | y :: tl' -> (x, y) :: (combine tl tl'))

(** val firstn : nat -> 'a1 list -> 'a1 list **)

let rec firstn n0 l =
  match n0 with
  | O -> []
  | S n1 -> (match l with
             | [] -> []
             | a :: l0 -> a :: (firstn n1 l0))

(** val repeat : 'a1 -> nat -> 'a1 list **)

let rec repeat x = function
| O -> []
| S k -> x :: (repeat x k)

type positive =
| XI of positive
| XO of positive
| XH

type n =
| N0
| Npos of positive

type z =
| Z0
| Zpos of positive
| Zneg of positive

module Pos =
 struct
  type mask =
  | IsNul
  | IsPos of positive
  | IsNeg
 end

module Coq_Pos =
 struct
  (** val succ : positive -> positive **)

  let rec succ = function
  | XI p -> XO (succ p)
  | XO p -> XI p
  | XH -> XO XH

  (** val add : positive -> positive -> positive **)

  let rec add x y =
    match x with
    | XI p ->
      (match y with
       | XI q -> XO (add_carry p q)
       | XO q -> XI (add p q)
       | XH -> XO (succ p))
    | XO p ->
      (match y with
       | XI q -> XI (add p q)
       | XO q -> XO (add p q)
       | XH -> XI p)
    | XH -> (match y with
             | XI q -> XO (succ q)
             | XO q -> XI q
             | XH -> XO XH)

  (** val add_carry : positive -> positive -> positive **)

  and add_carry x y =
    match x with
    | XI p ->
      (match y with
       | XI q -> XI (add_carry p q)
       | XO q -> XO (add_carry p q)
       | XH -> XI (succ p))
    | XO p ->
      (match y with
       | XI q -> XO (add_carry p q)
       | XO q -> XI (add p q)
       | XH -> XO (succ p))
    | XH ->
      (match y with
       | XI q -> XI (succ q)
       | XO q -> XO (succ q)
       | XH -> XI XH)

  (** val pred_double : positive -> positive **)

  let rec pred_double = function
  | XI p -> XI (XO p)
  | XO p -> XI (pred_double p)
  | XH -> XH

  type mask = Pos.mask =
  | IsNul
  | IsPos of positive
  | IsNeg

  (** val succ_double_mask : mask -> mask **)

  let succ_double_mask = function
  | IsNul -> IsPos XH
  | IsPos p -> IsPos (XI p)
  | IsNeg -> IsNeg

  (** val double_mask : mask -> mask **)

  let double_mask = function
  | IsPos p -> IsPos (XO p)
  | x0 -> x0

  (** val double_pred_mask : positive -> mask **)

  let double_pred_mask = function
  | XI p -> IsPos (XO (XO p))
  | XO p -> IsPos (XO (pred_double p))
  | XH -> IsNul

  (** val sub_mask : positive -> positive -> mask **)

  let rec sub_mask x y =
    match x with
    | XI p ->
      (match y with
       | XI q -> double_mask (sub_mask p q)
       | XO q -> succ_double_mask (sub_mask p q)
       | XH -> IsPos (XO p))
    | XO p ->
      (match y with
       | XI q -> succ_double_mask (sub_mask_carry p q)
       | XO q -> double_mask (sub_mask p q)
       | XH -> IsPos (pred_double p))
    | XH -> (match y with
             | XH -> IsNul
             | _ -> IsNeg)

  (** val sub_mask_carry : positive -> positive -> mask **)

  and sub_mask_carry x y =
    match x with
    | XI p ->
      (match y with
       | XI q -> succ_double_mask (sub_mask_carry p q)
       | XO q -> double_mask (sub_mask p q)
       | XH -> IsPos (pred_double p))
    | XO p ->
      (match y with
       | XI q -> double_mask (sub_mask_carry p q)
       | XO q -> succ_double_mask (sub_mask_carry p q)
       | XH -> double_pred_mask p)
    | XH -> IsNeg

  (** val mul : positive -> positive -> positive **)

  let rec mul x y =
    match x with
    | XI p -> add y (XO (mul p y))
    | XO p -> XO (mul p y)
    | XH -> y

  (** val compare_cont : comparison -> positive -> positive -> comparison **)

  let rec compare_cont r x y =
    match x with
    | XI p ->
      (match y with
       | XI q -> compare_cont r p q
       | XO q -> compare_cont Gt p q
       | XH -> Gt)
    | XO p ->
      (match y with
       | XI q -> compare_cont Lt p q
       | XO q -> compare_cont r p q
       | XH -> Gt)
    | XH -> (match y with
             | XH -> r
             | _ -> Lt)

  (** val compare : positive -> positive -> comparison **)

  let compare =
    compare_cont Eq

  (** val eqb : positive -> positive -> bool **)

  let rec eqb p q =
    match p with
    | XI p0 -> (match q with
                | XI q0 -> eqb p0 q0
                | _ -> false)
    | XO p0 -> (match q with
                | XO q0 -> eqb p0 q0
                | _ -> false)
    | XH -> (match q with
             | XH -> true
             | _ -> false)

  (** val iter_op : ('a1 -> 'a1 -> 'a1) -> positive -> 'a1 -> 'a1 **)

  let rec iter_op op p a =
    match p with
    | XI p0 -> op a (iter_op op p0 (op a a))
    | XO p0 -> iter_op op p0 (op a a)
    | XH -> a

  (** val to_nat : positive -> nat **)

  let to_nat x =
    iter_op Coq__1.add x (S O)

  (** val of_succ_nat : nat -> positive **)

  let rec of_succ_nat = function
  | O -> XH
  | S x -> succ (of_succ_nat x)
 end

module N =
 struct
  (** val succ_double : n -> n **)

  let succ_double = function
  | N0 -> Npos XH
  | Npos p -> Npos (XI p)

  (** val double : n -> n **)

  let double = function
  | N0 -> N0
  | Npos p -> Npos (XO p)

  (** val succ : n -> n **)

  let succ = function
  | N0 -> Npos XH
  | Npos p -> Npos (Coq_Pos.succ p)

  (** val add : n -> n -> n **)

  let add n0 m =
    match n0 with
    | N0 -> m
    | Npos p -> (match m with
                 | N0 -> n0
                 | Npos q -> Npos (Coq_Pos.add p q))

  (** val sub : n -> n -> n **)

  let sub n0 m =
    match n0 with
    | N0 -> N0
    | Npos n' ->
      (match m with
       | N0 -> n0
       | Npos m' ->
         (match Coq_Pos.sub_mask n' m' with
          | Coq_Pos.IsPos p -> Npos p
          | _ -> N0))

  (** val mul : n -> n -> n **)

  let mul n0 m =
    match n0 with
    | N0 -> N0
    | Npos p -> (match m with
                 | N0 -> N0
                 | Npos q -> Npos (Coq_Pos.mul p q))

  (** val compare : n -> n -> comparison **)

  let compare n0 m =
    match n0 with
    | N0 -> (match m with
             | N0 -> Eq
             | Npos _ -> Lt)
    | Npos n' -> (match m with
                  | N0 -> Gt
                  | Npos m' -> Coq_Pos.compare n' m')

  (** val eqb : n -> n -> bool **)

  let eqb n0 m =
    match n0 with
    | N0 -> (match m with
             | N0 -> true
             | Npos _ -> false)
    | Npos p -> (match m with
                 | N0 -> false
                 | Npos q -> Coq_Pos.eqb p q)

  (** val leb : n -> n -> bool **)

  let leb x y =
    match compare x y with
    | Gt -> false
    | _ -> true

  (** val ltb : n -> n -> bool **)

  let ltb x y =
    match compare x y with
    | Lt -> true
    | _ -> false

  (** val pos_div_eucl : positive -> n -> n * n **)

  let rec pos_div_eucl a b =
    match a with
    | XI a' ->
      let (q, r) = pos_div_eucl a' b in
      let r' = succ_double r in
      if leb b r' then ((succ_double q), (sub r' b)) else ((double q), r')
    | XO a' ->
      let (q, r) = pos_div_eucl a' b in
      let r' = double r in
      if leb b r' then ((succ_double q), (sub r' b)) else ((double q), r')
    | XH ->
      (match b with
       | N0 -> (N0, (Npos XH))
       | Npos p -> (match p with
                    | XH -> ((Npos XH), N0)
                    | _ -> (N0, (Npos XH))))

  (** val div_eucl : n -> n -> n * n **)

  let div_eucl a b =
    match a with
    | N0 -> (N0, N0)
    | Npos na -> (match b with
                  | N0 -> (N0, a)
                  | Npos _ -> pos_div_eucl na b)

  (** val div : n -> n -> n **)

  let div a b =
    fst (div_eucl a b)

  (** val modulo : n -> n -> n **)

  let modulo a b =
    snd (div_eucl a b)

  (** val to_nat : n -> nat **)

  let to_nat = function
  | N0 -> O
  | Npos p -> Coq_Pos.to_nat p

  (** val of_nat : nat -> n **)

  let of_nat = function
  | O -> N0
  | S n' -> Npos (Coq_Pos.of_succ_nat n')
 end

module Z =
 struct
  (** val double : z -> z **)

  let double = function
  | Z0 -> Z0
  | Zpos p -> Zpos (XO p)
  | Zneg p -> Zneg (XO p)

  (** val succ_double : z -> z **)

  let succ_double = function
  | Z0 -> Zpos XH
  | Zpos p -> Zpos (XI p)
  | Zneg p -> Zneg (Coq_Pos.pred_double p)

  (** val pred_double : z -> z **)

  let pred_double = function
  | Z0 -> Zneg XH
  | Zpos p -> Zpos (Coq_Pos.pred_double p)
  | Zneg p -> Zneg (XI p)

  (** val pos_sub : positive -> positive -> z **)

  let rec pos_sub x y =
    match x with
    | XI p ->
      (match y with
       | XI q -> double (pos_sub p q)
       | XO q -> succ_double (pos_sub p q)
       | XH -> Zpos (XO p))
    | XO p ->
      (match y with
       | XI q -> pred_double (pos_sub p q)
       | XO q -> double (pos_sub p q)
       | XH -> Zpos (Coq_Pos.pred_double p))
    | XH ->
      (match y with
       | XI q -> Zneg (XO q)
       | XO q -> Zneg (Coq_Pos.pred_double q)
       | XH -> Z0)

  (** val add : z -> z -> z **)

  let add x y =
    match x with
    | Z0 -> y
    | Zpos x' ->
      (match y with
       | Z0 -> x
       | Zpos y' -> Zpos (Coq_Pos.add x' y')
       | Zneg y' -> pos_sub x' y')
    | Zneg x' ->
      (match y with
       | Z0 -> x
       | Zpos y' -> pos_sub y' x'
       | Zneg y' -> Zneg (Coq_Pos.add x' y'))

  (** val opp : z -> z **)

  let opp = function
  | Z0 -> Z0
  | Zpos x0 -> Zneg x0
  | Zneg x0 -> Zpos x0

  (** val sub : z -> z -> z **)

  let sub m n0 =
    add m (opp n0)

  (** val mul : z -> z -> z **)

  let mul x y =
    match x with
    | Z0 -> Z0
    | Zpos x' ->
      (match y with
       | Z0 -> Z0
       | Zpos y' -> Zpos (Coq_Pos.mul x' y')
       | Zneg y' -> Zneg (Coq_Pos.mul x' y'))
    | Zneg x' ->
      (match y with
       | Z0 -> Z0
       | Zpos y' -> Zneg (Coq_Pos.mul x' y')
       | Zneg y' -> Zpos (Coq_Pos.mul x' y'))

  (** val compare : z -> z -> comparison **)

  let compare x y =
    match x with
    | Z0 -> (match y with
             | Z0 -> Eq
             | Zpos _ -> Lt
             | Zneg _ -> Gt)
    | Zpos x' -> (match y with
                  | Zpos y' -> Coq_Pos.compare x' y'
                  | _ -> Gt)
    | Zneg x' ->
      (match y with
       | Zneg y' -> compOpp (Coq_Pos.compare x' y')
       | _ -> Lt)

  (** val leb : z -> z -> bool **)

  let leb x y =
    match compare x y with
    | Gt -> false
    | _ -> true

  (** val ltb : z -> z -> bool **)

  let ltb x y =
    match compare x y with
    | Lt -> true
    | _ -> false

  (** val eqb : z -> z -> bool **)

  let eqb x y =
    match x with
    | Z0 -> (match y with
             | Z0 -> true
             | _ -> false)
    | Zpos p -> (match y with
                 | Zpos q -> Coq_Pos.eqb p q
                 | _ -> false)
    | Zneg p -> (match y with
                 | Zneg q -> Coq_Pos.eqb p q
                 | _ -> false)

  (** val to_N : z -> n **)

  let to_N = function
  | Zpos p -> Npos p
  | _ -> N0

  (** val of_N : n -> z **)

  let of_N = function
  | N0 -> Z0
  | Npos p -> Zpos p

  (** val pos_div_eucl : positive -> z -> z * z **)

  let rec pos_div_eucl a b =
    match a with
    | XI a' ->
      let (q, r) = pos_div_eucl a' b in
      let r' = add (mul (Zpos (XO XH)) r) (Zpos XH) in
      if ltb r' b
      then ((mul (Zpos (XO XH)) q), r')
      else ((add (mul (Zpos (XO XH)) q) (Zpos XH)), (sub r' b))
    | XO a' ->
      let (q, r) = pos_div_eucl a' b in
      let r' = mul (Zpos (XO XH)) r in
      if ltb r' b
      then ((mul (Zpos (XO XH)) q), r')
      else ((add (mul (Zpos (XO XH)) q) (Zpos XH)), (sub r' b))
    | XH -> if leb (Zpos (XO XH)) b then (Z0, (Zpos XH)) else ((Zpos XH), Z0)

  (** val div_eucl : z -> z -> z * z **)

  let div_eucl a b =
    match a with
    | Z0 -> (Z0, Z0)
    | Zpos a' ->
      (match b with
       | Z0 -> (Z0, a)
       | Zpos _ -> pos_div_eucl a' b
       | Zneg b' ->
         let (q, r) = pos_div_eucl a' (Zpos b') in
         (match r with
          | Z0 -> ((opp q), Z0)
          | _ -> ((opp (add q (Zpos XH))), (add b r))))
    | Zneg a' ->
      (match b with
       | Z0 -> (Z0, a)
       | Zpos _ ->
         let (q, r) = pos_div_eucl a' b in
         (match r with
          | Z0 -> ((opp q), Z0)
          | _ -> ((opp (add q (Zpos XH))), (sub b r)))
       | Zneg b' -> let (q, r) = pos_div_eucl a' (Zpos b') in (q, (opp r)))

  (** val div : z -> z -> z **)

  let div a b =
    let (q, _) = div_eucl a b in q

  (** val modulo : z -> z -> z **)

  let modulo a b =
    let (_, r) = div_eucl a b in r
 end

type byte = n

type bytes = byte list

(** val bytes_eqb : bytes -> bytes -> bool **)

let rec bytes_eqb a b =
  match a with
  | [] -> (match b with
           | [] -> true
           | _ :: _ -> false)
  | x :: a' ->
    (match b with
     | [] -> false
     | y :: b' -> (&&) (N.eqb x y) (bytes_eqb a' b'))

(** val mem_bytes : bytes -> bytes list -> bool **)

let rec mem_bytes x = function
| [] -> false
| y :: l' -> (||) (bytes_eqb x y) (mem_bytes x l')

(** val two31 : n **)

let two31 =
  Npos (XO (XO (XO (XO (XO (XO (XO (XO (XO (XO (XO (XO (XO (XO (XO (XO (XO
    (XO (XO (XO (XO (XO (XO (XO (XO (XO (XO (XO (XO (XO (XO
    XH)))))))))))))))))))))))))))))))

(** val two32 : n **)

let two32 =
  Npos (XO (XO (XO (XO (XO (XO (XO (XO (XO (XO (XO (XO (XO (XO (XO (XO (XO
    (XO (XO (XO (XO (XO (XO (XO (XO (XO (XO (XO (XO (XO (XO (XO
    XH))))))))))))))))))))))))))))))))

(** val le32 : n -> bytes **)

let le32 w =
  (N.modulo w (Npos (XO (XO (XO (XO (XO (XO (XO (XO XH)))))))))) :: (
    (N.modulo (N.div w (Npos (XO (XO (XO (XO (XO (XO (XO (XO XH))))))))))
      (Npos (XO (XO (XO (XO (XO (XO (XO (XO XH)))))))))) :: ((N.modulo
                                                               (N.div w (Npos
                                                                 (XO (XO (XO
                                                                 (XO (XO (XO
                                                                 (XO (XO (XO
                                                                 (XO (XO (XO
                                                                 (XO (XO (XO
                                                                 (XO
                                                                 XH))))))))))))))))))
                                                               (Npos (XO (XO
                                                               (XO (XO (XO
                                                               (XO (XO (XO
                                                               XH)))))))))) :: (
    (N.modulo
      (N.div w (Npos (XO (XO (XO (XO (XO (XO (XO (XO (XO (XO (XO (XO (XO (XO
        (XO (XO (XO (XO (XO (XO (XO (XO (XO (XO XH))))))))))))))))))))))))))
      (Npos (XO (XO (XO (XO (XO (XO (XO (XO XH)))))))))) :: [])))

(** val rd32 : bytes -> (n * bytes) option **)

let rd32 = function
| [] -> None
| b0 :: l ->
  (match l with
   | [] -> None
   | b1 :: l0 ->
     (match l0 with
      | [] -> None
      | b2 :: l1 ->
        (match l1 with
         | [] -> None
         | b3 :: r ->
           Some
             ((N.add
                (N.add
                  (N.add b0
                    (N.mul (Npos (XO (XO (XO (XO (XO (XO (XO (XO XH)))))))))
                      b1))
                  (N.mul (Npos (XO (XO (XO (XO (XO (XO (XO (XO (XO (XO (XO
                    (XO (XO (XO (XO (XO XH))))))))))))))))) b2))
                (N.mul (Npos (XO (XO (XO (XO (XO (XO (XO (XO (XO (XO (XO (XO
                  (XO (XO (XO (XO (XO (XO (XO (XO (XO (XO (XO (XO
                  XH))))))))))))))))))))))))) b3)), r))))

(** val s32 : n -> z **)

let s32 w =
  if N.ltb w two31
  then Z.of_N w
  else Z.sub (Z.of_N w) (Zpos (XO (XO (XO (XO (XO (XO (XO (XO (XO (XO (XO (XO
         (XO (XO (XO (XO (XO (XO (XO (XO (XO (XO (XO (XO (XO (XO (XO (XO (XO
         (XO (XO (XO XH)))))))))))))))))))))))))))))))))

(** val u32 : z -> n **)

let u32 z0 =
  Z.to_N
    (Z.modulo z0 (Zpos (XO (XO (XO (XO (XO (XO (XO (XO (XO (XO (XO (XO (XO
      (XO (XO (XO (XO (XO (XO (XO (XO (XO (XO (XO (XO (XO (XO (XO (XO (XO (XO
      (XO XH))))))))))))))))))))))))))))))))))

(** val lnot32 : n -> n **)

let lnot32 w =
  N.sub (N.sub two32 (Npos XH)) (N.modulo w two32)

(** val s64 : n -> z **)

let s64 u =
  if N.ltb u (Npos (XO (XO (XO (XO (XO (XO (XO (XO (XO (XO (XO (XO (XO (XO
       (XO (XO (XO (XO (XO (XO (XO (XO (XO (XO (XO (XO (XO (XO (XO (XO (XO
       (XO (XO (XO (XO (XO (XO (XO (XO (XO (XO (XO (XO (XO (XO (XO (XO (XO
       (XO (XO (XO (XO (XO (XO (XO (XO (XO (XO (XO (XO (XO (XO (XO
       XH))))))))))))))))))))))))))))))))))))))))))))))))))))))))))))))))
  then Z.of_N u
  else Z.sub (Z.of_N u) (Zpos (XO (XO (XO (XO (XO (XO (XO (XO (XO (XO (XO (XO
         (XO (XO (XO (XO (XO (XO (XO (XO (XO (XO (XO (XO (XO (XO (XO (XO (XO
         (XO (XO (XO (XO (XO (XO (XO (XO (XO (XO (XO (XO (XO (XO (XO (XO (XO
         (XO (XO (XO (XO (XO (XO (XO (XO (XO (XO (XO (XO (XO (XO (XO (XO (XO
         (XO
         XH)))))))))))))))))))))))))))))))))))))))))))))))))))))))))))))))))

(** val mtime_lo : z -> n **)

let mtime_lo =
  u32

(** val mtime_hi : z -> n **)

let mtime_hi m =
  u32
    (Z.div m (Zpos (XO (XO (XO (XO (XO (XO (XO (XO (XO (XO (XO (XO (XO (XO
      (XO (XO (XO (XO (XO (XO (XO (XO (XO (XO (XO (XO (XO (XO (XO (XO (XO (XO
      XH))))))))))))))))))))))))))))))))))

(** val deps_signature : bytes **)

let deps_signature =
  (Npos (XI (XI (XO (XO (XO XH)))))) :: ((Npos (XO (XO (XO (XO (XO
    XH)))))) :: ((Npos (XO (XI (XI (XI (XO (XI XH))))))) :: ((Npos (XI (XO
    (XO (XI (XO (XI XH))))))) :: ((Npos (XO (XI (XI (XI (XO (XI
    XH))))))) :: ((Npos (XO (XI (XO (XI (XO (XI XH))))))) :: ((Npos (XI (XO
    (XO (XO (XO (XI XH))))))) :: ((Npos (XO (XO (XI (XO (XO (XI
    XH))))))) :: ((Npos (XI (XO (XI (XO (XO (XI XH))))))) :: ((Npos (XO (XO
    (XO (XO (XI (XI XH))))))) :: ((Npos (XI (XI (XO (XO (XI (XI
    XH))))))) :: ((Npos (XO (XI (XO XH)))) :: [])))))))))))

(** val kCurrentVersion : n **)

let kCurrentVersion =
  Npos (XO (XO XH))

(** val deps_header : bytes **)

let deps_header =
  app deps_signature (le32 kCurrentVersion)

(** val kMaxRecordSize : n **)

let kMaxRecordSize =
  Npos (XI (XI (XI (XI (XI (XI (XI (XI (XI (XI (XI (XI (XI (XI (XI (XI (XI
    (XI XH))))))))))))))))))

(** val padding : nat -> nat **)

let padding n0 =
  Nat.modulo (sub (S (S (S (S O)))) (Nat.modulo n0 (S (S (S (S O)))))) (S (S
    (S (S O))))

(** val enc_path_record : n -> bytes -> bytes **)

let enc_path_record id p =
  app
    (le32
      (N.of_nat (add (add (length p) (padding (length p))) (S (S (S (S O)))))))
    (app p (app (repeat N0 (padding (length p))) (le32 (lnot32 id))))

(** val enc_deps_record : n -> z -> n list -> bytes **)

let enc_deps_record out mtime ins =
  app
    (le32
      (N.add two31
        (N.mul (Npos (XO (XO XH)))
          (N.add (Npos (XI XH)) (N.of_nat (length ins))))))
    (app (le32 out)
      (app (le32 (mtime_lo mtime))
        (app (le32 (mtime_hi mtime)) (flat_map le32 ins))))

type dstate = { d_paths : bytes list; d_deps : (n * (z * n list)) list }

(** val d_empty : dstate **)

let d_empty =
  { d_paths = []; d_deps = [] }

(** val add_path : dstate -> bytes -> dstate **)

let add_path s p =
  { d_paths = (app s.d_paths (p :: [])); d_deps = s.d_deps }

(** val add_deps : dstate -> n -> z -> n list -> dstate **)

let add_deps s o m ins =
  { d_paths = s.d_paths; d_deps = ((o, (m, ins)) :: s.d_deps) }

(** val lookup : n -> (n * (z * n list)) list -> (z * n list) option **)

let rec lookup o = function
| [] -> None
| p :: r -> let (o', d) = p in if N.eqb o o' then Some d else lookup o r

(** val index_of : bytes -> bytes list -> n option **)

let rec index_of p = function
| [] -> None
| q :: r ->
  if bytes_eqb p q
  then Some N0
  else (match index_of p r with
        | Some i -> Some (N.succ i)
        | None -> None)

(** val nlen : 'a1 list -> n **)

let nlen l =
  N.of_nat (length l)

type dload =
| DBadHeader
| DOk of dstate * nat option * bool
| DUnsafe of nat
| DFuel

(** val take : nat -> bytes -> (bytes * bytes) option **)

let rec take n0 l =
  match n0 with
  | O -> Some ([], l)
  | S k ->
    (match l with
     | [] -> None
     | x :: r ->
       (match take k r with
        | Some p -> let (a, b) = p in Some ((x :: a), b)
        | None -> None))

type frame_res =
| FEof
| FTorn
| FFail
| FRec of bool * n * bytes * bytes

(** val frame : bytes -> frame_res **)

let frame x =
  match rd32 x with
  | Some p ->
    let (w, x1) = p in
    let is_deps = N.leb two31 w in
    let size = N.modulo w two31 in
    if (||) (N.ltb kMaxRecordSize size) (N.eqb size N0)
    then FFail
    else (match take (N.to_nat size) x1 with
          | Some p0 -> let (buf, rest) = p0 in FRec (is_deps, size, buf, rest)
          | None -> FFail)
  | None -> (match x with
             | [] -> FEof
             | _ :: _ -> FTorn)

(** val words_of : bytes -> n list **)

let rec words_of = function
| [] -> []
| b0 :: l ->
  (match l with
   | [] -> []
   | b1 :: l0 ->
     (match l0 with
      | [] -> []
      | b2 :: l1 ->
        (match l1 with
         | [] -> []
         | b3 :: r ->
           (N.add
             (N.add
               (N.add b0
                 (N.mul (Npos (XO (XO (XO (XO (XO (XO (XO (XO XH))))))))) b1))
               (N.mul (Npos (XO (XO (XO (XO (XO (XO (XO (XO (XO (XO (XO (XO
                 (XO (XO (XO (XO XH))))))))))))))))) b2))
             (N.mul (Npos (XO (XO (XO (XO (XO (XO (XO (XO (XO (XO (XO (XO (XO
               (XO (XO (XO (XO (XO (XO (XO (XO (XO (XO (XO
               XH))))))))))))))))))))))))) b3)) :: (words_of r))))

type ids_res =
| IdsOk
| IdsFail
| IdsUnsafe

(** val check_ids : n -> n list -> ids_res **)

let rec check_ids n0 = function
| [] -> IdsOk
| i :: r ->
  if N.leb two31 i
  then IdsUnsafe
  else if N.leb n0 i then IdsFail else check_ids n0 r

(** val strip_step : bytes -> bytes option **)

let strip_step r = match r with
| [] -> None
| b :: r' -> Some (if N.eqb b N0 then r' else r)

(** val strip3 : bytes -> bytes option **)

let strip3 r =
  match strip_step r with
  | Some r1 ->
    (match strip_step r1 with
     | Some r2 -> strip_step r2
     | None -> None)
  | None -> None

(** val frev : bytes -> bytes **)

let frev l =
  rev_append l []

type dec_res =
| RFail
| RUnsafe of nat
| RPath of bytes
| RDeps of n * z * n list

type rmode =
| RdOld of bool
| RdCur

(** val decode_old : bool -> bytes list -> bool -> n -> bytes -> dec_res **)

let decode_old strict_align paths is_deps size buf =
  if is_deps
  then if negb (N.eqb (N.modulo size (Npos (XO (XO XH)))) N0)
       then RFail
       else (match words_of buf with
             | [] -> RUnsafe (S O)
             | out :: l ->
               (match l with
                | [] -> RUnsafe (S O)
                | lo :: l0 ->
                  (match l0 with
                   | [] -> RUnsafe (S O)
                   | hi :: ins ->
                     (match check_ids (nlen paths) ins with
                      | IdsOk ->
                        if N.leb two31 out
                        then RUnsafe (S (S (S O)))
                        else if N.eqb out (N.sub two31 (Npos XH))
                             then RUnsafe (S (S (S (S O))))
                             else RDeps (out,
                                    (s64 (N.add (N.mul hi two32) lo)), ins)
                      | IdsFail -> RFail
                      | IdsUnsafe -> RUnsafe (S (S O))))))
  else (match frev buf with
        | [] -> RFail
        | c3 :: l ->
          (match l with
           | [] -> RFail
           | c2 :: l0 ->
             (match l0 with
              | [] -> RFail
              | c1 :: l1 ->
                (match l1 with
                 | [] -> RFail
                 | c0 :: rp ->
                   (match rp with
                    | [] -> RFail
                    | _ :: _ ->
                      (match strip3 rp with
                       | Some rp' ->
                         let path = frev rp' in
                         if (&&) strict_align
                              (negb
                                (N.eqb (N.modulo size (Npos (XO (XO XH)))) N0))
                         then RUnsafe (S (S (S (S (S (S O))))))
                         else let checksum =
                                N.add
                                  (N.add
                                    (N.add c0
                                      (N.mul (Npos (XO (XO (XO (XO (XO (XO
                                        (XO (XO XH))))))))) c1))
                                    (N.mul (Npos (XO (XO (XO (XO (XO (XO (XO
                                      (XO (XO (XO (XO (XO (XO (XO (XO (XO
                                      XH))))))))))))))))) c2))
                                  (N.mul (Npos (XO (XO (XO (XO (XO (XO (XO
                                    (XO (XO (XO (XO (XO (XO (XO (XO (XO (XO
                                    (XO (XO (XO (XO (XO (XO (XO
                                    XH))))))))))))))))))))))))) c3)
                              in
                              if (||)
                                   (negb
                                     (Z.eqb (s32 (lnot32 checksum))
                                       (Z.of_N (nlen paths))))
                                   (mem_bytes path paths)
                              then RFail
                              else RPath path
                       | None -> RUnsafe (S (S (S (S (S O)))))))))))

(** val check_ids_cur : n -> n list -> bool **)

let check_ids_cur n0 ins =
  forallb (fun i -> (&&) (negb (N.leb two31 i)) (N.ltb i n0)) ins

(** val decode_cur : bytes list -> bool -> n -> bytes -> dec_res **)

let decode_cur paths is_deps size buf =
  if is_deps
  then if (||) (negb (N.eqb (N.modulo size (Npos (XO (XO XH)))) N0))
            (N.ltb size (Npos (XO (XO (XI XH)))))
       then RFail
       else (match words_of buf with
             | [] -> RUnsafe (S O)
             | out :: l ->
               (match l with
                | [] -> RUnsafe (S O)
                | lo :: l0 ->
                  (match l0 with
                   | [] -> RUnsafe (S O)
                   | hi :: ins ->
                     if (||) (N.leb two31 out) (N.leb (nlen paths) out)
                     then RFail
                     else if check_ids_cur (nlen paths) ins
                          then RDeps (out, (s64 (N.add (N.mul hi two32) lo)),
                                 ins)
                          else RFail)))
  else (match frev buf with
        | [] -> RFail
        | c3 :: l ->
          (match l with
           | [] -> RFail
           | c2 :: l0 ->
             (match l0 with
              | [] -> RFail
              | c1 :: l1 ->
                (match l1 with
                 | [] -> RFail
                 | c0 :: rp ->
                   (match rp with
                    | [] -> RFail
                    | _ :: _ ->
                      if negb (N.eqb (N.modulo size (Npos (XO (XO XH)))) N0)
                      then RFail
                      else (match strip3 rp with
                            | Some rp' ->
                              let path = frev rp' in
                              let checksum =
                                N.add
                                  (N.add
                                    (N.add c0
                                      (N.mul (Npos (XO (XO (XO (XO (XO (XO
                                        (XO (XO XH))))))))) c1))
                                    (N.mul (Npos (XO (XO (XO (XO (XO (XO (XO
                                      (XO (XO (XO (XO (XO (XO (XO (XO (XO
                                      XH))))))))))))))))) c2))
                                  (N.mul (Npos (XO (XO (XO (XO (XO (XO (XO
                                    (XO (XO (XO (XO (XO (XO (XO (XO (XO (XO
                                    (XO (XO (XO (XO (XO (XO (XO
                                    XH))))))))))))))))))))))))) c3)
                              in
                              if (||)
                                   (negb
                                     (Z.eqb (s32 (lnot32 checksum))
                                       (Z.of_N (nlen paths))))
                                   (mem_bytes path paths)
                              then RFail
                              else RPath path
                            | None -> RUnsafe (S (S (S (S (S O)))))))))))

(** val decode : rmode -> bytes list -> bool -> n -> bytes -> dec_res **)

let decode m paths is_deps size buf =
  match m with
  | RdOld strict_align -> decode_old strict_align paths is_deps size buf
  | RdCur -> decode_cur paths is_deps size buf

type lstate = { l_s : dstate; l_off : n; l_total : n; l_unique : n }

(** val l_add_path : lstate -> bytes -> n -> lstate **)

let l_add_path st p size =
  { l_s = (add_path st.l_s p); l_off =
    (N.add (N.add st.l_off size) (Npos (XO (XO XH)))); l_total = st.l_total;
    l_unique = st.l_unique }

(** val l_add_deps : lstate -> n -> z -> n list -> n -> lstate **)

let l_add_deps st o m ins size =
  { l_s = (add_deps st.l_s o m ins); l_off =
    (N.add (N.add st.l_off size) (Npos (XO (XO XH)))); l_total =
    (N.add st.l_total (Npos XH)); l_unique =
    (match lookup o st.l_s.d_deps with
     | Some _ -> st.l_unique
     | None -> N.add st.l_unique (Npos XH)) }

(** val needs_recompaction : n -> n -> bool **)

let needs_recompaction total unique =
  (&&) (N.ltb (Npos (XO (XO (XO (XI (XO (XI (XI (XI (XI XH)))))))))) total)
    (N.ltb (N.mul unique (Npos (XI XH))) total)

(** val load_loop : bool -> rmode -> nat -> lstate -> bytes -> dload **)

let rec load_loop old m fuel st x =
  match fuel with
  | O -> DFuel
  | S fuel' ->
    (match frame x with
     | FEof -> DOk (st.l_s, None, (needs_recompaction st.l_total st.l_unique))
     | FTorn ->
       if old
       then DOk (st.l_s, None, (needs_recompaction st.l_total st.l_unique))
       else DOk (st.l_s, (Some (N.to_nat st.l_off)),
              (needs_recompaction st.l_total st.l_unique))
     | FFail -> DOk (st.l_s, (Some (N.to_nat st.l_off)), false)
     | FRec (is_deps, size, buf, rest) ->
       (match decode m st.l_s.d_paths is_deps size buf with
        | RFail -> DOk (st.l_s, (Some (N.to_nat st.l_off)), false)
        | RUnsafe why -> DUnsafe why
        | RPath p -> load_loop old m fuel' (l_add_path st p size) rest
        | RDeps (o, mt, ins) ->
          load_loop old m fuel' (l_add_deps st o mt ins size) rest))

(** val l_init : lstate **)

let l_init =
  { l_s = d_empty; l_off = (Npos (XO (XO (XO (XO XH))))); l_total = N0;
    l_unique = N0 }

(** val load_deps_ver : bool -> rmode -> bytes -> dload **)

let load_deps_ver old m file =
  match take (S (S (S (S (S (S (S (S (S (S (S (S (S (S (S (S
          O)))))))))))))))) file with
  | Some p ->
    let (h, x) = p in
    if bytes_eqb h deps_header
    then load_loop old m (S (length x)) l_init x
    else DBadHeader
  | None -> DBadHeader

(** val load_deps_gen : bool -> bytes -> dload **)

let load_deps_gen _ file =
  load_deps_ver false RdCur file

(** val load_deps : bytes -> dload **)

let load_deps file =
  load_deps_gen true file

(** val load_deps_x86 : bytes -> dload **)

let load_deps_x86 file =
  load_deps_gen false file

type dop =
| RecordDeps of bytes * z * bytes list

(** val record_id : dstate -> bytes -> (dstate * bytes) option **)

let record_id s p = match p with
| [] -> None
| _ :: _ ->
  if N.ltb kMaxRecordSize
       (N.of_nat
         (add (add (length p) (padding (length p))) (S (S (S (S O))))))
  then None
  else Some ((add_path s p), (enc_path_record (nlen s.d_paths) p))

(** val ensure_ids :
    dstate -> bytes list -> bytes -> bool -> ((dstate * bytes) * bool) * bool **)

let rec ensure_ids s ps w made =
  match ps with
  | [] -> (((s, w), made), true)
  | p :: r ->
    (match index_of p s.d_paths with
     | Some _ -> ensure_ids s r w made
     | None ->
       (match record_id s p with
        | Some p0 -> let (s', e) = p0 in ensure_ids s' r (app w e) true
        | None -> (((s, w), made), false)))

(** val ids_of : bytes list -> bytes list -> n list **)

let rec ids_of paths = function
| [] -> []
| p :: r ->
  (match index_of p paths with
   | Some i -> i :: (ids_of paths r)
   | None -> ids_of paths r)

(** val same_deps : (z * n list) -> (z * n list) -> bool **)

let same_deps a b =
  (&&)
    ((&&) (Z.eqb (fst a) (fst b)) (Nat.eqb (length (snd a)) (length (snd b))))
    (forallb (fun p -> N.eqb (fst p) (snd p)) (combine (snd a) (snd b)))

(** val record_deps : dstate -> dop -> (dstate * bytes) * bool **)

let record_deps s = function
| RecordDeps (out, mtime, ins) ->
  let (p, b) = ensure_ids s (out :: ins) [] false in
  let (p0, made) = p in
  let (s1, w) = p0 in
  if b
  then (match index_of out s1.d_paths with
        | Some oid ->
          let ids = ids_of s1.d_paths ins in
          let unchanged =
            (&&) (negb made)
              (match lookup oid s1.d_deps with
               | Some d -> same_deps d (mtime, ids)
               | None -> false)
          in
          if unchanged
          then ((s1, w), true)
          else if N.ltb kMaxRecordSize
                    (N.mul (Npos (XO (XO XH)))
                      (N.add (Npos (XI XH)) (nlen ins)))
               then ((s1, w), false)
               else (((add_deps s1 oid mtime ids),
                      (app w (enc_deps_record oid mtime ids))), true)
        | None -> ((s1, w), false))
  else ((s1, w), false)

(** val run_ops : dstate -> dop list -> (dstate * bytes) * bool **)

let rec run_ops s = function
| [] -> ((s, []), true)
| op :: r ->
  let (p, b) = record_deps s op in
  let (s1, w) = p in
  if b
  then let (p0, ok) = run_ops s1 r in
       let (s2, w2) = p0 in ((s2, (app w w2)), ok)
  else ((s1, w), false)

(** val nseq : n -> nat -> n list **)

let rec nseq start = function
| O -> []
| S k -> start :: (nseq (N.succ start) k)

(** val resolve : bytes list -> n list -> bytes list option **)

let rec resolve paths = function
| [] -> Some []
| i :: r ->
  (match nth_error paths (N.to_nat i) with
   | Some p ->
     (match resolve paths r with
      | Some ps -> Some (p :: ps)
      | None -> None)
   | None -> None)

type recompact_res =
| CUnsafe of nat
| CFail
| COk of dstate * bytes

(** val recompact_ops :
    (bytes -> bool) -> dstate -> n list -> dop list option **)

let rec recompact_ops live s = function
| [] -> Some []
| i :: r ->
  (match recompact_ops live s r with
   | Some ops ->
     (match lookup i s.d_deps with
      | Some p0 ->
        let (m, ins) = p0 in
        (match nth_error s.d_paths (N.to_nat i) with
         | Some p ->
           (match resolve s.d_paths ins with
            | Some ps ->
              Some (if live p then (RecordDeps (p, m, ps)) :: ops else ops)
            | None -> None)
         | None -> Some ops)
      | None -> Some ops)
   | None -> None)

(** val recompact_r : (bytes -> bool) -> dstate -> recompact_res **)

let recompact_r live s =
  if existsb (fun e -> N.leb (nlen s.d_paths) (fst e)) s.d_deps
  then CUnsafe (S O)
  else (match recompact_ops live s (nseq N0 (length s.d_paths)) with
        | Some ops ->
          let (p, b) = run_ops d_empty ops in
          let (s2, w) = p in
          if b then COk (s2, (app deps_header w)) else CFail
        | None -> CUnsafe (S (S O)))

(** val session_ver :
    bool -> rmode -> (bytes -> bool) -> bytes -> dop list -> bytes **)

let session_ver old m live file ops =
  match load_deps_ver old m file with
  | DBadHeader ->
    let (p, _) = run_ops d_empty ops in let (_, w) = p in app deps_header w
  | DOk (s, tr, nr) ->
    let base = match tr with
               | Some k -> firstn k file
               | None -> file in
    if nr
    then (match recompact_r live s with
          | COk (s2, f2) ->
            let (p, _) = run_ops s2 ops in let (_, w) = p in app f2 w
          | _ -> base)
    else let (p, _) = run_ops s ops in let (_, w) = p in app base w
  | _ -> file

(** val session_gen :
    bool -> (bytes -> bool) -> bytes -> dop list -> bytes **)

let session_gen _ live file ops =
  session_ver false RdCur live file ops

(** val session : (bytes -> bool) -> bytes -> dop list -> bytes **)

let session live file ops =
  session_gen true live file ops

(** val apply_ops : bytes -> dop list -> bytes **)

let apply_ops file ops =
  session (fun _ -> true) file ops

(** val recompact_file : (bytes -> bool) -> bytes -> bytes **)

let recompact_file live file =
  match load_deps file with
  | DBadHeader -> []
  | DOk (s, tr, _) ->
    (match recompact_r live s with
     | COk (_, f) -> f
     | _ -> (match tr with
             | Some k -> firstn k file
             | None -> file))
  | _ -> file

(** val view : dstate -> bytes -> (z * bytes option list) option **)

let view s o =
  match index_of o s.d_paths with
  | Some id ->
    (match lookup id s.d_deps with
     | Some p ->
       let (m, ins) = p in
       Some (m, (map (fun i -> nth_error s.d_paths (N.to_nat i)) ins))
     | None -> None)
  | None -> None

(** val abstract_ops : dop list -> bytes -> (z * bytes list) option **)

let rec abstract_ops ops o =
  match ops with
  | [] -> None
  | d :: r ->
    let RecordDeps (out, m, ins) = d in
    (match abstract_ops r o with
     | Some x -> Some x
     | None -> if bytes_eqb o out then Some (m, ins) else None)

(** val spec_view :
    (z * bytes list) option -> (z * bytes option list) option **)

let spec_view = function
| Some p -> let (m, ins) = p in Some (m, (map (fun x0 -> Some x0) ins))
| None -> None

(** val wf_path : bytes -> bool **)

let wf_path p =
  (&&) (match rev p with
        | [] -> false
        | b :: _ -> negb (N.eqb b N0))
    (N.leb
      (N.of_nat (add (add (length p) (padding (length p))) (S (S (S (S O))))))
      kMaxRecordSize)

(** val wf_mtime : z -> bool **)

let wf_mtime m =
  (&&)
    (Z.leb (Zneg (XO (XO (XO (XO (XO (XO (XO (XO (XO (XO (XO (XO (XO (XO (XO
      (XO (XO (XO (XO (XO (XO (XO (XO (XO (XO (XO (XO (XO (XO (XO (XO (XO (XO
      (XO (XO (XO (XO (XO (XO (XO (XO (XO (XO (XO (XO (XO (XO (XO (XO (XO (XO
      (XO (XO (XO (XO (XO (XO (XO (XO (XO (XO (XO (XO
      XH)))))))))))))))))))))))))))))))))))))))))))))))))))))))))))))))) m)
    (Z.leb m (Zpos (XI (XI (XI (XI (XI (XI (XI (XI (XI (XI (XI (XI (XI (XI
      (XI (XI (XI (XI (XI (XI (XI (XI (XI (XI (XI (XI (XI (XI (XI (XI (XI (XI
      (XI (XI (XI (XI (XI (XI (XI (XI (XI (XI (XI (XI (XI (XI (XI (XI (XI (XI
      (XI (XI (XI (XI (XI (XI (XI (XI (XI (XI (XI (XI
      XH))))))))))))))))))))))))))))))))))))))))))))))))))))))))))))))))

(** val wf_op : dop -> bool **)

let wf_op = function
| RecordDeps (out, m, ins) ->
  (&&) ((&&) ((&&) (wf_path out) (forallb wf_path ins)) (wf_mtime m))
    (N.leb (N.mul (Npos (XO (XO XH))) (N.add (Npos (XI XH)) (nlen ins)))
      kMaxRecordSize)

(** val short_all_nul : bytes -> bool **)

let short_all_nul = function
| [] -> false
| b0 :: l ->
  (match l with
   | [] -> false
   | b1 :: l0 ->
     (match l0 with
      | [] -> false
      | _ :: l1 ->
        (match l1 with
         | [] -> false
         | _ :: l2 ->
           (match l2 with
            | [] -> false
            | _ :: l3 ->
              (match l3 with
               | [] -> N.eqb b0 N0
               | _ :: l4 ->
                 (match l4 with
                  | [] -> (&&) (N.eqb b0 N0) (N.eqb b1 N0)
                  | _ :: _ -> false))))))

(** val record_safe : bool -> ((bool * n) * bytes) -> bool **)

let record_safe strict_align = function
| (p, buf) ->
  let (is_deps, size) = p in
  if is_deps
  then if N.eqb (N.modulo size (Npos (XO (XO XH)))) N0
       then (match words_of buf with
             | [] -> false
             | out :: l ->
               (match l with
                | [] -> false
                | _ :: l0 ->
                  (match l0 with
                   | [] -> false
                   | _ :: ins ->
                     (&&) (N.ltb out (N.sub two31 (Npos XH)))
                       (forallb (fun i -> N.ltb i two31) ins))))
       else true
  else if strict_align
       then N.eqb (N.modulo size (Npos (XO (XO XH)))) N0
       else negb (short_all_nul buf)

(** val frames_of : nat -> bytes -> ((bool * n) * bytes) list **)

let rec frames_of fuel x =
  match fuel with
  | O -> []
  | S fuel' ->
    (match frame x with
     | FRec (d, size, buf, rest) -> ((d, size), buf) :: (frames_of fuel' rest)
     | _ -> [])

(** val safe_file : bool -> bytes -> bool **)

let safe_file strict_align file =
  match take (S (S (S (S (S (S (S (S (S (S (S (S (S (S (S (S
          O)))))))))))))))) file with
  | Some p ->
    let (_, x) = p in
    forallb (record_safe strict_align) (frames_of (S (length x)) x)
  | None -> true
