(* Extraction of the dyndep file model (parser + loader) into its own OCaml module. *)
Require Import ExtrOcamlBasic.
From NinjaV Require Import Base.Bytes Canon.CanonDefs Dyndep.DyndepDefs.
Extraction Language OCaml.
Set Extraction KeepSingleton.
Extraction "dyndepmodel.ml" dyndep_load parse_dyndep parse_gen graph_chk load_dyndep inline_dyndep
  print_dyndep edge_restat producer out_edges wf_stmt wf_name read_token read_path load_dyndep_old.
