
(** val negb : bool -> bool **)

let negb = function
| true -> false
| false -> true

type nat =
| O
| S of nat

(** val fst : ('a1 * 'a2) -> 'a1 **)

let fst = function
| (x, _) -> x

(** val snd : ('a1 * 'a2) -> 'a2 **)

let snd = function
| (_, y) -> y

(** val length : 'a1 list -> nat **)

let rec length = function
| [] -> O
| _ :: l' -> S (length l')

(** val app : 'a1 list -> 'a1 list -> 'a1 list **)

let rec app l m =
  match l with
  | [] -> m
  | a :: l1 -> a :: (app l1 m)

type comparison =
| Eq
| Lt
| Gt

(** val compOpp : comparison -> comparison **)

let compOpp = function
| Eq -> Eq
| Lt -> Gt
| Gt -> Lt

(** val add : nat -> nat -> nat **)

let rec add n0 m =
  match n0 with
  | O -> m
  | S p -> S (add p m)

(** val sub : nat -> nat -> nat **)

let rec sub n0 m =
  match n0 with
  | O -> n0
  | S k -> (match m with
            | O -> n0
            | S l -> sub k l)

module Nat =
 struct
  (** val add : nat -> nat -> nat **)

  let rec add n0 m =
    match n0 with
    | O -> m
    | S p -> S (add p m)

  (** val eqb : nat -> nat -> bool **)

  let rec eqb n0 m =
    match n0 with
    | O -> (match m with
            | O -> true
            | S _ -> false)
    | S n' -> (match m with
               | O -> false
               | S m' -> eqb n' m')

  (** val leb : nat -> nat -> bool **)

  let rec leb n0 m =
    match n0 with
    | O -> true
    | S n' -> (match m with
               | O -> false
               | S m' -> leb n' m')

  (** val ltb : nat -> nat -> bool **)

  let ltb n0 m =
    leb (S n0) m
 end

(** val hd : 'a1 -> 'a1 list -> 'a1 **)

let hd default = function
| [] -> default
| x :: _ -> x

(** val nth : nat -> 'a1 list -> 'a1 -> 'a1 **)

let rec nth n0 l default =
  match n0 with
  | O -> (match l with
          | [] -> default
          | x :: _ -> x)
  | S m -> (match l with
            | [] -> default
            | _ :: t -> nth m t default)

(** val rev : 'a1 list -> 'a1 list **)

let rec rev = function
| [] -> []
| x :: l' -> app (rev l') (x :: [])

(** val map : ('a1 -> 'a2) -> 'a1 list -> 'a2 list **)

let rec map f = function
| [] -> []
| a :: t -> (f a) :: (map f t)

(** val fold_left : ('a1 -> 'a2 -> 'a1) -> 'a2 list -> 'a1 -> 'a1 **)

let rec fold_left f l a0 =
  match l with
  | [] -> a0
  | b :: t -> fold_left f t (f a0 b)

(** val fold_right : ('a2 -> 'a1 -> 'a1) -> 'a1 -> 'a2 list -> 'a1 **)

let rec fold_right f a0 = function
| [] -> a0
| b :: t -> f b (fold_right f a0 t)

(** val existsb : ('a1 -> bool) -> 'a1 list -> bool **)

let rec existsb f = function
| [] -> false
| a :: l0 -> (||) (f a) (existsb f l0)

(** val forallb : ('a1 -> bool) -> 'a1 list -> bool **)

let rec forallb f = function
| [] -> true
| a :: l0 -> (&&) (f a) (forallb f l0)

(** val filter : ('a1 -> bool) -> 'a1 list -> 'a1 list **)

let rec filter f = function
| [] -> []
| x :: l0 -> if f x then x :: (filter f l0) else filter f l0

(** val find : ('a1 -> bool) -> 'a1 list -> 'a1 option **)

let rec find f = function
| [] -> None
| x :: tl -> if f x then Some x else find f tl

(** val firstn : nat -> 'a1 list -> 'a1 list **)

let rec firstn n0 l =
  match n0 with
  | O -> []
  | S n1 -> (match l with
             | [] -> []
             | a :: l0 -> a :: (firstn n1 l0))

(** val skipn : nat -> 'a1 list -> 'a1 list **)

let rec skipn n0 l =
  match n0 with
  | O -> l
  | S n1 -> (match l with
             | [] -> []
             | _ :: l0 -> skipn n1 l0)

(** val seq : nat -> nat -> nat list **)

let rec seq start = function
| O -> []
| S len0 -> start :: (seq (S start) len0)

type positive =
| XI of positive
| XO of positive
| XH

type n =
| N0
| Npos of positive

type z =
| Z0
| Zpos of positive
| Zneg of positive

module Pos =
 struct
  (** val succ : positive -> positive **)

  let rec succ = function
  | XI p -> XO (succ p)
  | XO p -> XI p
  | XH -> XO XH

  (** val add : positive -> positive -> positive **)

  let rec add x y =
    match x with
    | XI p ->
      (match y with
       | XI q -> XO (add_carry p q)
       | XO q -> XI (add p q)
       | XH -> XO (succ p))
    | XO p ->
      (match y with
       | XI q -> XI (add p q)
       | XO q -> XO (add p q)
       | XH -> XI p)
    | XH -> (match y with
             | XI q -> XO (succ q)
             | XO q -> XI q
             | XH -> XO XH)

  (** val add_carry : positive -> positive -> positive **)

  and add_carry x y =
    match x with
    | XI p ->
      (match y with
       | XI q -> XI (add_carry p q)
       | XO q -> XO (add_carry p q)
       | XH -> XI (succ p))
    | XO p ->
      (match y with
       | XI q -> XO (add_carry p q)
       | XO q -> XI (add p q)
       | XH -> XO (succ p))
    | XH ->
      (match y with
       | XI q -> XI (succ q)
       | XO q -> XO (succ q)
       | XH -> XI XH)

  (** val pred_double : positive -> positive **)

  let rec pred_double = function
  | XI p -> XI (XO p)
  | XO p -> XI (pred_double p)
  | XH -> XH

  (** val mul : positive -> positive -> positive **)

  let rec mul x y =
    match x with
    | XI p -> add y (XO (mul p y))
    | XO p -> XO (mul p y)
    | XH -> y

  (** val iter : ('a1 -> 'a1) -> 'a1 -> positive -> 'a1 **)

  let rec iter f x = function
  | XI n' -> f (iter f (iter f x n') n')
  | XO n' -> iter f (iter f x n') n'
  | XH -> f x

  (** val compare_cont : comparison -> positive -> positive -> comparison **)

  let rec compare_cont r x y =
    match x with
    | XI p ->
      (match y with
       | XI q -> compare_cont r p q
       | XO q -> compare_cont Gt p q
       | XH -> Gt)
    | XO p ->
      (match y with
       | XI q -> compare_cont Lt p q
       | XO q -> compare_cont r p q
       | XH -> Gt)
    | XH -> (match y with
             | XH -> r
             | _ -> Lt)

  (** val compare : positive -> positive -> comparison **)

  let compare =
    compare_cont Eq

  (** val eqb : positive -> positive -> bool **)

  let rec eqb p q =
    match p with
    | XI p0 -> (match q with
                | XI q0 -> eqb p0 q0
                | _ -> false)
    | XO p0 -> (match q with
                | XO q0 -> eqb p0 q0
                | _ -> false)
    | XH -> (match q with
             | XH -> true
             | _ -> false)

  (** val coq_Nsucc_double : n -> n **)

  let coq_Nsucc_double = function
  | N0 -> Npos XH
  | Npos p -> Npos (XI p)

  (** val coq_Ndouble : n -> n **)

  let coq_Ndouble = function
  | N0 -> N0
  | Npos p -> Npos (XO p)

  (** val coq_land : positive -> positive -> n **)

  let rec coq_land p q =
    match p with
    | XI p0 ->
      (match q with
       | XI q0 -> coq_Nsucc_double (coq_land p0 q0)
       | XO q0 -> coq_Ndouble (coq_land p0 q0)
       | XH -> Npos XH)
    | XO p0 ->
      (match q with
       | XI q0 -> coq_Ndouble (coq_land p0 q0)
       | XO q0 -> coq_Ndouble (coq_land p0 q0)
       | XH -> N0)
    | XH -> (match q with
             | XO _ -> N0
             | _ -> Npos XH)

  (** val coq_lxor : positive -> positive -> n **)

  let rec coq_lxor p q =
    match p with
    | XI p0 ->
      (match q with
       | XI q0 -> coq_Ndouble (coq_lxor p0 q0)
       | XO q0 -> coq_Nsucc_double (coq_lxor p0 q0)
       | XH -> Npos (XO p0))
    | XO p0 ->
      (match q with
       | XI q0 -> coq_Nsucc_double (coq_lxor p0 q0)
       | XO q0 -> coq_Ndouble (coq_lxor p0 q0)
       | XH -> Npos (XI p0))
    | XH ->
      (match q with
       | XI q0 -> Npos (XO q0)
       | XO q0 -> Npos (XI q0)
       | XH -> N0)

  (** val of_succ_nat : nat -> positive **)

  let rec of_succ_nat = function
  | O -> XH
  | S x -> succ (of_succ_nat x)
 end

module N =
 struct
  (** val add : n -> n -> n **)

  let add n0 m =
    match n0 with
    | N0 -> m
    | Npos p -> (match m with
                 | N0 -> n0
                 | Npos q -> Npos (Pos.add p q))

  (** val mul : n -> n -> n **)

  let mul n0 m =
    match n0 with
    | N0 -> N0
    | Npos p -> (match m with
                 | N0 -> N0
                 | Npos q -> Npos (Pos.mul p q))

  (** val eqb : n -> n -> bool **)

  let eqb n0 m =
    match n0 with
    | N0 -> (match m with
             | N0 -> true
             | Npos _ -> false)
    | Npos p -> (match m with
                 | N0 -> false
                 | Npos q -> Pos.eqb p q)

  (** val div2 : n -> n **)

  let div2 = function
  | N0 -> N0
  | Npos p0 -> (match p0 with
                | XI p -> Npos p
                | XO p -> Npos p
                | XH -> N0)

  (** val coq_land : n -> n -> n **)

  let coq_land n0 m =
    match n0 with
    | N0 -> N0
    | Npos p -> (match m with
                 | N0 -> N0
                 | Npos q -> Pos.coq_land p q)

  (** val coq_lxor : n -> n -> n **)

  let coq_lxor n0 m =
    match n0 with
    | N0 -> m
    | Npos p -> (match m with
                 | N0 -> n0
                 | Npos q -> Pos.coq_lxor p q)

  (** val shiftr : n -> n -> n **)

  let shiftr a = function
  | N0 -> a
  | Npos p -> Pos.iter div2 a p

  (** val of_nat : nat -> n **)

  let of_nat = function
  | O -> N0
  | S n' -> Npos (Pos.of_succ_nat n')
 end

module Z =
 struct
  (** val double : z -> z **)

  let double = function
  | Z0 -> Z0
  | Zpos p -> Zpos (XO p)
  | Zneg p -> Zneg (XO p)

  (** val succ_double : z -> z **)

  let succ_double = function
  | Z0 -> Zpos XH
  | Zpos p -> Zpos (XI p)
  | Zneg p -> Zneg (Pos.pred_double p)

  (** val pred_double : z -> z **)

  let pred_double = function
  | Z0 -> Zneg XH
  | Zpos p -> Zpos (Pos.pred_double p)
  | Zneg p -> Zneg (XI p)

  (** val pos_sub : positive -> positive -> z **)

  let rec pos_sub x y =
    match x with
    | XI p ->
      (match y with
       | XI q -> double (pos_sub p q)
       | XO q -> succ_double (pos_sub p q)
       | XH -> Zpos (XO p))
    | XO p ->
      (match y with
       | XI q -> pred_double (pos_sub p q)
       | XO q -> double (pos_sub p q)
       | XH -> Zpos (Pos.pred_double p))
    | XH ->
      (match y with
       | XI q -> Zneg (XO q)
       | XO q -> Zneg (Pos.pred_double q)
       | XH -> Z0)

  (** val add : z -> z -> z **)

  let add x y =
    match x with
    | Z0 -> y
    | Zpos x' ->
      (match y with
       | Z0 -> x
       | Zpos y' -> Zpos (Pos.add x' y')
       | Zneg y' -> pos_sub x' y')
    | Zneg x' ->
      (match y with
       | Z0 -> x
       | Zpos y' -> pos_sub y' x'
       | Zneg y' -> Zneg (Pos.add x' y'))

  (** val compare : z -> z -> comparison **)

  let compare x y =
    match x with
    | Z0 -> (match y with
             | Z0 -> Eq
             | Zpos _ -> Lt
             | Zneg _ -> Gt)
    | Zpos x' -> (match y with
                  | Zpos y' -> Pos.compare x' y'
                  | _ -> Gt)
    | Zneg x' ->
      (match y with
       | Zneg y' -> compOpp (Pos.compare x' y')
       | _ -> Lt)

  (** val ltb : z -> z -> bool **)

  let ltb x y =
    match compare x y with
    | Lt -> true
    | _ -> false

  (** val gtb : z -> z -> bool **)

  let gtb x y =
    match compare x y with
    | Gt -> true
    | _ -> false

  (** val eqb : z -> z -> bool **)

  let eqb x y =
    match x with
    | Z0 -> (match y with
             | Z0 -> true
             | _ -> false)
    | Zpos p -> (match y with
                 | Zpos q -> Pos.eqb p q
                 | _ -> false)
    | Zneg p -> (match y with
                 | Zneg q -> Pos.eqb p q
                 | _ -> false)

  (** val max : z -> z -> z **)

  let max n0 m =
    match compare n0 m with
    | Lt -> m
    | _ -> n0
 end

type deps_kind =
| DNone
| DDepfile
| DGcc
| DMsvc

type cfg = { c_hash : n; c_restat : bool; c_generator : bool;
             c_deps : deps_kind; c_rspfile : bool }

type orec = { o_file : (z * n) option; o_log : (n * z) option }

(** val stat : orec -> z **)

let stat o =
  match o.o_file with
  | Some p -> let (m, _) = p in m
  | None -> Z0

(** val restat_loop :
    bool -> orec list -> orec list -> z -> bool -> z * bool **)

let rec restat_loop restat scan0 after rm cleaned =
  match scan0 with
  | [] -> (rm, cleaned)
  | s :: scan' ->
    (match after with
     | [] -> (rm, cleaned)
     | a :: after' ->
       let nm = stat a in
       restat_loop restat scan' after' (if Z.gtb nm rm then nm else rm)
         ((||) cleaned ((&&) (Z.eqb (stat s) nm) restat)))

(** val record_mtime : cfg -> z -> orec list -> orec list -> z **)

let record_mtime c start scan0 after =
  if (||) ((||) (Z.eqb start Z0) c.c_restat) c.c_generator
  then let (rm, cleaned) = restat_loop c.c_restat scan0 after start false in
       if cleaned then start else rm
  else start

type node = nat

type edge = nat

type deps_kind0 =
| DepsNone
| DepsDepfile
| DepsLog

type edge_info = { ei_ins : node list; ei_nimp : nat; ei_noo : nat;
                   ei_outs : node list; ei_vals : node list; ei_phony : 
                   bool; ei_restat : bool; ei_generator : bool;
                   ei_deps : deps_kind0; ei_hash : n }

type graph = { g_nedges : nat; g_edge : (edge -> edge_info);
               g_producer : (node -> edge option); g_byloader : (node -> bool) }

type depfile_state =
| DfMissing
| DfEmpty
| DfUnparsable
| DfParsed of node list * node list

type world = { w_mtime : (node -> z); w_blog : (node -> (n * z) option);
               w_dlog : (node -> (z * node list) option);
               w_depfile : (edge -> depfile_state) }

type exist_status =
| ExUnknown
| ExMissing
| ExExists

type nstate = { ns_dirty : bool; ns_mtime : z; ns_exists : exist_status }

type mark =
| VisitNone
| VisitInStack
| VisitDone

type estate = { es_mark : mark; es_ready : bool; es_deps_loaded : bool;
                es_deps_missing : bool; es_ins : node list; es_nimp : 
                nat }

type sstate = { st_node : (node -> nstate); st_edge : (edge -> estate) }

(** val init_nstate : nstate **)

let init_nstate =
  { ns_dirty = false; ns_mtime = (Zneg XH); ns_exists = ExUnknown }

(** val init_estate : edge_info -> estate **)

let init_estate ei =
  { es_mark = VisitNone; es_ready = false; es_deps_loaded = false;
    es_deps_missing = false; es_ins = ei.ei_ins; es_nimp = ei.ei_nimp }

(** val init_state : graph -> sstate **)

let init_state g =
  { st_node = (fun _ -> init_nstate); st_edge = (fun e ->
    init_estate (g.g_edge e)) }

(** val upd_node : sstate -> node -> nstate -> sstate **)

let upd_node s n0 v =
  { st_node = (fun n' -> if Nat.eqb n' n0 then v else s.st_node n');
    st_edge = s.st_edge }

(** val upd_edge : sstate -> edge -> estate -> sstate **)

let upd_edge s e v =
  { st_node = s.st_node; st_edge = (fun e' ->
    if Nat.eqb e' e then v else s.st_edge e') }

(** val n_known : nstate -> bool **)

let n_known ns =
  match ns.ns_exists with
  | ExUnknown -> false
  | _ -> true

(** val n_exists : nstate -> bool **)

let n_exists ns =
  match ns.ns_exists with
  | ExExists -> true
  | _ -> false

(** val stat_if_necessary : world -> sstate -> node -> sstate **)

let stat_if_necessary w s n0 =
  let ns = s.st_node n0 in
  if n_known ns
  then s
  else let m = w.w_mtime n0 in
       upd_node s n0 { ns_dirty = ns.ns_dirty; ns_mtime = m; ns_exists =
         (if Z.eqb m Z0 then ExMissing else ExExists) }

(** val update_phony_mtime : sstate -> node -> z -> sstate **)

let update_phony_mtime s n0 m =
  let ns = s.st_node n0 in
  if n_exists ns
  then s
  else upd_node s n0 { ns_dirty = ns.ns_dirty; ns_mtime =
         (Z.max ns.ns_mtime m); ns_exists = ns.ns_exists }

(** val set_dirty : sstate -> node -> bool -> sstate **)

let set_dirty s n0 d =
  let ns = s.st_node n0 in
  upd_node s n0 { ns_dirty = d; ns_mtime = ns.ns_mtime; ns_exists =
    ns.ns_exists }

(** val set_mark : sstate -> edge -> mark -> sstate **)

let set_mark s e m =
  let es = s.st_edge e in
  upd_edge s e { es_mark = m; es_ready = es.es_ready; es_deps_loaded =
    es.es_deps_loaded; es_deps_missing = es.es_deps_missing; es_ins =
    es.es_ins; es_nimp = es.es_nimp }

(** val set_ready : sstate -> edge -> bool -> sstate **)

let set_ready s e r =
  let es = s.st_edge e in
  upd_edge s e { es_mark = es.es_mark; es_ready = r; es_deps_loaded =
    es.es_deps_loaded; es_deps_missing = es.es_deps_missing; es_ins =
    es.es_ins; es_nimp = es.es_nimp }

(** val set_deps_missing : sstate -> edge -> bool -> sstate **)

let set_deps_missing s e b =
  let es = s.st_edge e in
  upd_edge s e { es_mark = es.es_mark; es_ready = es.es_ready;
    es_deps_loaded = es.es_deps_loaded; es_deps_missing = b; es_ins =
    es.es_ins; es_nimp = es.es_nimp }

(** val set_ins : sstate -> edge -> node list -> nat -> sstate **)

let set_ins s e ins nimp =
  let es = s.st_edge e in
  upd_edge s e { es_mark = es.es_mark; es_ready = es.es_ready;
    es_deps_loaded = es.es_deps_loaded; es_deps_missing = es.es_deps_missing;
    es_ins = ins; es_nimp = nimp }

type 'a sres =
| SOk of 'a
| SCycle of node list
| SLoadErr of edge
| SOutOfFuel

(** val visit_all :
    (node -> 'a1 -> 'a1 sres) -> node list -> 'a1 -> 'a1 sres **)

let rec visit_all visit l a =
  match l with
  | [] -> SOk a
  | n0 :: l' ->
    (match visit n0 a with
     | SOk a' -> visit_all visit l' a'
     | x -> x)

(** val edge_outs : graph -> edge -> node list **)

let edge_outs g e =
  (g.g_edge e).ei_outs

(** val is_order_only : nat -> nat -> nat -> bool **)

let is_order_only len noo idx =
  if Nat.ltb len noo then false else Nat.leb (sub len noo) idx

(** val drop_until_edge : graph -> edge -> node list -> node list **)

let rec drop_until_edge g e stack = match stack with
| [] -> []
| x :: rest ->
  (match g.g_producer x with
   | Some e' -> if Nat.eqb e' e then stack else drop_until_edge g e rest
   | None -> drop_until_edge g e rest)

(** val cycle_path : graph -> node list -> node -> edge -> node list **)

let cycle_path g stack n0 e =
  match drop_until_edge g e stack with
  | [] -> n0 :: (n0 :: [])
  | _ :: rest -> n0 :: (app rest (n0 :: []))

(** val newer : sstate -> node -> node option -> node option **)

let newer s i mri = match mri with
| Some m ->
  if Z.gtb (s.st_node i).ns_mtime (s.st_node m).ns_mtime then Some i else mri
| None -> Some i

(** val eval_inputs :
    graph -> edge -> node list -> nat -> sstate -> node option -> bool ->
    (sstate * node option) * bool **)

let rec eval_inputs g e l idx s mri dirty =
  match l with
  | [] -> ((s, mri), dirty)
  | i :: l' ->
    let s1 =
      match g.g_producer i with
      | Some ie -> if (s.st_edge ie).es_ready then s else set_ready s e false
      | None -> s
    in
    if is_order_only (length (s1.st_edge e).es_ins) (g.g_edge e).ei_noo idx
    then eval_inputs g e l' (S idx) s1 mri dirty
    else if (s1.st_node i).ns_dirty
         then eval_inputs g e l' (S idx) s1 mri true
         else eval_inputs g e l' (S idx) s1 (newer s1 i mri) dirty

(** val mri_mtime : sstate -> node option -> z option **)

let mri_mtime s = function
| Some m -> Some (s.st_node m).ns_mtime
| None -> None

(** val phony_output_dirty :
    graph -> edge -> node -> node option -> sstate -> bool * sstate **)

let phony_output_dirty g e o mri s =
  if (&&)
       ((&&) (match (s.st_edge e).es_ins with
              | [] -> true
              | _ :: _ -> false)
         (match (g.g_edge e).ei_vals with
          | [] -> true
          | _ :: _ -> false)) (negb (n_exists (s.st_node o)))
  then (true, s)
  else (match mri with
        | Some m -> (false, (update_phony_mtime s o (s.st_node m).ns_mtime))
        | None -> (false, s))

(** val output_dirty_first :
    graph -> world -> edge -> node -> z option -> sstate -> bool **)

let output_dirty_first g w e o mri s =
  let ei = g.g_edge e in
  let ns = s.st_node o in
  if negb (n_exists ns)
  then true
  else let entry = w.w_blog o in
       let used_restat =
         (&&) ei.ei_restat (match entry with
                            | Some _ -> true
                            | None -> false)
       in
       if (&&) (negb used_restat)
            (match mri with
             | Some m -> Z.ltb ns.ns_mtime m
             | None -> false)
       then true
       else (match entry with
             | Some p ->
               let (h, lm) = p in
               if (&&) (negb ei.ei_generator) (negb (N.eqb ei.ei_hash h))
               then true
               else (match mri with
                     | Some m -> Z.ltb lm m
                     | None -> false)
             | None -> negb ei.ei_generator)

(** val output_dirty_again :
    graph -> world -> edge -> node -> z option -> sstate -> bool **)

let output_dirty_again g w e o mri s =
  let ei = g.g_edge e in
  let ns = s.st_node o in
  let entry = w.w_blog o in
  let used_restat =
    (&&) ei.ei_restat (match entry with
                       | Some _ -> true
                       | None -> false)
  in
  if (&&) (negb used_restat)
       (match mri with
        | Some m -> Z.ltb ns.ns_mtime m
        | None -> false)
  then true
  else (match entry with
        | Some p ->
          let (_, lm) = p in
          (match mri with
           | Some m -> Z.ltb lm m
           | None -> false)
        | None -> false)

(** val outputs_dirty_all :
    graph -> world -> edge -> node list -> node option -> sstate ->
    bool * sstate **)

let rec outputs_dirty_all g w e outs mri s =
  match outs with
  | [] -> (false, s)
  | o :: outs' ->
    if (g.g_edge e).ei_phony
    then let (d, s1) = phony_output_dirty g e o mri s in
         if d then (true, s1) else outputs_dirty_all g w e outs' mri s1
    else if output_dirty_first g w e o (mri_mtime s mri) s
         then (true, s)
         else outputs_dirty_all g w e outs' mri s

(** val outputs_dirty_depfile :
    graph -> world -> edge -> node option -> sstate -> bool **)

let outputs_dirty_depfile g w e mri s =
  existsb (fun o -> output_dirty_again g w e o (mri_mtime s mri) s)
    (edge_outs g e)

type load_res =
| LdFail
| LdErr
| LdOk of node list

(** val mem_node : node -> node list -> bool **)

let mem_node n0 l =
  existsb (Nat.eqb n0) l

(** val load_deps : graph -> world -> sstate -> edge -> load_res **)

let load_deps g w s e =
  match (g.g_edge e).ei_deps with
  | DepsNone -> LdOk []
  | DepsDepfile ->
    (match edge_outs g e with
     | [] -> LdErr
     | o0 :: _ ->
       (match w.w_depfile e with
        | DfUnparsable -> LdErr
        | DfParsed (outs, dins) ->
          (match outs with
           | [] -> LdErr
           | p :: douts ->
             if negb (Nat.eqb p o0)
             then LdFail
             else if forallb (fun o -> mem_node o (edge_outs g e))
                       (p :: douts)
                  then LdOk dins
                  else LdErr)
        | _ -> LdFail))
  | DepsLog ->
    (match edge_outs g e with
     | [] -> LdErr
     | o0 :: _ ->
       (match w.w_dlog o0 with
        | Some p ->
          let (dm, nodes) = p in
          if Z.gtb (s.st_node o0).ns_mtime dm then LdFail else LdOk nodes
        | None -> LdFail))

(** val load_deps_try : graph -> world -> sstate -> edge -> bool **)

let load_deps_try g w s e =
  match (g.g_edge e).ei_deps with
  | DepsNone -> true
  | DepsDepfile -> (match w.w_depfile e with
                    | DfMissing -> false
                    | _ -> true)
  | DepsLog ->
    (match edge_outs g e with
     | [] -> false
     | o0 :: _ ->
       (match w.w_dlog o0 with
        | Some p -> let (dm, _) = p in negb (Z.gtb (s.st_node o0).ns_mtime dm)
        | None -> false))

(** val splice : node list -> nat -> node list -> node list **)

let splice ins noo new_ins =
  let k = sub (length ins) noo in
  app (firstn k ins) (app new_ins (skipn k ins))

(** val splice_deps : graph -> sstate -> edge -> node list -> sstate **)

let splice_deps g s e new_ins =
  let es = s.st_edge e in
  set_ins s e (splice es.es_ins (g.g_edge e).ei_noo new_ins)
    (add es.es_nimp (length new_ins))

(** val mark_outputs_dirty : sstate -> node list -> sstate **)

let mark_outputs_dirty s outs =
  fold_left (fun s0 o -> set_dirty s0 o true) outs s

(** val stat_outputs : world -> sstate -> node list -> sstate **)

let stat_outputs w s outs =
  fold_left (stat_if_necessary w) outs s

(** val enter_edge : sstate -> edge -> sstate **)

let enter_edge s e =
  let es = s.st_edge e in
  upd_edge s e { es_mark = VisitInStack; es_ready = true; es_deps_loaded =
    true; es_deps_missing = false; es_ins = es.es_ins; es_nimp = es.es_nimp }

(** val opt_node_eqb : node option -> node option -> bool **)

let opt_node_eqb a b =
  match a with
  | Some x -> (match b with
               | Some y -> Nat.eqb x y
               | None -> false)
  | None -> (match b with
             | Some _ -> false
             | None -> true)

(** val finish_edge : graph -> sstate -> edge -> bool -> sstate **)

let finish_edge g s e dirty =
  let s1 = if dirty then mark_outputs_dirty s (edge_outs g e) else s in
  let s2 =
    if (&&) dirty
         (negb
           ((&&) (g.g_edge e).ei_phony
             (match (s1.st_edge e).es_ins with
              | [] -> true
              | _ :: _ -> false)))
    then set_ready s1 e false
    else s1
  in
  set_mark s2 e VisitDone

type sv = sstate * node list

(** val after_inputs :
    graph -> world -> (node -> sv -> sv sres) -> edge -> bool -> bool -> bool
    -> sstate -> node list -> sv sres **)

let after_inputs g w visit e was_loaded rev_missing rev_dirty s3 vs =
  let ins0 = (s3.st_edge e).es_ins in
  let (p, dirty) = eval_inputs g e ins0 O s3 None false in
  let (s4, mri) = p in
  let (dirty1, s5) =
    if dirty
    then (true, s4)
    else outputs_dirty_all g w e (edge_outs g e) mri s4
  in
  if was_loaded
  then SOk
         ((finish_edge g
            (if rev_missing then set_deps_missing s5 e true else s5) e
            ((||) ((||) dirty1 rev_dirty) rev_missing)), vs)
  else if dirty1
       then if load_deps_try g w s5 e
            then SOk ((finish_edge g s5 e true), vs)
            else SOk ((finish_edge g (set_deps_missing s5 e true) e true), vs)
       else (match load_deps g w s5 e with
             | LdFail ->
               SOk ((finish_edge g (set_deps_missing s5 e true) e true), vs)
             | LdErr -> SLoadErr e
             | LdOk new_ins ->
               let first_idx =
                 sub (length (s5.st_edge e).es_ins) (g.g_edge e).ei_noo
               in
               let s6 = splice_deps g s5 e new_ins in
               (match visit_all visit new_ins (s6, vs) with
                | SOk a ->
                  let (s7, vs7) = a in
                  let (p0, dirty2) =
                    eval_inputs g e new_ins first_idx s7 mri false
                  in
                  let (s8, mri2) = p0 in
                  let dirty3 =
                    if (&&) (negb dirty2) (negb (opt_node_eqb mri mri2))
                    then outputs_dirty_depfile g w e mri2 s8
                    else dirty2
                  in
                  SOk ((finish_edge g s8 e dirty3), vs7)
                | x -> x))

(** val recompute_node_dirty :
    graph -> world -> nat -> node list -> node -> sv -> sv sres **)

let rec recompute_node_dirty g w fuel stack n0 x =
  match fuel with
  | O -> SOutOfFuel
  | S fuel' ->
    let (s, vs) = x in
    (match g.g_producer n0 with
     | Some e ->
       (match (s.st_edge e).es_mark with
        | VisitNone ->
          let vs1 = app vs (g.g_edge e).ei_vals in
          let was_loaded = (s.st_edge e).es_deps_loaded in
          let rev_missing = (&&) was_loaded (s.st_edge e).es_deps_missing in
          let rev_dirty =
            (&&) was_loaded
              (existsb (fun o -> (s.st_node o).ns_dirty) (edge_outs g e))
          in
          let s1 = enter_edge s e in
          let stack1 = app stack (n0 :: []) in
          let s2 = stat_outputs w s1 (edge_outs g e) in
          let visit = recompute_node_dirty g w fuel' stack1 in
          (match visit_all visit (s2.st_edge e).es_ins (s2, vs1) with
           | SOk a ->
             let (s3, vs3) = a in
             after_inputs g w visit e was_loaded rev_missing rev_dirty s3 vs3
           | x0 -> x0)
        | VisitInStack -> SCycle (cycle_path g stack n0 e)
        | VisitDone -> SOk x)
     | None ->
       if n_known (s.st_node n0)
       then SOk x
       else let s1 = stat_if_necessary w s n0 in
            SOk ((set_dirty s1 n0 (negb (n_exists (s1.st_node n0)))), vs))

(** val scan_fuel : graph -> nat **)

let scan_fuel g =
  add g.g_nedges (S (S O))

(** val recompute_dirty_loop :
    graph -> world -> nat -> node list -> sstate -> node list -> sv sres **)

let rec recompute_dirty_loop g w qfuel queue s found =
  match queue with
  | [] -> SOk (s, found)
  | n0 :: queue' ->
    (match qfuel with
     | O -> SOutOfFuel
     | S qfuel' ->
       (match recompute_node_dirty g w (scan_fuel g) [] n0 (s, []) with
        | SOk a ->
          let (s', newv) = a in
          recompute_dirty_loop g w qfuel' (app queue' newv) s'
            (app found newv)
        | x -> x))

(** val total_vals : graph -> nat -> nat **)

let rec total_vals g = function
| O -> O
| S k' -> add (total_vals g k') (length (g.g_edge k').ei_vals)

(** val queue_fuel : graph -> nat **)

let queue_fuel g =
  S (total_vals g g.g_nedges)

(** val recompute_dirty : graph -> world -> sstate -> node -> sv sres **)

let recompute_dirty g w s n0 =
  recompute_dirty_loop g w (queue_fuel g) (n0 :: []) s []

type want =
| WantNothing
| WantToStart
| WantToFinish

type plan = { p_want : (edge -> want option); p_wanted : nat; p_commands : nat }

(** val init_plan : plan **)

let init_plan =
  { p_want = (fun _ -> None); p_wanted = O; p_commands = O }

(** val set_want : plan -> edge -> want -> plan **)

let set_want p e v =
  { p_want = (fun e' -> if Nat.eqb e' e then Some v else p.p_want e');
    p_wanted = p.p_wanted; p_commands = p.p_commands }

(** val edge_wanted : graph -> plan -> edge -> plan **)

let edge_wanted g p e =
  { p_want = p.p_want; p_wanted = (S p.p_wanted); p_commands =
    (if (g.g_edge e).ei_phony then p.p_commands else S p.p_commands) }

type missing_err = node * node option

type ast_res = ((bool * missing_err option) * plan) option

(** val ast_loop :
    (node -> plan -> ast_res) -> node list -> plan -> ast_res **)

let rec ast_loop visit ins p =
  match ins with
  | [] -> Some ((true, None), p)
  | i :: ins' ->
    (match visit i p with
     | Some p0 ->
       let (p1, p') = p0 in
       let (b, o) = p1 in
       if b
       then ast_loop visit ins' p'
       else (match o with
             | Some err -> Some ((false, (Some err)), p')
             | None -> ast_loop visit ins' p')
     | None -> None)

(** val add_sub_target :
    graph -> nat -> sstate -> node option -> node -> plan -> ast_res **)

let rec add_sub_target g fuel s dependent n0 p =
  match fuel with
  | O -> None
  | S fuel' ->
    (match g.g_producer n0 with
     | Some e ->
       if (s.st_edge e).es_ready
       then Some ((false, None), p)
       else let inserted =
              match p.p_want e with
              | Some _ -> false
              | None -> true
            in
            let w0 = match p.p_want e with
                     | Some v -> v
                     | None -> WantNothing
            in
            let p1 = set_want p e w0 in
            let p2 =
              if (&&) (s.st_node n0).ns_dirty
                   (match w0 with
                    | WantNothing -> true
                    | _ -> false)
              then edge_wanted g (set_want p1 e WantToStart) e
              else p1
            in
            if negb inserted
            then Some ((true, None), p2)
            else ast_loop (add_sub_target g fuel' s (Some n0))
                   (s.st_edge e).es_ins p2
     | None ->
       if (&&) (s.st_node n0).ns_dirty (negb (g.g_byloader n0))
       then Some ((false, (Some (n0, dependent))), p)
       else Some ((false, None), p))

(** val plan_fuel : graph -> nat **)

let plan_fuel g =
  add g.g_nedges (S (S O))

(** val plan_add_target : graph -> sstate -> node -> plan -> ast_res **)

let plan_add_target g s n0 p =
  add_sub_target g (plan_fuel g) s None n0 p

type scan_result =
| ScanCycle of node list
| ScanMissing of node * node option
| ScanLoadErr of edge
| ScanOutOfFuel
| ScanOk of sstate * plan

(** val add_validation_targets :
    graph -> sstate -> node list -> plan -> scan_result **)

let rec add_validation_targets g s vnodes p =
  match vnodes with
  | [] -> ScanOk (s, p)
  | v :: vnodes' ->
    (match g.g_producer v with
     | Some ve ->
       if (s.st_edge ve).es_ready
       then add_validation_targets g s vnodes' p
       else (match plan_add_target g s v p with
             | Some p0 ->
               let (p1, p') = p0 in
               let (b, o) = p1 in
               if b
               then add_validation_targets g s vnodes' p'
               else (match o with
                     | Some m0 -> let (m, d) = m0 in ScanMissing (m, d)
                     | None -> ScanOk (s, p'))
             | None -> ScanOutOfFuel)
     | None -> add_validation_targets g s vnodes' p)

(** val builder_add_target :
    graph -> world -> sstate -> plan -> node -> scan_result **)

let builder_add_target g w s p t =
  match recompute_dirty g w s t with
  | SOk a ->
    let (s', vnodes) = a in
    let need =
      match g.g_producer t with
      | Some e -> negb (s'.st_edge e).es_ready
      | None -> true
    in
    if need
    then (match plan_add_target g s' t p with
          | Some p0 ->
            let (p1, p') = p0 in
            let (b, o) = p1 in
            if b
            then add_validation_targets g s' vnodes p'
            else (match o with
                  | Some m0 -> let (m, d) = m0 in ScanMissing (m, d)
                  | None -> ScanOk (s', p'))
          | None -> ScanOutOfFuel)
    else add_validation_targets g s' vnodes p
  | SCycle c -> ScanCycle c
  | SLoadErr e -> ScanLoadErr e
  | SOutOfFuel -> ScanOutOfFuel

(** val add_targets :
    graph -> world -> sstate -> plan -> node list -> scan_result **)

let rec add_targets g w s p = function
| [] -> ScanOk (s, p)
| t :: targets' ->
  (match builder_add_target g w s p t with
   | ScanOk (s', p') -> add_targets g w s' p' targets'
   | x -> x)

(** val scan : graph -> world -> node list -> scan_result **)

let scan g w targets =
  add_targets g w (init_state g) init_plan targets

(** val nonoo_ins : graph -> edge -> node list **)

let nonoo_ins g e =
  let ins = (g.g_edge e).ei_ins in
  let noo = (g.g_edge e).ei_noo in
  if Nat.ltb (length ins) noo then ins else firstn (sub (length ins) noo) ins

type content = n

(** val edges_all : graph -> (edge -> bool) -> bool **)

let edges_all g f =
  forallb f (seq O g.g_nedges)

(** val deps_none : deps_kind0 -> bool **)

let deps_none = function
| DepsNone -> true
| _ -> false

(** val is_nil : 'a1 list -> bool **)

let is_nil = function
| [] -> true
| _ :: _ -> false

(** val frag_AB : graph -> bool **)

let frag_AB g =
  edges_all g (fun e ->
    let ei = g.g_edge e in
    (&&) ((&&) (deps_none ei.ei_deps) (is_nil ei.ei_vals))
      (forallb (fun i -> negb (g.g_byloader i)) ei.ei_ins))

(** val topo_ordered : graph -> bool **)

let topo_ordered g =
  edges_all g (fun e ->
    forallb (fun i ->
      match g.g_producer i with
      | Some e' -> Nat.ltb e' e
      | None -> true) (g.g_edge e).ei_ins)

(** val no_inputless_phony : graph -> bool **)

let no_inputless_phony g =
  edges_all g (fun e ->
    negb ((&&) (g.g_edge e).ei_phony (is_nil (g.g_edge e).ei_ins)))

type snapshot = (node * content option) list

type hstate = { h_disk : (node -> (z * content) option); h_clock : z;
                h_blog : (node -> (n * z) option); h_hash : (edge -> n);
                h_ghost : (node -> snapshot option); h_trace : edge list }

(** val h_trace : hstate -> edge list **)

let h_trace h =
  h.h_trace

(** val set_hash : edge_info -> n -> edge_info **)

let set_hash ei h =
  { ei_ins = ei.ei_ins; ei_nimp = ei.ei_nimp; ei_noo = ei.ei_noo; ei_outs =
    ei.ei_outs; ei_vals = ei.ei_vals; ei_phony = ei.ei_phony; ei_restat =
    ei.ei_restat; ei_generator = ei.ei_generator; ei_deps = ei.ei_deps;
    ei_hash = h }

(** val graph_of : graph -> hstate -> graph **)

let graph_of g st =
  { g_nedges = g.g_nedges; g_edge = (fun e ->
    set_hash (g.g_edge e) (st.h_hash e)); g_producer = g.g_producer;
    g_byloader = g.g_byloader }

(** val mtime_of : hstate -> node -> z **)

let mtime_of st n0 =
  match st.h_disk n0 with
  | Some p -> let (m, _) = p in m
  | None -> Z0

(** val content_of : hstate -> node -> content option **)

let content_of st n0 =
  match st.h_disk n0 with
  | Some p -> let (_, c) = p in Some c
  | None -> None

(** val world_of : hstate -> world **)

let world_of st =
  { w_mtime = (mtime_of st); w_blog = st.h_blog; w_dlog = (fun _ -> None);
    w_depfile = (fun _ -> DfMissing) }

(** val init_hstate : graph -> hstate **)

let init_hstate g =
  { h_disk = (fun _ -> None); h_clock = Z0; h_blog = (fun _ -> None);
    h_hash = (fun e -> (g.g_edge e).ei_hash); h_ghost = (fun _ -> None);
    h_trace = [] }

(** val upd : (node -> 'a1) -> node -> 'a1 -> node -> 'a1 **)

let upd f n0 v n' =
  if Nat.eqb n' n0 then v else f n'

(** val write_file : hstate -> node -> content -> hstate **)

let write_file st n0 c =
  let t = Z.add st.h_clock (Zpos XH) in
  { h_disk = (upd st.h_disk n0 (Some (t, c))); h_clock = t; h_blog =
  st.h_blog; h_hash = st.h_hash; h_ghost = st.h_ghost; h_trace = st.h_trace }

(** val delete_file : hstate -> node -> hstate **)

let delete_file st n0 =
  { h_disk = (upd st.h_disk n0 None); h_clock = st.h_clock; h_blog =
    st.h_blog; h_hash = st.h_hash; h_ghost = st.h_ghost; h_trace =
    st.h_trace }

(** val set_cmd : hstate -> edge -> n -> hstate **)

let set_cmd st e h =
  { h_disk = st.h_disk; h_clock = st.h_clock; h_blog = st.h_blog; h_hash =
    (fun e' -> if Nat.eqb e' e then h else st.h_hash e'); h_ghost =
    st.h_ghost; h_trace = st.h_trace }

(** val tick : hstate -> hstate **)

let tick st =
  { h_disk = st.h_disk; h_clock = (Z.add st.h_clock (Zpos XH)); h_blog =
    st.h_blog; h_hash = st.h_hash; h_ghost = st.h_ghost; h_trace =
    st.h_trace }

type hstep =
| Edit of node * content
| Delete of node
| SetCmd of edge * n
| Build of node list

(** val reads : graph -> hstate -> edge -> snapshot **)

let reads g st e =
  map (fun i -> (i, (content_of st i))) (nonoo_ins g e)

(** val same_content : (z * content) option -> content -> bool **)

let same_content f c =
  match f with
  | Some p -> let (_, c') = p in N.eqb c' c
  | None -> false

(** val write_out : bool -> (node -> content) -> hstate -> node -> hstate **)

let write_out restat f st o =
  if (&&) restat (same_content (st.h_disk o) (f o))
  then st
  else write_file st o (f o)

(** val write_outs :
    bool -> (node -> content) -> node list -> hstate -> hstate **)

let write_outs restat f outs st =
  fold_left (write_out restat f) outs st

(** val orec_of : hstate -> node -> orec **)

let orec_of st o =
  { o_file = (st.h_disk o); o_log = (st.h_blog o) }

(** val crash_cfg : edge_info -> n -> cfg **)

let crash_cfg ei h =
  { c_hash = h; c_restat = ei.ei_restat; c_generator = ei.ei_generator;
    c_deps = DNone; c_rspfile = false }

(** val record :
    hstate -> edge -> node list -> n -> z -> snapshot -> hstate **)

let record st e outs h m s =
  { h_disk = st.h_disk; h_clock = st.h_clock; h_blog = (fun n0 ->
    if mem_node n0 outs then Some (h, m) else st.h_blog n0); h_hash =
    st.h_hash; h_ghost = (fun n0 ->
    if mem_node n0 outs then Some s else st.h_ghost n0); h_trace =
    (e :: st.h_trace) }

(** val finish_run :
    (edge -> n -> snapshot -> node -> content) -> graph -> hstate -> hstate
    -> edge -> n -> snapshot -> z -> hstate **)

let finish_run cmd g sc st1 e h s t0 =
  let ei = g.g_edge e in
  let st2 = write_outs ei.ei_restat (cmd e h s) ei.ei_outs st1 in
  let m =
    record_mtime (crash_cfg ei h) t0 (map (orec_of sc) ei.ei_outs)
      (map (orec_of st2) ei.ei_outs)
  in
  record st2 e ei.ei_outs h m s

(** val run_edge :
    (edge -> n -> snapshot -> node -> content) -> graph -> hstate -> edge ->
    hstate **)

let run_edge cmd g st e =
  finish_run cmd g st (tick st) e (st.h_hash e) (reads g st e)
    (tick st).h_clock

(** val dirty_now : graph -> hstate -> edge -> bool **)

let dirty_now g st e =
  let outs = (g.g_edge e).ei_outs in
  (match scan (graph_of g st) (world_of st) outs with
   | ScanOk (s, _) -> existsb (fun o -> (s.st_node o).ns_dirty) outs
   | _ -> true)

(** val want_start : plan -> edge -> bool **)

let want_start p e =
  match p.p_want e with
  | Some w -> (match w with
               | WantToStart -> true
               | _ -> false)
  | None -> false

(** val build_step :
    (edge -> n -> snapshot -> node -> content) -> graph -> plan -> hstate ->
    edge -> hstate **)

let build_step cmd g p st e =
  if (&&) ((&&) (want_start p e) (negb (g.g_edge e).ei_phony))
       (dirty_now g st e)
  then run_edge cmd g st e
  else st

(** val build_upto :
    (edge -> n -> snapshot -> node -> content) -> graph -> plan -> nat ->
    hstate -> hstate **)

let build_upto cmd g p k st =
  fold_left (build_step cmd g p) (seq O k) st

(** val build :
    (edge -> n -> snapshot -> node -> content) -> graph -> hstate -> node
    list -> hstate option **)

let build cmd g st targets =
  match scan (graph_of g st) (world_of st) targets with
  | ScanOk (_, p) -> Some (build_upto cmd g p g.g_nedges st)
  | _ -> None

(** val is_source : graph -> node -> bool **)

let is_source g n0 =
  match g.g_producer n0 with
  | Some _ -> false
  | None -> true

(** val step_ok : graph -> hstep -> bool **)

let step_ok g = function
| Edit (n0, _) -> is_source g n0
| _ -> true

(** val hist_ok : graph -> hstep list -> bool **)

let hist_ok g h =
  forallb (step_ok g) h

(** val apply_step :
    (edge -> n -> snapshot -> node -> content) -> graph -> hstate -> hstep ->
    hstate **)

let apply_step cmd g st = function
| Edit (n0, c) -> write_file st n0 c
| Delete n0 -> delete_file st n0
| SetCmd (e, h) -> set_cmd st e h
| Build targets ->
  (match build cmd g st targets with
   | Some st' -> st'
   | None -> st)

(** val run_hist :
    (edge -> n -> snapshot -> node -> content) -> graph -> hstate -> hstep
    list -> hstate **)

let run_hist cmd g st h =
  fold_left (apply_step cmd g) h st

(** val cb :
    (edge -> n -> snapshot -> node -> content) -> graph -> (edge -> n) ->
    (node -> content option) -> nat -> node -> content option **)

let rec cb cmd g hs src = function
| O -> (fun n0 -> match g.g_producer n0 with
                  | Some _ -> None
                  | None -> src n0)
| S k' ->
  let prev = cb cmd g hs src k' in
  (fun n0 ->
  match g.g_producer n0 with
  | Some e ->
    if Nat.eqb e k'
    then if (g.g_edge k').ei_phony
         then None
         else Some
                (cmd k' (hs k')
                  (map (fun i -> (i, (prev i))) (nonoo_ins g k')) n0)
    else prev n0
  | None -> prev n0)

(** val clean_build :
    (edge -> n -> snapshot -> node -> content) -> graph -> (edge -> n) ->
    (node -> content option) -> node -> content option **)

let clean_build cmd g hs src =
  cb cmd g hs src g.g_nedges

(** val sources_of : graph -> hstate -> node -> content option **)

let sources_of g st n0 =
  match g.g_producer n0 with
  | Some _ -> None
  | None -> content_of st n0

(** val clean_of :
    (edge -> n -> snapshot -> node -> content) -> graph -> hstate -> node ->
    content option **)

let clean_of cmd g st =
  clean_build cmd g st.h_hash (sources_of g st)

(** val mask64 : n **)

let mask64 =
  Npos (XI (XI (XI (XI (XI (XI (XI (XI (XI (XI (XI (XI (XI (XI (XI (XI (XI
    (XI (XI (XI (XI (XI (XI (XI (XI (XI (XI (XI (XI (XI (XI (XI (XI (XI (XI
    (XI (XI (XI (XI (XI (XI (XI (XI (XI (XI (XI (XI (XI (XI (XI (XI (XI (XI
    (XI (XI (XI (XI (XI (XI (XI (XI (XI (XI
    XH)))))))))))))))))))))))))))))))))))))))))))))))))))))))))))))))

(** val w64 : n -> n **)

let w64 x =
  N.coq_land x mask64

(** val fnv_prime : n **)

let fnv_prime =
  Npos (XI (XI (XO (XO (XI (XI (XO (XI (XI (XO (XO (XO (XO (XO (XO (XO (XO
    (XO (XO (XO (XO (XO (XO (XO (XO (XO (XO (XO (XO (XO (XO (XO (XO (XO (XO
    (XO (XO (XO (XO (XO XH))))))))))))))))))))))))))))))))))))))))

(** val fnv_basis : n **)

let fnv_basis =
  Npos (XI (XO (XI (XO (XO (XI (XO (XO (XI (XI (XO (XO (XO (XI (XO (XO (XO
    (XI (XO (XO (XO (XI (XO (XO (XO (XO (XI (XO (XO (XO (XO (XI (XO (XO (XI
    (XO (XO (XI (XI (XI (XO (XO (XI (XI (XI (XO (XO (XI (XO (XI (XO (XO (XI
    (XI (XI (XI (XI (XI (XO (XI (XO (XO (XI
    XH)))))))))))))))))))))))))))))))))))))))))))))))))))))))))))))))

(** val in_salt : n **)

let in_salt =
  Npos (XI (XO (XI (XO (XI (XO (XO (XO (XO (XO (XI (XI (XI (XI (XI (XO (XO
    (XI (XO (XI (XO (XO (XI (XO (XI (XI (XI (XI (XI (XI (XI (XO (XI (XO (XO
    (XI (XI (XI (XO (XI (XI (XO (XO (XI (XI (XI (XI (XO (XI (XI (XI (XO (XI
    (XI (XO (XO (XO (XI (XI (XI (XI (XO (XO
    XH)))))))))))))))))))))))))))))))))))))))))))))))))))))))))))))))

(** val mix : n -> n -> n **)

let mix a x =
  w64 (N.mul (N.add (N.add a x) (Npos XH)) fnv_prime)

(** val fmix : n -> n **)

let fmix x =
  let x1 = N.coq_lxor x (N.shiftr x (Npos (XI (XO (XO (XO (XO XH))))))) in
  let x2 =
    w64
      (N.mul x1 (Npos (XI (XO (XI (XI (XO (XO (XI (XI (XO (XO (XI (XI (XO (XO
        (XO (XI (XI (XO (XI (XO (XI (XO (XI (XO (XI (XO (XI (XI (XO (XI (XI
        (XI (XI (XI (XI (XO (XI (XO (XI (XI (XI (XI (XI (XI (XO (XI (XO (XI
        (XI (XO (XO (XO (XI (XO (XI (XO (XI (XI (XI (XI (XI (XI (XI
        XH)))))))))))))))))))))))))))))))))))))))))))))))))))))))))))))))))
  in
  let x3 = N.coq_lxor x2 (N.shiftr x2 (Npos (XI (XO (XO (XO (XO XH))))))) in
  let x4 =
    w64
      (N.mul x3 (Npos (XI (XI (XO (XO (XI (XO (XI (XO (XO (XO (XI (XI (XO (XI
        (XI (XI (XI (XO (XI (XO (XO (XO (XO (XI (XO (XI (XO (XI (XI (XO (XO
        (XO (XO (XI (XI (XI (XI (XI (XI (XI (XI (XO (XO (XI (XI (XI (XO (XI
        (XO (XI (XI (XI (XO (XO (XI (XI (XO (XO (XI (XO (XO (XO (XI
        XH)))))))))))))))))))))))))))))))))))))))))))))))))))))))))))))))))
  in
  N.coq_lxor x4 (N.shiftr x4 (Npos (XI (XO (XO (XO (XO XH)))))))

(** val enc_opt : content option -> n **)

let enc_opt = function
| Some c0 -> N.add c0 (Npos XH)
| None -> N0

(** val snap_hash : snapshot -> n **)

let snap_hash s =
  fold_right (fun x acc ->
    w64 (N.add (fmix (w64 (N.add in_salt (enc_opt (snd x))))) acc)) N0 s

(** val hcmd : graph -> edge -> n -> snapshot -> node -> content **)

let hcmd g e h s o =
  let h0 = if (g.g_edge e).ei_generator then N0 else N.add h (Npos XH) in
  fmix
    (mix (mix (mix (mix fnv_basis (N.of_nat e)) h0) (N.of_nat o))
      (snap_hash s))

(** val wf_b : graph -> nat -> bool **)

let wf_b g nn =
  (&&)
    (forallb (fun e ->
      forallb (fun o ->
        match g.g_producer o with
        | Some e' -> Nat.eqb e' e
        | None -> false) (g.g_edge e).ei_outs) (seq O g.g_nedges))
    (forallb (fun n0 ->
      match g.g_producer n0 with
      | Some e ->
        (&&) (Nat.ltb e g.g_nedges) (mem_node n0 (g.g_edge e).ei_outs)
      | None -> true) (seq O nn))

(** val trace_delta : hstate -> hstate -> edge list **)

let trace_delta st0 st1 =
  rev (firstn (sub (length st1.h_trace) (length st0.h_trace)) st1.h_trace)

(** val opt_content_eqb : content option -> content option -> bool **)

let opt_content_eqb a b =
  match a with
  | Some x -> (match b with
               | Some y -> N.eqb x y
               | None -> false)
  | None -> (match b with
             | Some _ -> false
             | None -> true)

(** val is_clean : graph -> hstate -> node -> bool **)

let is_clean g st n0 =
  opt_content_eqb (content_of st n0) (clean_of (hcmd g) g st n0)

(** val step_run : graph -> hstate -> hstep -> bool * hstate **)

let step_run g st s = match s with
| Build t ->
  (match build (hcmd g) g st t with
   | Some st' -> (true, st')
   | None -> (false, st))
| _ -> (true, (apply_step (hcmd g) g st s))

(** val listed : graph -> plan -> edge -> bool **)

let listed g p e =
  (&&) (want_start p e) (negb (g.g_edge e).ei_phony)

(** val dry_list : graph -> plan -> edge list **)

let dry_list g p =
  filter (listed g p) (seq O g.g_nedges)

(** val dry_build :
    graph -> hstate -> node list -> (hstate * edge list) option **)

let dry_build g st targets =
  match scan (graph_of g st) (world_of st) targets with
  | ScanOk (_, p) -> Some (st, (dry_list g p))
  | _ -> None

(** val ofold :
    ('a1 -> 'a2 -> 'a2 option) -> 'a1 list -> 'a2 -> 'a2 option **)

let rec ofold f l x =
  match l with
  | [] -> Some x
  | a :: l' -> (match f a x with
                | Some x' -> ofold f l' x'
                | None -> None)

type cst = { c_s : sstate; c_want : (edge -> bool) }

(** val unwant : (edge -> bool) -> edge -> edge -> bool **)

let unwant wt e e' =
  if Nat.eqb e' e then false else wt e'

(** val out_edges : graph -> sstate -> node -> edge list **)

let out_edges g s n0 =
  filter (fun e -> mem_node n0 (s.st_edge e).es_ins) (seq O g.g_nedges)

(** val cn_nonoo : graph -> sstate -> edge -> node list **)

let cn_nonoo g s e =
  let ins = (s.st_edge e).es_ins in
  let noo = (g.g_edge e).ei_noo in
  if Nat.ltb (length ins) noo then ins else firstn (sub (length ins) noo) ins

(** val cn_mri : sstate -> node list -> node option **)

let cn_mri s l =
  fold_left (fun mri i -> newer s i mri) l None

(** val clean_edge :
    graph -> world -> (node -> cst -> cst option) -> edge -> cst -> cst option **)

let clean_edge g w rec0 e x =
  let s = x.c_s in
  if (&&) ((&&) (x.c_want e) (negb (s.st_edge e).es_deps_missing))
       (forallb (fun i -> negb (s.st_node i).ns_dirty) (cn_nonoo g s e))
  then let (d, s1) =
         outputs_dirty_all g w e (edge_outs g e) (cn_mri s (cn_nonoo g s e)) s
       in
       if d
       then Some { c_s = s1; c_want = x.c_want }
       else (match ofold rec0 (edge_outs g e) { c_s = s1; c_want = x.c_want } with
             | Some x' -> Some { c_s = x'.c_s; c_want = (unwant x'.c_want e) }
             | None -> None)
  else Some x

(** val clean_node : graph -> world -> nat -> node -> cst -> cst option **)

let rec clean_node g w fuel n0 x =
  match fuel with
  | O -> None
  | S f ->
    let x1 = { c_s = (set_dirty x.c_s n0 false); c_want = x.c_want } in
    ofold (clean_edge g w (clean_node g w f)) (out_edges g x1.c_s n0) x1

(** val clean_fuel : graph -> nat **)

let clean_fuel g =
  S g.g_nedges

(** val restat_clean : graph -> world -> edge -> cst -> cst option **)

let restat_clean g w e x =
  if (g.g_edge e).ei_restat
  then ofold (fun o x0 ->
         if Z.eqb (x0.c_s.st_node o).ns_mtime (w.w_mtime o)
         then clean_node g w (clean_fuel g) o x0
         else Some x0) (g.g_edge e).ei_outs x
  else Some x

(** val dirty_now_f : cst -> edge -> bool **)

let dirty_now_f x e =
  x.c_want e

(** val build_step_f :
    (edge -> n -> snapshot -> node -> content) -> graph -> (hstate * cst)
    option -> edge -> (hstate * cst) option **)

let build_step_f cmd g fs e =
  match fs with
  | Some p ->
    let (st, x) = p in
    if (&&) (dirty_now_f x e) (negb (g.g_edge e).ei_phony)
    then let st' = run_edge cmd g st e in
         (match restat_clean (graph_of g st') (world_of st') e { c_s = x.c_s;
                  c_want = (unwant x.c_want e) } with
          | Some x' -> Some (st', x')
          | None -> None)
    else Some (st, x)
  | None -> None

(** val init_cst : sstate -> plan -> cst **)

let init_cst s p =
  { c_s = s; c_want = (want_start p) }

(** val build_upto_f :
    (edge -> n -> snapshot -> node -> content) -> graph -> sstate -> plan ->
    nat -> hstate -> (hstate * cst) option **)

let build_upto_f cmd g s p k st =
  fold_left (build_step_f cmd g) (seq O k) (Some (st, (init_cst s p)))

(** val build_f :
    (edge -> n -> snapshot -> node -> content) -> graph -> hstate -> node
    list -> hstate option **)

let build_f cmd g st targets =
  match scan (graph_of g st) (world_of st) targets with
  | ScanOk (s, p) ->
    (match build_upto_f cmd g s p g.g_nedges st with
     | Some p0 -> let (st', _) = p0 in Some st'
     | None -> None)
  | _ -> None

(** val apply_step_f :
    (edge -> n -> snapshot -> node -> content) -> graph -> hstate -> hstep ->
    hstate **)

let apply_step_f cmd g st s = match s with
| Build targets ->
  (match build_f cmd g st targets with
   | Some st' -> st'
   | None -> st)
| _ -> apply_step cmd g st s

type fail_kind =
| FailUntouched
| FailDeleted
| FailWrote of (node -> content)

type faults = (edge * fail_kind) list

(** val fault_of : faults -> edge -> fail_kind option **)

let rec fault_of fs e =
  match fs with
  | [] -> None
  | p :: fs' ->
    let (e', k) = p in if Nat.eqb e' e then Some k else fault_of fs' e

(** val is_some : 'a1 option -> bool **)

let is_some = function
| Some _ -> true
| None -> false

(** val delete_outs : node list -> hstate -> hstate **)

let delete_outs os st =
  fold_left delete_file os st

(** val forget_ghost : hstate -> node list -> hstate **)

let forget_ghost st os =
  { h_disk = st.h_disk; h_clock = st.h_clock; h_blog = st.h_blog; h_hash =
    st.h_hash; h_ghost = (fun n0 ->
    if mem_node n0 os then None else st.h_ghost n0); h_trace = st.h_trace }

(** val push_trace : hstate -> edge -> hstate **)

let push_trace st e =
  { h_disk = st.h_disk; h_clock = st.h_clock; h_blog = st.h_blog; h_hash =
    st.h_hash; h_ghost = st.h_ghost; h_trace = (e :: st.h_trace) }

(** val fail_edge : graph -> hstate -> edge -> fail_kind -> hstate **)

let fail_edge g st e k =
  let os = (g.g_edge e).ei_outs in
  let st1 = tick st in
  push_trace
    (match k with
     | FailUntouched -> st1
     | FailDeleted -> delete_outs os st1
     | FailWrote f -> forget_ghost (write_outs false f os st1) os) e

type facc = hstate * ((edge * fail_kind) * hstate) option

(** val build_stepF :
    (edge -> n -> snapshot -> node -> content) -> graph -> faults -> plan ->
    facc -> edge -> facc **)

let build_stepF cmd g fs p acc e =
  let (st, o) = acc in
  (match o with
   | Some _ -> acc
   | None ->
     if (&&) ((&&) (want_start p e) (negb (g.g_edge e).ei_phony))
          (dirty_now g st e)
     then (match fault_of fs e with
           | Some k -> ((fail_edge g st e k), (Some ((e, k), st)))
           | None -> ((run_edge cmd g st e), None))
     else acc)

(** val build_uptoF :
    (edge -> n -> snapshot -> node -> content) -> graph -> faults -> plan ->
    nat -> hstate -> facc **)

let build_uptoF cmd g fs p k st =
  fold_left (build_stepF cmd g fs p) (seq O k) (st, None)

(** val buildF_full :
    (edge -> n -> snapshot -> node -> content) -> graph -> hstate -> node
    list -> faults -> facc option **)

let buildF_full cmd g st targets fs =
  match scan (graph_of g st) (world_of st) targets with
  | ScanOk (_, p) -> Some (build_uptoF cmd g fs p g.g_nedges st)
  | _ -> None

(** val buildF :
    (edge -> n -> snapshot -> node -> content) -> graph -> hstate -> node
    list -> faults -> (hstate * bool) option **)

let buildF cmd g st targets fs =
  match buildF_full cmd g st targets fs with
  | Some f -> let (st', r) = f in Some (st', (is_some r))
  | None -> None

(** val tainted : hstate -> node -> bool **)

let tainted st o =
  match st.h_disk o with
  | Some _ -> (match st.h_ghost o with
               | Some _ -> false
               | None -> true)
  | None -> false

(** val lateb : graph -> nat -> hstate -> z -> node -> bool **)

let rec lateb g fuel st m i =
  match fuel with
  | O -> false
  | S f ->
    (match st.h_disk i with
     | Some p -> let (mi, _) = p in Z.ltb m mi
     | None ->
       (match g.g_producer i with
        | Some e' ->
          if (g.g_edge e').ei_phony
          then existsb (lateb g f st m) (nonoo_ins g e')
          else true
        | None -> true))

(** val stale_entryb : graph -> bool -> hstate -> edge -> node -> bool **)

let stale_entryb g wh st e o =
  match st.h_blog o with
  | Some p ->
    let (h, m) = p in
    (||)
      ((&&) ((&&) wh (negb (g.g_edge e).ei_generator))
        (negb (N.eqb h (st.h_hash e))))
      (existsb (lateb g (S g.g_nedges) st m) (nonoo_ins g e))
  | None -> negb (g.g_edge e).ei_generator

(** val taint_okb : graph -> bool -> hstate -> bool **)

let taint_okb g wh st =
  edges_all g (fun e ->
    (||) (g.g_edge e).ei_phony
      (forallb (fun o ->
        (||) (negb (tainted st o)) (stale_entryb g wh st e o))
        (g.g_edge e).ei_outs))

(** val taint_safe : graph -> hstate -> bool **)

let taint_safe g st =
  taint_okb g true st

type crash_at =
| KBefore
| KLocked
| KWrote of nat * (node -> content)
| KLogged of nat

type crash_point = { cp_pos : nat; cp_at : crash_at }

type intr_point = { ip_pos : nat; ip_k : nat; ip_f : (node -> content) }

(** val logged_outs : graph -> edge -> nat -> node list **)

let logged_outs g e j =
  firstn j (g.g_edge e).ei_outs

(** val same_hash_entry : hstate -> n -> node -> bool **)

let same_hash_entry st h o =
  match st.h_blog o with
  | Some p -> let (h', _) = p in N.eqb h' h
  | None -> false

(** val kill_wrote :
    graph -> hstate -> edge -> nat -> (node -> content) -> hstate **)

let kill_wrote g st e k f =
  let ws = firstn k (g.g_edge e).ei_outs in
  push_trace (forget_ghost (write_outs false f ws (tick st)) ws) e

(** val record_partial :
    hstate -> edge -> node list -> node list -> n -> z -> snapshot -> hstate **)

let record_partial st e outs lg h m s =
  { h_disk = st.h_disk; h_clock = st.h_clock; h_blog = (fun n0 ->
    if mem_node n0 lg then Some (h, m) else st.h_blog n0); h_hash =
    st.h_hash; h_ghost = (fun n0 ->
    if mem_node n0 lg
    then Some s
    else if mem_node n0 outs
         then if same_hash_entry st h n0 then Some s else None
         else st.h_ghost n0); h_trace = (e :: st.h_trace) }

(** val kill_logged :
    (edge -> n -> snapshot -> node -> content) -> graph -> hstate -> edge ->
    nat -> hstate **)

let kill_logged cmd g st e j =
  let ei = g.g_edge e in
  let h = st.h_hash e in
  let s = reads g st e in
  let st1 = tick st in
  let st2 = write_outs ei.ei_restat (cmd e h s) ei.ei_outs st1 in
  let m =
    record_mtime (crash_cfg ei h) st1.h_clock (map (orec_of st) ei.ei_outs)
      (map (orec_of st2) ei.ei_outs)
  in
  record_partial st2 e ei.ei_outs (logged_outs g e j) h m s

(** val kill_edge :
    (edge -> n -> snapshot -> node -> content) -> graph -> hstate -> edge ->
    crash_at -> hstate **)

let kill_edge cmd g st e = function
| KBefore -> st
| KLocked -> tick st
| KWrote (k, f) -> kill_wrote g st e k f
| KLogged j ->
  if Nat.leb (length (g.g_edge e).ei_outs) j
  then run_edge cmd g st e
  else kill_logged cmd g st e j

(** val starts : graph -> plan -> hstate -> edge -> bool **)

let starts g p stk e =
  (&&) ((&&) (want_start p e) (negb (g.g_edge e).ei_phony))
    (dirty_now g stk e)

type kacc = hstate * ((edge * crash_at) * hstate) option

(** val buildK_at :
    (edge -> n -> snapshot -> node -> content) -> graph -> plan -> hstate ->
    crash_point -> kacc **)

let buildK_at cmd g p st cp =
  let e = cp.cp_pos in
  if Nat.ltb e g.g_nedges
  then let stk = build_upto cmd g p e st in
       if starts g p stk e
       then ((kill_edge cmd g stk e cp.cp_at), (Some ((e, cp.cp_at), stk)))
       else (stk, None)
  else ((build_upto cmd g p g.g_nedges st), None)

(** val buildK_full :
    (edge -> n -> snapshot -> node -> content) -> graph -> hstate -> node
    list -> crash_point -> kacc option **)

let buildK_full cmd g st targets cp =
  match scan (graph_of g st) (world_of st) targets with
  | ScanOk (_, p) -> Some (buildK_at cmd g p st cp)
  | _ -> None

(** val cleanup_out : hstate -> hstate -> node -> hstate **)

let cleanup_out sc st o =
  if Z.eqb (mtime_of sc o) (mtime_of st o) then st else delete_file st o

(** val cleanup_outs : hstate -> node list -> hstate -> hstate **)

let cleanup_outs sc os st =
  fold_left (cleanup_out sc) os st

(** val intr_edge :
    graph -> hstate -> hstate -> edge -> nat -> (node -> content) -> hstate **)

let intr_edge g sc stk e k f =
  cleanup_outs sc (g.g_edge e).ei_outs (kill_wrote g stk e k f)

type iacc = hstate * (edge * hstate) option

(** val buildI_at :
    (edge -> n -> snapshot -> node -> content) -> graph -> plan -> hstate ->
    intr_point -> iacc **)

let buildI_at cmd g p st ip =
  let e = ip.ip_pos in
  if Nat.ltb e g.g_nedges
  then let stk = build_upto cmd g p e st in
       if starts g p stk e
       then ((intr_edge g st stk e ip.ip_k ip.ip_f), (Some (e, stk)))
       else ((build_upto cmd g p g.g_nedges st), None)
  else ((build_upto cmd g p g.g_nedges st), None)

(** val buildI_full :
    (edge -> n -> snapshot -> node -> content) -> graph -> hstate -> node
    list -> intr_point -> iacc option **)

let buildI_full cmd g st targets ip =
  match scan (graph_of g st) (world_of st) targets with
  | ScanOk (_, p) -> Some (buildI_at cmd g p st ip)
  | _ -> None

(** val stmt_reasonb : graph -> bool -> hstate -> edge -> bool **)

let stmt_reasonb g wh st e =
  existsb (fun o ->
    (||) (stale_entryb g wh st e o) ((&&) wh (negb (is_some (st.h_disk o)))))
    (g.g_edge e).ei_outs

(** val taint_okSb : graph -> bool -> hstate -> bool **)

let taint_okSb g wh st =
  edges_all g (fun e ->
    (||)
      ((||) (g.g_edge e).ei_phony
        (negb (existsb (tainted st) (g.g_edge e).ei_outs)))
      (stmt_reasonb g wh st e))

(** val taint_safe_stmt : graph -> hstate -> bool **)

let taint_safe_stmt g st =
  taint_okSb g true st

(** val is_deps_log : deps_kind0 -> bool **)

let is_deps_log = function
| DepsLog -> true
| _ -> false

(** val not_depfile : deps_kind0 -> bool **)

let not_depfile = function
| DepsDepfile -> false
| _ -> true

(** val frag_D : graph -> bool **)

let frag_D g =
  edges_all g (fun e ->
    let ei = g.g_edge e in
    (&&) ((&&) (not_depfile ei.ei_deps) (is_nil ei.ei_vals))
      ((||) (negb (is_deps_log ei.ei_deps))
        ((&&) ((&&) (negb ei.ei_phony) (negb (is_nil ei.ei_outs)))
          (Nat.leb ei.ei_noo (length ei.ei_ins)))))

(** val frag_ABD : graph -> (edge -> node list) -> bool **)

let frag_ABD g hid =
  (&&) (frag_D g)
    (edges_all g (fun e ->
      let ei = g.g_edge e in
      (&&) (forallb (fun i -> negb (g.g_byloader i)) ei.ei_ins)
        ((||) (is_deps_log ei.ei_deps) (is_nil (hid e)))))

(** val inline_edge : edge_info -> node list -> edge_info **)

let inline_edge ei h =
  { ei_ins = (splice ei.ei_ins ei.ei_noo h); ei_nimp =
    (add ei.ei_nimp (length h)); ei_noo = ei.ei_noo; ei_outs = ei.ei_outs;
    ei_vals = ei.ei_vals; ei_phony = ei.ei_phony; ei_restat = ei.ei_restat;
    ei_generator = ei.ei_generator; ei_deps = DepsNone; ei_hash = ei.ei_hash }

(** val inline : graph -> (edge -> node list) -> graph **)

let inline g hid =
  { g_nedges = g.g_nedges; g_edge = (fun e ->
    inline_edge (g.g_edge e) (hid e)); g_producer = g.g_producer;
    g_byloader = (fun _ -> false) }

(** val hidden_reads_ordered : graph -> (edge -> node list) -> bool **)

let hidden_reads_ordered g hid =
  edges_all g (fun e ->
    forallb (fun i ->
      match g.g_producer i with
      | Some _ -> mem_node i (g.g_edge e).ei_ins
      | None -> true) (hid e))

(** val read_ins : graph -> (edge -> node list) -> edge -> node list **)

let read_ins g hid e =
  app (nonoo_ins g e) (hid e)

(** val taint : graph -> (edge -> node list) -> nat -> bool list **)

let rec taint g hid = function
| O -> []
| S k' ->
  let t = taint g hid k' in
  app t
    (((||) (g.g_edge k').ei_restat
       (existsb (fun i ->
         match g.g_producer i with
         | Some u -> nth u t false
         | None -> false) (read_ins g hid k'))) :: [])

(** val tainted0 : graph -> (edge -> node list) -> edge -> bool **)

let tainted0 g hid u =
  nth u (taint g hid g.g_nedges) false

(** val reads_tainted : graph -> (edge -> node list) -> edge -> bool **)

let reads_tainted g hid e =
  existsb (fun i ->
    match g.g_producer i with
    | Some u -> tainted0 g hid u
    | None -> false) (read_ins g hid e)

(** val no_restat_upstream_of_deps : graph -> (edge -> node list) -> bool **)

let no_restat_upstream_of_deps g hid =
  edges_all g (fun e ->
    (||) (negb (is_deps_log (g.g_edge e).ei_deps))
      (negb (reads_tainted g hid e)))

type dstate = { d_h : hstate; d_deps : (node -> (z * node list) option) }

(** val d_h : dstate -> hstate **)

let d_h d =
  d.d_h

(** val d_deps : dstate -> node -> (z * node list) option **)

let d_deps d =
  d.d_deps

(** val world_of_d : dstate -> world **)

let world_of_d ds =
  { w_mtime = (mtime_of ds.d_h); w_blog = ds.d_h.h_blog; w_dlog = ds.d_deps;
    w_depfile = (fun _ -> DfMissing) }

(** val init_dstate : graph -> dstate **)

let init_dstate g =
  { d_h = (init_hstate g); d_deps = (fun _ -> None) }

(** val edge_now : edge_info -> estate -> edge_info **)

let edge_now ei es =
  { ei_ins = es.es_ins; ei_nimp = es.es_nimp; ei_noo = ei.ei_noo; ei_outs =
    ei.ei_outs; ei_vals = ei.ei_vals; ei_phony = ei.ei_phony; ei_restat =
    ei.ei_restat; ei_generator = ei.ei_generator; ei_deps = DepsNone;
    ei_hash = ei.ei_hash }

(** val graph_now : graph -> sstate -> graph **)

let graph_now g s =
  { g_nedges = g.g_nedges; g_edge = (fun e ->
    edge_now (g.g_edge e) (s.st_edge e)); g_producer = g.g_producer;
    g_byloader = (fun _ -> false) }

(** val dreads :
    graph -> (edge -> node list) -> hstate -> edge -> snapshot **)

let dreads g hid st e =
  map (fun i -> (i, (content_of st i))) (read_ins g hid e)

(** val record_deps :
    graph -> (edge -> node list) -> hstate -> edge -> (node -> (z * node
    list) option) -> node -> (z * node list) option **)

let record_deps g hid st' e dl =
  if is_deps_log (g.g_edge e).ei_deps
  then (fun n0 ->
         if mem_node n0 (g.g_edge e).ei_outs
         then Some ((mtime_of st' n0), (hid e))
         else dl n0)
  else dl

(** val drun_edge :
    (edge -> n -> snapshot -> node -> content) -> graph -> (edge -> node
    list) -> dstate -> edge -> dstate **)

let drun_edge cmd g hid ds e =
  let st = ds.d_h in
  let st' =
    finish_run cmd g st (tick st) e (st.h_hash e) (dreads g hid st e)
      (tick st).h_clock
  in
  { d_h = st'; d_deps = (record_deps g hid st' e ds.d_deps) }

(** val dirty_now_d : graph -> sstate -> dstate -> edge -> bool **)

let dirty_now_d g s ds e =
  (||) (s.st_edge e).es_deps_missing (dirty_now (graph_now g s) ds.d_h e)

(** val dbuild_step :
    (edge -> n -> snapshot -> node -> content) -> graph -> (edge -> node
    list) -> sstate -> plan -> dstate -> edge -> dstate **)

let dbuild_step cmd g hid s p ds e =
  if (&&) ((&&) (want_start p e) (negb (g.g_edge e).ei_phony))
       (dirty_now_d g s ds e)
  then drun_edge cmd g hid ds e
  else ds

(** val dbuild_upto :
    (edge -> n -> snapshot -> node -> content) -> graph -> (edge -> node
    list) -> sstate -> plan -> nat -> dstate -> dstate **)

let dbuild_upto cmd g hid s p k ds =
  fold_left (dbuild_step cmd g hid s p) (seq O k) ds

(** val dscan : graph -> dstate -> node list -> scan_result **)

let dscan g ds targets =
  scan (graph_of g ds.d_h) (world_of_d ds) targets

(** val dbuild :
    (edge -> n -> snapshot -> node -> content) -> graph -> (edge -> node
    list) -> dstate -> node list -> dstate option **)

let dbuild cmd g hid ds targets =
  match dscan g ds targets with
  | ScanOk (s, p) -> Some (dbuild_upto cmd g hid s p g.g_nedges ds)
  | _ -> None

(** val dlift : (hstate -> hstate) -> dstate -> dstate **)

let dlift f ds =
  { d_h = (f ds.d_h); d_deps = ds.d_deps }

(** val dapply_step :
    (edge -> n -> snapshot -> node -> content) -> graph -> (edge -> node
    list) -> dstate -> hstep -> dstate **)

let dapply_step cmd g hid ds = function
| Edit (n0, c) -> dlift (fun st -> write_file st n0 c) ds
| Delete n0 -> dlift (fun st -> delete_file st n0) ds
| SetCmd (e, h) -> dlift (fun st -> set_cmd st e h) ds
| Build targets ->
  (match dbuild cmd g hid ds targets with
   | Some ds' -> ds'
   | None -> ds)

(** val drop_deps : dstate -> node -> dstate **)

let drop_deps ds o =
  { d_h = ds.d_h; d_deps = (fun n0 ->
    if Nat.eqb n0 o then None else ds.d_deps n0) }

(** val clean_of_d :
    (edge -> n -> snapshot -> node -> content) -> graph -> (edge -> node
    list) -> dstate -> node -> content option **)

let clean_of_d cmd g hid ds =
  clean_of cmd (inline g hid) ds.d_h

(** val hidden_srcs_present :
    graph -> (edge -> node list) -> hstate -> bool **)

let hidden_srcs_present g hid st =
  edges_all g (fun e ->
    forallb (fun i ->
      (||) (negb (is_source g i))
        (match st.h_disk i with
         | Some _ -> true
         | None -> false)) (hid e))

(** val targets_known : graph -> node list -> bool **)

let targets_known g targets =
  forallb (fun t -> negb (g.g_byloader t)) targets

(** val hist_present :
    (edge -> n -> snapshot -> node -> content) -> graph -> (edge -> node
    list) -> dstate -> hstep list -> bool **)

let rec hist_present cmd g hid ds = function
| [] -> true
| x :: h' ->
  (&&)
    (match x with
     | Build targets ->
       (&&) (hidden_srcs_present g hid ds.d_h) (targets_known g targets)
     | _ -> true) (hist_present cmd g hid (dapply_step cmd g hid ds x) h')

(** val dbuild_step_f :
    (edge -> n -> snapshot -> node -> content) -> graph -> (edge -> node
    list) -> (dstate * cst) option -> edge -> (dstate * cst) option **)

let dbuild_step_f cmd g hid fs e =
  match fs with
  | Some p ->
    let (ds, x) = p in
    if (&&) (dirty_now_f x e) (negb (g.g_edge e).ei_phony)
    then let ds' = drun_edge cmd g hid ds e in
         (match restat_clean (graph_of g ds'.d_h) (world_of_d ds') e { c_s =
                  x.c_s; c_want = (unwant x.c_want e) } with
          | Some x' -> Some (ds', x')
          | None -> None)
    else Some (ds, x)
  | None -> None

(** val dbuild_upto_f :
    (edge -> n -> snapshot -> node -> content) -> graph -> (edge -> node
    list) -> sstate -> plan -> nat -> dstate -> (dstate * cst) option **)

let dbuild_upto_f cmd g hid s p k ds =
  fold_left (dbuild_step_f cmd g hid) (seq O k) (Some (ds, (init_cst s p)))

(** val dbuild_f :
    (edge -> n -> snapshot -> node -> content) -> graph -> (edge -> node
    list) -> dstate -> node list -> dstate option **)

let dbuild_f cmd g hid ds targets =
  match dscan g ds targets with
  | ScanOk (s, p) ->
    (match dbuild_upto_f cmd g hid s p g.g_nedges ds with
     | Some p0 -> let (ds', _) = p0 in Some ds'
     | None -> None)
  | _ -> None

(** val dapply_step_f :
    (edge -> n -> snapshot -> node -> content) -> graph -> (edge -> node
    list) -> dstate -> hstep -> dstate **)

let dapply_step_f cmd g hid ds x = match x with
| Build targets ->
  (match dbuild_f cmd g hid ds targets with
   | Some ds' -> ds'
   | None -> ds)
| _ -> dapply_step cmd g hid ds x

type pevent =
| Start of edge
| Finish of edge

type prun = { r_edge : edge; r_t0 : z; r_hash : n; r_snap : snapshot }

type pcfg = { p_st : hstate; p_x : cst; p_run : prun list; p_done : edge list }

type pres =
| POk of pcfg
| PBad
| PFuel

type presult =
| PDone of pcfg
| PRefused
| PInvalid
| PIncomplete of pcfg
| POutOfFuel

(** val node_ready : graph -> nat -> (edge -> bool) -> node -> bool **)

let rec node_ready g f bl n0 =
  match g.g_producer n0 with
  | Some e' ->
    if bl e'
    then if (g.g_edge e').ei_phony
         then (match f with
               | O -> false
               | S f' -> forallb (node_ready g f' bl) (g.g_edge e').ei_ins)
         else false
    else true
  | None -> true

(** val ready_fuel : graph -> nat **)

let ready_fuel g =
  S g.g_nedges

(** val running : prun list -> edge -> bool **)

let running r e =
  existsb (fun r0 -> Nat.eqb r0.r_edge e) r

(** val blocked : pcfg -> edge -> bool **)

let blocked c e =
  (||) (c.p_x.c_want e) (running c.p_run e)

(** val inputs_ready : graph -> pcfg -> edge -> bool **)

let inputs_ready g c e =
  forallb (node_ready g (ready_fuel g) (blocked c)) (g.g_edge e).ei_ins

(** val jobs_ok : nat option -> prun list -> bool **)

let jobs_ok lim r =
  match lim with
  | Some n0 -> Nat.ltb (length r) n0
  | None -> true

(** val start_ok : graph -> nat option -> pcfg -> edge -> bool **)

let start_ok g lim c e =
  (&&)
    ((&&)
      ((&&)
        ((&&) ((&&) (Nat.ltb e g.g_nedges) (c.p_x.c_want e))
          (negb (g.g_edge e).ei_phony)) (negb (running c.p_run e)))
      (jobs_ok lim c.p_run)) (inputs_ready g c e)

(** val do_start : graph -> pcfg -> edge -> pcfg **)

let do_start g c e =
  let st = c.p_st in
  let st1 = tick st in
  { p_st = st1; p_x = c.p_x; p_run = ({ r_edge = e; r_t0 = st1.h_clock;
  r_hash = (st.h_hash e); r_snap = (reads g st e) } :: c.p_run); p_done =
  c.p_done }

(** val take_run : edge -> prun list -> (prun * prun list) option **)

let rec take_run e = function
| [] -> None
| r0 :: r' ->
  if Nat.eqb r0.r_edge e
  then Some (r0, r')
  else (match take_run e r' with
        | Some p -> let (r'0, r'') = p in Some (r'0, (r0 :: r''))
        | None -> None)

(** val do_finish :
    (edge -> n -> snapshot -> node -> content) -> graph -> pcfg -> edge ->
    pres **)

let do_finish cmd g c e =
  match take_run e c.p_run with
  | Some p ->
    let (r, r') = p in
    let st = c.p_st in
    let st' = finish_run cmd g st st e r.r_hash r.r_snap r.r_t0 in
    (match restat_clean (graph_of g st') (world_of st') e { c_s = c.p_x.c_s;
             c_want = (unwant c.p_x.c_want e) } with
     | Some x' ->
       POk { p_st = st'; p_x = x'; p_run = r'; p_done = (e :: c.p_done) }
     | None -> PFuel)
  | None -> PBad

(** val par_step :
    (edge -> n -> snapshot -> node -> content) -> graph -> nat option -> pcfg
    -> pevent -> pres **)

let par_step cmd g lim c = function
| Start e -> if start_ok g lim c e then POk (do_start g c e) else PBad
| Finish e -> do_finish cmd g c e

(** val par_exec :
    (edge -> n -> snapshot -> node -> content) -> graph -> nat option ->
    pevent list -> pcfg -> pres **)

let rec par_exec cmd g lim sched c =
  match sched with
  | [] -> POk c
  | ev :: rest ->
    (match par_step cmd g lim c ev with
     | POk c' -> par_exec cmd g lim rest c'
     | x -> x)

(** val par_accepted :
    (edge -> n -> snapshot -> node -> content) -> graph -> nat option ->
    pevent list -> pcfg -> nat **)

let rec par_accepted cmd g lim sched c =
  match sched with
  | [] -> O
  | ev :: rest ->
    (match par_step cmd g lim c ev with
     | POk c' -> S (par_accepted cmd g lim rest c')
     | _ -> O)

(** val complete : graph -> pcfg -> bool **)

let complete g c =
  (&&) (is_nil c.p_run)
    (forallb (fun e -> (||) (negb (c.p_x.c_want e)) (g.g_edge e).ei_phony)
      (seq O g.g_nedges))

(** val init_pcfg : hstate -> sstate -> plan -> pcfg **)

let init_pcfg st s p =
  { p_st = st; p_x = (init_cst s p); p_run = []; p_done = [] }

(** val par_run :
    (edge -> n -> snapshot -> node -> content) -> graph -> nat option ->
    hstate -> node list -> pevent list -> presult **)

let par_run cmd g lim st targets sched =
  match scan (graph_of g st) (world_of st) targets with
  | ScanOk (s, p) ->
    (match par_exec cmd g lim sched (init_pcfg st s p) with
     | POk c -> if complete g c then PDone c else PIncomplete c
     | PBad -> PInvalid
     | PFuel -> POutOfFuel)
  | _ -> PRefused

(** val in_pool : (edge -> nat option) -> nat -> edge -> bool **)

let in_pool pool_of p e =
  match pool_of e with
  | Some q -> Nat.eqb q p
  | None -> false

(** val pool_use : (edge -> nat option) -> prun list -> nat -> nat **)

let pool_use pool_of r p =
  length (filter (fun r0 -> in_pool pool_of p r0.r_edge) r)

(** val pool_ok :
    (edge -> nat option) -> (nat -> nat) -> prun list -> edge -> bool **)

let pool_ok pool_of depth r e =
  match pool_of e with
  | Some p ->
    (||) (Nat.eqb (depth p) O) (Nat.ltb (pool_use pool_of r p) (depth p))
  | None -> true

(** val par_step_pool :
    (edge -> n -> snapshot -> node -> content) -> graph -> (edge -> nat
    option) -> (nat -> nat) -> nat option -> pcfg -> pevent -> pres **)

let par_step_pool cmd g pool_of depth lim c ev = match ev with
| Start e ->
  if pool_ok pool_of depth c.p_run e then par_step cmd g lim c ev else PBad
| Finish _ -> par_step cmd g lim c ev

(** val par_exec_pool :
    (edge -> n -> snapshot -> node -> content) -> graph -> (edge -> nat
    option) -> (nat -> nat) -> nat option -> pevent list -> pcfg -> pres **)

let rec par_exec_pool cmd g pool_of depth lim sched c =
  match sched with
  | [] -> POk c
  | ev :: rest ->
    (match par_step_pool cmd g pool_of depth lim c ev with
     | POk c' -> par_exec_pool cmd g pool_of depth lim rest c'
     | x -> x)

(** val par_accepted_pool :
    (edge -> n -> snapshot -> node -> content) -> graph -> (edge -> nat
    option) -> (nat -> nat) -> nat option -> pevent list -> pcfg -> nat **)

let rec par_accepted_pool cmd g pool_of depth lim sched c =
  match sched with
  | [] -> O
  | ev :: rest ->
    (match par_step_pool cmd g pool_of depth lim c ev with
     | POk c' -> S (par_accepted_pool cmd g pool_of depth lim rest c')
     | _ -> O)

(** val par_run_pool :
    (edge -> n -> snapshot -> node -> content) -> graph -> (edge -> nat
    option) -> (nat -> nat) -> nat option -> hstate -> node list -> pevent
    list -> presult **)

let par_run_pool cmd g pool_of depth lim st targets sched =
  match scan (graph_of g st) (world_of st) targets with
  | ScanOk (s, p) ->
    (match par_exec_pool cmd g pool_of depth lim sched (init_pcfg st s p) with
     | POk c -> if complete g c then PDone c else PIncomplete c
     | PBad -> PInvalid
     | PFuel -> POutOfFuel)
  | _ -> PRefused

(** val pool_of_list : (edge * nat) list -> edge -> nat option **)

let pool_of_list l e =
  match find (fun x -> Nat.eqb (fst x) e) l with
  | Some x -> Some (snd x)
  | None -> None

(** val depth_of_list : (nat * nat) list -> nat -> nat **)

let depth_of_list l p =
  match find (fun x -> Nat.eqb (fst x) p) l with
  | Some x -> snd x
  | None -> O

(** val to_log_kind : deps_kind0 -> deps_kind0 **)

let to_log_kind k = match k with
| DepsDepfile -> DepsLog
| _ -> k

(** val to_log_edge : edge_info -> edge_info **)

let to_log_edge ei =
  { ei_ins = ei.ei_ins; ei_nimp = ei.ei_nimp; ei_noo = ei.ei_noo; ei_outs =
    ei.ei_outs; ei_vals = ei.ei_vals; ei_phony = ei.ei_phony; ei_restat =
    ei.ei_restat; ei_generator = ei.ei_generator; ei_deps =
    (to_log_kind ei.ei_deps); ei_hash = ei.ei_hash }

(** val to_log : graph -> graph **)

let to_log g =
  { g_nedges = g.g_nedges; g_edge = (fun e -> to_log_edge (g.g_edge e));
    g_producer = g.g_producer; g_byloader = g.g_byloader }

(** val is_depfile : deps_kind0 -> bool **)

let is_depfile = function
| DepsDepfile -> true
| _ -> false

(** val frag_ABF : graph -> (edge -> node list) -> bool **)

let frag_ABF g hid =
  (&&) (edges_all g (fun e -> negb (is_deps_log (g.g_edge e).ei_deps)))
    (frag_ABD (to_log g) hid)

type fstate = { f_ds : dstate; f_df : (edge -> node list option);
                f_udel : (edge -> bool) }

(** val f_ds : fstate -> dstate **)

let f_ds f =
  f.f_ds

(** val f_df : fstate -> edge -> node list option **)

let f_df f =
  f.f_df

(** val f_h : fstate -> hstate **)

let f_h fs =
  fs.f_ds.d_h

(** val init_fstate : graph -> fstate **)

let init_fstate g =
  { f_ds = (init_dstate g); f_df = (fun _ -> None); f_udel = (fun _ ->
    false) }

(** val depfile_of : graph -> fstate -> edge -> depfile_state **)

let depfile_of g fs e =
  match fs.f_df e with
  | Some l ->
    (match (g.g_edge e).ei_outs with
     | [] -> DfParsed ([], l)
     | o0 :: _ -> DfParsed ((o0 :: []), l))
  | None -> DfMissing

(** val world_of_f : graph -> fstate -> world **)

let world_of_f g fs =
  { w_mtime = (mtime_of (f_h fs)); w_blog = (f_h fs).h_blog; w_dlog =
    fs.f_ds.d_deps; w_depfile = (depfile_of g fs) }

(** val frun_edge :
    (edge -> n -> snapshot -> node -> content) -> graph -> (edge -> node
    list) -> fstate -> edge -> fstate **)

let frun_edge cmd g hid fs e =
  let ds' = drun_edge cmd g hid fs.f_ds e in
  if is_depfile (g.g_edge e).ei_deps
  then { f_ds = ds'; f_df = (fun e' ->
         if Nat.eqb e' e then Some (hid e) else fs.f_df e'); f_udel =
         (fun e' -> if Nat.eqb e' e then false else fs.f_udel e') }
  else { f_ds = ds'; f_df = fs.f_df; f_udel = fs.f_udel }

(** val fscan : graph -> fstate -> node list -> scan_result **)

let fscan g fs targets =
  scan (graph_of g (f_h fs)) (world_of_f g fs) targets

(** val fbuild_step :
    (edge -> n -> snapshot -> node -> content) -> graph -> (edge -> node
    list) -> sstate -> plan -> fstate -> edge -> fstate **)

let fbuild_step cmd g hid s p fs e =
  if (&&) ((&&) (want_start p e) (negb (g.g_edge e).ei_phony))
       (dirty_now_d g s fs.f_ds e)
  then frun_edge cmd g hid fs e
  else fs

(** val fbuild_upto :
    (edge -> n -> snapshot -> node -> content) -> graph -> (edge -> node
    list) -> sstate -> plan -> nat -> fstate -> fstate **)

let fbuild_upto cmd g hid s p k fs =
  fold_left (fbuild_step cmd g hid s p) (seq O k) fs

(** val fbuild :
    (edge -> n -> snapshot -> node -> content) -> graph -> (edge -> node
    list) -> fstate -> node list -> fstate option **)

let fbuild cmd g hid fs targets =
  match fscan g fs targets with
  | ScanOk (s, p) -> Some (fbuild_upto cmd g hid s p g.g_nedges fs)
  | _ -> None

type fstep =
| FS of hstep
| DeleteDepfile of edge

(** val flift : (dstate -> dstate) -> fstate -> fstate **)

let flift f fs =
  { f_ds = (f fs.f_ds); f_df = fs.f_df; f_udel = fs.f_udel }

(** val delete_depfile : fstate -> edge -> fstate **)

let delete_depfile fs e =
  { f_ds = fs.f_ds; f_df = (fun e' ->
    if Nat.eqb e' e then None else fs.f_df e'); f_udel = (fun e' ->
    if Nat.eqb e' e then true else fs.f_udel e') }

(** val fapply_step :
    (edge -> n -> snapshot -> node -> content) -> graph -> (edge -> node
    list) -> fstate -> fstep -> fstate **)

let fapply_step cmd g hid fs = function
| FS x0 ->
  (match x0 with
   | Edit (n0, c) -> flift (dlift (fun st -> write_file st n0 c)) fs
   | Delete n0 -> flift (dlift (fun st -> delete_file st n0)) fs
   | SetCmd (e, h) -> flift (dlift (fun st -> set_cmd st e h)) fs
   | Build targets ->
     (match fbuild cmd g hid fs targets with
      | Some fs' -> fs'
      | None -> fs))
| DeleteDepfile e -> delete_depfile fs e

(** val fstep_ok : graph -> fstep -> bool **)

let fstep_ok g = function
| FS y -> step_ok g y
| DeleteDepfile e ->
  (&&) (Nat.ltb e g.g_nedges) (is_depfile (g.g_edge e).ei_deps)

(** val fhist_ok : graph -> fstep list -> bool **)

let fhist_ok g h =
  forallb (fstep_ok g) h

(** val clean_of_f :
    (edge -> n -> snapshot -> node -> content) -> graph -> (edge -> node
    list) -> fstate -> node -> content option **)

let clean_of_f cmd g hid fs =
  clean_of cmd (inline g hid) (f_h fs)

(** val hist_present_f :
    (edge -> n -> snapshot -> node -> content) -> graph -> (edge -> node
    list) -> fstate -> hstep list -> bool **)

let rec hist_present_f cmd g hid fs = function
| [] -> true
| x :: h' ->
  (&&)
    (match x with
     | Build targets ->
       (&&) (hidden_srcs_present g hid (f_h fs)) (targets_known g targets)
     | _ -> true)
    (hist_present_f cmd g hid (fapply_step cmd g hid fs (FS x)) h')

type faccf = (hstate * cst) * ((edge * fail_kind) * hstate) option

(** val build_stepF_f :
    (edge -> n -> snapshot -> node -> content) -> graph -> faults -> faccf
    option -> edge -> faccf option **)

let build_stepF_f cmd g fs acc e =
  match acc with
  | Some f ->
    let (p, o) = f in
    let (st, x) = p in
    (match o with
     | Some _ -> acc
     | None ->
       if (&&) (dirty_now_f x e) (negb (g.g_edge e).ei_phony)
       then (match fault_of fs e with
             | Some k -> Some (((fail_edge g st e k), x), (Some ((e, k), st)))
             | None ->
               (match build_step_f cmd g (Some (st, x)) e with
                | Some p0 -> Some (p0, None)
                | None -> None))
       else acc)
  | None -> None

(** val build_uptoF_f :
    (edge -> n -> snapshot -> node -> content) -> graph -> faults -> sstate
    -> plan -> nat -> hstate -> faccf option **)

let build_uptoF_f cmd g fs s p k st =
  fold_left (build_stepF_f cmd g fs) (seq O k) (Some ((st, (init_cst s p)),
    None))

(** val buildF_full_f :
    (edge -> n -> snapshot -> node -> content) -> graph -> hstate -> node
    list -> faults -> facc option **)

let buildF_full_f cmd g st targets fs =
  match scan (graph_of g st) (world_of st) targets with
  | ScanOk (s, p) ->
    (match build_uptoF_f cmd g fs s p g.g_nedges st with
     | Some f -> let (p0, r) = f in let (st', _) = p0 in Some (st', r)
     | None -> None)
  | _ -> None

(** val starts_f : graph -> cst -> edge -> bool **)

let starts_f g x e =
  (&&) (dirty_now_f x e) (negb (g.g_edge e).ei_phony)

(** val buildK_at_f :
    (edge -> n -> snapshot -> node -> content) -> graph -> sstate -> plan ->
    hstate -> crash_point -> kacc option **)

let buildK_at_f cmd g s p st cp =
  let e = cp.cp_pos in
  if Nat.ltb e g.g_nedges
  then (match build_upto_f cmd g s p e st with
        | Some p0 ->
          let (stk, x) = p0 in
          if starts_f g x e
          then Some ((kill_edge cmd g stk e cp.cp_at), (Some ((e, cp.cp_at),
                 stk)))
          else Some (stk, None)
        | None -> None)
  else (match build_upto_f cmd g s p g.g_nedges st with
        | Some p0 -> let (st', _) = p0 in Some (st', None)
        | None -> None)

(** val buildK_full_f :
    (edge -> n -> snapshot -> node -> content) -> graph -> hstate -> node
    list -> crash_point -> kacc option **)

let buildK_full_f cmd g st targets cp =
  match scan (graph_of g st) (world_of st) targets with
  | ScanOk (s, p) -> buildK_at_f cmd g s p st cp
  | _ -> None

(** val buildI_at_f :
    (edge -> n -> snapshot -> node -> content) -> graph -> sstate -> plan ->
    hstate -> intr_point -> iacc option **)

let buildI_at_f cmd g s p st ip =
  let e = ip.ip_pos in
  let whole =
    match build_upto_f cmd g s p g.g_nedges st with
    | Some p0 -> let (st', _) = p0 in Some (st', None)
    | None -> None
  in
  if Nat.ltb e g.g_nedges
  then (match build_upto_f cmd g s p e st with
        | Some p0 ->
          let (stk, x) = p0 in
          if starts_f g x e
          then Some ((intr_edge g st stk e ip.ip_k ip.ip_f), (Some (e, stk)))
          else whole
        | None -> None)
  else whole

(** val buildI_full_f :
    (edge -> n -> snapshot -> node -> content) -> graph -> hstate -> node
    list -> intr_point -> iacc option **)

let buildI_full_f cmd g st targets ip =
  match scan (graph_of g st) (world_of st) targets with
  | ScanOk (s, p) -> buildI_at_f cmd g s p st ip
  | _ -> None

(** val fbuild_step_f :
    (edge -> n -> snapshot -> node -> content) -> graph -> (edge -> node
    list) -> (fstate * cst) option -> edge -> (fstate * cst) option **)

let fbuild_step_f cmd g hid a e =
  match a with
  | Some p ->
    let (fs, x) = p in
    if (&&) (dirty_now_f x e) (negb (g.g_edge e).ei_phony)
    then let fs' = frun_edge cmd g hid fs e in
         (match restat_clean (graph_of g (f_h fs')) (world_of_f g fs') e
                  { c_s = x.c_s; c_want = (unwant x.c_want e) } with
          | Some x' -> Some (fs', x')
          | None -> None)
    else Some (fs, x)
  | None -> None

(** val fbuild_upto_f :
    (edge -> n -> snapshot -> node -> content) -> graph -> (edge -> node
    list) -> sstate -> plan -> nat -> fstate -> (fstate * cst) option **)

let fbuild_upto_f cmd g hid s p k fs =
  fold_left (fbuild_step_f cmd g hid) (seq O k) (Some (fs, (init_cst s p)))

(** val fbuild_f :
    (edge -> n -> snapshot -> node -> content) -> graph -> (edge -> node
    list) -> fstate -> node list -> fstate option **)

let fbuild_f cmd g hid fs targets =
  match fscan g fs targets with
  | ScanOk (s, p) ->
    (match fbuild_upto_f cmd g hid s p g.g_nedges fs with
     | Some p0 -> let (fs', _) = p0 in Some fs'
     | None -> None)
  | _ -> None

(** val budget_out : nat option -> bool **)

let budget_out = function
| Some n0 -> (match n0 with
              | O -> true
              | S _ -> false)
| None -> false

(** val budget_dec : nat option -> nat option **)

let budget_dec b = match b with
| Some n0 -> (match n0 with
              | O -> b
              | S n1 -> Some n1)
| None -> b

type kacc0 = { k_st : hstate; k_failed : ((edge * fail_kind) * hstate) list;
               k_blocked : edge list; k_budget : nat option }

(** val failed_edges : kacc0 -> edge list **)

let failed_edges a =
  map (fun x -> fst (fst x)) a.k_failed

(** val blocked_input : graph -> edge list -> edge -> bool **)

let blocked_input g blocked0 e =
  existsb (fun i ->
    match g.g_producer i with
    | Some e' -> mem_node e' blocked0
    | None -> false) (g.g_edge e).ei_ins

(** val build_stepK :
    (edge -> n -> snapshot -> node -> content) -> graph -> faults -> plan ->
    kacc0 -> edge -> kacc0 **)

let build_stepK cmd g fs p a e =
  if blocked_input g a.k_blocked e
  then { k_st = a.k_st; k_failed = a.k_failed; k_blocked =
         (e :: a.k_blocked); k_budget = a.k_budget }
  else if budget_out a.k_budget
       then a
       else if (&&) ((&&) (want_start p e) (negb (g.g_edge e).ei_phony))
                 (dirty_now g a.k_st e)
            then (match fault_of fs e with
                  | Some kd ->
                    { k_st = (fail_edge g a.k_st e kd); k_failed = (((e, kd),
                      a.k_st) :: a.k_failed); k_blocked = (e :: a.k_blocked);
                      k_budget = (budget_dec a.k_budget) }
                  | None ->
                    { k_st = (run_edge cmd g a.k_st e); k_failed =
                      a.k_failed; k_blocked = a.k_blocked; k_budget =
                      a.k_budget })
            else a

(** val build_uptoK :
    (edge -> n -> snapshot -> node -> content) -> graph -> faults -> plan ->
    nat option -> nat -> hstate -> kacc0 **)

let build_uptoK cmd g fs p b k st =
  fold_left (build_stepK cmd g fs p) (seq O k) { k_st = st; k_failed = [];
    k_blocked = []; k_budget = b }

(** val buildFK :
    (edge -> n -> snapshot -> node -> content) -> graph -> hstate -> node
    list -> faults -> nat option -> kacc0 option **)

let buildFK cmd g st targets fs b =
  match scan (graph_of g st) (world_of st) targets with
  | ScanOk (_, p) -> Some (build_uptoK cmd g fs p b g.g_nedges st)
  | _ -> None

type dyninfo = { y_dds : node list; y_bind : (edge -> node option);
                 y_ins : (edge -> node list); y_outs : (edge -> node list);
                 y_restat : (edge -> bool); y_prod : (node -> edge option) }

(** val loaded : dyninfo -> node list -> edge -> bool **)

let loaded y l e =
  match y.y_bind e with
  | Some dd -> mem_node dd l
  | None -> false

(** val load_edge :
    edge_info -> node list -> node list -> bool -> edge_info **)

let load_edge ei xi xo r =
  { ei_ins = (splice ei.ei_ins ei.ei_noo xi); ei_nimp =
    (add ei.ei_nimp (length xi)); ei_noo = ei.ei_noo; ei_outs =
    (app ei.ei_outs xo); ei_vals = ei.ei_vals; ei_phony = ei.ei_phony;
    ei_restat = ((||) ei.ei_restat r); ei_generator = ei.ei_generator;
    ei_deps = ei.ei_deps; ei_hash = ei.ei_hash }

(** val load_for : graph -> dyninfo -> node list -> graph **)

let load_for g y l =
  { g_nedges = g.g_nedges; g_edge = (fun e ->
    if loaded y l e
    then load_edge (g.g_edge e) (y.y_ins e) (y.y_outs e) (y.y_restat e)
    else g.g_edge e); g_producer = (fun n0 ->
    match g.g_producer n0 with
    | Some e -> Some e
    | None ->
      (match y.y_prod n0 with
       | Some e -> if loaded y l e then Some e else None
       | None -> None)); g_byloader = g.g_byloader }

(** val inline_y : graph -> dyninfo -> graph **)

let inline_y g y =
  load_for g y y.y_dds

(** val is_some0 : 'a1 option -> bool **)

let is_some0 = function
| Some _ -> true
| None -> false

(** val opt_eqb : node option -> node option -> bool **)

let opt_eqb =
  opt_node_eqb

(** val frag_ABY : graph -> dyninfo -> bool **)

let frag_ABY g y =
  (&&) (frag_AB g)
    (edges_all g (fun e ->
      let ei = g.g_edge e in
      (&&)
        ((&&)
          ((&&) (Nat.leb ei.ei_noo (length ei.ei_ins))
            (match y.y_bind e with
             | Some dd ->
               (&&)
                 ((&&) ((&&) (mem_node dd y.y_dds) (mem_node dd ei.ei_ins))
                   (negb ei.ei_phony))
                 (match g.g_producer dd with
                  | Some p -> negb (g.g_edge p).ei_phony
                  | None -> true)
             | None ->
               (&&) ((&&) (is_nil (y.y_ins e)) (is_nil (y.y_outs e)))
                 (negb (y.y_restat e))))
          (forallb (fun n0 ->
            (&&)
              ((&&) (negb (is_some0 (g.g_producer n0)))
                (negb (mem_node n0 y.y_dds)))
              (edges_all g (fun e' ->
                negb (mem_node n0 (g.g_edge e').ei_ins)))) (y.y_outs e)))
        (forallb (fun i ->
          match y.y_prod i with
          | Some e' -> opt_eqb (y.y_bind e') (y.y_bind e)
          | None -> true) (y.y_ins e))))

(** val dd_ins_ordered : graph -> dyninfo -> bool **)

let dd_ins_ordered g y =
  edges_all g (fun e ->
    forallb (fun i ->
      match (inline_y g y).g_producer i with
      | Some x ->
        existsb (fun i' -> opt_eqb (g.g_producer i') (Some x))
          (g.g_edge e).ei_ins
      | None -> true) (y.y_ins e))

(** val no_late_restat : graph -> dyninfo -> bool **)

let no_late_restat g y =
  edges_all g (fun e ->
    (||) ((||) (negb (y.y_restat e)) (g.g_edge e).ei_restat)
      (match y.y_bind e with
       | Some dd -> negb (is_some0 (g.g_producer dd))
       | None -> true))

(** val all_dd_sources : graph -> dyninfo -> bool **)

let all_dd_sources g y =
  forallb (fun dd -> negb (is_some0 (g.g_producer dd))) y.y_dds

type yres =
| YRefused
| YFailed of hstate
| YDone of hstate

type ycst = { yc_st : hstate; yc_L : node list; yc_want : (edge -> bool);
              yc_sticky : (edge -> bool); yc_ran : (edge -> bool);
              yc_stop : bool }

type yrun =
| YRun of ycst
| YFail of hstate

(** val gl : graph -> dyninfo -> node list -> graph **)

let gl =
  load_for

(** val dd_ready : graph -> dyninfo -> hstate -> node list -> node -> bool **)

let dd_ready g y st l dd =
  match g.g_producer dd with
  | Some p ->
    (match scan (graph_of (gl g y l) st) (world_of st) (dd :: []) with
     | ScanOk (s, _) -> (s.st_edge p).es_ready
     | _ -> false)
  | None -> true

(** val scan_loads : graph -> dyninfo -> hstate -> node list **)

let scan_loads g y st =
  fold_left (fun l dd ->
    if dd_ready g y st l dd then app l (dd :: []) else l) y.y_dds []

(** val dd_src_missing : graph -> dyninfo -> hstate -> sstate -> bool **)

let dd_src_missing g y st s =
  existsb (fun e ->
    match y.y_bind e with
    | Some dd ->
      (&&)
        ((&&) (negb (is_some0 (g.g_producer dd)))
          (negb (is_some0 (st.h_disk dd))))
        (match (s.st_edge e).es_mark with
         | VisitDone -> true
         | _ -> false)
    | None -> false) (seq O g.g_nedges)

(** val late_restat : graph -> dyninfo -> edge -> bool **)

let late_restat g y e =
  (&&) (y.y_restat e) (negb (g.g_edge e).ei_restat)

(** val pending_of : graph -> dyninfo -> node list -> edge -> node list **)

let pending_of g y l k =
  filter (fun dd ->
    (&&) (negb (mem_node dd l)) (opt_eqb (g.g_producer dd) (Some k))) y.y_dds

(** val cleaned_outs :
    graph -> hstate -> hstate -> bool -> bool -> edge -> node list **)

let cleaned_outs g before after wanted ran k =
  if negb wanted
  then []
  else if ran
       then if (g.g_edge k).ei_restat
            then filter (fun o ->
                   Z.eqb (mtime_of after o) (mtime_of before o))
                   (g.g_edge k).ei_outs
            else []
       else (g.g_edge k).ei_outs

(** val ystep :
    (edge -> n -> snapshot -> node -> content) -> graph -> dyninfo -> node
    list -> yrun -> edge -> yrun **)

let ystep cmd g y t r k =
  match r with
  | YRun c ->
    if (||) c.yc_stop (c.yc_ran k)
    then r
    else let st = c.yc_st in
         let l = c.yc_L in
         let g0 = gl g y l in
         let dn = dirty_now g0 st k in
         let run =
           (&&) (negb (g0.g_edge k).ei_phony)
             ((||) ((&&) (c.yc_want k) dn) (c.yc_sticky k))
         in
         let st1 = if run then run_edge cmd g0 st k else st in
         let cl =
           cleaned_outs g0 st st1 ((||) (c.yc_want k) (c.yc_sticky k)) run k
         in
         let sticky1 = fun e ->
           (&&) ((&&) (c.yc_sticky e) (negb (Nat.eqb e k)))
             (negb (existsb (fun o -> mem_node o (g0.g_edge e).ei_ins) cl))
         in
         let ran1 = fun e ->
           if Nat.eqb e k then (||) run (c.yc_ran e) else c.yc_ran e
         in
         (match pending_of g y l k with
          | [] ->
            YRun { yc_st = st1; yc_L = l; yc_want = c.yc_want; yc_sticky =
              sticky1; yc_ran = ran1; yc_stop = false }
          | n0 :: l0 ->
            let new0 = n0 :: l0 in
            let l' = app l new0 in
            (match scan (graph_of (gl g y l') st1) (world_of st1) t with
             | ScanOk (_, p') ->
               YRun { yc_st = st1; yc_L = l'; yc_want = (fun e ->
                 (||) (c.yc_want e) (want_start p' e)); yc_sticky = (fun e ->
                 (||) (sticky1 e)
                   ((&&)
                     ((&&)
                       ((&&)
                         ((&&)
                           ((&&)
                             (match y.y_bind e with
                              | Some dd -> mem_node dd new0
                              | None -> false) (late_restat g y e))
                           (negb (c.yc_ran e))) (negb (Nat.eqb e k)))
                       (c.yc_want e)) (dirty_now g0 st1 e))); yc_ran = ran1;
                 yc_stop = true }
             | _ -> YFail st1))
  | YFail _ -> r

(** val ypass :
    (edge -> n -> snapshot -> node -> content) -> graph -> dyninfo -> node
    list -> ycst -> yrun **)

let ypass cmd g y t c =
  fold_left (ystep cmd g y t) (seq O g.g_nedges) (YRun { yc_st = c.yc_st;
    yc_L = c.yc_L; yc_want = c.yc_want; yc_sticky = c.yc_sticky; yc_ran =
    c.yc_ran; yc_stop = false })

(** val ypasses :
    (edge -> n -> snapshot -> node -> content) -> graph -> dyninfo -> node
    list -> nat -> ycst -> yrun **)

let rec ypasses cmd g y t fuel c =
  match fuel with
  | O -> YRun c
  | S f ->
    (match ypass cmd g y t c with
     | YRun c' -> if c'.yc_stop then ypasses cmd g y t f c' else YRun c'
     | YFail st -> YFail st)

(** val pass_fuel : dyninfo -> nat **)

let pass_fuel y =
  S (length y.y_dds)

(** val ybuild :
    (edge -> n -> snapshot -> node -> content) -> graph -> dyninfo -> hstate
    -> node list -> yres **)

let ybuild cmd g y st t =
  let l0 = scan_loads g y st in
  (match scan (graph_of (gl g y l0) st) (world_of st) t with
   | ScanOk (s, p) ->
     if dd_src_missing g y st s
     then YRefused
     else (match ypasses cmd g y t (pass_fuel y) { yc_st = st; yc_L = l0;
                   yc_want = (want_start p); yc_sticky = (fun _ -> false);
                   yc_ran = (fun _ -> false); yc_stop = false } with
           | YRun c -> if c.yc_stop then YFailed c.yc_st else YDone c.yc_st
           | YFail st' -> YFailed st')
   | _ -> YRefused)

(** val yapply_step :
    (edge -> n -> snapshot -> node -> content) -> graph -> dyninfo -> hstate
    -> hstep -> hstate **)

let yapply_step cmd g y st x = match x with
| Build t ->
  (match ybuild cmd g y st t with
   | YRefused -> st
   | YFailed st' -> st'
   | YDone st' -> st')
| _ -> apply_step cmd g st x

(** val gi : graph -> dyninfo -> graph **)

let gi =
  inline_y

(** val srcs_present : graph -> dyninfo -> hstate -> bool **)

let srcs_present g y st =
  edges_all g (fun e ->
    forallb (fun i ->
      (||) (is_some0 ((gi g y).g_producer i)) (is_some0 (st.h_disk i)))
      ((gi g y).g_edge e).ei_ins)

(** val targets_produced : graph -> node list -> bool **)

let targets_produced g t =
  forallb (fun t0 -> is_some0 (g.g_producer t0)) t

(** val hist_present_y :
    (edge -> n -> snapshot -> node -> content) -> graph -> dyninfo -> hstate
    -> hstep list -> bool **)

let rec hist_present_y cmd g y st = function
| [] -> true
| x :: h' ->
  (&&)
    (match x with
     | Build t -> (&&) (srcs_present g y st) (targets_produced g t)
     | _ -> true) (hist_present_y cmd g y (yapply_step cmd g y st x) h')

type fcst = { fc_st : hstate; fc_L : node list; fc_x : cst;
              fc_ran : (edge -> bool); fc_stop : bool }

type frun =
| FRun of fcst
| FFail of hstate

(** val merge_cst : graph -> cst -> sstate -> plan -> cst **)

let merge_cst g old s' p' =
  let keep = filter old.c_want (seq O g.g_nedges) in
  { c_s =
  (fold_left (fun s e -> mark_outputs_dirty s (g.g_edge e).ei_outs) keep s');
  c_want = (fun e -> (||) (old.c_want e) (want_start p' e)) }

(** val ystep_f :
    (edge -> n -> snapshot -> node -> content) -> graph -> dyninfo -> node
    list -> frun -> edge -> frun **)

let ystep_f cmd g y t r k =
  match r with
  | FRun c ->
    if (||) c.fc_stop (c.fc_ran k)
    then r
    else let st = c.fc_st in
         let l = c.fc_L in
         let g0 = gl g y l in
         let x = c.fc_x in
         let run = (&&) (x.c_want k) (negb (g0.g_edge k).ei_phony) in
         let st1 = if run then run_edge cmd g0 st k else st in
         (match if run
                then restat_clean (graph_of g0 st1) (world_of st1) k { c_s =
                       x.c_s; c_want = (unwant x.c_want k) }
                else Some x with
          | Some x1 ->
            let ran1 = fun e ->
              if Nat.eqb e k then (||) run (c.fc_ran e) else c.fc_ran e
            in
            (match pending_of g y l k with
             | [] ->
               FRun { fc_st = st1; fc_L = l; fc_x = x1; fc_ran = ran1;
                 fc_stop = false }
             | n0 :: l0 ->
               let l' = app l (n0 :: l0) in
               (match scan (graph_of (gl g y l') st1) (world_of st1) t with
                | ScanOk (s', p') ->
                  FRun { fc_st = st1; fc_L = l'; fc_x =
                    (merge_cst (gl g y l') x1 s' p'); fc_ran = ran1;
                    fc_stop = true }
                | _ -> FFail st1))
          | None -> FFail st1)
  | FFail _ -> r

(** val ypass_f :
    (edge -> n -> snapshot -> node -> content) -> graph -> dyninfo -> node
    list -> fcst -> frun **)

let ypass_f cmd g y t c =
  fold_left (ystep_f cmd g y t) (seq O g.g_nedges) (FRun { fc_st = c.fc_st;
    fc_L = c.fc_L; fc_x = c.fc_x; fc_ran = c.fc_ran; fc_stop = false })

(** val ypasses_f :
    (edge -> n -> snapshot -> node -> content) -> graph -> dyninfo -> node
    list -> nat -> fcst -> frun **)

let rec ypasses_f cmd g y t fuel c =
  match fuel with
  | O -> FRun c
  | S f ->
    (match ypass_f cmd g y t c with
     | FRun c' -> if c'.fc_stop then ypasses_f cmd g y t f c' else FRun c'
     | FFail st -> FFail st)

(** val ybuild_f :
    (edge -> n -> snapshot -> node -> content) -> graph -> dyninfo -> hstate
    -> node list -> yres **)

let ybuild_f cmd g y st t =
  let l0 = scan_loads g y st in
  (match scan (graph_of (gl g y l0) st) (world_of st) t with
   | ScanOk (s, p) ->
     if dd_src_missing g y st s
     then YRefused
     else (match ypasses_f cmd g y t (pass_fuel y) { fc_st = st; fc_L = l0;
                   fc_x = (init_cst s p); fc_ran = (fun _ -> false);
                   fc_stop = false } with
           | FRun c -> if c.fc_stop then YFailed c.fc_st else YDone c.fc_st
           | FFail st' -> YFailed st')
   | _ -> YRefused)

type kaccf = kacc0 * cst

(** val build_stepK_f :
    (edge -> n -> snapshot -> node -> content) -> graph -> faults -> kaccf
    option -> edge -> kaccf option **)

let build_stepK_f cmd g fs af e =
  match af with
  | Some k ->
    let (a, x) = k in
    if blocked_input g a.k_blocked e
    then Some ({ k_st = a.k_st; k_failed = a.k_failed; k_blocked =
           (e :: a.k_blocked); k_budget = a.k_budget }, x)
    else if budget_out a.k_budget
         then Some (a, x)
         else if (&&) (dirty_now_f x e) (negb (g.g_edge e).ei_phony)
              then (match fault_of fs e with
                    | Some kd ->
                      Some ({ k_st = (fail_edge g a.k_st e kd); k_failed =
                        (((e, kd), a.k_st) :: a.k_failed); k_blocked =
                        (e :: a.k_blocked); k_budget =
                        (budget_dec a.k_budget) }, x)
                    | None ->
                      (match build_step_f cmd g (Some (a.k_st, x)) e with
                       | Some p ->
                         let (st', x') = p in
                         Some ({ k_st = st'; k_failed = a.k_failed;
                         k_blocked = a.k_blocked; k_budget = a.k_budget }, x')
                       | None -> None))
              else Some (a, x)
  | None -> None

(** val build_uptoK_f :
    (edge -> n -> snapshot -> node -> content) -> graph -> faults -> sstate
    -> plan -> nat option -> nat -> hstate -> kaccf option **)

let build_uptoK_f cmd g fs s p b k st =
  fold_left (build_stepK_f cmd g fs) (seq O k) (Some ({ k_st = st; k_failed =
    []; k_blocked = []; k_budget = b }, (init_cst s p)))

(** val buildFK_f :
    (edge -> n -> snapshot -> node -> content) -> graph -> hstate -> node
    list -> faults -> nat option -> kacc0 option **)

let buildFK_f cmd g st targets fs b =
  match scan (graph_of g st) (world_of st) targets with
  | ScanOk (s, p) ->
    (match build_uptoK_f cmd g fs s p b g.g_nedges st with
     | Some k -> let (a, _) = k in Some a
     | None -> None)
  | _ -> None

type fres =
| FRefused
| FFailed of hstate
| FDone of hstate
| FOutOfFuel of hstate

type ffst = { ff_st : hstate; ff_L : node list; ff_x : cst;
              ff_plan : (edge -> bool); ff_fin : (edge -> bool);
              ff_stop : bool }

type ffrun =
| FFRun of ffst
| FFFail of hstate
| FFFuel of hstate

type ldres =
| LdDone of cst * (edge -> bool)
| LdFailed
| LdFuel

(** val mark_none : mark -> bool **)

let mark_none = function
| VisitNone -> true
| _ -> false

(** val bound_new : dyninfo -> node list -> edge -> bool **)

let bound_new y new0 e =
  match y.y_bind e with
  | Some dd -> mem_node dd new0
  | None -> false

(** val apply_fin : graph -> sstate -> (edge -> bool) -> sstate **)

let apply_fin g s fin =
  fold_left (fun s0 e -> if fin e then set_ready s0 e true else s0)
    (seq O g.g_nedges) s

(** val update_edges : graph -> dyninfo -> sstate -> node list -> sstate **)

let update_edges g y s new0 =
  fold_left (fun s0 e ->
    if bound_new y new0 e
    then set_ins s0 e
           (splice (s0.st_edge e).es_ins (g.g_edge e).ei_noo (y.y_ins e))
           (add (s0.st_edge e).es_nimp (length (y.y_ins e)))
    else s0) (seq O g.g_nedges) s

(** val unmark :
    nat -> graph -> (edge -> bool) -> node -> (sstate * node list) ->
    (sstate * node list) option **)

let rec unmark fuel g inplan n0 a =
  match fuel with
  | O -> None
  | S f ->
    ofold (fun e a1 ->
      if (&&) (inplan e) (negb (mark_none ((fst a1).st_edge e).es_mark))
      then ofold (fun o a2 ->
             if mem_node o (snd a2)
             then Some a2
             else unmark f g inplan o ((fst a2), (app (snd a2) (o :: []))))
             (g.g_edge e).ei_outs ((set_mark (fst a1) e VisitNone), (snd a1))
      else Some a1) (out_edges g (fst a) n0) a

type rfres =
| RfOk of sstate * (edge -> bool)
| RfErr
| RfFuel

(** val refresh :
    graph -> world -> (edge -> bool) -> node list -> sstate -> (edge -> bool)
    -> rfres **)

let rec refresh g w inplan deps s wt =
  match deps with
  | [] -> RfOk (s, wt)
  | n0 :: deps' ->
    (match recompute_dirty g w s n0 with
     | SOk a ->
       let (s', _) = a in
       let wt' =
         if (s'.st_node n0).ns_dirty
         then (match g.g_producer n0 with
               | Some e ->
                 if inplan e
                 then (fun e' -> if Nat.eqb e' e then true else wt e')
                 else wt
               | None -> wt)
         else wt
       in
       refresh g w inplan deps' s' wt'
     | SOutOfFuel -> RfFuel
     | _ -> RfErr)

(** val plan_of : (edge -> bool) -> (edge -> bool) -> plan **)

let plan_of inplan wt =
  { p_want = (fun e ->
    if inplan e
    then Some (if wt e then WantToStart else WantNothing)
    else None); p_wanted = O; p_commands = O }

type arres =
| ArOk of plan
| ArErr
| ArFuel

(** val add_ins : graph -> sstate -> node -> node list -> plan -> arres **)

let rec add_ins g s dependent ins p =
  match ins with
  | [] -> ArOk p
  | i :: ins' ->
    (match add_sub_target g (plan_fuel g) s (Some dependent) i p with
     | Some p0 ->
       let (p1, p') = p0 in
       let (b, o) = p1 in
       if b
       then add_ins g s dependent ins' p'
       else (match o with
             | Some _ -> ArErr
             | None -> add_ins g s dependent ins' p')
     | None -> ArFuel)

(** val add_roots :
    dyninfo -> graph -> sstate -> edge list -> plan -> arres **)

let rec add_roots y g s roots p =
  match roots with
  | [] -> ArOk p
  | e :: es' ->
    (match add_ins g s (hd O (g.g_edge e).ei_outs) (y.y_ins e) p with
     | ArOk p' -> add_roots y g s es' p'
     | x -> x)

(** val dd_roots :
    graph -> dyninfo -> sstate -> (edge -> bool) -> node list -> edge list **)

let dd_roots g y s inplan new0 =
  filter (fun e ->
    (&&) ((&&) (bound_new y new0 e) (negb (s.st_edge e).es_ready)) (inplan e))
    (seq O g.g_nedges)

(** val unmark_fuel : graph -> nat **)

let unmark_fuel g =
  S (S g.g_nedges)

(** val load_ff :
    graph -> dyninfo -> graph -> world -> cst -> (edge -> bool) -> (edge ->
    bool) -> node list -> ldres **)

let load_ff g y g0 w x inplan fin new0 =
  let s1 = update_edges g y (apply_fin g x.c_s fin) new0 in
  (match ofold (fun dd a -> unmark (unmark_fuel g) g0 inplan dd a) new0 (s1,
           []) with
   | Some p ->
     let (s2, deps) = p in
     (match refresh g0 w inplan deps s2 (fun e ->
              (&&) (inplan e) (x.c_want e)) with
      | RfOk (s3, wt) ->
        (match add_roots y g0 s3 (dd_roots g y s3 inplan new0)
                 (plan_of inplan wt) with
         | ArOk p0 ->
           LdDone ({ c_s = s3; c_want = (want_start p0) }, (fun e ->
             match p0.p_want e with
             | Some _ -> true
             | None -> false))
         | ArErr -> LdFailed
         | ArFuel -> LdFuel)
      | RfErr -> LdFailed
      | RfFuel -> LdFuel)
   | None -> LdFuel)

(** val run_unlogged :
    (edge -> n -> snapshot -> node -> content) -> graph -> hstate -> edge ->
    hstate **)

let run_unlogged cmd g st e =
  let st2 =
    write_outs (g.g_edge e).ei_restat (cmd e (st.h_hash e) (reads g st e))
      (g.g_edge e).ei_outs (tick st)
  in
  { h_disk = st2.h_disk; h_clock = st2.h_clock; h_blog = st2.h_blog; h_hash =
  st2.h_hash; h_ghost = st2.h_ghost; h_trace = (e :: st2.h_trace) }

(** val ffstep :
    (edge -> n -> snapshot -> node -> content) -> graph -> dyninfo -> node
    list -> ffrun -> edge -> ffrun **)

let ffstep cmd g y _ r k =
  match r with
  | FFRun c ->
    if (||) c.ff_stop (negb (c.ff_plan k))
    then r
    else let st = c.ff_st in
         let l = c.ff_L in
         let g0 = gl g y l in
         let x = c.ff_x in
         let run = (&&) (x.c_want k) (negb (g0.g_edge k).ei_phony) in
         let st1 = if run then run_edge cmd g0 st k else st in
         (match if run
                then restat_clean (graph_of g0 st1) (world_of st1) k { c_s =
                       x.c_s; c_want = (unwant x.c_want k) }
                else Some x with
          | Some x1 ->
            let plan1 = unwant c.ff_plan k in
            let fin1 = fun e -> (||) (Nat.eqb e k) (c.ff_fin e) in
            (match pending_of g y l k with
             | [] ->
               FFRun { ff_st = st1; ff_L = l; ff_x = x1; ff_plan = plan1;
                 ff_fin = fin1; ff_stop = false }
             | n0 :: l0 ->
               let new0 = n0 :: l0 in
               let l' = app l new0 in
               (match load_ff g y (graph_of (gl g y l') st1) (world_of st1)
                        x1 plan1 fin1 new0 with
                | LdDone (x2, plan2) ->
                  FFRun { ff_st = st1; ff_L = l'; ff_x = x2; ff_plan = plan2;
                    ff_fin = fin1; ff_stop = true }
                | LdFailed ->
                  FFFail (if run then run_unlogged cmd g0 st k else st)
                | LdFuel -> FFFuel st1))
          | None -> FFFuel st1)
  | _ -> r

(** val ffpass :
    (edge -> n -> snapshot -> node -> content) -> graph -> dyninfo -> node
    list -> ffst -> ffrun **)

let ffpass cmd g y t c =
  fold_left (ffstep cmd g y t) (seq O g.g_nedges) (FFRun { ff_st = c.ff_st;
    ff_L = c.ff_L; ff_x = c.ff_x; ff_plan = c.ff_plan; ff_fin = c.ff_fin;
    ff_stop = false })

(** val ffpasses :
    (edge -> n -> snapshot -> node -> content) -> graph -> dyninfo -> node
    list -> nat -> ffst -> ffrun **)

let rec ffpasses cmd g y t fuel c =
  match fuel with
  | O -> FFRun c
  | S f ->
    (match ffpass cmd g y t c with
     | FFRun c' -> if c'.ff_stop then ffpasses cmd g y t f c' else FFRun c'
     | x -> x)

(** val ybuild_ff :
    (edge -> n -> snapshot -> node -> content) -> graph -> dyninfo -> hstate
    -> node list -> fres **)

let ybuild_ff cmd g y st t =
  let l0 = scan_loads g y st in
  (match scan (graph_of (gl g y l0) st) (world_of st) t with
   | ScanOk (s, p) ->
     if dd_src_missing g y st s
     then FRefused
     else (match ffpasses cmd g y t (pass_fuel y) { ff_st = st; ff_L = l0;
                   ff_x = (init_cst s p); ff_plan = (fun e ->
                   match p.p_want e with
                   | Some _ -> true
                   | None -> false); ff_fin = (fun _ -> false); ff_stop =
                   false } with
           | FFRun c ->
             if c.ff_stop then FOutOfFuel c.ff_st else FDone c.ff_st
           | FFFail st' -> FFailed st'
           | FFFuel st' -> FOutOfFuel st')
   | _ -> FRefused)
