
val negb : bool -> bool

type nat =
| O
| S of nat

type ('a, 'b) sum =
| Inl of 'a
| Inr of 'b

val fst : ('a1 * 'a2) -> 'a1

val snd : ('a1 * 'a2) -> 'a2

val length : 'a1 list -> nat

val app : 'a1 list -> 'a1 list -> 'a1 list

type comparison =
| Eq
| Lt
| Gt

val add : nat -> nat -> nat

val sub : nat -> nat -> nat

val eqb : bool -> bool -> bool

module Nat :
 sig
  val eqb : nat -> nat -> bool

  val leb : nat -> nat -> bool

  val ltb : nat -> nat -> bool

  val min : nat -> nat -> nat

  val divmod : nat -> nat -> nat -> nat -> nat * nat

  val div : nat -> nat -> nat
 end

val concat : 'a1 list list -> 'a1 list

val map : ('a1 -> 'a2) -> 'a1 list -> 'a2 list

val existsb : ('a1 -> bool) -> 'a1 list -> bool

val filter : ('a1 -> bool) -> 'a1 list -> 'a1 list

val combine : 'a1 list -> 'a2 list -> ('a1 * 'a2) list

val firstn : nat -> 'a1 list -> 'a1 list

val skipn : nat -> 'a1 list -> 'a1 list

val repeat : 'a1 -> nat -> 'a1 list

type positive =
| XI of positive
| XO of positive
| XH

type n =
| N0
| Npos of positive

type z =
| Z0
| Zpos of positive
| Zneg of positive

module Pos :
 sig
  type mask =
  | IsNul
  | IsPos of positive
  | IsNeg
 end

module Coq_Pos :
 sig
  val succ : positive -> positive

  val add : positive -> positive -> positive

  val add_carry : positive -> positive -> positive

  val pred_double : positive -> positive

  type mask = Pos.mask =
  | IsNul
  | IsPos of positive
  | IsNeg

  val succ_double_mask : mask -> mask

  val double_mask : mask -> mask

  val double_pred_mask : positive -> mask

  val sub_mask : positive -> positive -> mask

  val sub_mask_carry : positive -> positive -> mask

  val mul : positive -> positive -> positive

  val size_nat : positive -> nat

  val compare_cont : comparison -> positive -> positive -> comparison

  val compare : positive -> positive -> comparison

  val eqb : positive -> positive -> bool
 end

module N :
 sig
  val succ_double : n -> n

  val double : n -> n

  val add : n -> n -> n

  val sub : n -> n -> n

  val compare : n -> n -> comparison

  val eqb : n -> n -> bool

  val leb : n -> n -> bool

  val size_nat : n -> nat

  val pos_div_eucl : positive -> n -> n * n

  val div_eucl : n -> n -> n * n

  val div : n -> n -> n

  val modulo : n -> n -> n
 end

module Z :
 sig
  val double : z -> z

  val succ_double : z -> z

  val pred_double : z -> z

  val pos_sub : positive -> positive -> z

  val add : z -> z -> z

  val opp : z -> z

  val sub : z -> z -> z

  val mul : z -> z -> z

  val eqb : z -> z -> bool

  val to_N : z -> n

  val of_N : n -> z

  val quotrem : z -> z -> z * z

  val quot : z -> z -> z
 end

type byte = n

type bytes = byte list

val bytes_eqb : bytes -> bytes -> bool

val b_lf : byte

val b_cr : byte

val b_sp : byte

val b_esc : byte

val b_pct : byte

val b_lbr : byte

val l_failed : bytes

val l_close : bytes

val l_red : bytes

val l_reset : bytes

val l_clreol : bytes

val l_ninja : bytes

val l_warning : bytes

val l_error : bytes

val l_fatal : bytes

val l_unkph1 : bytes

val l_unkph2 : bytes

val l_unkvar1 : bytes

val l_unkvar2 : bytes

val l_dots : bytes

val default_format : bytes

val v_description : bytes

val v_started : bytes

val v_total : bytes

val v_running : bytes

val v_remaining : bytes

val v_finished : bytes

val v_rate : bytes

val v_current_rate : bytes

val v_progress : bytes

val v_predicted_progress : bytes

val v_elapsed : bytes

val v_elapsed_seconds : bytes

val v_eta : bytes

val v_eta_seconds : bytes

val cstr : bytes -> bytes

val dec_fuel : nat -> n -> bytes -> bytes

val dec_N : n -> bytes

val dec_Z : z -> bytes

val pad3 : bytes -> bytes

val last_byte : bytes -> byte -> byte

val ends_blank : bytes -> bool

val is_empty : bytes -> bool

val has_esc : bytes -> bool

val islatinalpha : byte -> bool

val strip_go : bool -> bytes -> bytes

val strip_ansi : bytes -> bytes

val is_param : byte -> bool

val skip_params : bytes -> nat -> (nat * byte) option

type seq_res =
| SeqFound of nat
| SeqNotM
| SeqNo

val seq_at : bytes -> seq_res

val vis_go : nat -> nat -> bytes -> bool list

val vis_flags : bytes -> bool list

val b2n : bool -> nat

val elide_tail : nat -> nat -> (byte * bool) list -> bytes

val elide_head : nat -> nat -> nat -> bytes -> (byte * bool) list -> bytes

val elide_middle : bytes -> nat -> bytes

type verbosity =
| VQuiet
| VNoStatus
| VNormal
| VVerbose

type tok = bool * bytes

type config = { c_tty : bool; c_verb : verbosity; c_color : bool;
                c_width : nat; c_format : bytes; c_eval : tok list option;
                c_time : (nat -> bytes -> bytes) }

val smart : config -> bool

type edge = { e_desc : bytes; e_cmd : bytes; e_console : bool;
              e_outs : bytes list }

type call =
| Added of edge
| Removed of edge
| Started of edge
| Finished of edge * z * bytes
| BuildStarted
| BuildFinished
| ConsoleLock of bool
| NewLine
| Info of bytes
| Warning of bytes
| Error of bytes

type counters = { n_total : z; n_started : z; n_finished : z; n_running : z }

val percent : counters -> bytes

val placeholder : (bytes -> bytes) -> counters -> byte -> bytes option

val format_go : (bytes -> bytes) -> counters -> bytes -> (bytes, byte) sum

val format_progress :
  (bytes -> bytes) -> counters -> bytes -> (bytes, byte) sum

val status_variable : (bytes -> bytes) -> counters -> bytes -> bytes option

val eval_go :
  (bytes -> bytes) -> counters -> bytes -> tok list -> (bytes, bytes) sum

val description_of : config -> edge -> bytes

val status_text : config -> nat -> counters -> edge -> (bytes, bytes) sum

type lp = { lp_blank : bool; lp_locked : bool; lp_line : bytes;
            lp_elide : bool; lp_out : bytes }

val lp_init : lp

val lp_print : config -> lp -> bytes -> bool -> lp * bytes

val lp_put : lp -> bytes -> lp * bytes

val lp_newline : lp -> bytes -> lp * bytes

val lp_lock : config -> lp -> bool -> lp * bytes

type state = { s_cn : counters; s_lp : lp; s_dead : bool; s_idx : nat }

val init_state : state

type res = (state * bytes) * bytes

val print_status :
  config -> nat -> counters -> lp -> edge -> (lp * bytes, bytes) sum

val outputs_text : edge -> bytes

val failed_line : config -> edge -> z -> bytes

val shown_output : config -> bytes -> bytes

val finish_body : config -> lp -> edge -> z -> bytes -> lp * bytes

val dead_of : state -> counters -> lp -> bytes -> bytes -> res

val ok_of : state -> counters -> lp -> bytes -> res

val step : config -> state -> call -> res

val run_from : config -> state -> call list -> res

val run : config -> call list -> res

val render : config -> call list -> bytes

val render_err : config -> call list -> bytes
