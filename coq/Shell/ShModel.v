(* C16 — model of POSIX sh word splitting (token recognition, XCU 2.3 / quoting 2.2),
   restricted to the sub-language that ninja's escaper emits.

   Meaning of the result:
     Some ws : the text is inside the modelled sub-language and /bin/sh, reading it in
               argument position, produces exactly the words ws (each literal, no expansion).
     None    : the text is OUTSIDE the sub-language: an unquoted byte with (possible) shell
               meaning, an unterminated quote, a trailing backslash, a backslash-newline
               (line continuation in a real shell) or a NUL byte (cannot occur in an argv
               string at all).  [None] is how "no globbing / expansion / injection" is
               stated: the theorems show the escaper's output never yields [None].

   The model is compared with the real /bin/sh (dash) in the direction
   "model says Some ws  ==>  sh produces ws" (see README.md).

   Definitions only. *)
From NinjaV Require Import Base.Bytes Shell.EscDefs.
Local Open Scope N_scope.

Inductive sh_mode : Type :=
| ShUnq    (* outside quotes *)
| ShInQ    (* inside '...' *)
| ShBsl.   (* just after an unquoted backslash *)

(* unquoted word separators: space, tab, newline *)
Definition sh_blank (b : byte) : bool := (b =? 32) || (b =? 9) || (b =? 10).

(* The word in progress is [cur : option bytes], REVERSED; [None] = no word in progress.
   [Some []] is an empty word in progress (after '' for instance). *)
Definition sh_cur_bytes (cur : option bytes) : bytes :=
  match cur with None => [] | Some w => w end.
Definition sh_push (cur : option bytes) (b : byte) : option bytes :=
  Some (b :: sh_cur_bytes cur).
Definition sh_start (cur : option bytes) : option bytes :=
  Some (sh_cur_bytes cur).

Fixpoint sh_go (m : sh_mode) (cur : option bytes) (s : bytes) : option (list bytes) :=
  match s with
  | [] =>
      match m with
      | ShUnq => Some (match cur with None => [] | Some w => [rev w] end)
      | ShInQ => None              (* unterminated quote *)
      | ShBsl => None              (* trailing backslash *)
      end
  | b :: r =>
      if b =? 0 then None          (* NUL cannot be part of an argv string *)
      else
      match m with
      | ShInQ =>
          if b =? 39 then sh_go ShUnq cur r
          else sh_go ShInQ (sh_push cur b) r
      | ShBsl =>
          if b =? 10 then None     (* line continuation: outside the sub-language *)
          else sh_go ShUnq (sh_push cur b) r
      | ShUnq =>
          if b =? 39 then sh_go ShInQ (sh_start cur) r
          else if b =? 92 then sh_go ShBsl (sh_start cur) r
          else if sh_blank b then
            match cur with
            | None => sh_go ShUnq None r
            | Some w =>
                match sh_go ShUnq None r with
                | Some ws => Some (rev w :: ws)
                | None => None
                end
            end
          else if shell_safe b then sh_go ShUnq (sh_push cur b) r
          else None                (* unquoted byte with a possible shell meaning *)
      end
  end.

Definition sh_words (s : bytes) : option (list bytes) := sh_go ShUnq None s.

(* An independent, words-free statement of "no unquoted metacharacter": a scanner (a plain DFA
   over the same three modes) that keeps no words and accepts, outside quotes, nothing but
     - shell_safe bytes,
     - the quote delimiters themselves,
     - a backslash IMMEDIATELY followed by a single quote,
     - blanks (space/tab/newline), only if [allow_blank].
   The text must end outside quotes (mode ShUnq).  Compared with [sh_go] it is stricter about
   what may follow a backslash and does not care about NUL inside quotes. *)
Fixpoint no_meta_go (allow_blank : bool) (m : sh_mode) (s : bytes) : bool :=
  match s with
  | [] => match m with ShUnq => true | _ => false end
  | b :: r =>
      match m with
      | ShInQ =>
          if b =? 39 then no_meta_go allow_blank ShUnq r
          else no_meta_go allow_blank ShInQ r
      | ShBsl =>
          if b =? 39 then no_meta_go allow_blank ShUnq r else false
      | ShUnq =>
          if b =? 39 then no_meta_go allow_blank ShInQ r
          else if b =? 92 then no_meta_go allow_blank ShBsl r
          else if sh_blank b then
            (if allow_blank then no_meta_go allow_blank ShUnq r else false)
          else if shell_safe b then no_meta_go allow_blank ShUnq r
          else false
      end
  end.

Definition no_meta (allow_blank : bool) (s : bytes) : bool := no_meta_go allow_blank ShUnq s.

Example sh_words_ex1 : sh_words [97;32;32;39;98;32;99;39;100;9] = Some [[97];[98;32;99;100]].
Proof. vm_compute. reflexivity. Qed.
Example sh_words_ex2 : sh_words [39;39] = Some [[]].
Proof. vm_compute. reflexivity. Qed.
Example sh_words_ex3 : sh_words [39;97;39;92;39;39;98;39] = Some [[97;39;98]].
Proof. vm_compute. reflexivity. Qed.
Example sh_words_ex4 : sh_words [97;59;98] = None.        (* a;b *)
Proof. vm_compute. reflexivity. Qed.
Example sh_words_ex5 : sh_words [39;97] = None.
Proof. vm_compute. reflexivity. Qed.
Example sh_words_ex6 : sh_words [97;92] = None.
Proof. vm_compute. reflexivity. Qed.
Example sh_words_ex7 : sh_words [] = Some [].
Proof. vm_compute. reflexivity. Qed.
Example no_meta_ex1 : no_meta false [39;97;32;59;39;92;39;39;98;39] = true.   (* 'a ;'\''b' *)
Proof. vm_compute. reflexivity. Qed.
Example no_meta_ex2 : no_meta true [97;59;98] = false.
Proof. vm_compute. reflexivity. Qed.
Example no_meta_ex3 : no_meta false [97;32;98] = false.
Proof. vm_compute. reflexivity. Qed.
Example no_meta_ex4 : no_meta true [97;92;98] = false.
Proof. vm_compute. reflexivity. Qed.
