(* C16 — Gallina transliteration of ninja's POSIX shell escaping of file names.

   C++ sources (read-only): /repo/src/util.cc
     IsKnownShellSafeCharacter, StringNeedsShellEscaping, GetShellEscapedString
   and /repo/src/graph.cc  EdgeEnv::MakePathList (kShellEscape, non-_WIN32 branch).

   Definitions only (see CONVENTIONS.md); proofs are in EscProofs.v. *)
From NinjaV Require Import Base.Bytes.
Local Open Scope N_scope.

Definition in_range (lo hi b : byte) : bool := (lo <=? b) && (b <=? hi).

(* IsKnownShellSafeCharacter.  `char` is signed on the targets ninja is built for, so a byte
   >= 0x80 is a negative char and fails every range test: it is NOT safe.  With bytes as [N]
   the same falls out of the ranges below. *)
Definition shell_safe (b : byte) : bool :=
  if in_range 65 90 b then true            (* 'A'..'Z' *)
  else if in_range 97 122 b then true      (* 'a'..'z' *)
  else if in_range 48 57 b then true       (* '0'..'9' *)
  else if b =? 95 then true                (* '_' *)
  else if b =? 43 then true                (* '+' *)
  else if b =? 45 then true                (* '-' *)
  else if b =? 46 then true                (* '.' *)
  else if b =? 47 then true                (* '/' *)
  else false.

(* StringNeedsShellEscaping: true iff some byte is not in the safe table.
   QUIRK: the empty string needs no escaping (the loop body never runs). *)
Fixpoint needs_escaping (s : bytes) : bool :=
  match s with
  | [] => false
  | b :: r => if shell_safe b then needs_escaping r else true
  end.

(* Body of the quoted form: the loop of GetShellEscapedString copies spans between single
   quotes and, at each quote, appends the 3 bytes  '\'  and restarts the span AT the quote, so
   the quote itself is copied with the next span.  Net effect per input byte:
     '  |->  ' \ ' '       anything else |-> itself. *)
Fixpoint esc_body (s : bytes) : bytes :=
  match s with
  | [] => []
  | b :: r =>
      if b =? 39 then 39 :: 92 :: 39 :: 39 :: esc_body r
      else b :: esc_body r
  end.

(* GetShellEscapedString(input, &result): what gets appended to [result].
   QUIRK (faithful): the EMPTY string is appended unchanged, i.e. nothing is emitted —
   not ''. *)
Definition shell_escape (s : bytes) : bytes :=
  if needs_escaping s then 39 :: esc_body s ++ [39] else s.

(* EdgeEnv::MakePathList with escape_in_out_ == kShellEscape.  [result] is the C++ local
   `string result`; the separator is pushed before a path iff `!result.empty()` — i.e. NOT
   "iff this is not the first path".  No trailing separator.
   QUIRK (faithful): as long as everything emitted so far is empty (leading empty names,
   which escape to nothing) no separator is written. *)
Fixpoint make_path_list_from (sep : byte) (result : bytes) (names : list bytes) : bytes :=
  match names with
  | [] => result
  | p :: rest =>
      let result1 := match result with [] => result | _ :: _ => result ++ [sep] end in
      make_path_list_from sep (result1 ++ shell_escape p) rest
  end.

(* [sep] is 32 for $in / $out and 10 for $in_newline (EdgeEnv::LookupVariable). *)
Definition make_path_list (sep : byte) (names : list bytes) : bytes :=
  make_path_list_from sep [] names.

(* --- tidy specification (what the code "should" do), related to the model in EscProofs --- *)
Fixpoint join_sep (sep : byte) (l : list bytes) : bytes :=
  match l with
  | [] => []
  | [x] => x
  | x :: r => x ++ sep :: join_sep sep r
  end.

Definition make_path_list_spec (sep : byte) (names : list bytes) : bytes :=
  join_sep sep (map shell_escape names).

(* tiny sanity examples *)
Example shell_escape_plain : shell_escape [97;47;98;46;111] = [97;47;98;46;111].
Proof. vm_compute. reflexivity. Qed.
Example shell_escape_space : shell_escape [97;32;98] = [39;97;32;98;39].
Proof. vm_compute. reflexivity. Qed.
Example shell_escape_quote : shell_escape [97;39;98] = [39;97;39;92;39;39;98;39].
Proof. vm_compute. reflexivity. Qed.
Example shell_escape_empty : shell_escape [] = [].
Proof. vm_compute. reflexivity. Qed.
Example make_path_list_two : make_path_list 32 [[97];[98;32;99]] = [97;32;39;98;32;99;39].
Proof. vm_compute. reflexivity. Qed.
Example make_path_list_leading_empty : make_path_list 32 [[];[97]] = [97].
Proof. vm_compute. reflexivity. Qed.
Example make_path_list_middle_empty : make_path_list 32 [[97];[];[98]] = [97;32;32;98].
Proof. vm_compute. reflexivity. Qed.
