(* C16 — proofs about ninja's shell escaping (EscDefs) read by the sh model (ShModel).
   No axioms: stdlib List/NArith/Bool/Lia only. *)
From NinjaV Require Import Base.Bytes Shell.EscDefs Shell.ShModel.
Local Open Scope N_scope.

Definition nul_free (s : bytes) : Prop := forall b, In b s -> b <> 0.
Definition good_name (n : bytes) : Prop := n <> [] /\ nul_free n.

(* ------------------------------------------------------------------ the safe table *)

Lemma shell_safe_facts b :
  shell_safe b = true -> b <> 0 /\ b <> 39 /\ b <> 92 /\ sh_blank b = false.
Proof.
  intros H.
  assert (H0 : b <> 0) by (intros ->; vm_compute in H; discriminate).
  assert (H39 : b <> 39) by (intros ->; vm_compute in H; discriminate).
  assert (H92 : b <> 92) by (intros ->; vm_compute in H; discriminate).
  repeat split; try assumption.
  unfold sh_blank.
  destruct (N.eqb_spec b 32) as [->|_]; [vm_compute in H; discriminate|].
  destruct (N.eqb_spec b 9) as [->|_]; [vm_compute in H; discriminate|].
  destruct (N.eqb_spec b 10) as [->|_]; [vm_compute in H; discriminate|].
  reflexivity.
Qed.

Lemma needs_escaping_forallb s : needs_escaping s = negb (forallb shell_safe s).
Proof.
  induction s as [|b r IH]; cbn [needs_escaping forallb]; [reflexivity|].
  destruct (shell_safe b); cbn [andb negb]; [exact IH|reflexivity].
Qed.

(* ------------------------------------------------------------------ step lemmas for sh_go *)

Lemma sh_go_unq_safe b cur r :
  shell_safe b = true -> sh_go ShUnq cur (b :: r) = sh_go ShUnq (sh_push cur b) r.
Proof.
  intros H. destruct (shell_safe_facts b H) as (H0 & H39 & H92 & Hbl).
  cbn [sh_go].
  rewrite (proj2 (N.eqb_neq b 0) H0), (proj2 (N.eqb_neq b 39) H39),
          (proj2 (N.eqb_neq b 92) H92), Hbl, H.
  reflexivity.
Qed.

Lemma sh_go_inq_lit b cur r :
  b <> 0 -> b <> 39 -> sh_go ShInQ cur (b :: r) = sh_go ShInQ (sh_push cur b) r.
Proof.
  intros H0 H39. cbn [sh_go].
  rewrite (proj2 (N.eqb_neq b 0) H0), (proj2 (N.eqb_neq b 39) H39). reflexivity.
Qed.

Lemma sh_go_inq_close cur r : sh_go ShInQ cur (39 :: r) = sh_go ShUnq cur r.
Proof. reflexivity. Qed.

Lemma sh_go_unq_open cur r : sh_go ShUnq cur (39 :: r) = sh_go ShInQ (sh_start cur) r.
Proof. reflexivity. Qed.

(* the four bytes  ' \ ' '  seen from inside a quote: one literal quote, still inside *)
Lemma sh_go_inq_escaped_quote w r :
  sh_go ShInQ (Some w) (39 :: 92 :: 39 :: 39 :: r) = sh_go ShInQ (Some (39 :: w)) r.
Proof. reflexivity. Qed.

Lemma sh_go_unq_sep_some sep w r :
  sep = 32 \/ sep = 10 ->
  sh_go ShUnq (Some w) (sep :: r) =
  match sh_go ShUnq None r with Some ws => Some (rev w :: ws) | None => None end.
Proof. intros [->| ->]; reflexivity. Qed.

Lemma sh_go_unq_end w : sh_go ShUnq (Some w) [] = Some [rev w].
Proof. reflexivity. Qed.

(* ------------------------------------------------------------------ reading one escaped name *)

Lemma inq_body name :
  nul_free name ->
  forall w rest,
    sh_go ShInQ (Some w) (esc_body name ++ 39 :: rest) = sh_go ShUnq (Some (rev name ++ w)) rest.
Proof.
  induction name as [|b r IH]; intros Hnf w rest.
  - cbn [esc_body app rev]. apply sh_go_inq_close.
  - assert (Hb0 : b <> 0) by (apply Hnf; left; reflexivity).
    assert (Hr : nul_free r) by (intros c Hc; apply Hnf; right; exact Hc).
    cbn [esc_body]. destruct (N.eqb_spec b 39) as [->|Hne].
    + cbn [app]. rewrite sh_go_inq_escaped_quote, (IH Hr).
      cbn [rev]. rewrite <- app_assoc. reflexivity.
    + cbn [app]. rewrite (sh_go_inq_lit b _ _ Hb0 Hne). unfold sh_push, sh_cur_bytes.
      rewrite (IH Hr). cbn [rev]. rewrite <- app_assoc. reflexivity.
Qed.

Lemma unq_safe s :
  forallb shell_safe s = true ->
  forall w rest, sh_go ShUnq (Some w) (s ++ rest) = sh_go ShUnq (Some (rev s ++ w)) rest.
Proof.
  induction s as [|b r IH]; intros Hs w rest.
  - reflexivity.
  - cbn [forallb] in Hs. apply andb_true_iff in Hs. destruct Hs as [Hb Hr].
    cbn [app]. rewrite (sh_go_unq_safe b _ _ Hb). unfold sh_push, sh_cur_bytes.
    rewrite (IH Hr). cbn [rev]. rewrite <- app_assoc. reflexivity.
Qed.

(* Key lemma: at a word boundary, an escaped good name followed by anything leaves exactly that
   name as the word in progress, outside quotes. *)
Lemma escape_word name rest :
  good_name name ->
  sh_go ShUnq None (shell_escape name ++ rest) = sh_go ShUnq (Some (rev name)) rest.
Proof.
  intros [Hne Hnf]. unfold shell_escape.
  destruct (needs_escaping name) eqn:Hneed.
  - cbn [app]. rewrite <- app_assoc. cbn [app].
    rewrite sh_go_unq_open. unfold sh_start, sh_cur_bytes.
    rewrite (inq_body name Hnf). rewrite app_nil_r. reflexivity.
  - rewrite needs_escaping_forallb in Hneed. apply negb_false_iff in Hneed.
    destruct name as [|b r]; [congruence|].
    cbn [forallb] in Hneed. apply andb_true_iff in Hneed. destruct Hneed as [Hb Hr].
    cbn [app]. rewrite (sh_go_unq_safe b _ _ Hb). unfold sh_push, sh_cur_bytes.
    rewrite (unq_safe r Hr). reflexivity.
Qed.

(* ------------------------------------------------------------------ C16_one_word *)

Theorem C16_one_word :
  forall name, name <> [] -> (forall b, In b name -> b <> 0) ->
    sh_words (shell_escape name) = Some [name].
Proof.
  intros name Hne Hnf. unfold sh_words.
  rewrite <- (app_nil_r (shell_escape name)).
  rewrite (escape_word name [] (conj Hne Hnf)).
  rewrite sh_go_unq_end, rev_involutive. reflexivity.
Qed.

(* The code appends the empty name unchanged, i.e. emits NOTHING: the shell sees zero words, not
   one empty word.  So "exactly one word equal to the name" is FALSE for the empty name. *)
Theorem C16_empty_name_no_word : sh_words (shell_escape []) = Some [].
Proof. reflexivity. Qed.

Theorem C16_empty_name_refuted :
  exists name, (forall b, In b name -> b <> 0) /\ sh_words (shell_escape name) <> Some [name].
Proof. exists []. split; [intros b []|vm_compute; discriminate]. Qed.

(* what WOULD work: the two bytes '' are read as one empty word *)
Lemma sh_words_empty_quotes : sh_words [39; 39] = Some [[]].
Proof. reflexivity. Qed.

(* the NUL hypothesis is needed (a NUL cannot be carried by an argv string) *)
Lemma C16_nul_name_not_a_word : sh_words (shell_escape [0]) = None.
Proof. reflexivity. Qed.

(* ------------------------------------------------------------------ C16_verbatim *)

Theorem C16_verbatim :
  forall name, forallb shell_safe name = true -> shell_escape name = name.
Proof.
  intros name H. unfold shell_escape. rewrite needs_escaping_forallb, H. reflexivity.
Qed.

(* and only those: anything else is changed (it starts with a quote and grows by >= 2) *)
Lemma esc_body_length s : (length s <= length (esc_body s))%nat.
Proof.
  induction s as [|b r IH]; cbn [esc_body length]; [lia|].
  destruct (b =? 39); cbn [length]; lia.
Qed.

Theorem C16_verbatim_only :
  forall name, shell_escape name = name -> forallb shell_safe name = true.
Proof.
  intros name H. unfold shell_escape in H. rewrite needs_escaping_forallb in H.
  destruct (forallb shell_safe name); [reflexivity|]. cbn [negb] in H.
  apply (f_equal (@length byte)) in H. cbn [length] in H. rewrite app_length in H.
  cbn [length] in H. pose proof (esc_body_length name). lia.
Qed.

(* ------------------------------------------------------------------ make_path_list *)

Lemma shell_escape_nonempty name : name <> [] -> shell_escape name <> [].
Proof.
  intros Hne. unfold shell_escape. destruct (needs_escaping name); [discriminate|exact Hne].
Qed.

Definition sep_items (sep : byte) (names : list bytes) : bytes :=
  flat_map (fun p => sep :: shell_escape p) names.

(* once something has been emitted the code behaves like a plain "separator before every item" *)
Lemma make_path_list_from_nonempty sep names :
  forall result, result <> [] ->
    make_path_list_from sep result names = result ++ sep_items sep names.
Proof.
  induction names as [|p rest IH]; intros result Hne.
  - cbn [make_path_list_from sep_items flat_map]. rewrite app_nil_r. reflexivity.
  - cbn [make_path_list_from]. destruct result as [|x result']; [congruence|].
    rewrite IH.
    + unfold sep_items. cbn [flat_map]. rewrite <- !app_assoc. reflexivity.
    + cbn [app]. discriminate.
Qed.

Lemma make_path_list_cons sep p rest :
  p <> [] -> make_path_list sep (p :: rest) = shell_escape p ++ sep_items sep rest.
Proof.
  intros Hp. unfold make_path_list. cbn [make_path_list_from app].
  apply make_path_list_from_nonempty. apply shell_escape_nonempty. exact Hp.
Qed.

Lemma join_sep_cons sep x l :
  join_sep sep (x :: l) = x ++ flat_map (fun y => sep :: y) l.
Proof.
  revert x. induction l as [|y l IH]; intros x.
  - cbn [join_sep flat_map]. rewrite app_nil_r. reflexivity.
  - change (join_sep sep (x :: y :: l)) with (x ++ sep :: join_sep sep (y :: l)).
    rewrite IH. reflexivity.
Qed.

(* model = tidy spec (escaped names joined by the separator, nothing trailing) as soon as the
   FIRST name is non-empty ... *)
Theorem make_path_list_is_spec sep names :
  (forall n, In n names -> n <> []) ->
  make_path_list sep names = make_path_list_spec sep names.
Proof.
  intros Hne. destruct names as [|p rest]; [reflexivity|].
  rewrite make_path_list_cons by (apply Hne; left; reflexivity).
  unfold make_path_list_spec. cbn [map]. rewrite join_sep_cons.
  f_equal. unfold sep_items. rewrite flat_map_concat_map, flat_map_concat_map, map_map.
  reflexivity.
Qed.

(* ... and differs from it for a leading empty name (the `!result.empty()` test). *)
Theorem make_path_list_spec_refuted :
  exists sep names, make_path_list sep names <> make_path_list_spec sep names.
Proof. exists 32, [[]; [97]]. vm_compute. discriminate. Qed.

(* ------------------------------------------------------------------ C16_list *)

Definition good_names (names : list bytes) : Prop := forall n, In n names -> good_name n.

Lemma words_of_sep_items sep names :
  sep = 32 \/ sep = 10 -> good_names names ->
  forall w, sh_go ShUnq (Some w) (sep_items sep names) = Some (rev w :: names).
Proof.
  intros Hsep. induction names as [|p rest IH]; intros Hg w.
  - reflexivity.
  - unfold sep_items. cbn [flat_map app]. fold (sep_items sep rest).
    rewrite (sh_go_unq_sep_some sep w _ Hsep).
    rewrite (escape_word p _ (Hg p (or_introl eq_refl))).
    rewrite IH by (intros n Hn; apply Hg; right; exact Hn).
    rewrite rev_involutive. reflexivity.
Qed.

Theorem C16_list :
  forall sep names, (sep = 32 \/ sep = 10) ->
    (forall n, In n names -> n <> [] /\ (forall b, In b n -> b <> 0)) ->
    sh_words (make_path_list sep names) = Some names.
Proof.
  intros sep names Hsep Hg. destruct names as [|p rest]; [reflexivity|].
  assert (Hp : good_name p) by (apply Hg; left; reflexivity).
  rewrite make_path_list_cons by (exact (proj1 Hp)).
  unfold sh_words. rewrite (escape_word p _ Hp).
  rewrite (words_of_sep_items sep rest Hsep) by (intros n Hn; apply Hg; right; exact Hn).
  rewrite rev_involutive. reflexivity.
Qed.

(* Empty names silently disappear from the list the shell sees. *)
Theorem C16_list_empty_name_refuted :
  exists sep names, (sep = 32 \/ sep = 10) /\
    (forall n, In n names -> forall b, In b n -> b <> 0) /\
    sh_words (make_path_list sep names) <> Some names.
Proof.
  exists 32, [[97]; []; [98]]. split; [left; reflexivity|]. split.
  - intros n Hn b Hb. cbn [In] in Hn.
    destruct Hn as [<-|[<-|[<-|[]]]]; cbn [In] in Hb.
    + destruct Hb as [<-|[]]. discriminate.
    + destruct Hb.
    + destruct Hb as [<-|[]]. discriminate.
  - vm_compute. discriminate.
Qed.

(* ------------------------------------------------------------------ C16_no_meta *)

Lemma no_meta_go_app ab s :
  forall m t, no_meta_go ab m s = true -> no_meta_go ab ShUnq t = true ->
              no_meta_go ab m (s ++ t) = true.
Proof.
  induction s as [|b r IH]; intros m t Hs Ht.
  - destruct m; cbn [no_meta_go] in Hs; try discriminate. exact Ht.
  - cbn [app]. destruct m; cbn [no_meta_go] in Hs |- *.
    + destruct (b =? 39); [apply IH; assumption|].
      destruct (b =? 92); [apply IH; assumption|].
      destruct (sh_blank b).
      * destruct ab; [apply IH; assumption|discriminate].
      * destruct (shell_safe b); [apply IH; assumption|discriminate].
    + destruct (b =? 39); apply IH; assumption.
    + destruct (b =? 39); [apply IH; assumption|discriminate].
Qed.

Lemma no_meta_safe ab s : forallb shell_safe s = true -> no_meta_go ab ShUnq s = true.
Proof.
  induction s as [|b r IH]; intros Hs; [reflexivity|].
  cbn [forallb] in Hs. apply andb_true_iff in Hs. destruct Hs as [Hb Hr].
  destruct (shell_safe_facts b Hb) as (_ & H39 & H92 & Hbl).
  cbn [no_meta_go].
  rewrite (proj2 (N.eqb_neq b 39) H39), (proj2 (N.eqb_neq b 92) H92), Hbl, Hb.
  apply IH; exact Hr.
Qed.

Lemma no_meta_inq_body ab s : no_meta_go ab ShInQ (esc_body s ++ [39]) = true.
Proof.
  induction s as [|b r IH]; [reflexivity|].
  cbn [esc_body]. destruct (N.eqb_spec b 39) as [->|Hne].
  - cbn [app].
    change (no_meta_go ab ShInQ (39 :: 92 :: 39 :: 39 :: esc_body r ++ [39]))
      with (no_meta_go ab ShInQ (esc_body r ++ [39])).
    exact IH.
  - cbn [app no_meta_go]. rewrite (proj2 (N.eqb_neq b 39) Hne). exact IH.
Qed.

Lemma no_meta_shell_escape ab name : no_meta ab (shell_escape name) = true.
Proof.
  unfold no_meta, shell_escape. destruct (needs_escaping name) eqn:Hneed.
  - change (no_meta_go ab ShUnq (39 :: esc_body name ++ [39]))
      with (no_meta_go ab ShInQ (esc_body name ++ [39])).
    apply no_meta_inq_body.
  - rewrite needs_escaping_forallb in Hneed. apply negb_false_iff in Hneed.
    apply no_meta_safe. exact Hneed.
Qed.

(* For EVERY name (empty, with NUL, anything): outside quotes the escaped text contains only
   safe bytes, quote delimiters and backslash-quote; in particular no blank, so no splitting. *)
Theorem C16_no_meta : forall name, no_meta false (shell_escape name) = true.
Proof. intros name. apply no_meta_shell_escape. Qed.

Lemma no_meta_make_path_list_from sep names :
  sep = 32 \/ sep = 10 ->
  forall result, no_meta true result = true ->
                 no_meta true (make_path_list_from sep result names) = true.
Proof.
  intros Hsep. induction names as [|p rest IH]; intros result Hr; [exact Hr|].
  cbn [make_path_list_from]. apply IH. unfold no_meta.
  apply no_meta_go_app; [|apply no_meta_shell_escape].
  destruct result as [|x result']; [exact Hr|].
  apply no_meta_go_app; [exact Hr|]. destruct Hsep as [->| ->]; reflexivity.
Qed.

(* For EVERY list of names: outside quotes, $in/$out/$in_newline contain only safe bytes, quote
   delimiters, backslash-quote and the separators. *)
Theorem C16_no_meta_list :
  forall sep names, (sep = 32 \/ sep = 10) -> no_meta true (make_path_list sep names) = true.
Proof.
  intros sep names Hsep. unfold make_path_list.
  apply no_meta_make_path_list_from; [exact Hsep|reflexivity].
Qed.

(* The scanner is sound for the word model: a NUL-free text it accepts is inside the sub-language
   of [sh_words] (so C16_no_meta really says "sh_words returned Some"). *)
Lemma no_meta_go_sound s :
  nul_free s ->
  forall m cur, no_meta_go true m s = true -> sh_go m cur s <> None.
Proof.
  induction s as [|b r IH]; intros Hnf m cur Hs.
  - destruct m; cbn [no_meta_go] in Hs; try discriminate Hs. cbn [sh_go]. discriminate.
  - assert (Hb0 : b <> 0) by (apply Hnf; left; reflexivity).
    assert (Hr : nul_free r) by (intros c Hc; apply Hnf; right; exact Hc).
    cbn [sh_go]. rewrite (proj2 (N.eqb_neq b 0) Hb0).
    destruct m; cbn [no_meta_go] in Hs.
    + destruct (b =? 39); [apply (IH Hr); exact Hs|].
      destruct (b =? 92); [apply (IH Hr); exact Hs|].
      destruct (sh_blank b).
      * destruct cur as [w|]; [|apply (IH Hr); exact Hs].
        pose proof (IH Hr ShUnq None Hs) as Hn.
        destruct (sh_go ShUnq None r); [discriminate|congruence].
      * destruct (shell_safe b); [apply (IH Hr); exact Hs|discriminate].
    + destruct (b =? 39); apply (IH Hr); exact Hs.
    + destruct (N.eqb_spec b 39) as [->|Hne]; [|discriminate].
      cbn. apply (IH Hr); exact Hs.
Qed.

Theorem no_meta_sound :
  forall s, (forall b, In b s -> b <> 0) -> no_meta true s = true -> sh_words s <> None.
Proof. intros s Hnf H. apply (no_meta_go_sound s Hnf ShUnq None H). Qed.

Lemma no_meta_false_true s m : no_meta_go false m s = true -> no_meta_go true m s = true.
Proof.
  revert m. induction s as [|b r IH]; intros m H; [exact H|].
  destruct m; cbn [no_meta_go] in H |- *.
  - destruct (b =? 39); [apply IH; exact H|].
    destruct (b =? 92); [apply IH; exact H|].
    destruct (sh_blank b); [discriminate|].
    destruct (shell_safe b); [apply IH; exact H|discriminate].
  - destruct (b =? 39); apply IH; exact H.
  - destruct (b =? 39); [apply IH; exact H|discriminate].
Qed.

(* shell_escape never introduces a NUL, so for NUL-free names (even the empty one) the text is
   always inside the sub-language *)
Lemma esc_body_in b s : In b (esc_body s) -> In b s \/ b = 39 \/ b = 92.
Proof.
  induction s as [|c r IH]; cbn [esc_body]; [intros []|].
  destruct (N.eqb_spec c 39) as [->|Hne]; cbn [In].
  - intros [<-|[<-|[<-|[<-|H]]]]; auto. destruct (IH H) as [H'|H']; auto.
  - intros [<-|H]; auto. destruct (IH H) as [H'|H']; auto.
Qed.

Lemma shell_escape_nul_free name : nul_free name -> nul_free (shell_escape name).
Proof.
  intros Hnf b Hb. unfold shell_escape in Hb. destruct (needs_escaping name); [|apply Hnf; exact Hb].
  cbn [In] in Hb. destruct Hb as [<-|Hb]; [discriminate|].
  apply in_app_or in Hb. destruct Hb as [Hb|Hb].
  - destruct (esc_body_in b name Hb) as [H|[->| ->]]; [apply Hnf; exact H|discriminate|discriminate].
  - cbn [In] in Hb. destruct Hb as [<-|[]]. discriminate.
Qed.

Theorem C16_always_in_sublanguage :
  forall name, (forall b, In b name -> b <> 0) -> sh_words (shell_escape name) <> None.
Proof.
  intros name Hnf. apply no_meta_sound.
  - apply shell_escape_nul_free. exact Hnf.
  - apply no_meta_false_true. apply C16_no_meta.
Qed.
