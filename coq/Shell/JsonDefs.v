(* C19 (JSON part) — Gallina transliteration of EncodeJSONString (/repo/src/json.cc:20-46),
   a strict byte-level decoder/recogniser for the content of a JSON string literal
   (RFC 8259 section 7) and UTF-8 well-formedness (RFC 3629).

   Definitions only; proofs are in JsonProofs.v. *)
From NinjaV Require Import Base.Bytes.
Local Open Scope N_scope.

Definition jbetween (lo hi b : byte) : bool := (lo <=? b) && (b <=? hi).

(* ------------------------------------------------------------------ encoder *)

(* hex_digits[n] for "0123456789abcdef" (lower case) *)
Definition hex_digit (n : N) : byte := if n <? 10 then 48 + n else 87 + n.

(* One iteration of the loop of EncodeJSONString.  `char c` is signed: a byte >= 0x80 is
   negative, fails `0x0 <= c`, is none of the named characters and so is COPIED RAW.
   The order of the tests is the order of the C++ if-chain. *)
Definition json_encode_byte (c : byte) : bytes :=
  if c =? 8 then [92; 98]                 (* \b *)
  else if c =? 12 then [92; 102]          (* \f *)
  else if c =? 10 then [92; 110]          (* \n *)
  else if c =? 13 then [92; 114]          (* \r *)
  else if c =? 9 then [92; 116]           (* \t *)
  else if c <? 32 then                    (* 0x0 <= c && c < 0x20  ->  \u00XY *)
    [92; 117; 48; 48; hex_digit (N.shiftr c 4); hex_digit (N.land c 15)]
  else if c =? 92 then [92; 92]           (* \\ *)
  else if c =? 34 then [92; 34]           (* backslash, dquote *)
  else [c].                               (* everything else, including 0x7f and >= 0x80 *)

Fixpoint json_encode (s : bytes) : bytes :=
  match s with
  | [] => []
  | c :: r => json_encode_byte c ++ json_encode r
  end.

(* the complete literal as PrintJSONString's callers write it: dquote content dquote *)
Definition json_literal (s : bytes) : bytes := 34 :: json_encode s ++ [34].

(* ------------------------------------------------------------------ decoder *)

Definition hex_val (b : byte) : option N :=
  if jbetween 48 57 b then Some (b - 48)
  else if jbetween 97 102 b then Some (b - 87)
  else if jbetween 65 70 b then Some (b - 55)
  else None.

Definition hex4 (h1 h2 h3 h4 : byte) : option N :=
  match hex_val h1, hex_val h2, hex_val h3, hex_val h4 with
  | Some a, Some b, Some c, Some d => Some (((a * 16 + b) * 16 + c) * 16 + d)
  | _, _, _, _ => None
  end.

(* the two-character escapes: the byte after the backslash |-> the byte denoted *)
Definition json_simple_escape (e : byte) : option byte :=
  if e =? 34 then Some 34            (* backslash dquote *)
  else if e =? 92 then Some 92       (* \\ *)
  else if e =? 47 then Some 47       (* \/ *)
  else if e =? 98 then Some 8        (* \b *)
  else if e =? 102 then Some 12      (* \f *)
  else if e =? 110 then Some 10      (* \n *)
  else if e =? 114 then Some 13      (* \r *)
  else if e =? 116 then Some 9       (* \t *)
  else None.

Definition cons_opt (b : byte) (o : option bytes) : option bytes :=
  match o with Some l => Some (b :: l) | None => None end.

(* Decoder for the CONTENT of a string literal (between the quotes), byte level.
   unescaped = any byte except dquote (34), backslash (92) and < 0x20.  \uXXXX is decoded to ONE byte when
   XXXX < 0x100 (the latin-1 / bytes-as-code-points reading a driver uses to get the bytes
   back); any other \u value is outside the modelled fragment -> None.
   None also for everything a JSON parser rejects at this level: raw control byte, bare quote,
   unknown escape, truncated escape, non-hex digit. *)
Fixpoint json_decode (s : bytes) : option bytes :=
  match s with
  | [] => Some []
  | b :: r =>
      if b =? 92 then
        match r with
        | [] => None
        | e :: r1 =>
            if e =? 117 then
              match r1 with
              | h1 :: h2 :: h3 :: h4 :: r2 =>
                  match hex4 h1 h2 h3 h4 with
                  | Some v => if v <? 256 then cons_opt v (json_decode r2) else None
                  | None => None
                  end
              | _ => None
              end
            else
              match json_simple_escape e with
              | Some c => cons_opt c (json_decode r1)
              | None => None
              end
        end
      else if b =? 34 then None
      else if b <? 32 then None
      else cons_opt b (json_decode r)
  end.

(* Pure recogniser of the same grammar (accepts every \uXXXX with four hex digits). *)
Fixpoint json_wf (s : bytes) : bool :=
  match s with
  | [] => true
  | b :: r =>
      if b =? 92 then
        match r with
        | [] => false
        | e :: r1 =>
            if e =? 117 then
              match r1 with
              | h1 :: h2 :: h3 :: h4 :: r2 =>
                  match hex4 h1 h2 h3 h4 with
                  | Some _ => json_wf r2
                  | None => false
                  end
              | _ => false
              end
            else
              match json_simple_escape e with
              | Some _ => json_wf r1
              | None => false
              end
        end
      else if b =? 34 then false
      else if b <? 32 then false
      else json_wf r
  end.

(* Parser for a complete string literal at the head of a JSON text: opening quote, content,
   the FIRST unescaped quote closes it.  Returns (decoded content, rest of the text). *)
Definition cons_fst (b : byte) (o : option (bytes * bytes)) : option (bytes * bytes) :=
  match o with Some (l, rest) => Some (b :: l, rest) | None => None end.

Fixpoint json_parse_body (s : bytes) : option (bytes * bytes) :=
  match s with
  | [] => None                                  (* unterminated literal *)
  | b :: r =>
      if b =? 34 then Some ([], r)
      else if b =? 92 then
        match r with
        | [] => None
        | e :: r1 =>
            if e =? 117 then
              match r1 with
              | h1 :: h2 :: h3 :: h4 :: r2 =>
                  match hex4 h1 h2 h3 h4 with
                  | Some v => if v <? 256 then cons_fst v (json_parse_body r2) else None
                  | None => None
                  end
              | _ => None
              end
            else
              match json_simple_escape e with
              | Some c => cons_fst c (json_parse_body r1)
              | None => None
              end
        end
      else if b <? 32 then None
      else cons_fst b (json_parse_body r)
  end.

Definition json_parse_string (s : bytes) : option (bytes * bytes) :=
  match s with
  | [] => None
  | q :: r => if q =? 34 then json_parse_body r else None
  end.

(* ------------------------------------------------------------------ UTF-8 *)

(* RFC 3629 well-formedness as a DFA (Unicode table 3-7): no overlongs, no surrogates,
   nothing above U+10FFFF.  State = what the next byte must be. *)
Inductive u8_state : Type :=
| U0        (* at a character boundary *)
| U1        (* one continuation byte 80..BF to go *)
| U2        (* two to go, next 80..BF *)
| U2_E0     (* after E0: next A0..BF, then one more *)
| U2_ED     (* after ED: next 80..9F, then one more *)
| U3        (* three to go, next 80..BF *)
| U3_F0     (* after F0: next 90..BF, then two more *)
| U3_F4.    (* after F4: next 80..8F, then two more *)

Definition u8_step (st : u8_state) (b : byte) : option u8_state :=
  match st with
  | U0 =>
      if b <? 128 then Some U0
      else if jbetween 194 223 b then Some U1
      else if b =? 224 then Some U2_E0
      else if b =? 237 then Some U2_ED
      else if jbetween 225 239 b then Some U2      (* E1..EC, EE, EF *)
      else if b =? 240 then Some U3_F0
      else if jbetween 241 243 b then Some U3
      else if b =? 244 then Some U3_F4
      else None                                    (* 80..C1, F5..FF, and non-bytes *)
  | U1 => if jbetween 128 191 b then Some U0 else None
  | U2 => if jbetween 128 191 b then Some U1 else None
  | U2_E0 => if jbetween 160 191 b then Some U1 else None
  | U2_ED => if jbetween 128 159 b then Some U1 else None
  | U3 => if jbetween 128 191 b then Some U2 else None
  | U3_F0 => if jbetween 144 191 b then Some U2 else None
  | U3_F4 => if jbetween 128 143 b then Some U2 else None
  end.

Fixpoint utf8_go (st : u8_state) (s : bytes) : bool :=
  match s with
  | [] => match st with U0 => true | _ => false end
  | b :: r =>
      match u8_step st b with
      | Some st' => utf8_go st' r
      | None => false
      end
  end.

Definition utf8_valid (s : bytes) : bool := utf8_go U0 s.

(* tiny sanity examples *)
Example json_encode_ex1 : json_encode [97; 34; 92; 10; 1; 31; 127; 200]
  = [97; 92;34; 92;92; 92;110; 92;117;48;48;48;49; 92;117;48;48;49;102; 127; 200].
Proof. vm_compute. reflexivity. Qed.
Example json_decode_ex1 : json_decode [92;117;48;48;52;49; 92;47; 120] = Some [65; 47; 120].
Proof. vm_compute. reflexivity. Qed.
Example json_decode_ex2 : json_decode [92;117;48;49;48;48] = None.   (* Ā *)
Proof. vm_compute. reflexivity. Qed.
Example json_decode_ex3 : json_decode [97; 34] = None.
Proof. vm_compute. reflexivity. Qed.
Example json_decode_ex4 : json_decode [92; 120] = None.              (* \x *)
Proof. vm_compute. reflexivity. Qed.
Example utf8_ex1 : utf8_valid [226;130;172; 240;159;152;128; 65] = true.
Proof. vm_compute. reflexivity. Qed.
Example utf8_ex2 : utf8_valid [237;160;128] = false.                 (* surrogate *)
Proof. vm_compute. reflexivity. Qed.
Example utf8_ex3 : utf8_valid [192;128] = false.                     (* overlong *)
Proof. vm_compute. reflexivity. Qed.
