(* C19 (JSON part) — proofs about EncodeJSONString's model (JsonDefs).
   No axioms: stdlib List/NArith/Bool/Lia only. *)
From NinjaV Require Import Base.Bytes Shell.JsonDefs.
Local Open Scope N_scope.

(* ------------------------------------------------------------------ case analysis of one byte *)

Lemma lt32_cases c : c < 32 -> In c (map N.of_nat (seq 0 32)).
Proof.
  intros H. apply in_map_iff. exists (N.to_nat c). split; [apply N2Nat.id|].
  apply in_seq. lia.
Qed.

(* run [tac] for each of the 32 concrete values of a byte c < 32 *)
Ltac for_each_lt32 c H tac :=
  let Hin := fresh "Hin" in
  pose proof (lt32_cases c H) as Hin;
  cbv [map seq N.of_nat Pos.of_succ_nat Pos.succ In] in Hin;
  repeat (destruct Hin as [Hin|Hin]; [subst c; tac|]);
  destruct Hin.

(* the branches of json_encode_byte *)
Lemma json_encode_byte_cases c :
  c < 32 \/
  (c = 92 /\ json_encode_byte c = [92; 92]) \/
  (c = 34 /\ json_encode_byte c = [92; 34]) \/
  (32 <= c /\ c <> 92 /\ c <> 34 /\ json_encode_byte c = [c]).
Proof.
  destruct (N.lt_ge_cases c 32) as [Hlt|Hge]; [left; exact Hlt|right].
  destruct (N.eq_dec c 92) as [->|H92]; [left; split; reflexivity|right].
  destruct (N.eq_dec c 34) as [->|H34]; [left; split; reflexivity|right].
  repeat split; try assumption.
  unfold json_encode_byte.
  destruct (N.eqb_spec c 8) as [->|_]; [lia|].
  destruct (N.eqb_spec c 12) as [->|_]; [lia|].
  destruct (N.eqb_spec c 10) as [->|_]; [lia|].
  destruct (N.eqb_spec c 13) as [->|_]; [lia|].
  destruct (N.eqb_spec c 9) as [->|_]; [lia|].
  destruct (N.ltb_spec c 32) as [Hlt|_]; [lia|].
  rewrite (proj2 (N.eqb_neq c 92) H92), (proj2 (N.eqb_neq c 34) H34). reflexivity.
Qed.

Lemma plain_byte_tests c :
  32 <= c -> c <> 92 -> c <> 34 -> (c =? 92) = false /\ (c =? 34) = false /\ (c <? 32) = false.
Proof.
  intros Hge H92 H34. repeat split.
  - apply N.eqb_neq; exact H92.
  - apply N.eqb_neq; exact H34.
  - apply N.ltb_ge; exact Hge.
Qed.

(* ------------------------------------------------------------------ C19_json_roundtrip *)

Lemma json_decode_encode_byte c t :
  json_decode (json_encode_byte c ++ t) = cons_opt c (json_decode t).
Proof.
  destruct (json_encode_byte_cases c) as [Hlt|[[-> ->]|[[-> ->]|(Hge & H92 & H34 & ->)]]].
  - for_each_lt32 c Hlt ltac:(reflexivity).
  - reflexivity.
  - reflexivity.
  - destruct (plain_byte_tests c Hge H92 H34) as (E92 & E34 & E32).
    cbn [app json_decode]. rewrite E92, E34, E32. reflexivity.
Qed.

Theorem C19_json_roundtrip : forall s, json_decode (json_encode s) = Some s.
Proof.
  induction s as [|c r IH]; [reflexivity|].
  cbn [json_encode]. rewrite json_decode_encode_byte, IH. reflexivity.
Qed.

(* the encoder is injective (distinct commands never collide in compdb) *)
Corollary json_encode_injective : forall s1 s2, json_encode s1 = json_encode s2 -> s1 = s2.
Proof.
  intros s1 s2 H. apply (f_equal json_decode) in H.
  rewrite !C19_json_roundtrip in H. congruence.
Qed.

(* ------------------------------------------------------------------ the complete literal *)

Lemma json_parse_body_encode_byte c t :
  json_parse_body (json_encode_byte c ++ t) = cons_fst c (json_parse_body t).
Proof.
  destruct (json_encode_byte_cases c) as [Hlt|[[-> ->]|[[-> ->]|(Hge & H92 & H34 & ->)]]].
  - for_each_lt32 c Hlt ltac:(reflexivity).
  - reflexivity.
  - reflexivity.
  - destruct (plain_byte_tests c Hge H92 H34) as (E92 & E34 & E32).
    cbn [app json_parse_body]. rewrite E34, E92, E32. reflexivity.
Qed.

Lemma json_parse_body_encode s rest :
  json_parse_body (json_encode s ++ 34 :: rest) = Some (s, rest).
Proof.
  induction s as [|c r IH]; [reflexivity|].
  cbn [json_encode]. rewrite <- app_assoc, json_parse_body_encode_byte, IH. reflexivity.
Qed.

(* Whatever follows, a parser reading the literal ninja wrote gets the original bytes back and
   stops exactly at ninja's closing quote: no byte of [s] can end the string early. *)
Theorem C19_json_literal :
  forall s rest, json_parse_string (json_literal s ++ rest) = Some (s, rest).
Proof.
  intros s rest. unfold json_literal. cbn [app json_parse_string].
  change (34 =? 34) with true. cbv iota.
  rewrite <- app_assoc. apply json_parse_body_encode.
Qed.

(* ------------------------------------------------------------------ well-formedness *)

Lemma json_wf_encode_byte c t : json_wf (json_encode_byte c ++ t) = json_wf t.
Proof.
  destruct (json_encode_byte_cases c) as [Hlt|[[-> ->]|[[-> ->]|(Hge & H92 & H34 & ->)]]].
  - for_each_lt32 c Hlt ltac:(reflexivity).
  - reflexivity.
  - reflexivity.
  - destruct (plain_byte_tests c Hge H92 H34) as (E92 & E34 & E32).
    cbn [app json_wf]. rewrite E92, E34, E32. reflexivity.
Qed.

(* every quote and every backslash of the output is part of an escape sequence of the grammar *)
Theorem C19_json_wf : forall s, json_wf (json_encode s) = true.
Proof.
  induction s as [|c r IH]; [reflexivity|].
  cbn [json_encode]. rewrite json_wf_encode_byte. exact IH.
Qed.

(* the decoder is at least as strict as the recogniser *)
Lemma json_decode_wf_len n :
  forall t, (length t <= n)%nat -> json_decode t <> None -> json_wf t = true.
Proof.
  induction n as [|n IH]; intros t Hlen Hdec.
  - destruct t as [|b r]; [reflexivity|cbn [length] in Hlen; lia].
  - destruct t as [|b r]; [reflexivity|].
    cbn [length] in Hlen. cbn [json_decode] in Hdec. cbn [json_wf].
    destruct (b =? 92).
    + destruct r as [|e r1]; [congruence|].
      destruct (e =? 117).
      * destruct r1 as [|h1 [|h2 [|h3 [|h4 r2]]]]; try congruence.
        destruct (hex4 h1 h2 h3 h4) as [v|]; [|congruence].
        destruct (v <? 256); [|congruence].
        apply IH; [cbn [length] in Hlen; lia|].
        destruct (json_decode r2); [discriminate|cbn [cons_opt] in Hdec; congruence].
      * destruct (json_simple_escape e) as [c|]; [|congruence].
        apply IH; [cbn [length] in Hlen; lia|].
        destruct (json_decode r1); [discriminate|cbn [cons_opt] in Hdec; congruence].
    + destruct (b =? 34); [congruence|].
      destruct (b <? 32); [congruence|].
      apply IH; [lia|].
      destruct (json_decode r); [discriminate|cbn [cons_opt] in Hdec; congruence].
Qed.

Theorem json_decode_wf : forall t s, json_decode t = Some s -> json_wf t = true.
Proof.
  intros t s H. apply (json_decode_wf_len (length t) t (le_n _)). rewrite H. discriminate.
Qed.

(* ------------------------------------------------------------------ C19_json_no_raw_control *)

Lemma hex_digit_ge n : 48 <= hex_digit n.
Proof. unfold hex_digit. destruct (n <? 10); lia. Qed.

Lemma json_encode_byte_in c b :
  In b (json_encode_byte c) -> 32 <= b /\ (b = c \/ b < 128).
Proof.
  destruct (json_encode_byte_cases c) as [Hlt|[[-> ->]|[[-> ->]|(Hge & H92 & H34 & ->)]]].
  - for_each_lt32 c Hlt
      ltac:(vm_compute; intros Hb;
            repeat (destruct Hb as [Hb|Hb]; [subst b; split; [discriminate|right; reflexivity]|]);
            destruct Hb).
  - cbn [In]. intros [<-|[<-|[]]]; split; try lia; right; lia.
  - cbn [In]. intros [<-|[<-|[]]]; split; try lia; right; lia.
  - cbn [In]. intros [<-|[]]. split; [exact Hge|left; reflexivity].
Qed.

Lemma json_encode_in s b : In b (json_encode s) -> 32 <= b /\ (In b s \/ b < 128).
Proof.
  induction s as [|c r IH]; cbn [json_encode]; [intros []|].
  intros H. apply in_app_or in H. destruct H as [H|H].
  - destruct (json_encode_byte_in c b H) as [Hge [->|Hlt]]; split; try assumption.
    + left; left; reflexivity.
    + right; exact Hlt.
  - destruct (IH H) as [Hge [Hin|Hlt]]; split; try assumption.
    + left; right; exact Hin.
    + right; exact Hlt.
Qed.

(* no raw control byte in the output; and the only non-ASCII bytes are the input's own *)
Theorem C19_json_no_raw_control : forall s b, In b (json_encode s) -> 32 <= b.
Proof. intros s b H. exact (proj1 (json_encode_in s b H)). Qed.

Theorem C19_json_new_bytes_ascii :
  forall s b, In b (json_encode s) -> In b s \/ (32 <= b /\ b < 128).
Proof.
  intros s b H. destruct (json_encode_in s b H) as [Hge [Hin|Hlt]]; [left; exact Hin|right; split; assumption].
Qed.

(* ------------------------------------------------------------------ C19_json_utf8 *)

Definition u8_is_U0 (st : u8_state) : bool := match st with U0 => true | _ => false end.

Lemma u8_step_ascii st b :
  b < 128 -> u8_step st b = if u8_is_U0 st then Some U0 else None.
Proof.
  intros Hb. unfold u8_step, jbetween.
  destruct st; cbn [u8_is_U0].
  - rewrite (proj2 (N.ltb_lt b 128) Hb). reflexivity.
  - destruct (N.leb_spec 128 b); [lia|reflexivity].
  - destruct (N.leb_spec 128 b); [lia|reflexivity].
  - destruct (N.leb_spec 160 b); [lia|reflexivity].
  - destruct (N.leb_spec 128 b); [lia|reflexivity].
  - destruct (N.leb_spec 128 b); [lia|reflexivity].
  - destruct (N.leb_spec 144 b); [lia|reflexivity].
  - destruct (N.leb_spec 128 b); [lia|reflexivity].
Qed.

(* a non-empty run of ASCII bytes: transparent at a character boundary, fatal inside a sequence *)
Lemma utf8_go_ascii_run l t :
  l <> [] -> (forall b, In b l -> b < 128) ->
  forall st, utf8_go st (l ++ t) = if u8_is_U0 st then utf8_go U0 t else false.
Proof.
  induction l as [|b r IH]; intros Hne Hall st; [congruence|].
  cbn [app utf8_go]. rewrite (u8_step_ascii st b) by (apply Hall; left; reflexivity).
  destruct (u8_is_U0 st) eqn:Est; [|reflexivity].
  destruct r as [|b' r'].
  - reflexivity.
  - rewrite IH; [reflexivity|discriminate|intros x Hx; apply Hall; right; exact Hx].
Qed.

Lemma utf8_go_encode_byte st c t :
  utf8_go st (json_encode_byte c ++ t) =
  match u8_step st c with Some st' => utf8_go st' t | None => false end.
Proof.
  assert (Hesc : c < 128 -> json_encode_byte c <> [] ->
                 (forall b, In b (json_encode_byte c) -> b = c \/ b < 128) ->
                 utf8_go st (json_encode_byte c ++ t) =
                 match u8_step st c with Some st' => utf8_go st' t | None => false end).
  { intros Hc Hne Hall.
    rewrite utf8_go_ascii_run; [|exact Hne|intros b Hb; destruct (Hall b Hb) as [->|H]; assumption].
    rewrite (u8_step_ascii st c Hc). destruct (u8_is_U0 st); reflexivity. }
  destruct (json_encode_byte_cases c) as [Hlt|[[-> E]|[[-> E]|(Hge & H92 & H34 & E)]]].
  - apply Hesc; [lia| |intros b Hb; exact (proj2 (json_encode_byte_in c b Hb))].
    for_each_lt32 c Hlt ltac:(vm_compute; discriminate).
  - apply Hesc; [lia|rewrite E; discriminate|intros b Hb; exact (proj2 (json_encode_byte_in _ b Hb))].
  - apply Hesc; [lia|rewrite E; discriminate|intros b Hb; exact (proj2 (json_encode_byte_in _ b Hb))].
  - rewrite E. reflexivity.
Qed.

Lemma utf8_go_encode s : forall st, utf8_go st (json_encode s) = utf8_go st s.
Proof.
  induction s as [|c r IH]; intros st; [reflexivity|].
  cbn [json_encode]. rewrite utf8_go_encode_byte. cbn [utf8_go].
  destruct (u8_step st c) as [st'|]; [apply IH|reflexivity].
Qed.

(* the encoder neither repairs nor breaks UTF-8: the output is well-formed UTF-8 exactly when
   the input is *)
Theorem C19_json_utf8_iff : forall s, utf8_valid (json_encode s) = utf8_valid s.
Proof. intros s. apply utf8_go_encode. Qed.

Theorem C19_json_utf8 : forall s, utf8_valid s = true -> utf8_valid (json_encode s) = true.
Proof. intros s H. rewrite C19_json_utf8_iff. exact H. Qed.

(* RFC 8259 section 8.1 requires JSON text exchanged between systems to be UTF-8.  A command
   containing a byte >= 0x80 that is not part of a well-formed sequence (latin-1 file names,
   for instance) is copied raw, so the compdb output is not valid JSON text. *)
Theorem C19_json_invalid_utf8_refuted : exists s, utf8_valid (json_encode s) = false.
Proof. exists [233]. vm_compute. reflexivity. Qed.

Theorem C19_json_invalid_utf8_all :
  forall s, utf8_valid s = false -> utf8_valid (json_encode s) = false.
Proof. intros s H. rewrite C19_json_utf8_iff. exact H. Qed.
