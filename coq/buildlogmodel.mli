
type nat =
| O
| S of nat

val fst : ('a1 * 'a2) -> 'a1

val snd : ('a1 * 'a2) -> 'a2

val length : 'a1 list -> nat

val app : 'a1 list -> 'a1 list -> 'a1 list

type comparison =
| Eq
| Lt
| Gt

val compOpp : comparison -> comparison

val add : nat -> nat -> nat

val sub : nat -> nat -> nat

val last : 'a1 list -> 'a1 -> 'a1

val rev : 'a1 list -> 'a1 list

val concat : 'a1 list list -> 'a1 list

val map : ('a1 -> 'a2) -> 'a1 list -> 'a2 list

val fold_left : ('a1 -> 'a2 -> 'a1) -> 'a2 list -> 'a1 -> 'a1

val filter : ('a1 -> bool) -> 'a1 list -> 'a1 list

val firstn : nat -> 'a1 list -> 'a1 list

val skipn : nat -> 'a1 list -> 'a1 list

type positive =
| XI of positive
| XO of positive
| XH

type n =
| N0
| Npos of positive

type z =
| Z0
| Zpos of positive
| Zneg of positive

module Pos :
 sig
  type mask =
  | IsNul
  | IsPos of positive
  | IsNeg
 end

module Coq_Pos :
 sig
  val succ : positive -> positive

  val add : positive -> positive -> positive

  val add_carry : positive -> positive -> positive

  val pred_double : positive -> positive

  type mask = Pos.mask =
  | IsNul
  | IsPos of positive
  | IsNeg

  val succ_double_mask : mask -> mask

  val double_mask : mask -> mask

  val double_pred_mask : positive -> mask

  val sub_mask : positive -> positive -> mask

  val sub_mask_carry : positive -> positive -> mask

  val mul : positive -> positive -> positive

  val size_nat : positive -> nat

  val compare_cont : comparison -> positive -> positive -> comparison

  val compare : positive -> positive -> comparison

  val eqb : positive -> positive -> bool

  val iter_op : ('a1 -> 'a1 -> 'a1) -> positive -> 'a1 -> 'a1

  val to_nat : positive -> nat
 end

module N :
 sig
  val succ_double : n -> n

  val double : n -> n

  val add : n -> n -> n

  val sub : n -> n -> n

  val mul : n -> n -> n

  val compare : n -> n -> comparison

  val eqb : n -> n -> bool

  val leb : n -> n -> bool

  val ltb : n -> n -> bool

  val size_nat : n -> nat

  val pos_div_eucl : positive -> n -> n * n

  val div_eucl : n -> n -> n * n

  val div : n -> n -> n

  val modulo : n -> n -> n

  val to_nat : n -> nat
 end

module Z :
 sig
  val double : z -> z

  val succ_double : z -> z

  val pred_double : z -> z

  val pos_sub : positive -> positive -> z

  val add : z -> z -> z

  val opp : z -> z

  val sub : z -> z -> z

  val mul : z -> z -> z

  val compare : z -> z -> comparison

  val leb : z -> z -> bool

  val ltb : z -> z -> bool

  val eqb : z -> z -> bool

  val abs_N : z -> n

  val to_N : z -> n

  val of_N : n -> z

  val pos_div_eucl : positive -> z -> z * z

  val div_eucl : z -> z -> z * z

  val modulo : z -> z -> z
 end

type byte = n

type bytes = byte list

val bytes_eqb : bytes -> bytes -> bool

type entry = { e_out : bytes; e_start : z; e_end : z; e_mtime : z; e_hash : n }

val digits_le : n -> nat -> n -> n list

val digit_char : n -> byte

val print_N_base : n -> n -> bytes

val print_dec_N : n -> bytes

val print_hex_N : n -> bytes

val print_dec_Z : z -> bytes

val digit_val : n -> byte -> n option

val parse_digits : n -> n -> bytes -> n

val is_space : byte -> bool

val skip_ws : bytes -> bytes

val split_sign : bytes -> bool * bytes

val clamp64 : z -> z

val wrap32 : z -> z

val c_strtoll : bytes -> z

val c_atoi : bytes -> z

val skip_0x : bytes -> bytes

val c_strtoull16 : bytes -> n

val lit : byte -> bytes -> bytes option

val lits : bytes -> bytes -> bytes option

val starts_with_digit : bytes -> bool

val scan_int : bytes -> z option

val scan_signature : bytes -> z

val oldest_supported_version : z

val current_version : z

val log_header : bytes

val c_str : bytes -> bytes

val render_body : entry -> bytes

val render_entry : entry -> bytes

val find_byte : byte -> bytes -> nat option

type lr_state = { lr_cur : bytes; lr_le : nat option; lr_rest : bytes }

val lr_init : bytes -> lr_state

val read_line : nat -> lr_state -> lr_state option

type load_res =
| LDiscard of bool * bool
| LOk of entry list * bool
| LFuel

val split_tab : bytes -> (bytes * bytes) option

val parse_line : bytes -> entry option

val has_out : bytes -> entry list -> bool

val replace_out : entry -> entry list -> entry list

val upsert : entry -> entry list -> entry list

val needs_recompaction_of : n -> n -> bool

type load_acc = { la_entries : entry list; la_unique : n; la_total : n }

val la_empty : load_acc

val load_step : load_acc -> bytes -> load_acc

val load_finish : bool -> z -> load_acc -> load_res

val load_loop : nat -> nat -> bool -> z -> lr_state -> load_acc -> load_res

val load_log_buf : nat -> bytes -> load_res

val load_buf_size : nat

val load_log : bytes -> load_res

val record_append : bytes -> entry list -> bytes

val recompact : (bytes -> bool) -> entry list -> bytes

val restat_entry : (bytes -> z option) -> entry -> entry

val restat_log : (bytes -> z option) -> entry list -> entry list

val restat_file : (bytes -> z option) -> entry list -> bytes

val session : (bytes -> bool) -> bytes -> entry list -> bytes

val last_wins : entry list -> entry list
