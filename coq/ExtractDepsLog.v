(* Extraction of the deps-log model (C09, deps-log part of C13) into its own OCaml module (generic
   names such as [session], [recompact], [view], [take] would clash in model.ml). *)
Require Import ExtrOcamlBasic.
From NinjaV Require Import Base.Bytes Log.DepsLogDefs.
Extraction Language OCaml.
Set Extraction KeepSingleton.
Extraction "depslogmodel.ml" load_deps load_deps_x86 session apply_ops recompact_r recompact_file
  view abstract_ops spec_view enc_path_record enc_deps_record deps_header safe_file wf_op.
