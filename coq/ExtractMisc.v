(* Extraction of the models of the small readers (CLParser, MAKEFLAGS) into their own OCaml module. *)
Require Import ExtrOcamlBasic.
From NinjaV Require Import Base.Bytes Misc.ClParserDefs Misc.MakeflagsDefs.
Extraction Language OCaml.
Set Extraction KeepSingleton.
Extraction "miscmodel.ml" Z.add N.add Nat.add cl_parse cl_lines filter_show_includes is_system_include
  filter_input_filename parse_makeflags parse_native_makeflags fd_pair mf_args.
