
val negb : bool -> bool

type nat =
| O
| S of nat

val length : 'a1 list -> nat

val pred : nat -> nat

val add : nat -> nat -> nat

val sub : nat -> nat -> nat

module Nat :
 sig
  val eqb : nat -> nat -> bool

  val leb : nat -> nat -> bool

  val ltb : nat -> nat -> bool
 end

val nth : nat -> 'a1 list -> 'a1 -> 'a1

val map : ('a1 -> 'a2) -> 'a1 list -> 'a2 list

val fold_left : ('a1 -> 'a2 -> 'a1) -> 'a2 list -> 'a1 -> 'a1

val existsb : ('a1 -> bool) -> 'a1 list -> bool

val forallb : ('a1 -> bool) -> 'a1 list -> bool

val filter : ('a1 -> bool) -> 'a1 list -> 'a1 list

val seq : nat -> nat -> nat list

type want_t =
| WNothing
| WToStart
| WToFinish

val want_eqb : want_t -> want_t -> bool

type edge_info = { ei_ins : nat list; ei_cons : nat list; ei_pool : nat;
                   ei_phony : bool }

type graph = { g_edges : edge_info list; g_depths : nat list }

val dummy_edge : edge_info

val einfo : graph -> nat -> edge_info

val n_edges : graph -> nat

val ins : graph -> nat -> nat list

val cons_of : graph -> nat -> nat list

val pool : graph -> nat -> nat

val phony : graph -> nat -> bool

val depth : graph -> nat -> nat

val all_edges : graph -> nat list

type config = { c_j : nat; c_k : nat; c_jobserver : nat option }

val upd : (nat -> 'a1) -> nat -> 'a1 -> nat -> 'a1

val memb : nat -> nat list -> bool

val rem : nat -> nat list -> nat list

type 'a res =
| Ok of 'a
| Forbidden
| OutOfFuel

type plan = { p_want : (nat -> want_t option); p_ready : nat list;
              p_delayed : nat list; p_use : (nat -> nat); p_wanted : 
              nat; p_commands : nat; p_oready : (nat -> bool); p_tokens : 
              nat }

val set_want : plan -> (nat -> want_t option) -> plan

val set_ready : plan -> nat list -> plan

val set_delayed : plan -> nat list -> plan

val set_use : plan -> (nat -> nat) -> plan

val set_wanted : plan -> nat -> plan

val set_commands : plan -> nat -> plan

val set_oready : plan -> (nat -> bool) -> plan

val set_tokens : plan -> nat -> plan

val all_inputs_ready : graph -> plan -> nat -> bool

val more_to_do : plan -> bool

val delayed_of : graph -> nat -> nat list -> nat list

val pick : nat list -> nat list -> nat -> nat

val retrieve_n : nat -> graph -> nat list -> nat -> plan -> plan

val retrieve : graph -> nat list -> nat -> plan -> plan

val schedule_work : graph -> nat list -> nat -> plan -> plan res

val fold_res : (nat -> plan -> plan res) -> nat list -> plan -> plan res

val release_token : config -> bool -> plan -> plan option

val edge_finished :
  nat -> graph -> config -> nat list -> nat -> bool -> bool -> plan -> plan
  res

val plan_fuel : graph -> nat

val sched_init_edge : graph -> nat -> plan -> plan

val schedule_initial_plan : graph -> nat list -> plan -> plan

type phase =
| PhBuild
| PhInterrupted
| PhExited

type state = { s_plan : plan; s_running : nat list; s_pending : nat;
               s_fa : nat; s_exit : nat; s_total : nat; s_started : nat;
               s_finished : nat; s_failed : nat list; s_waiting : bool;
               s_phase : phase }

val set_plan : state -> plan -> state

type exit_msg =
| MSuccess
| MSubcommandFailed
| MCannotProgress
| MStuck
| MInterrupted

val exit_msg_eqb : exit_msg -> exit_msg -> bool

type event =
| EvStart of nat * nat list
| EvWait
| EvPrune of nat
| EvFinish of nat * nat * nat list
| EvInterrupt
| EvExit of nat * exit_msg

val exit_interrupted : nat

val capacity : config -> state -> nat

val token_ok : config -> plan -> bool

val can_start : config -> state -> bool

val in_build : state -> bool

val step_res : graph -> config -> state -> event -> state res

val step : graph -> config -> state -> event -> state option

val accepts : graph -> config -> state -> event list -> state option

type snapshot = { sn_want : (nat -> want_t option);
                  sn_oready : (nat -> bool); sn_wanted : nat;
                  sn_commands : nat }

val snap_plan : snapshot -> plan

val init_state : graph -> config -> nat list -> snapshot -> state

val run :
  graph -> config -> nat list -> snapshot -> event list -> state option

val count_if : (nat -> bool) -> nat list -> nat

val is_wanted : (nat -> want_t option) -> nat -> bool

val wf_graph_b : graph -> (nat -> nat) -> bool

val wf_snap_b : graph -> snapshot -> bool

val wf_cfg_b : config -> bool

val auto_phony :
  nat -> graph -> config -> nat list -> nat list -> state -> event
  list * state

val want_list : graph -> plan -> (nat * want_t option) list

val use_list : graph -> plan -> (nat * nat) list
