
val negb : bool -> bool

type nat =
| O
| S of nat

val fst : ('a1 * 'a2) -> 'a1

val snd : ('a1 * 'a2) -> 'a2

val length : 'a1 list -> nat

val app : 'a1 list -> 'a1 list -> 'a1 list

val pred : nat -> nat

val add : nat -> nat -> nat

val sub : nat -> nat -> nat

module Nat :
 sig
  val eqb : nat -> nat -> bool

  val leb : nat -> nat -> bool

  val ltb : nat -> nat -> bool

  val iter : nat -> ('a1 -> 'a1) -> 'a1 -> 'a1
 end

val nth : nat -> 'a1 list -> 'a1 -> 'a1

val map : ('a1 -> 'a2) -> 'a1 list -> 'a2 list

val flat_map : ('a1 -> 'a2 list) -> 'a1 list -> 'a2 list

val fold_left : ('a1 -> 'a2 -> 'a1) -> 'a2 list -> 'a1 -> 'a1

val existsb : ('a1 -> bool) -> 'a1 list -> bool

val forallb : ('a1 -> bool) -> 'a1 list -> bool

val filter : ('a1 -> bool) -> 'a1 list -> 'a1 list

val seq : nat -> nat -> nat list

type want_t =
| WNothing
| WToStart
| WToFinish

val want_eqb : want_t -> want_t -> bool

type gated = nat * nat option

type edge_info = { ei_ins : gated list; ei_cons : gated list; ei_pool : 
                   nat; ei_phony : bool; ei_ddprod : nat option;
                   ei_ddouts : nat list }

type graph = { g_edges : edge_info list; g_depths : nat list }

val dummy_edge : edge_info

val einfo : graph -> nat -> edge_info

val n_edges : graph -> nat

val ddprod : graph -> nat -> nat option

val ddouts : graph -> nat -> nat list

val pool : graph -> nat -> nat

val phony : graph -> nat -> bool

val depth : graph -> nat -> nat

val all_edges : graph -> nat list

type config = { c_j : nat; c_k : nat; c_jobserver : nat option }

val upd : (nat -> 'a1) -> nat -> 'a1 -> nat -> 'a1

val memb : nat -> nat list -> bool

val rem : nat -> nat list -> nat list

type 'a res =
| Ok of 'a
| Forbidden
| OutOfFuel

type plan = { p_want : (nat -> want_t option); p_ready : nat list;
              p_delayed : nat list; p_use : (nat -> nat); p_wanted : 
              nat; p_commands : nat; p_oready : (nat -> bool);
              p_tokens : nat; p_loaded : (nat -> bool) }

val set_want : plan -> (nat -> want_t option) -> plan

val set_ready : plan -> nat list -> plan

val set_delayed : plan -> nat list -> plan

val set_use : plan -> (nat -> nat) -> plan

val set_wanted : plan -> nat -> plan

val set_commands : plan -> nat -> plan

val set_oready : plan -> (nat -> bool) -> plan

val set_tokens : plan -> nat -> plan

val set_loaded : plan -> (nat -> bool) -> plan

val active : plan -> gated -> bool

val ins_at : graph -> plan -> nat -> nat list

val cons_at : graph -> plan -> nat -> nat list

val all_inputs_ready : graph -> plan -> nat -> bool

val more_to_do : plan -> bool

val delayed_of : graph -> nat -> nat list -> nat list

val pick : nat list -> nat list -> nat -> nat

val retrieve_n : nat -> graph -> nat list -> nat -> plan -> plan

val retrieve : graph -> nat list -> nat -> plan -> plan

val schedule_work : graph -> nat list -> nat -> plan -> plan res

val fold_res : (nat -> plan -> plan res) -> nat list -> plan -> plan res

val release_token : config -> bool -> plan -> plan option

val count_if : (nat -> bool) -> nat list -> nat

val is_wanted : (nat -> want_t option) -> nat -> bool

val npwf : graph -> (nat -> want_t option) -> nat

val in_want : plan -> nat -> bool

type load = { ld_dirty : nat list; ld_ready : nat list;
              ld_added : (nat * bool) list; ld_walk : nat list }

val edge_wanted : graph -> nat -> plan -> plan

val add_new : nat list -> nat list -> nat list

val dep_step : graph -> plan -> nat list -> nat list

val dependents : graph -> plan -> nat -> nat list

val op_dirty : graph -> nat list -> nat -> plan -> plan option

val op_ready : graph -> nat -> plan -> plan option

val op_ready_try : graph -> nat -> plan -> plan

val ready_pre : graph -> plan -> nat -> bool

val op_rescan : graph -> nat -> plan -> plan

val rescan_round : graph -> nat list -> nat list -> plan -> plan

val op_add : graph -> (nat * bool) -> plan -> plan option

val fold_opt : ('a1 -> plan -> plan option) -> 'a1 list -> plan -> plan option

val chk_closed : graph -> plan -> bool

val chk_sched : graph -> plan -> bool

val chk_oclosed : graph -> plan -> bool

val chk_walk : graph -> plan -> plan -> nat list -> bool

val is_nothing : want_t option -> bool

val chk_evol : graph -> load -> plan -> plan -> bool

val bound : graph -> plan -> nat -> nat list

val apply_load_gen :
  bool -> graph -> (nat -> load option) -> nat -> plan -> (plan * nat list)
  res

val apply_load :
  graph -> (nat -> load option) -> nat -> plan -> (plan * nat list) res

val edge_finished :
  nat -> graph -> config -> nat list -> (nat -> load option) -> nat -> bool
  -> bool -> plan -> plan res

val plan_fuel : graph -> nat

val sched_init_edge : graph -> nat -> plan -> plan

val schedule_initial_plan : graph -> nat list -> plan -> plan

type phase =
| PhBuild
| PhInterrupted
| PhExited

type state = { s_plan : plan; s_running : nat list; s_pending : nat;
               s_fa : nat; s_exit : nat; s_total : nat; s_started : nat;
               s_finished : nat; s_failed : nat list; s_waiting : bool;
               s_phase : phase }

val set_plan : state -> plan -> state

type exit_msg =
| MSuccess
| MSubcommandFailed
| MCannotProgress
| MStuck
| MInterrupted

val exit_msg_eqb : exit_msg -> exit_msg -> bool

type event =
| EvStart of nat * nat list
| EvWait
| EvPrune of nat
| EvFinish of nat * nat * nat list
| EvInterrupt
| EvExit of nat * exit_msg

val exit_interrupted : nat

val capacity : config -> state -> nat

val token_ok : config -> plan -> bool

val can_start : config -> state -> bool

val in_build : state -> bool

type ef_type =
  nat -> graph -> config -> nat list -> (nat -> load option) -> nat -> bool
  -> bool -> plan -> plan res

val exit_failure : nat

val step_res_gen :
  bool -> ef_type -> graph -> config -> (nat -> load option) -> state ->
  event -> state res

val step_res :
  graph -> config -> (nat -> load option) -> state -> event -> state res

val step :
  graph -> config -> (nat -> load option) -> state -> event -> state option

val accepts :
  graph -> config -> (nat -> load option) -> state -> event list -> state
  option

type snapshot = { sn_want : (nat -> want_t option);
                  sn_oready : (nat -> bool); sn_wanted : nat;
                  sn_commands : nat }

val snap_plan : snapshot -> plan

val init_state : graph -> config -> nat list -> snapshot -> state

val run :
  graph -> config -> (nat -> load option) -> nat list -> snapshot -> event
  list -> state option

val gated_eqb : gated -> gated -> bool

val memg : gated -> gated list -> bool

val wf_graph_b : graph -> (nat -> nat) -> bool

val wf_snap_b : graph -> snapshot -> bool

val wf_cfg_b : config -> bool

val auto_phony :
  nat -> graph -> config -> (nat -> load option) -> nat list -> nat list ->
  state -> event list * state

val want_list : graph -> plan -> (nat * want_t option) list

val use_list : graph -> plan -> (nat * nat) list
