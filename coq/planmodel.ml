
(** val negb : bool -> bool **)

let negb = function
| true -> false
| false -> true

type nat =
| O
| S of nat

(** val fst : ('a1 * 'a2) -> 'a1 **)

let fst = function
| (x, _) -> x

(** val snd : ('a1 * 'a2) -> 'a2 **)

let snd = function
| (_, y) -> y

(** val length : 'a1 list -> nat **)

let rec length = function
| [] -> O
| _ :: l' -> S (length l')

(** val app : 'a1 list -> 'a1 list -> 'a1 list **)

let rec app l m =
  match l with
  | [] -> m
  | a :: l1 -> a :: (app l1 m)

(** val pred : nat -> nat **)

let pred n = match n with
| O -> n
| S u -> u

(** val add : nat -> nat -> nat **)

let rec add n m =
  match n with
  | O -> m
  | S p -> S (add p m)

(** val sub : nat -> nat -> nat **)

let rec sub n m =
  match n with
  | O -> n
  | S k -> (match m with
            | O -> n
            | S l -> sub k l)

module Nat =
 struct
  (** val eqb : nat -> nat -> bool **)

  let rec eqb n m =
    match n with
    | O -> (match m with
            | O -> true
            | S _ -> false)
    | S n' -> (match m with
               | O -> false
               | S m' -> eqb n' m')

  (** val leb : nat -> nat -> bool **)

  let rec leb n m =
    match n with
    | O -> true
    | S n' -> (match m with
               | O -> false
               | S m' -> leb n' m')

  (** val ltb : nat -> nat -> bool **)

  let ltb n m =
    leb (S n) m

  (** val iter : nat -> ('a1 -> 'a1) -> 'a1 -> 'a1 **)

  let rec iter n f x =
    match n with
    | O -> x
    | S n0 -> f (iter n0 f x)
 end

(** val nth : nat -> 'a1 list -> 'a1 -> 'a1 **)

let rec nth n l default =
  match n with
  | O -> (match l with
          | [] -> default
          | x :: _ -> x)
  | S m -> (match l with
            | [] -> default
            | _ :: t -> nth m t default)

(** val map : ('a1 -> 'a2) -> 'a1 list -> 'a2 list **)

let rec map f = function
| [] -> []
| a :: t -> (f a) :: (map f t)

(** val flat_map : ('a1 -> 'a2 list) -> 'a1 list -> 'a2 list **)

let rec flat_map f = function
| [] -> []
| x :: t -> app (f x) (flat_map f t)

(** val fold_left : ('a1 -> 'a2 -> 'a1) -> 'a2 list -> 'a1 -> 'a1 **)

let rec fold_left f l a0 =
  match l with
  | [] -> a0
  | b :: t -> fold_left f t (f a0 b)

(** val existsb : ('a1 -> bool) -> 'a1 list -> bool **)

let rec existsb f = function
| [] -> false
| a :: l0 -> (||) (f a) (existsb f l0)

(** val forallb : ('a1 -> bool) -> 'a1 list -> bool **)

let rec forallb f = function
| [] -> true
| a :: l0 -> (&&) (f a) (forallb f l0)

(** val filter : ('a1 -> bool) -> 'a1 list -> 'a1 list **)

let rec filter f = function
| [] -> []
| x :: l0 -> if f x then x :: (filter f l0) else filter f l0

(** val seq : nat -> nat -> nat list **)

let rec seq start = function
| O -> []
| S len0 -> start :: (seq (S start) len0)

type want_t =
| WNothing
| WToStart
| WToFinish

(** val want_eqb : want_t -> want_t -> bool **)

let want_eqb a b =
  match a with
  | WNothing -> (match b with
                 | WNothing -> true
                 | _ -> false)
  | WToStart -> (match b with
                 | WToStart -> true
                 | _ -> false)
  | WToFinish -> (match b with
                  | WToFinish -> true
                  | _ -> false)

type gated = nat * nat option

type edge_info = { ei_ins : gated list; ei_cons : gated list; ei_pool : 
                   nat; ei_phony : bool; ei_ddprod : nat option;
                   ei_ddouts : nat list }

type graph = { g_edges : edge_info list; g_depths : nat list }

(** val dummy_edge : edge_info **)

let dummy_edge =
  { ei_ins = []; ei_cons = []; ei_pool = O; ei_phony = false; ei_ddprod =
    None; ei_ddouts = [] }

(** val einfo : graph -> nat -> edge_info **)

let einfo g e =
  nth e g.g_edges dummy_edge

(** val n_edges : graph -> nat **)

let n_edges g =
  length g.g_edges

(** val ddprod : graph -> nat -> nat option **)

let ddprod g e =
  (einfo g e).ei_ddprod

(** val ddouts : graph -> nat -> nat list **)

let ddouts g e =
  (einfo g e).ei_ddouts

(** val pool : graph -> nat -> nat **)

let pool g e =
  (einfo g e).ei_pool

(** val phony : graph -> nat -> bool **)

let phony g e =
  (einfo g e).ei_phony

(** val depth : graph -> nat -> nat **)

let depth g q =
  nth q g.g_depths O

(** val all_edges : graph -> nat list **)

let all_edges g =
  seq O (n_edges g)

type config = { c_j : nat; c_k : nat; c_jobserver : nat option }

(** val upd : (nat -> 'a1) -> nat -> 'a1 -> nat -> 'a1 **)

let upd f k v x =
  if Nat.eqb x k then v else f x

(** val memb : nat -> nat list -> bool **)

let memb x l =
  existsb (Nat.eqb x) l

(** val rem : nat -> nat list -> nat list **)

let rec rem x = function
| [] -> []
| y :: t -> if Nat.eqb x y then rem x t else y :: (rem x t)

type 'a res =
| Ok of 'a
| Forbidden
| OutOfFuel

type plan = { p_want : (nat -> want_t option); p_ready : nat list;
              p_delayed : nat list; p_use : (nat -> nat); p_wanted : 
              nat; p_commands : nat; p_oready : (nat -> bool);
              p_tokens : nat; p_loaded : (nat -> bool) }

(** val set_want : plan -> (nat -> want_t option) -> plan **)

let set_want p w =
  { p_want = w; p_ready = p.p_ready; p_delayed = p.p_delayed; p_use =
    p.p_use; p_wanted = p.p_wanted; p_commands = p.p_commands; p_oready =
    p.p_oready; p_tokens = p.p_tokens; p_loaded = p.p_loaded }

(** val set_ready : plan -> nat list -> plan **)

let set_ready p r =
  { p_want = p.p_want; p_ready = r; p_delayed = p.p_delayed; p_use = p.p_use;
    p_wanted = p.p_wanted; p_commands = p.p_commands; p_oready = p.p_oready;
    p_tokens = p.p_tokens; p_loaded = p.p_loaded }

(** val set_delayed : plan -> nat list -> plan **)

let set_delayed p d =
  { p_want = p.p_want; p_ready = p.p_ready; p_delayed = d; p_use = p.p_use;
    p_wanted = p.p_wanted; p_commands = p.p_commands; p_oready = p.p_oready;
    p_tokens = p.p_tokens; p_loaded = p.p_loaded }

(** val set_use : plan -> (nat -> nat) -> plan **)

let set_use p u =
  { p_want = p.p_want; p_ready = p.p_ready; p_delayed = p.p_delayed; p_use =
    u; p_wanted = p.p_wanted; p_commands = p.p_commands; p_oready =
    p.p_oready; p_tokens = p.p_tokens; p_loaded = p.p_loaded }

(** val set_wanted : plan -> nat -> plan **)

let set_wanted p n =
  { p_want = p.p_want; p_ready = p.p_ready; p_delayed = p.p_delayed; p_use =
    p.p_use; p_wanted = n; p_commands = p.p_commands; p_oready = p.p_oready;
    p_tokens = p.p_tokens; p_loaded = p.p_loaded }

(** val set_commands : plan -> nat -> plan **)

let set_commands p n =
  { p_want = p.p_want; p_ready = p.p_ready; p_delayed = p.p_delayed; p_use =
    p.p_use; p_wanted = p.p_wanted; p_commands = n; p_oready = p.p_oready;
    p_tokens = p.p_tokens; p_loaded = p.p_loaded }

(** val set_oready : plan -> (nat -> bool) -> plan **)

let set_oready p o =
  { p_want = p.p_want; p_ready = p.p_ready; p_delayed = p.p_delayed; p_use =
    p.p_use; p_wanted = p.p_wanted; p_commands = p.p_commands; p_oready = o;
    p_tokens = p.p_tokens; p_loaded = p.p_loaded }

(** val set_tokens : plan -> nat -> plan **)

let set_tokens p n =
  { p_want = p.p_want; p_ready = p.p_ready; p_delayed = p.p_delayed; p_use =
    p.p_use; p_wanted = p.p_wanted; p_commands = p.p_commands; p_oready =
    p.p_oready; p_tokens = n; p_loaded = p.p_loaded }

(** val set_loaded : plan -> (nat -> bool) -> plan **)

let set_loaded p l =
  { p_want = p.p_want; p_ready = p.p_ready; p_delayed = p.p_delayed; p_use =
    p.p_use; p_wanted = p.p_wanted; p_commands = p.p_commands; p_oready =
    p.p_oready; p_tokens = p.p_tokens; p_loaded = l }

(** val active : plan -> gated -> bool **)

let active p x =
  match snd x with
  | Some b -> p.p_loaded b
  | None -> true

(** val ins_at : graph -> plan -> nat -> nat list **)

let ins_at g p e =
  map fst (filter (active p) (einfo g e).ei_ins)

(** val cons_at : graph -> plan -> nat -> nat list **)

let cons_at g p e =
  map fst (filter (active p) (einfo g e).ei_cons)

(** val all_inputs_ready : graph -> plan -> nat -> bool **)

let all_inputs_ready g p e =
  forallb p.p_oready (ins_at g p e)

(** val more_to_do : plan -> bool **)

let more_to_do p =
  (&&) (Nat.ltb O p.p_wanted) (Nat.ltb O p.p_commands)

(** val delayed_of : graph -> nat -> nat list -> nat list **)

let delayed_of g q dl =
  filter (fun e -> Nat.eqb (pool g e) q) dl

(** val pick : nat list -> nat list -> nat -> nat **)

let rec pick prio dl dflt =
  match prio with
  | [] -> dflt
  | x :: t -> if memb x dl then x else pick t dl dflt

(** val retrieve_n : nat -> graph -> nat list -> nat -> plan -> plan **)

let rec retrieve_n n g prio q p =
  match n with
  | O -> p
  | S n' ->
    (match delayed_of g q p.p_delayed with
     | [] -> p
     | d0 :: dq ->
       if Nat.ltb (depth g q) (add (p.p_use q) (S O))
       then p
       else let x = pick prio (d0 :: dq) d0 in
            retrieve_n n' g prio q
              (set_use
                (set_ready (set_delayed p (rem x p.p_delayed))
                  (x :: p.p_ready)) (upd p.p_use q (add (p.p_use q) (S O)))))

(** val retrieve : graph -> nat list -> nat -> plan -> plan **)

let retrieve g prio q p =
  retrieve_n (length p.p_delayed) g prio q p

(** val schedule_work : graph -> nat list -> nat -> plan -> plan res **)

let schedule_work g prio e p =
  match p.p_want e with
  | Some w ->
    (match w with
     | WNothing -> Forbidden
     | WToStart ->
       let p1 = set_want p (upd p.p_want e (Some WToFinish)) in
       if Nat.eqb (depth g (pool g e)) O
       then Ok (set_ready p1 (e :: p1.p_ready))
       else Ok
              (retrieve g prio (pool g e)
                (set_delayed p1 (e :: p1.p_delayed)))
     | WToFinish -> Ok p)
  | None -> Forbidden

(** val fold_res :
    (nat -> plan -> plan res) -> nat list -> plan -> plan res **)

let rec fold_res f l p =
  match l with
  | [] -> Ok p
  | d :: t -> (match f d p with
               | Ok p' -> fold_res f t p'
               | x -> x)

(** val release_token : config -> bool -> plan -> plan option **)

let release_token cfg holds_slot p =
  match cfg.c_jobserver with
  | Some _ ->
    if holds_slot
    then (match p.p_tokens with
          | O -> None
          | S t -> Some (set_tokens p t))
    else Some p
  | None -> Some p

(** val count_if : (nat -> bool) -> nat list -> nat **)

let count_if f l =
  length (filter f l)

(** val is_wanted : (nat -> want_t option) -> nat -> bool **)

let is_wanted w e =
  match w e with
  | Some w0 -> (match w0 with
                | WNothing -> false
                | _ -> true)
  | None -> false

(** val npwf : graph -> (nat -> want_t option) -> nat **)

let npwf g w =
  count_if (fun e -> (&&) (is_wanted w e) (negb (phony g e))) (all_edges g)

(** val in_want : plan -> nat -> bool **)

let in_want p e =
  match p.p_want e with
  | Some _ -> true
  | None -> false

type load = { ld_dirty : nat list; ld_ready : nat list;
              ld_added : (nat * bool) list; ld_walk : nat list }

(** val edge_wanted : graph -> nat -> plan -> plan **)

let edge_wanted g e p =
  let p1 = set_wanted p (S p.p_wanted) in
  if phony g e then p1 else set_commands p1 (S p1.p_commands)

(** val add_new : nat list -> nat list -> nat list **)

let add_new l acc =
  fold_left (fun a c -> if memb c a then a else app a (c :: [])) l acc

(** val dep_step : graph -> plan -> nat list -> nat list **)

let dep_step g p ds =
  add_new (filter (in_want p) (flat_map (cons_at g p) ds)) ds

(** val dependents : graph -> plan -> nat -> nat list **)

let dependents g p e =
  Nat.iter (n_edges g) (dep_step g p)
    (add_new (filter (in_want p) (ddouts g e)) [])

(** val op_dirty : graph -> nat list -> nat -> plan -> plan option **)

let op_dirty g deps x p =
  match p.p_want x with
  | Some w ->
    (match w with
     | WNothing ->
       if (&&) ((&&) (Nat.ltb x (n_edges g)) (memb x deps))
            (negb (p.p_oready x))
       then Some
              (edge_wanted g x (set_want p (upd p.p_want x (Some WToStart))))
       else None
     | _ -> None)
  | None -> None

(** val op_ready : graph -> nat -> plan -> plan option **)

let op_ready g x p =
  match p.p_want x with
  | Some _ -> None
  | None ->
    if (&&) ((&&) (Nat.ltb x (n_edges g)) (negb (p.p_oready x)))
         (all_inputs_ready g p x)
    then Some (set_oready p (upd p.p_oready x true))
    else None

(** val op_ready_try : graph -> nat -> plan -> plan **)

let op_ready_try g x p =
  match op_ready g x p with
  | Some p' -> p'
  | None -> p

(** val ready_pre : graph -> plan -> nat -> bool **)

let ready_pre g p x =
  match p.p_want x with
  | Some _ -> false
  | None -> (&&) (Nat.ltb x (n_edges g)) (negb (p.p_oready x))

(** val op_rescan : graph -> nat -> plan -> plan **)

let op_rescan g x p =
  match p.p_want x with
  | Some w ->
    (match w with
     | WNothing ->
       if (&&) ((&&) (Nat.ltb x (n_edges g)) (negb (p.p_oready x)))
            (all_inputs_ready g p x)
       then set_oready p (upd p.p_oready x true)
       else p
     | _ -> p)
  | None -> p

(** val rescan_round : graph -> nat list -> nat list -> plan -> plan **)

let rescan_round g deps rd p =
  fold_left (fun a x -> op_rescan g x a) deps
    (fold_left (fun a x -> op_ready_try g x a) rd p)

(** val op_add : graph -> (nat * bool) -> plan -> plan option **)

let op_add g xw p =
  let x = fst xw in
  (match p.p_want x with
   | Some _ -> None
   | None ->
     if (&&) (Nat.ltb x (n_edges g)) (negb (p.p_oready x))
     then Some
            (if snd xw
             then edge_wanted g x
                    (set_want p (upd p.p_want x (Some WToStart)))
             else set_want p (upd p.p_want x (Some WNothing)))
     else None)

(** val fold_opt :
    ('a1 -> plan -> plan option) -> 'a1 list -> plan -> plan option **)

let rec fold_opt f l p =
  match l with
  | [] -> Some p
  | x :: t -> (match f x p with
               | Some p' -> fold_opt f t p'
               | None -> None)

(** val chk_closed : graph -> plan -> bool **)

let chk_closed g p =
  forallb (fun x ->
    (||) (negb (in_want p x))
      (forallb (fun i -> (||) (p.p_oready i) (in_want p i)) (ins_at g p x)))
    (all_edges g)

(** val chk_sched : graph -> plan -> bool **)

let chk_sched g p =
  forallb (fun x ->
    match p.p_want x with
    | Some w -> (match w with
                 | WToFinish -> all_inputs_ready g p x
                 | _ -> true)
    | None -> true) (all_edges g)

(** val chk_oclosed : graph -> plan -> bool **)

let chk_oclosed g p =
  forallb (fun x -> (||) (negb (p.p_oready x)) (all_inputs_ready g p x))
    (all_edges g)

(** val chk_walk : graph -> plan -> plan -> nat list -> bool **)

let chk_walk g p0 p walk =
  forallb (fun x ->
    match p.p_want x with
    | Some w ->
      (match w with
       | WToFinish -> true
       | _ ->
         (||)
           ((||) ((||) (negb (all_inputs_ready g p x)) (memb x walk))
             ((&&) (all_inputs_ready g p0 x) (in_want p0 x)))
           (existsb (fun i ->
             (&&) (p.p_oready i)
               (match p.p_want i with
                | Some w0 -> (match w0 with
                              | WNothing -> true
                              | _ -> false)
                | None -> false)) (ins_at g p x)))
    | None -> true) (all_edges g)

(** val is_nothing : want_t option -> bool **)

let is_nothing = function
| Some w0 -> (match w0 with
              | WNothing -> true
              | _ -> false)
| None -> false

(** val chk_evol : graph -> load -> plan -> plan -> bool **)

let chk_evol g l p0 p =
  (&&)
    ((&&)
      ((&&)
        (forallb (fun x ->
          (&&)
            ((&&)
              (match p0.p_want x with
               | Some a ->
                 (match p.p_want x with
                  | Some b ->
                    (||) (want_eqb a b)
                      ((&&) (want_eqb a WNothing) (want_eqb b WToStart))
                  | None -> false)
               | None ->
                 (match p.p_want x with
                  | Some b ->
                    (&&)
                      ((&&) (negb (want_eqb b WToFinish))
                        (negb (p.p_oready x)))
                      ((||) (want_eqb b WToStart)
                        (existsb (fun a ->
                          (&&) (Nat.eqb (fst a) x) (negb (snd a))) l.ld_added))
                  | None -> true))
              ((||) ((||) (negb (p.p_oready x)) (is_nothing (p.p_want x)))
                (negb (in_want p x))))
            ((||)
              ((||) ((||) (negb (p.p_oready x)) (p0.p_oready x))
                (is_nothing (p0.p_want x))) (memb x l.ld_ready)))
          (all_edges g))
        (Nat.eqb p.p_wanted (count_if (is_wanted p.p_want) (all_edges g))))
      (Nat.eqb (add p.p_commands (npwf g p0.p_want))
        (add p0.p_commands (npwf g p.p_want))))
    (Nat.leb p0.p_commands p.p_commands)

(** val bound : graph -> plan -> nat -> nat list **)

let bound g p e =
  filter (fun b ->
    (&&) (match ddprod g b with
          | Some e' -> Nat.eqb e' e
          | None -> false) (negb (p.p_loaded b))) (all_edges g)

(** val apply_load_gen :
    bool -> graph -> (nat -> load option) -> nat -> plan -> (plan * nat list)
    res **)

let apply_load_gen strict g loads e p =
  match bound g p e with
  | [] -> Ok (p, [])
  | n :: l ->
    (match loads e with
     | Some l0 ->
       let p1 = set_loaded p (fun b -> (||) (memb b (n :: l)) (p.p_loaded b))
       in
       let deps = dependents g p1 e in
       (match fold_opt (op_dirty g deps) l0.ld_dirty p1 with
        | Some p2 ->
          if forallb (ready_pre g p2) l0.ld_ready
          then let p4 =
                 Nat.iter (n_edges g) (rescan_round g deps l0.ld_ready) p2
               in
               if forallb p4.p_oready l0.ld_ready
               then (match fold_opt (op_add g) l0.ld_added p4 with
                     | Some p5 ->
                       if (&&)
                            ((&&)
                              ((&&)
                                ((&&) (chk_evol g l0 p p5) (chk_closed g p5))
                                (chk_sched g p5)) (chk_oclosed g p5))
                            ((||) (negb strict) (chk_walk g p p5 l0.ld_walk))
                       then Ok (p5, l0.ld_walk)
                       else Forbidden
                     | None -> Forbidden)
               else Forbidden
          else Forbidden
        | None -> Forbidden)
     | None -> Forbidden)

(** val apply_load :
    graph -> (nat -> load option) -> nat -> plan -> (plan * nat list) res **)

let apply_load g loads e p =
  apply_load_gen true g loads e p

(** val edge_finished :
    nat -> graph -> config -> nat list -> (nat -> load option) -> nat -> bool
    -> bool -> plan -> plan res **)

let rec edge_finished fuel g cfg prio loads e success holds_slot p =
  match fuel with
  | O -> OutOfFuel
  | S fuel' ->
    (match p.p_want e with
     | Some w ->
       let dw = negb (want_eqb w WNothing) in
       let q = pool g e in
       let released =
         if (&&) dw (negb (Nat.eqb (depth g q) O))
         then (match p.p_use q with
               | O -> None
               | S u -> Some (set_use p (upd p.p_use q u)))
         else Some p
       in
       (match released with
        | Some p1 ->
          let p2 = retrieve g prio q p1 in
          (match release_token cfg holds_slot p2 with
           | Some p3 ->
             if negb success
             then Ok p3
             else let wanted' =
                    if dw
                    then (match p3.p_wanted with
                          | O -> None
                          | S n -> Some n)
                    else Some p3.p_wanted
                  in
                  (match wanted' with
                   | Some n ->
                     let p4 =
                       set_oready
                         (set_want (set_wanted p3 n) (upd p3.p_want e None))
                         (upd p3.p_oready e true)
                     in
                     (match apply_load g loads e p4 with
                      | Ok a ->
                        let (p5, walk) = a in
                        fold_res (fun d pp ->
                          match pp.p_want d with
                          | Some wd ->
                            if all_inputs_ready g pp d
                            then if want_eqb wd WNothing
                                 then edge_finished fuel' g cfg prio loads d
                                        true false pp
                                 else schedule_work g prio d pp
                            else Ok pp
                          | None -> Ok pp) (app walk (cons_at g p5 e)) p5
                      | Forbidden -> Forbidden
                      | OutOfFuel -> OutOfFuel)
                   | None -> Forbidden)
           | None -> Forbidden)
        | None -> Forbidden)
     | None -> Forbidden)

(** val plan_fuel : graph -> nat **)

let plan_fuel g =
  S (n_edges g)

(** val sched_init_edge : graph -> nat -> plan -> plan **)

let sched_init_edge g e p =
  match p.p_want e with
  | Some w ->
    (match w with
     | WToStart ->
       if all_inputs_ready g p e
       then if Nat.eqb (depth g (pool g e)) O
            then set_ready (set_want p (upd p.p_want e (Some WToFinish)))
                   (e :: p.p_ready)
            else set_delayed (set_want p (upd p.p_want e (Some WToFinish)))
                   (e :: p.p_delayed)
       else p
     | _ -> p)
  | None -> p

(** val schedule_initial_plan : graph -> nat list -> plan -> plan **)

let schedule_initial_plan g prio p =
  let p1 = fold_left (fun pp e -> sched_init_edge g e pp) (all_edges g) p in
  fold_left (fun pp q -> retrieve g prio q pp) (seq O (length g.g_depths)) p1

type phase =
| PhBuild
| PhInterrupted
| PhExited

type state = { s_plan : plan; s_running : nat list; s_pending : nat;
               s_fa : nat; s_exit : nat; s_total : nat; s_started : nat;
               s_finished : nat; s_failed : nat list; s_waiting : bool;
               s_phase : phase }

(** val set_plan : state -> plan -> state **)

let set_plan s p =
  { s_plan = p; s_running = s.s_running; s_pending = s.s_pending; s_fa =
    s.s_fa; s_exit = s.s_exit; s_total = s.s_total; s_started = s.s_started;
    s_finished = s.s_finished; s_failed = s.s_failed; s_waiting =
    s.s_waiting; s_phase = s.s_phase }

type exit_msg =
| MSuccess
| MSubcommandFailed
| MCannotProgress
| MStuck
| MInterrupted

(** val exit_msg_eqb : exit_msg -> exit_msg -> bool **)

let exit_msg_eqb a b =
  match a with
  | MSuccess -> (match b with
                 | MSuccess -> true
                 | _ -> false)
  | MSubcommandFailed -> (match b with
                          | MSubcommandFailed -> true
                          | _ -> false)
  | MCannotProgress -> (match b with
                        | MCannotProgress -> true
                        | _ -> false)
  | MStuck -> (match b with
               | MStuck -> true
               | _ -> false)
  | MInterrupted -> (match b with
                     | MInterrupted -> true
                     | _ -> false)

type event =
| EvStart of nat * nat list
| EvWait
| EvPrune of nat
| EvFinish of nat * nat * nat list
| EvInterrupt
| EvExit of nat * exit_msg

(** val exit_interrupted : nat **)

let exit_interrupted =
  S (S (S (S (S (S (S (S (S (S (S (S (S (S (S (S (S (S (S (S (S (S (S (S (S
    (S (S (S (S (S (S (S (S (S (S (S (S (S (S (S (S (S (S (S (S (S (S (S (S
    (S (S (S (S (S (S (S (S (S (S (S (S (S (S (S (S (S (S (S (S (S (S (S (S
    (S (S (S (S (S (S (S (S (S (S (S (S (S (S (S (S (S (S (S (S (S (S (S (S
    (S (S (S (S (S (S (S (S (S (S (S (S (S (S (S (S (S (S (S (S (S (S (S (S
    (S (S (S (S (S (S (S (S (S
    O)))))))))))))))))))))))))))))))))))))))))))))))))))))))))))))))))))))))))))))))))))))))))))))))))))))))))))))))))))))))))))))))))

(** val capacity : config -> state -> nat **)

let capacity cfg s =
  sub cfg.c_j (length s.s_running)

(** val token_ok : config -> plan -> bool **)

let token_ok cfg p =
  match cfg.c_jobserver with
  | Some n -> Nat.ltb p.p_tokens (S n)
  | None -> true

(** val can_start : config -> state -> bool **)

let can_start cfg s =
  (&&)
    ((&&) ((&&) (Nat.ltb O s.s_fa) (Nat.ltb O (capacity cfg s)))
      (match s.s_plan.p_ready with
       | [] -> false
       | _ :: _ -> true)) (token_ok cfg s.s_plan)

(** val in_build : state -> bool **)

let in_build s =
  match s.s_phase with
  | PhBuild -> true
  | _ -> false

type ef_type =
  nat -> graph -> config -> nat list -> (nat -> load option) -> nat -> bool
  -> bool -> plan -> plan res

(** val exit_failure : nat **)

let exit_failure =
  S O

(** val step_res_gen :
    bool -> ef_type -> graph -> config -> (nat -> load option) -> state ->
    event -> state res **)

let step_res_gen stuck_fixed ef g cfg loads s ev =
  let p = s.s_plan in
  (match ev with
   | EvStart (e, prio) ->
     if (&&)
          ((&&)
            ((&&)
              ((&&)
                ((&&) ((&&) (in_build s) (negb s.s_waiting)) (more_to_do p))
                (Nat.ltb O s.s_fa)) (Nat.ltb O (capacity cfg s)))
            (memb e p.p_ready)) (token_ok cfg p)
     then let p1 = set_ready p (rem e p.p_ready) in
          let p2 =
            match cfg.c_jobserver with
            | Some _ -> set_tokens p1 (S p1.p_tokens)
            | None -> p1
          in
          if phony g e
          then (match ef (plan_fuel g) g cfg prio loads e true true p2 with
                | Ok p3 ->
                  Ok { s_plan = p3; s_running = s.s_running; s_pending =
                    s.s_pending; s_fa = s.s_fa; s_exit = s.s_exit; s_total =
                    (add s.s_total (sub p3.p_commands p2.p_commands));
                    s_started = s.s_started; s_finished = s.s_finished;
                    s_failed = s.s_failed; s_waiting = s.s_waiting; s_phase =
                    s.s_phase }
                | Forbidden -> Forbidden
                | OutOfFuel -> OutOfFuel)
          else Ok { s_plan = p2; s_running = (e :: s.s_running); s_pending =
                 (S s.s_pending); s_fa = s.s_fa; s_exit = s.s_exit; s_total =
                 s.s_total; s_started = (S s.s_started); s_finished =
                 s.s_finished; s_failed = s.s_failed; s_waiting = false;
                 s_phase = s.s_phase }
     else Forbidden
   | EvWait ->
     if (&&)
          ((&&) ((&&) ((&&) (in_build s) (negb s.s_waiting)) (more_to_do p))
            (Nat.ltb O s.s_pending)) (negb (can_start cfg s))
     then Ok { s_plan = p; s_running = s.s_running; s_pending = s.s_pending;
            s_fa = s.s_fa; s_exit = s.s_exit; s_total = s.s_total;
            s_started = s.s_started; s_finished = s.s_finished; s_failed =
            s.s_failed; s_waiting = true; s_phase = s.s_phase }
     else Forbidden
   | EvPrune e ->
     if (&&)
          ((&&) ((&&) (in_build s) s.s_waiting)
            (match p.p_want e with
             | Some w -> (match w with
                          | WToStart -> true
                          | _ -> false)
             | None -> false)) (negb (all_inputs_ready g p e))
     then (match p.p_wanted with
           | O -> Forbidden
           | S w ->
             let p1 =
               set_wanted (set_want p (upd p.p_want e (Some WNothing))) w
             in
             if phony g e
             then Ok (set_plan s p1)
             else (match p1.p_commands with
                   | O -> Forbidden
                   | S c ->
                     (match s.s_total with
                      | O -> Forbidden
                      | S t ->
                        Ok { s_plan = (set_commands p1 c); s_running =
                          s.s_running; s_pending = s.s_pending; s_fa =
                          s.s_fa; s_exit = s.s_exit; s_total = t; s_started =
                          s.s_started; s_finished = s.s_finished; s_failed =
                          s.s_failed; s_waiting = s.s_waiting; s_phase =
                          s.s_phase })))
     else Forbidden
   | EvFinish (e, code, prio) ->
     if (&&) ((&&) ((&&) (in_build s) s.s_waiting) (memb e s.s_running))
          (negb (Nat.eqb code exit_interrupted))
     then (match s.s_pending with
           | O -> Forbidden
           | S pend ->
             let run' = rem e s.s_running in
             let fin' = S s.s_finished in
             if Nat.eqb code O
             then (match ef (plan_fuel g) g cfg prio loads e true true p with
                   | Ok p' ->
                     Ok { s_plan = p'; s_running = run'; s_pending = pend;
                       s_fa = s.s_fa; s_exit = s.s_exit; s_total =
                       (add s.s_total (sub p'.p_commands p.p_commands));
                       s_started = s.s_started; s_finished = fin'; s_failed =
                       s.s_failed; s_waiting = false; s_phase = s.s_phase }
                   | Forbidden -> Forbidden
                   | OutOfFuel -> OutOfFuel)
             else (match ef (plan_fuel g) g cfg prio loads e false true p with
                   | Ok p' ->
                     Ok { s_plan = p'; s_running = run'; s_pending = pend;
                       s_fa = (pred s.s_fa); s_exit = code; s_total =
                       s.s_total; s_started = s.s_started; s_finished = fin';
                       s_failed = (e :: s.s_failed); s_waiting = false;
                       s_phase = s.s_phase }
                   | Forbidden -> Forbidden
                   | OutOfFuel -> OutOfFuel))
     else Forbidden
   | EvInterrupt ->
     if (&&) (in_build s) s.s_waiting
     then Ok { s_plan = (set_tokens p (sub p.p_tokens (length s.s_running)));
            s_running = []; s_pending = s.s_pending; s_fa = s.s_fa; s_exit =
            s.s_exit; s_total = s.s_total; s_started = s.s_started;
            s_finished = s.s_finished; s_failed = s.s_failed; s_waiting =
            false; s_phase = PhInterrupted }
     else Forbidden
   | EvExit (code, m) ->
     (match s.s_phase with
      | PhBuild ->
        if s.s_waiting
        then Forbidden
        else let expected =
               if negb (more_to_do p)
               then Some (O, MSuccess)
               else if (&&) (Nat.eqb s.s_pending O) (negb (can_start cfg s))
                    then Some
                           ((if Nat.eqb s.s_fa O
                             then s.s_exit
                             else if Nat.ltb s.s_fa cfg.c_k
                                  then s.s_exit
                                  else if stuck_fixed
                                       then exit_failure
                                       else s.s_exit),
                           (if Nat.eqb s.s_fa O
                            then MSubcommandFailed
                            else if Nat.ltb s.s_fa cfg.c_k
                                 then MCannotProgress
                                 else MStuck))
                    else None
             in
             (match expected with
              | Some p0 ->
                let (c, m') = p0 in
                if (&&) (Nat.eqb c code) (exit_msg_eqb m m')
                then Ok { s_plan = p; s_running = s.s_running; s_pending =
                       s.s_pending; s_fa = s.s_fa; s_exit = s.s_exit;
                       s_total = s.s_total; s_started = s.s_started;
                       s_finished = s.s_finished; s_failed = s.s_failed;
                       s_waiting = false; s_phase = PhExited }
                else Forbidden
              | None -> Forbidden)
      | PhInterrupted ->
        if (&&) (Nat.eqb code exit_interrupted) (exit_msg_eqb m MInterrupted)
        then Ok { s_plan = p; s_running = s.s_running; s_pending =
               s.s_pending; s_fa = s.s_fa; s_exit = s.s_exit; s_total =
               s.s_total; s_started = s.s_started; s_finished = s.s_finished;
               s_failed = s.s_failed; s_waiting = false; s_phase = PhExited }
        else Forbidden
      | PhExited -> Forbidden))

(** val step_res :
    graph -> config -> (nat -> load option) -> state -> event -> state res **)

let step_res =
  step_res_gen true edge_finished

(** val step :
    graph -> config -> (nat -> load option) -> state -> event -> state option **)

let step g cfg loads s ev =
  match step_res g cfg loads s ev with
  | Ok s' -> Some s'
  | _ -> None

(** val accepts :
    graph -> config -> (nat -> load option) -> state -> event list -> state
    option **)

let rec accepts g cfg loads s = function
| [] -> Some s
| ev :: t ->
  (match step g cfg loads s ev with
   | Some s' -> accepts g cfg loads s' t
   | None -> None)

type snapshot = { sn_want : (nat -> want_t option);
                  sn_oready : (nat -> bool); sn_wanted : nat;
                  sn_commands : nat }

(** val snap_plan : snapshot -> plan **)

let snap_plan sn =
  { p_want = sn.sn_want; p_ready = []; p_delayed = []; p_use = (fun _ -> O);
    p_wanted = sn.sn_wanted; p_commands = sn.sn_commands; p_oready =
    sn.sn_oready; p_tokens = O; p_loaded = (fun _ -> false) }

(** val init_state : graph -> config -> nat list -> snapshot -> state **)

let init_state g cfg prio sn =
  { s_plan = (schedule_initial_plan g prio (snap_plan sn)); s_running = [];
    s_pending = O; s_fa = cfg.c_k; s_exit = O; s_total = sn.sn_commands;
    s_started = O; s_finished = O; s_failed = []; s_waiting = false;
    s_phase = PhBuild }

(** val run :
    graph -> config -> (nat -> load option) -> nat list -> snapshot -> event
    list -> state option **)

let run g cfg loads prio sn evs =
  accepts g cfg loads (init_state g cfg prio sn) evs

(** val gated_eqb : gated -> gated -> bool **)

let gated_eqb a b =
  (&&) (Nat.eqb (fst a) (fst b))
    (match snd a with
     | Some x -> (match snd b with
                  | Some y -> Nat.eqb x y
                  | None -> false)
     | None -> (match snd b with
                | Some _ -> false
                | None -> true))

(** val memg : gated -> gated list -> bool **)

let memg x l =
  existsb (gated_eqb x) l

(** val wf_graph_b : graph -> (nat -> nat) -> bool **)

let wf_graph_b g rank =
  forallb (fun e ->
    (&&)
      (forallb (fun i ->
        (&&)
          ((&&) (Nat.ltb (fst i) (n_edges g))
            (Nat.ltb (rank (fst i)) (rank e)))
          (memg (e, (snd i)) (einfo g (fst i)).ei_cons)) (einfo g e).ei_ins)
      (forallb (fun d ->
        (&&) (Nat.ltb (fst d) (n_edges g))
          (memg (e, (snd d)) (einfo g (fst d)).ei_ins)) (einfo g e).ei_cons))
    (all_edges g)

(** val wf_snap_b : graph -> snapshot -> bool **)

let wf_snap_b g sn =
  let ins = ins_at g (snap_plan sn) in
  (&&)
    ((&&)
      (forallb (fun e ->
        (&&) (if sn.sn_oready e then forallb sn.sn_oready (ins e) else true)
          (match sn.sn_want e with
           | Some w ->
             (&&)
               ((&&)
                 ((&&) (negb (sn.sn_oready e)) (negb (want_eqb w WToFinish)))
                 (forallb (fun i ->
                   (||) (sn.sn_oready i)
                     (match sn.sn_want i with
                      | Some _ -> true
                      | None -> false)) (ins e)))
               (if want_eqb w WNothing
                then negb (forallb sn.sn_oready (ins e))
                else true)
           | None -> true)) (all_edges g))
      (Nat.eqb sn.sn_wanted (count_if (is_wanted sn.sn_want) (all_edges g))))
    (Nat.eqb sn.sn_commands
      (count_if (fun e -> (&&) (is_wanted sn.sn_want e) (negb (phony g e)))
        (all_edges g)))

(** val wf_cfg_b : config -> bool **)

let wf_cfg_b cfg =
  (&&) (Nat.ltb O cfg.c_j) (Nat.ltb O cfg.c_k)

(** val auto_phony :
    nat -> graph -> config -> (nat -> load option) -> nat list -> nat list ->
    state -> event list * state **)

let rec auto_phony fuel g cfg loads prio allowed s =
  match fuel with
  | O -> ([], s)
  | S fuel' ->
    (match filter (fun e -> (&&) (phony g e) (memb e s.s_plan.p_ready))
             allowed with
     | [] -> ([], s)
     | e :: _ ->
       (match step g cfg loads s (EvStart (e, prio)) with
        | Some s' ->
          let (evs, s'') = auto_phony fuel' g cfg loads prio allowed s' in
          (((EvStart (e, prio)) :: evs), s'')
        | None -> ([], s)))

(** val want_list : graph -> plan -> (nat * want_t option) list **)

let want_list g p =
  map (fun e -> (e, (p.p_want e))) (all_edges g)

(** val use_list : graph -> plan -> (nat * nat) list **)

let use_list g p =
  map (fun q -> (q, (p.p_use q))) (seq O (length g.g_depths))
