(* C18 — proofs about the Cleaner model (CleanDefs.v).  No axioms (stdlib List/Bool/Lia only).

   Structure
   1. [inv]: the bookkeeping invariant of Cleaner::Remove — removed_ has no duplicates, the Report()
      list is removed_ filtered by "was removable on the INITIAL disk", the counter is its length,
      the disk is the initial disk minus the reported files (dry run: the initial disk).
   2. [adds dry X s s']: s' is s after Remove() was attempted on exactly the paths X (for the
      fold-shaped scopes: all / rules / dead); the DFS of DoCleanTarget (node marked on entry) is handled
      by [tgt_post] with the gray/black invariant [dfs_inv] on cleaned_; termination on every graph by
      a pigeonhole on the recursion stack.
   3. The C18 theorems, per scope.  Spec side ("the tidy thing"): [edge_paths], [all_scope],
      [reach]/[target_scope], [rule_scope], [dead_scope]. *)
From NinjaV Require Import Base.Bytes Clean.CleanDefs.

(* ================================================================================================ *)
(** * Specification vocabulary *)

Definition opt_list (o : option path) : list path := match o with None => [] | Some p => [p] end.
Definition aux_paths (e : edge) : list path := opt_list (e_depfile e) ++ opt_list (e_rspfile e).
(* everything the Cleaner removes for one statement: its outputs, its depfile, its rspfile *)
Definition edge_paths (e : edge) : list path := e_outs e ++ aux_paths e.

(* scope of `-t clean [-g]` *)
Definition all_scope (gen : bool) (g : graph) (p : path) : Prop :=
  exists e, In e (g_edges g) /\ e_phony e = false /\ (gen = true \/ e_generator e = false) /\ In p (edge_paths e).

(* "m is a transitive input of n" (reflexive): follow in_edge, then any input *)
Inductive reach (g : graph) : path -> path -> Prop :=
| reach_refl n : reach g n n
| reach_step n e i m : in_edge g n = Some e -> In i (e_ins e) -> reach g i m -> reach g n m.

(* what cleaning target t is about: the non-phony producing statements of t's transitive inputs *)
Definition target_paths (g : graph) (t p : path) : Prop :=
  exists n e, reach g t n /\ in_edge g n = Some e /\ e_phony e = false /\ In p (edge_paths e).

Definition target_scope (g : graph) (ts : list path) (p : path) : Prop :=
  exists t, In t ts /\ node_exists g t = true /\ target_paths g t p.

(* scope of `-t clean -r rules`: non-phony statements whose rule name is one of the KNOWN named rules *)
Definition rule_scope (g : graph) (rs : list N) (p : path) : Prop :=
  exists r e, In r rs /\ In r (g_rules g) /\ In e (g_edges g) /\ e_phony e = false /\ e_rule e = r /\
              e_outs e <> [] /\ In p (edge_paths e).

(* scope of `-t cleandead`: log entries without node, or whose node has neither producer nor consumer *)
Definition dead_scope (g : graph) (entries : list path) (p : path) : Prop :=
  In p entries /\ (node_exists g p = false \/ (in_edge g p = None /\ has_out_edge g p = false)).

(* would Report() be called for a path of this kind?  (-n reports what exists; a real run what it removed) *)
Definition reportable (dry : bool) (k : fkind) : bool :=
  match k with FAbsent => false | FFile => true | FStuck => dry end.

(* the disk after Remove() was attempted on the paths rm *)
Definition disk_after (dry : bool) (d0 : disk) (rm : list path) : disk :=
  fun q => if dry then d0 q
           else if mem_bytes q rm then match d0 q with FFile => FAbsent | k => k end else d0 q.

(* well-formedness the manifest parser guarantees / the user owes *)
Definition unique_producer (g : graph) : Prop :=
  forall e1 e2 p, In e1 (g_edges g) -> In e2 (g_edges g) -> In p (e_outs e1) -> In p (e_outs e2) -> e1 = e2.
Definition aux_paths_disjoint (g : graph) : Prop :=
  forall e a, In e (g_edges g) -> In a (aux_paths e) -> node_exists g a = false.
Definition outputs_nonempty (g : graph) : Prop := forall e, In e (g_edges g) -> e_outs e <> [].
Definition is_source (g : graph) (p : path) : Prop := node_exists g p = true /\ in_edge g p = None.
Definition is_phony_output (g : graph) (p : path) : Prop :=
  exists e, In e (g_edges g) /\ e_phony e = true /\ In p (e_outs e).
Definition is_generator_output (g : graph) (p : path) : Prop :=
  exists e, In e (g_edges g) /\ e_generator e = true /\ In p (e_outs e).

(* ================================================================================================ *)
(** * 1. The invariant of Remove() *)

Record inv (dry : bool) (d0 : disk) (s : cl) : Prop := mkInv {
  inv_nodup : NoDup (c_removed s);
  inv_report : c_report s = filter (fun p => reportable dry (d0 p)) (c_removed s);
  inv_count : c_count s = length (c_report s);
  inv_disk : forall q, c_disk s q = disk_after dry d0 (c_removed s) q
}.

Lemma mem_bytes_false_iff x l : mem_bytes x l = false <-> ~ In x l.
Proof.
  rewrite <- mem_bytes_In. destruct (mem_bytes x l); split; intro H.
  - discriminate.
  - exfalso. apply H. reflexivity.
  - intro H'. discriminate.
  - reflexivity.
Qed.

Lemma inv_reset dry d : inv dry d (reset d).
Proof.
  constructor; cbn [reset c_removed c_report c_count c_disk filter length].
  - constructor.
  - reflexivity.
  - reflexivity.
  - intro q. unfold disk_after. cbn [mem_bytes]. destruct dry; reflexivity.
Qed.

Lemma inv_set_status dry d0 s : inv dry d0 s -> inv dry d0 (set_status s).
Proof. intros [H1 H2 H3 H4]. constructor; cbn [set_status c_removed c_report c_count c_disk]; assumption. Qed.

Lemma inv_mark_cleaned dry d0 n s : inv dry d0 s -> inv dry d0 (mark_cleaned n s).
Proof. intros [H1 H2 H3 H4]. constructor; cbn [mark_cleaned c_removed c_report c_count c_disk]; assumption. Qed.

Lemma inv_remove dry d0 p s : inv dry d0 s -> inv dry d0 (remove dry p s).
Proof.
  intros [Hnd Hrep Hcnt Hdisk]. unfold remove.
  destruct (mem_bytes p (c_removed s)) eqn:Hmem; [constructor; assumption|].
  assert (Hnotin : ~ In p (c_removed s)) by (apply mem_bytes_false_iff; exact Hmem).
  assert (Hdp : c_disk s p = d0 p).
  { rewrite Hdisk. unfold disk_after. rewrite Hmem. destruct dry; reflexivity. }
  assert (Hnd' : NoDup (p :: c_removed s)) by (constructor; assumption).
  rewrite Hdp.
  destruct (d0 p) eqn:Hk.
  - (* absent *)
    constructor; cbn [c_removed c_report c_count c_disk].
    + exact Hnd'.
    + cbn [filter]. rewrite Hk. cbn [reportable]. exact Hrep.
    + exact Hcnt.
    + intro q. rewrite Hdisk. unfold disk_after. cbn [mem_bytes].
      destruct dry; [reflexivity|].
      destruct (bytes_eqb_spec q p) as [-> | Hne]; cbn [orb]; [|reflexivity].
      rewrite Hmem, Hk. reflexivity.
  - (* a file *)
    destruct dry.
    + constructor; cbn [c_removed c_report c_count c_disk].
      * exact Hnd'.
      * cbn [filter]. rewrite Hk. cbn [reportable]. rewrite Hrep. reflexivity.
      * cbn [length]. rewrite Hcnt. reflexivity.
      * intro q. rewrite Hdisk. unfold disk_after. reflexivity.
    + constructor; cbn [c_removed c_report c_count c_disk].
      * exact Hnd'.
      * cbn [filter]. rewrite Hk. cbn [reportable]. rewrite Hrep. reflexivity.
      * cbn [length]. rewrite Hcnt. reflexivity.
      * intro q. unfold disk_remove, disk_after. cbn [mem_bytes].
        destruct (bytes_eqb_spec q p) as [-> | Hne]; cbn [orb].
        -- rewrite Hk. reflexivity.
        -- rewrite Hdisk. unfold disk_after. reflexivity.
  - (* exists, cannot be removed *)
    destruct dry.
    + constructor; cbn [c_removed c_report c_count c_disk].
      * exact Hnd'.
      * cbn [filter]. rewrite Hk. cbn [reportable]. rewrite Hrep. reflexivity.
      * cbn [length]. rewrite Hcnt. reflexivity.
      * intro q. rewrite Hdisk. unfold disk_after. reflexivity.
    + constructor; cbn [c_removed c_report c_count c_disk].
      * exact Hnd'.
      * cbn [filter]. rewrite Hk. cbn [reportable]. exact Hrep.
      * exact Hcnt.
      * intro q. rewrite Hdisk. unfold disk_after. cbn [mem_bytes].
        destruct (bytes_eqb_spec q p) as [-> | Hne]; cbn [orb]; [|reflexivity].
        rewrite Hmem, Hk. reflexivity.
Qed.

Lemma remove_removed dry p s q :
  In q (c_removed (remove dry p s)) <-> q = p \/ In q (c_removed s).
Proof.
  unfold remove. destruct (mem_bytes p (c_removed s)) eqn:Hmem.
  - apply mem_bytes_In in Hmem. split; [tauto|]. intros [-> | H]; assumption.
  - destruct (c_disk s p); destruct dry; cbn [c_removed In]; split; intros [H|H]; auto.
Qed.

Lemma remove_cleaned dry p s : c_cleaned (remove dry p s) = c_cleaned s.
Proof.
  unfold remove. destruct (mem_bytes p (c_removed s)); [reflexivity|].
  destruct (c_disk s p); destruct dry; reflexivity.
Qed.

(* consequences of the invariant *)
Lemma inv_report_iff dry d0 s p :
  inv dry d0 s -> (In p (c_report s) <-> In p (c_removed s) /\ reportable dry (d0 p) = true).
Proof. intros [_ Hrep _ _]. rewrite Hrep, filter_In. reflexivity. Qed.

Lemma inv_report_nodup dry d0 s : inv dry d0 s -> NoDup (c_report s).
Proof. intros [Hnd Hrep _ _]. rewrite Hrep. apply NoDup_filter. exact Hnd. Qed.

Lemma inv_disk_report dry d0 s q :
  inv dry d0 s ->
  c_disk s q = if dry then d0 q else if mem_bytes q (c_report s) then FAbsent else d0 q.
Proof.
  intros Hinv. rewrite (inv_disk _ _ _ Hinv). unfold disk_after. destruct dry; [reflexivity|].
  destruct (mem_bytes q (c_report s)) eqn:Hr.
  - apply mem_bytes_In in Hr. apply (inv_report_iff _ _ _ _ Hinv) in Hr. destruct Hr as [Hin Hk].
    apply mem_bytes_In in Hin. rewrite Hin. destruct (d0 q); try reflexivity; discriminate.
  - destruct (mem_bytes q (c_removed s)) eqn:Hm; [|reflexivity].
    destruct (d0 q) eqn:Hk; try reflexivity.
    exfalso. apply mem_bytes_false_iff in Hr. apply Hr. apply (inv_report_iff _ _ _ _ Hinv).
    split; [apply mem_bytes_In; exact Hm|]. rewrite Hk. reflexivity.
Qed.

(* ================================================================================================ *)
(** * 2. [adds]: exactly these paths were attempted *)

Definition adds (dry : bool) (X : list path) (s s' : cl) : Prop :=
  (forall q, In q (c_removed s') <-> In q X \/ In q (c_removed s)) /\
  c_cleaned s' = c_cleaned s /\
  (forall d0, inv dry d0 s -> inv dry d0 s').

Lemma adds_refl dry s : adds dry [] s s.
Proof. split; [|split]; [intro q; cbn [In]; tauto | reflexivity | auto]. Qed.

Lemma adds_trans dry X Y s1 s2 s3 : adds dry X s1 s2 -> adds dry Y s2 s3 -> adds dry (X ++ Y) s1 s3.
Proof.
  intros [H1 [H1c H1i]] [H2 [H2c H2i]]. split; [|split].
  - intro q. rewrite H2, H1, in_app_iff. tauto.
  - congruence.
  - auto.
Qed.

Lemma adds_remove dry p s : adds dry [p] s (remove dry p s).
Proof.
  split; [|split].
  - intro q. rewrite remove_removed. cbn [In]. split; intros [H|H]; auto. destruct H as [H|[]]; auto.
  - apply remove_cleaned.
  - intros d0. apply inv_remove.
Qed.

Lemma adds_set_status dry s : adds dry [] s (set_status s).
Proof. split; [|split]; [intro q; cbn [In set_status c_removed]; tauto | reflexivity | intro d0; apply inv_set_status]. Qed.

Lemma adds_remove_opt dry o s : adds dry (opt_list o) s (remove_opt dry o s).
Proof. destruct o as [p|]; cbn [opt_list remove_opt]; [apply adds_remove | apply adds_refl]. Qed.

Lemma adds_remove_edge_files dry e s : adds dry (aux_paths e) s (remove_edge_files dry e s).
Proof. unfold remove_edge_files, aux_paths. eapply adds_trans; apply adds_remove_opt. Qed.

(* a fold whose step adds F x adds flat_map F l *)
Lemma adds_fold {A} dry (F : A -> list path) (f : cl -> A -> cl) :
  (forall s x, adds dry (F x) s (f s x)) ->
  forall l s, adds dry (flat_map F l) s (fold_left f l s).
Proof.
  intros Hf l. induction l as [|x l IH]; intro s; cbn [flat_map fold_left].
  - apply adds_refl.
  - eapply adds_trans; [apply Hf | apply IH].
Qed.

Lemma flat_map_singleton {A} (l : list A) : flat_map (fun p => [p]) l = l.
Proof. induction l as [|x l IH]; cbn [flat_map app]; [reflexivity | rewrite IH; reflexivity]. Qed.

Lemma adds_remove_list dry ps s : adds dry ps s (remove_list dry ps s).
Proof.
  unfold remove_list. rewrite <- (flat_map_singleton ps) at 1.
  apply (adds_fold dry (fun p => [p]) (fun s p => remove dry p s)). intros s0 x. apply adds_remove.
Qed.

Lemma adds_clean_edge dry e s : adds dry (edge_paths e) s (clean_edge dry e s).
Proof. unfold clean_edge, edge_paths. eapply adds_trans; [apply adds_remove_list | apply adds_remove_edge_files]. Qed.

(* what [adds] gives from the reset state *)
Lemma adds_from_reset dry X d r :
  adds dry X (reset d) r -> (forall q, In q (c_removed r) <-> In q X) /\ inv dry d r.
Proof.
  intros [H [_ Hi]]. split.
  - intro q. rewrite H. cbn [reset c_removed In]. tauto.
  - apply Hi. apply inv_reset.
Qed.

(* ---- CleanAll -------------------------------------------------------------------------------- *)
Definition all_paths (gen : bool) (e : edge) : list path :=
  if e_phony e then [] else if negb gen && e_generator e then [] else edge_paths e.

Lemma adds_clean_all_edge dry gen s e : adds dry (all_paths gen e) s (clean_all_edge dry gen s e).
Proof.
  unfold clean_all_edge, all_paths. destruct (e_phony e); [apply adds_refl|].
  destruct (negb gen && e_generator e); [apply adds_refl | apply adds_clean_edge].
Qed.

Lemma adds_clean_all dry gen g d :
  adds dry (flat_map (all_paths gen) (g_edges g)) (reset d) (clean_all dry gen g d).
Proof. unfold clean_all. apply adds_fold. intros s x. apply adds_clean_all_edge. Qed.

Lemma all_paths_scope gen g p : In p (flat_map (all_paths gen) (g_edges g)) <-> all_scope gen g p.
Proof.
  rewrite in_flat_map. unfold all_scope, all_paths. split.
  - intros [e [He Hp]]. exists e. destruct (e_phony e); [destruct Hp|].
    destruct gen; cbn [negb andb] in Hp.
    + auto.
    + destruct (e_generator e); [destruct Hp|]. auto.
  - intros [e [He [Hph [Hg Hp]]]]. exists e. split; [exact He|]. rewrite Hph.
    destruct Hg as [-> | ->]; cbn [negb andb]; [exact Hp|]. rewrite andb_false_r. exact Hp.
Qed.

(* ---- CleanRules ------------------------------------------------------------------------------ *)
Definition rule_edge_paths (r : N) (e : edge) : list path :=
  if e_phony e then []
  else if N.eqb (e_rule e) r then flat_map (fun o => o :: aux_paths e) (e_outs e) else [].

Lemma adds_clean_rule_edge dry r s e : adds dry (rule_edge_paths r e) s (clean_rule_edge dry r s e).
Proof.
  unfold clean_rule_edge, rule_edge_paths. destruct (e_phony e); [apply adds_refl|].
  destruct (N.eqb (e_rule e) r); [|apply adds_refl].
  apply (adds_fold dry (fun o => o :: aux_paths e)). intros s0 o.
  change (o :: aux_paths e) with ([o] ++ aux_paths e).
  eapply adds_trans; [apply adds_remove | apply adds_remove_edge_files].
Qed.

Definition rule_paths (g : graph) (r : N) : list path :=
  if mem_N r (g_rules g) then flat_map (rule_edge_paths r) (g_edges g) else [].

Lemma adds_clean_rules_step dry g s r : adds dry (rule_paths g r) s (clean_rules_step dry g s r).
Proof.
  unfold clean_rules_step, rule_paths. destruct (mem_N r (g_rules g)); [|apply adds_set_status].
  unfold do_clean_rule. apply adds_fold. intros s0 e. apply adds_clean_rule_edge.
Qed.

Lemma adds_clean_rules dry g d rs :
  adds dry (flat_map (rule_paths g) rs) (reset d) (clean_rules dry g d rs).
Proof. unfold clean_rules. apply adds_fold. intros s r. apply adds_clean_rules_step. Qed.

Lemma mem_N_In x l : mem_N x l = true <-> In x l.
Proof.
  unfold mem_N. rewrite existsb_exists. split.
  - intros [y [Hy He]]. apply N.eqb_eq in He. subst. exact Hy.
  - intro H. exists x. split; [exact H | apply N.eqb_refl].
Qed.

Lemma rule_edge_paths_In r e p :
  In p (rule_edge_paths r e) <-> e_phony e = false /\ e_rule e = r /\ e_outs e <> [] /\ In p (edge_paths e).
Proof.
  unfold rule_edge_paths, edge_paths. destruct (e_phony e); [split; [intros [] | intros [H _]; discriminate]|].
  destruct (N.eqb_spec (e_rule e) r) as [Heq|Hne].
  - rewrite in_flat_map, in_app_iff. split.
    + intros [o [Ho Hp]]. split; [reflexivity|]. split; [exact Heq|].
      split; [intro H0; rewrite H0 in Ho; destruct Ho|].
      destruct Hp as [<-|Hp]; auto.
    + intros [_ [_ [Hne [Hp|Hp]]]].
      * exists p. split; [exact Hp | left; reflexivity].
      * destruct (e_outs e) as [|o os]; [congruence|]. exists o. split; [left; reflexivity | right; exact Hp].
  - split; [intros [] | intros [_ [H _]]; congruence].
Qed.

Lemma rule_paths_scope g rs p : In p (flat_map (rule_paths g) rs) <-> rule_scope g rs p.
Proof.
  rewrite in_flat_map. unfold rule_scope, rule_paths. split.
  - intros [r [Hr Hp]]. destruct (mem_N r (g_rules g)) eqn:Hm; [|destruct Hp].
    apply mem_N_In in Hm. apply in_flat_map in Hp. destruct Hp as [e [He Hp]].
    apply rule_edge_paths_In in Hp. destruct Hp as [H0 [H1 [H2 H3]]]. exists r, e. auto 8.
  - intros [r [e [Hr [Hk [He [H0 [H1 [H2 H3]]]]]]]]. exists r. split; [exact Hr|].
    apply mem_N_In in Hk. rewrite Hk. apply in_flat_map. exists e. split; [exact He|].
    apply rule_edge_paths_In. auto.
Qed.

(* ---- CleanDead ------------------------------------------------------------------------------- *)
Definition dead_paths (g : graph) (p : path) : list path := if is_dead g p then [p] else [].

Lemma adds_clean_dead dry g d entries :
  adds dry (flat_map (dead_paths g) entries) (reset d) (clean_dead dry g d entries).
Proof.
  unfold clean_dead. apply adds_fold. intros s p. unfold clean_dead_step, dead_paths.
  destruct (is_dead g p); [apply adds_remove | apply adds_refl].
Qed.

Lemma is_dead_iff g p :
  is_dead g p = true <-> node_exists g p = false \/ (in_edge g p = None /\ has_out_edge g p = false).
Proof.
  unfold is_dead. rewrite orb_true_iff, andb_true_iff, !negb_true_iff.
  destruct (in_edge g p); split; intros [H|[H1 H2]]; auto; discriminate.
Qed.

Lemma dead_paths_scope g entries p : In p (flat_map (dead_paths g) entries) <-> dead_scope g entries p.
Proof.
  rewrite in_flat_map. unfold dead_scope, dead_paths. split.
  - intros [x [Hx Hp]]. destruct (is_dead g x) eqn:Hd; [|destruct Hp].
    destruct Hp as [<-|[]]. split; [exact Hx | apply is_dead_iff; exact Hd].
  - intros [Hx Hd]. exists p. split; [exact Hx|]. apply is_dead_iff in Hd. rewrite Hd. left. reflexivity.
Qed.

(* ================================================================================================ *)
(** * 3. DoCleanTarget: the depth-first walk (node marked on entry) *)

Lemma mark_cleaned_In n s x : In x (c_cleaned (mark_cleaned n s)) <-> x = n \/ In x (c_cleaned s).
Proof.
  unfold mark_cleaned. cbn [c_cleaned]. destruct (mem_bytes n (c_cleaned s)) eqn:Hm.
  - apply mem_bytes_In in Hm. split; [tauto|]. intros [-> | H]; assumption.
  - cbn [In]. split; intros [H|H]; auto.
Qed.

Lemma in_edge_In g n e : in_edge g n = Some e -> In e (g_edges g) /\ In n (e_outs e).
Proof. unfold in_edge. intro H. apply find_some in H. rewrite mem_bytes_In in H. exact H. Qed.

Lemma in_edge_of_output g e n : In e (g_edges g) -> In n (e_outs e) -> in_edge g n <> None.
Proof.
  intros He Hn Hnone. unfold in_edge in Hnone. apply (find_none _ _ Hnone) in He.
  apply mem_bytes_false_iff in He. contradiction.
Qed.

Lemma reach_trans g a b c : reach g a b -> reach g b c -> reach g a c.
Proof. induction 1 as [n|n e i m He Hi _ IH]; intro H2; [exact H2 | eapply reach_step; eauto]. Qed.

Lemma target_paths_step g n e i q :
  in_edge g n = Some e -> In i (e_ins e) -> target_paths g i q -> target_paths g n q.
Proof.
  intros He Hi [m [e' [Hr H]]]. exists m, e'. split; [eapply reach_step; eauto | exact H].
Qed.

(* a visited node is finished ("black") when its statement has been attempted and all its direct
   inputs are visited; nodes on the recursion stack G ("gray") are exempt *)
Definition local_ok (g : graph) (s : cl) (n : path) : Prop :=
  forall e, in_edge g n = Some e ->
    (e_phony e = false -> incl (edge_paths e) (c_removed s)) /\
    (forall i, In i (e_ins e) -> In i (c_cleaned s)).

Definition dfs_inv (g : graph) (G : list path) (s : cl) : Prop :=
  forall n, In n (c_cleaned s) -> In n G \/ local_ok g s n.

Lemma local_ok_mono g s s' n :
  incl (c_removed s) (c_removed s') -> incl (c_cleaned s) (c_cleaned s') -> local_ok g s n -> local_ok g s' n.
Proof.
  intros Hr Hc H e He. destruct (H e He) as [H1 H2]. split.
  - intros Hph q Hq. apply Hr. exact (H1 Hph q Hq).
  - intros i Hi. apply Hc. exact (H2 i Hi).
Qed.

(* with an empty stack the visited set is closed under "input of", and everything below a visited
   node has been attempted *)
Lemma dfs_inv_reach g s n m : dfs_inv g [] s -> In n (c_cleaned s) -> reach g n m -> In m (c_cleaned s).
Proof.
  intros Hinv Hn Hr. induction Hr as [n|n e i m He Hi _ IH]; [exact Hn|].
  apply IH. destruct (Hinv n Hn) as [[]|Hok]. exact (proj2 (Hok e He) i Hi).
Qed.

Definition closed (g : graph) (s : cl) : Prop :=
  forall n, In n (c_cleaned s) -> forall q, target_paths g n q -> In q (c_removed s).

Lemma dfs_inv_closed g s : dfs_inv g [] s -> closed g s.
Proof.
  intros Hinv n Hn q [m [e [Hr [He [Hph Hq]]]]].
  pose proof (dfs_inv_reach g s n m Hinv Hn Hr) as Hm.
  destruct (Hinv m Hm) as [[]|Hok]. exact (proj1 (Hok e He) Hph q Hq).
Qed.

Definition tgt_post (dry : bool) (g : graph) (t : path) (s s' : cl) : Prop :=
  (forall d0, inv dry d0 s -> inv dry d0 s') /\
  incl (c_removed s) (c_removed s') /\
  incl (c_cleaned s) (c_cleaned s') /\
  (forall q, In q (c_removed s') -> In q (c_removed s) \/ target_paths g t q) /\
  In t (c_cleaned s') /\
  (forall G, dfs_inv g G s -> dfs_inv g G s').

Definition ins_post (dry : bool) (g : graph) (ins : list path) (s s' : cl) : Prop :=
  (forall d0, inv dry d0 s -> inv dry d0 s') /\
  incl (c_removed s) (c_removed s') /\
  incl (c_cleaned s) (c_cleaned s') /\
  (forall q, In q (c_removed s') -> In q (c_removed s) \/ exists i, In i ins /\ target_paths g i q) /\
  (forall i, In i ins -> In i (c_cleaned s')) /\
  (forall G, dfs_inv g G s -> dfs_inv g G s').

Lemma clean_inputs_post dry g (rec : path -> cl -> option cl) :
  (forall n s s', rec n s = Some s' -> tgt_post dry g n s s') ->
  forall ins s s', clean_inputs rec ins s = Some s' -> ins_post dry g ins s s'.
Proof.
  intros Hrec ins. induction ins as [|n ins IH]; intros s s' H; cbn [clean_inputs] in H.
  - injection H as <-. unfold ins_post. split; [auto|]. split; [apply incl_refl|]. split; [apply incl_refl|].
    split; [auto|]. split; [intros i []|auto].
  - destruct (mem_bytes n (c_cleaned s)) eqn:Hm.
    + apply mem_bytes_In in Hm. apply IH in H. destruct H as [Hi [Hr [Hcl [Hs [Hall Hd]]]]].
      split; [exact Hi|]. split; [exact Hr|]. split; [exact Hcl|]. split; [|split; [|exact Hd]].
      * intros q Hq. destruct (Hs q Hq) as [H|[i [Hi' Ht]]]; [left; exact H|].
        right. exists i. split; [right; exact Hi' | exact Ht].
      * intros i [<-|Hi']; [apply Hcl; exact Hm | apply Hall; exact Hi'].
    + destruct (rec n s) as [s1|] eqn:Hr1; [|discriminate].
      apply Hrec in Hr1. destruct Hr1 as [Hi1 [Hr1 [Hcl1 [Hs1 [Hn1 Hd1]]]]].
      apply IH in H. destruct H as [Hi [Hr [Hcl [Hs [Hall Hd]]]]].
      split; [auto|]. split; [eapply incl_tran; eauto|]. split; [eapply incl_tran; eauto|].
      split; [|split; [|auto]].
      * intros q Hq. destruct (Hs q Hq) as [H|[i [Hi' Ht]]].
        -- destruct (Hs1 q H) as [H'|H']; [left; exact H'|]. right. exists n. split; [left; reflexivity | exact H'].
        -- right. exists i. split; [right; exact Hi' | exact Ht].
      * intros i [<-|Hi']; [apply Hcl; exact Hn1 | apply Hall; exact Hi'].
Qed.

Lemma do_clean_target_post dry g fuel :
  forall t s s', do_clean_target fuel dry g t s = Some s' -> tgt_post dry g t s s'.
Proof.
  induction fuel as [|f IH]; intros t s s' H; cbn [do_clean_target] in H; [discriminate|].
  set (s0 := mark_cleaned t s) in H.
  assert (Ht0 : In t (c_cleaned s0)) by (apply mark_cleaned_In; left; reflexivity).
  assert (Hc0 : incl (c_cleaned s) (c_cleaned s0)) by (intros x Hx; apply mark_cleaned_In; right; exact Hx).
  assert (Hd0 : forall G, dfs_inv g G s -> dfs_inv g (t :: G) s0).
  { intros G HG n Hn. apply mark_cleaned_In in Hn. destruct Hn as [->|Hn]; [left; left; reflexivity|].
    destruct (HG n Hn) as [Hg|Hok]; [left; right; exact Hg|]. right.
    apply (local_ok_mono g s s0 n); [apply incl_refl | exact Hc0 | exact Hok]. }
  destruct (in_edge g t) as [e|] eqn:He.
  - set (s1 := if e_phony e then s0 else clean_edge dry e s0) in H.
    assert (H1 : adds dry (if e_phony e then [] else edge_paths e) s0 s1).
    { unfold s1. destruct (e_phony e); [apply adds_refl | apply adds_clean_edge]. }
    destruct H1 as [H1r [H1c H1i]].
    apply (clean_inputs_post dry g _ IH) in H. destruct H as [Hi [Hr [Hcl [Hs [Hall Hd]]]]].
    assert (Hr1 : incl (c_removed s) (c_removed s1)) by (intros q Hq; apply H1r; right; exact Hq).
    assert (Hc1 : incl (c_cleaned s) (c_cleaned s1)) by (rewrite H1c; exact Hc0).
    split; [intros d0 Hinv; apply Hi, H1i, inv_mark_cleaned; exact Hinv|].
    split; [eapply incl_tran; eauto|]. split; [eapply incl_tran; eauto|].
    split; [|split].
    + intros q Hq. destruct (Hs q Hq) as [H|[i [Hi' Ht]]].
      * apply H1r in H. destruct H as [H|H]; [|left; exact H]. right.
        destruct (e_phony e) eqn:Hph; [destruct H|].
        exists t, e. split; [apply reach_refl|]. auto.
      * right. eapply target_paths_step; eauto.
    + apply Hcl. rewrite H1c. exact Ht0.
    + intros G HG.
      assert (HG1 : dfs_inv g (t :: G) s1).
      { intros n Hn. rewrite H1c in Hn. destruct (Hd0 G HG n Hn) as [Hg|Hok]; [left; exact Hg|]. right.
        apply (local_ok_mono g s0 s1 n); [intros q Hq; apply H1r; right; exact Hq | rewrite H1c; apply incl_refl | exact Hok]. }
      pose proof (Hd (t :: G) HG1) as HG2.
      intros n Hn. destruct (HG2 n Hn) as [[<-|Hg]|Hok]; [|left; exact Hg|right; exact Hok].
      right. intros e' He'. rewrite He in He'. injection He' as <-. split.
      * intros Hph q Hq. apply Hr. apply H1r. left. rewrite Hph. exact Hq.
      * exact Hall.
  - injection H as <-.
    split; [intros d0 Hinv; apply inv_mark_cleaned; exact Hinv|].
    split; [apply incl_refl|]. split; [exact Hc0|].
    split; [intros q Hq; left; exact Hq|]. split; [exact Ht0|].
    intros G HG n Hn. destruct (Hd0 G HG n Hn) as [[<-|Hg]|Hok]; [|left; exact Hg|right; exact Hok].
    right. intros e' He'. congruence.
Qed.

(* the loop of CleanTargets *)
Definition loop_post (dry : bool) (g : graph) (ts : list path) (s s' : cl) : Prop :=
  (forall d0, inv dry d0 s -> inv dry d0 s') /\
  incl (c_removed s) (c_removed s') /\
  incl (c_cleaned s) (c_cleaned s') /\
  (forall q, In q (c_removed s') -> In q (c_removed s) \/ target_scope g ts q) /\
  (forall t, In t ts -> node_exists g t = true -> In t (c_cleaned s')) /\
  (dfs_inv g [] s -> dfs_inv g [] s').

Lemma clean_targets_loop_post dry g fuel ts :
  forall s s', clean_targets_loop fuel dry g ts s = Some s' -> loop_post dry g ts s s'.
Proof.
  induction ts as [|t ts IH]; intros s s' H; cbn [clean_targets_loop] in H.
  - injection H as <-. split; [auto|]. split; [apply incl_refl|]. split; [apply incl_refl|].
    split; [auto|]. split; [intros t []|auto].
  - destruct (node_exists g t) eqn:Hne.
    + destruct (do_clean_target fuel dry g t s) as [s1|] eqn:H1; [|discriminate].
      apply do_clean_target_post in H1. destruct H1 as [Hi1 [Hr1 [Hcl1 [Hs1 [Ht1 Hd1]]]]].
      apply IH in H. destruct H as [Hi [Hr [Hcl [Hs [Hall Hd]]]]].
      split; [auto|]. split; [eapply incl_tran; eauto|]. split; [eapply incl_tran; eauto|].
      split; [|split; [|auto]].
      * intros q Hq. destruct (Hs q Hq) as [H|[t' [Ht' H]]].
        -- destruct (Hs1 q H) as [H'|H']; [left; exact H'|]. right. exists t. split; [left; reflexivity|]. auto.
        -- right. exists t'. split; [right; exact Ht' | exact H].
      * intros t' [<-|Ht'] Hn; [apply Hcl; exact Ht1 | apply Hall; assumption].
    + apply IH in H. destruct H as [Hi [Hr [Hcl [Hs [Hall Hd]]]]].
      split; [intros d0 Hinv; apply Hi; apply inv_set_status; exact Hinv|].
      split; [exact Hr|]. split; [exact Hcl|]. split; [|split; [|exact Hd]].
      * intros q Hq. destruct (Hs q Hq) as [H|[t' [Ht' H]]]; [left; exact H|].
        right. exists t'. split; [right; exact Ht' | exact H].
      * intros t' [<-|Ht'] Hn; [congruence | apply Hall; assumption].
Qed.

Lemma dfs_inv_reset g d : dfs_inv g [] (reset d).
Proof. intros n []. Qed.

Lemma clean_targets_fuel_spec dry g d fuel ts r :
  clean_targets_fuel fuel dry g d ts = Some r ->
  (forall q, In q (c_removed r) <-> target_scope g ts q) /\ inv dry d r.
Proof.
  unfold clean_targets_fuel. intro H. apply clean_targets_loop_post in H.
  destruct H as [Hi [_ [_ [Hs [Hall Hd]]]]]. split.
  - intro q. split.
    + intro Hq. destruct (Hs q Hq) as [[]|H]; exact H.
    + intros [t [Ht [Hn Hq]]].
      apply (dfs_inv_closed g r (Hd (dfs_inv_reset g d)) t (Hall t Ht Hn) q Hq).
  - apply Hi. apply inv_reset.
Qed.

(* ---- termination on EVERY graph -------------------------------------------------------------- *)
(* every recursive call is on a node that was not yet in cleaned_ and is an input of some statement:
   the nodes on the recursion stack are pairwise distinct input names (pigeonhole) *)
Lemma clean_inputs_some (K : list path) (rec : path -> cl -> option cl) ins :
  (forall i s, In i ins -> incl K (c_cleaned s) -> ~ In i (c_cleaned s) -> rec i s <> None) ->
  (forall i s s', rec i s = Some s' -> incl (c_cleaned s) (c_cleaned s')) ->
  forall s, incl K (c_cleaned s) -> clean_inputs rec ins s <> None.
Proof.
  induction ins as [|n ins IH]; intros Hrec Hmono s HK; cbn [clean_inputs]; [discriminate|].
  assert (Hrec' : forall i s0, In i ins -> incl K (c_cleaned s0) -> ~ In i (c_cleaned s0) -> rec i s0 <> None)
    by (intros i s0 Hi; apply Hrec; right; exact Hi).
  destruct (mem_bytes n (c_cleaned s)) eqn:Hm; [apply IH; assumption|].
  apply mem_bytes_false_iff in Hm.
  destruct (rec n s) as [s1|] eqn:H1; [|exfalso; exact (Hrec n s (or_introl eq_refl) HK Hm H1)].
  apply IH; [assumption | assumption |]. eapply incl_tran; [exact HK | exact (Hmono n s s1 H1)].
Qed.

Definition all_ins (g : graph) : list path := flat_map e_ins (g_edges g).

Lemma do_clean_target_terminates dry g :
  forall fuel stack t s,
    NoDup stack -> incl stack (all_ins g) -> incl stack (t :: c_cleaned s) ->
    length (all_ins g) < fuel + length stack ->
    do_clean_target fuel dry g t s <> None.
Proof.
  intro fuel. induction fuel as [|f IH]; intros stack t s Hnd Hincl Hcl Hlen.
  - exfalso. pose proof (NoDup_incl_length Hnd Hincl) as Hl. cbn [Nat.add] in Hlen. lia.
  - cbn [do_clean_target]. destruct (in_edge g t) as [e|] eqn:He; [|discriminate].
    set (s1 := if e_phony e then mark_cleaned t s else clean_edge dry e (mark_cleaned t s)).
    assert (Hc1 : c_cleaned s1 = c_cleaned (mark_cleaned t s)).
    { unfold s1. destruct (e_phony e); [reflexivity | apply (adds_clean_edge dry e (mark_cleaned t s))]. }
    apply (clean_inputs_some stack).
    + intros i s0 Hi HK Hni. apply (IH (i :: stack)).
      * constructor; [intro Hin; apply Hni; apply HK; exact Hin | exact Hnd].
      * intros x [<-|Hx]; [|apply Hincl; exact Hx].
        unfold all_ins. apply in_flat_map. exists e. split; [apply (in_edge_In g t e He) | exact Hi].
      * intros x [<-|Hx]; [left; reflexivity | right; apply HK; exact Hx].
      * cbn [length]. lia.
    + intros i s0 s0' H0. apply (do_clean_target_post dry g f i s0 s0' H0).
    + rewrite Hc1. intros x Hx. apply mark_cleaned_In. destruct (Hcl x Hx) as [<-|H]; auto.
Qed.

Lemma clean_targets_loop_terminates dry g fuel ts :
  (forall t s, do_clean_target fuel dry g t s <> None) ->
  forall s, clean_targets_loop fuel dry g ts s <> None.
Proof.
  intro Hrec. induction ts as [|t ts IH]; intro s; cbn [clean_targets_loop]; [discriminate|].
  destruct (node_exists g t); [|apply IH].
  destruct (do_clean_target fuel dry g t s) as [s1|] eqn:H1; [apply IH | exfalso; exact (Hrec t s H1)].
Qed.

(* default_fuel is enough on every graph, cyclic or not; more fuel never hurts *)
Theorem clean_targets_fuel_sufficient dry g d ts fuel :
  length (flat_map e_ins (g_edges g)) < fuel -> clean_targets_fuel fuel dry g d ts <> None.
Proof.
  intros Hf. unfold clean_targets_fuel. apply clean_targets_loop_terminates.
  intros t s. apply (do_clean_target_terminates dry g fuel [] t s).
  - constructor.
  - intros x [].
  - intros x [].
  - cbn [length]. unfold all_ins. lia.
Qed.

Corollary clean_targets_total dry g d ts : exists r, clean_targets dry g d ts = Some r.
Proof.
  destruct (clean_targets dry g d ts) as [r|] eqn:H; [exists r; reflexivity|]. exfalso.
  unfold clean_targets in H. revert H. apply clean_targets_fuel_sufficient. unfold default_fuel. lia.
Qed.

(* the result does not depend on the fuel once there is enough *)
Lemma clean_inputs_ext (r1 r2 : path -> cl -> option cl) ins :
  (forall n s s', r1 n s = Some s' -> r2 n s = Some s') ->
  forall s s', clean_inputs r1 ins s = Some s' -> clean_inputs r2 ins s = Some s'.
Proof.
  intro H. induction ins as [|n ins IH]; intros s s' H1; cbn [clean_inputs] in *; [exact H1|].
  destruct (mem_bytes n (c_cleaned s)); [apply IH; exact H1|].
  destruct (r1 n s) as [s1|] eqn:E; [|discriminate]. rewrite (H _ _ _ E). apply IH. exact H1.
Qed.

Lemma do_clean_target_more_fuel dry g f1 :
  forall f2 t s s', f1 <= f2 -> do_clean_target f1 dry g t s = Some s' -> do_clean_target f2 dry g t s = Some s'.
Proof.
  induction f1 as [|f1 IH]; intros f2 t s s' Hle H; [discriminate|].
  destruct f2 as [|f2]; [lia|]. cbn [do_clean_target] in *.
  destruct (in_edge g t) as [e|]; [|exact H].
  apply (clean_inputs_ext _ (do_clean_target f2 dry g) (e_ins e) (fun n s0 s0' => IH f2 n s0 s0' ltac:(lia)) _ _ H).
Qed.

(* ================================================================================================ *)
(** * 4. From "exactly the scope was attempted" + [inv] to the C18 facts *)

Record c18_facts (dry : bool) (d : disk) (Scope : path -> Prop) (r : cl) : Prop := mkFacts {
  (* only in-scope paths, and only paths that were there *)
  f_scope : forall p, In p (c_report r) -> Scope p /\ reportable dry (d p) = true;
  (* every in-scope path that was there *)
  f_complete : forall p, Scope p -> reportable dry (d p) = true -> In p (c_report r);
  (* ... exactly once *)
  f_once : NoDup (c_report r);
  f_count : c_count r = length (c_report r);
  (* the disk afterwards: -n leaves it alone, a real run turns exactly the reported files absent *)
  f_disk : forall q, c_disk r q = if dry then d q else if mem_bytes q (c_report r) then FAbsent else d q
}.

Lemma facts_of dry d (Scope : path -> Prop) r :
  (forall q, In q (c_removed r) <-> Scope q) -> inv dry d r -> c18_facts dry d Scope r.
Proof.
  intros Hs Hinv. constructor.
  - intros p Hp. apply (inv_report_iff _ _ _ _ Hinv) in Hp. destruct Hp as [H1 H2]. split; [apply Hs; exact H1 | exact H2].
  - intros p Hp Hk. apply (inv_report_iff _ _ _ _ Hinv). split; [apply Hs; exact Hp | exact Hk].
  - apply (inv_report_nodup _ _ _ Hinv).
  - apply (inv_count _ _ _ Hinv).
  - intro q. apply inv_disk_report. exact Hinv.
Qed.

Lemma filter_nil {A} (f : A -> bool) l : (forall x, In x l -> f x = false) -> filter f l = [].
Proof.
  induction l as [|x l IH]; intro H; cbn [filter]; [reflexivity|].
  rewrite (H x (or_introl eq_refl)). apply IH. intros y Hy. apply H. right. exact Hy.
Qed.

(* cleaning again, on the disk the first (real) run left, finds nothing *)
Lemma idempotent_generic d (Scope : path -> Prop) r1 r2 :
  (forall q, In q (c_removed r1) <-> Scope q) -> inv false d r1 ->
  (forall q, In q (c_removed r2) <-> Scope q) -> inv false (c_disk r1) r2 ->
  c_report r2 = [] /\ c_count r2 = 0 /\ forall q, c_disk r2 q = c_disk r1 q.
Proof.
  intros Hs1 Hi1 Hs2 Hi2.
  assert (Hrep : c_report r2 = []).
  { rewrite (inv_report _ _ _ Hi2). apply filter_nil. intros x Hx.
    apply Hs2 in Hx. apply Hs1 in Hx. rewrite (inv_disk _ _ _ Hi1). unfold disk_after.
    apply mem_bytes_In in Hx. rewrite Hx. destruct (d x); reflexivity. }
  split; [exact Hrep|]. split.
  - rewrite (inv_count _ _ _ Hi2), Hrep. reflexivity.
  - intro q. rewrite (inv_disk_report _ _ _ q Hi2), Hrep. reflexivity.
Qed.

(* -n reports exactly what the real run removes, unless something in scope cannot be removed *)
Lemma dry_faithful_generic d (Scope : path -> Prop) rd rr :
  (forall q, In q (c_removed rd) <-> Scope q) -> inv true d rd ->
  (forall q, In q (c_removed rr) <-> Scope q) -> inv false d rr ->
  (forall p, Scope p -> d p <> FStuck) ->
  (forall p, In p (c_report rd) <-> In p (c_report rr)) /\ c_count rd = c_count rr.
Proof.
  intros Hsd Hid Hsr Hir Hns.
  assert (Hiff : forall p, In p (c_report rd) <-> In p (c_report rr)).
  { intro p. rewrite (inv_report_iff _ _ _ p Hid), (inv_report_iff _ _ _ p Hir), Hsd, Hsr.
    split; intros [Hp Hk]; (split; [exact Hp|]); specialize (Hns p Hp); destruct (d p); try reflexivity; try discriminate; congruence. }
  split; [exact Hiff|].
  rewrite (inv_count _ _ _ Hid), (inv_count _ _ _ Hir).
  apply Nat.le_antisymm; apply NoDup_incl_length;
    try (apply (inv_report_nodup _ _ _ Hid)); try (apply (inv_report_nodup _ _ _ Hir));
    intros x Hx; apply Hiff; exact Hx.
Qed.

(* ---- the four entry points, in the shape facts_of wants ------------------------------------- *)
Lemma clean_all_spec dry gen g d :
  (forall q, In q (c_removed (clean_all dry gen g d)) <-> all_scope gen g q) /\ inv dry d (clean_all dry gen g d).
Proof.
  destruct (adds_from_reset _ _ _ _ (adds_clean_all dry gen g d)) as [H Hi]. split; [|exact Hi].
  intro q. rewrite H. apply all_paths_scope.
Qed.

Lemma clean_rules_spec dry g d rs :
  (forall q, In q (c_removed (clean_rules dry g d rs)) <-> rule_scope g rs q) /\ inv dry d (clean_rules dry g d rs).
Proof.
  destruct (adds_from_reset _ _ _ _ (adds_clean_rules dry g d rs)) as [H Hi]. split; [|exact Hi].
  intro q. rewrite H. apply rule_paths_scope.
Qed.

Lemma clean_dead_spec dry g d entries :
  (forall q, In q (c_removed (clean_dead dry g d entries)) <-> dead_scope g entries q) /\
  inv dry d (clean_dead dry g d entries).
Proof.
  destruct (adds_from_reset _ _ _ _ (adds_clean_dead dry g d entries)) as [H Hi]. split; [|exact Hi].
  intro q. rewrite H. apply dead_paths_scope.
Qed.

Theorem clean_all_facts dry gen g d : c18_facts dry d (all_scope gen g) (clean_all dry gen g d).
Proof. destruct (clean_all_spec dry gen g d) as [H Hi]. apply facts_of; assumption. Qed.

Theorem clean_targets_facts dry g d fuel ts r :
  clean_targets_fuel fuel dry g d ts = Some r -> c18_facts dry d (target_scope g ts) r.
Proof. intro Hr. destruct (clean_targets_fuel_spec _ _ _ _ _ _ Hr) as [H Hi]. apply facts_of; assumption. Qed.

Theorem clean_rules_facts dry g d rs : c18_facts dry d (rule_scope g rs) (clean_rules dry g d rs).
Proof. destruct (clean_rules_spec dry g d rs) as [H Hi]. apply facts_of; assumption. Qed.

Theorem clean_dead_facts dry g d entries : c18_facts dry d (dead_scope g entries) (clean_dead dry g d entries).
Proof. destruct (clean_dead_spec dry g d entries) as [H Hi]. apply facts_of; assumption. Qed.

(* ================================================================================================ *)
(** * 5. The C18 theorems *)

(* ---- C18_scope -------------------------------------------------------------------------------- *)
Theorem C18_scope_all dry gen g d p :
  In p (c_report (clean_all dry gen g d)) -> all_scope gen g p.
Proof. intro H. apply (f_scope _ _ _ _ (clean_all_facts dry gen g d) p H). Qed.

Theorem C18_scope_targets dry g d fuel ts r p :
  clean_targets_fuel fuel dry g d ts = Some r -> In p (c_report r) -> target_scope g ts p.
Proof. intros Hr H. apply (f_scope _ _ _ _ (clean_targets_facts _ _ _ _ _ _ Hr) p H). Qed.

Theorem C18_scope_rules dry g d rs p :
  In p (c_report (clean_rules dry g d rs)) -> rule_scope g rs p.
Proof. intro H. apply (f_scope _ _ _ _ (clean_rules_facts dry g d rs) p H). Qed.

Theorem C18_scope_dead dry g d entries p :
  In p (c_report (clean_dead dry g d entries)) -> dead_scope g entries p.
Proof. intro H. apply (f_scope _ _ _ _ (clean_dead_facts dry g d entries) p H). Qed.

(* ---- C18_complete ----------------------------------------------------------------------------- *)
(* shape shared by the four: every existing in-scope file is reported, exactly once (the list has
   no duplicates); a real run leaves it absent and touches nothing it did not report; -n touches nothing *)
Definition complete_for (dry : bool) (d : disk) (Scope : path -> Prop) (r : cl) : Prop :=
  (forall p, Scope p -> d p = FFile -> In p (c_report r)) /\
  NoDup (c_report r) /\
  (dry = false -> (forall p, In p (c_report r) -> d p = FFile /\ c_disk r p = FAbsent) /\
                  (forall q, ~ In q (c_report r) -> c_disk r q = d q)) /\
  (dry = true -> forall q, c_disk r q = d q).

Lemma complete_of_facts dry d Scope r : c18_facts dry d Scope r -> complete_for dry d Scope r.
Proof.
  intros [Hs Hc Ho _ Hd]. split; [|split; [exact Ho|split]].
  - intros p Hp Hk. apply Hc; [exact Hp | rewrite Hk; reflexivity].
  - intros ->. split.
    + intros p Hp. destruct (Hs p Hp) as [_ Hk]. split.
      * destruct (d p); try discriminate. reflexivity.
      * rewrite Hd. apply mem_bytes_In in Hp. rewrite Hp. reflexivity.
    + intros q Hq. rewrite Hd. apply mem_bytes_false_iff in Hq. rewrite Hq. reflexivity.
  - intros -> q. apply Hd.
Qed.

Theorem C18_complete_all dry gen g d :
  complete_for dry d (all_scope gen g) (clean_all dry gen g d).
Proof. apply complete_of_facts, clean_all_facts. Qed.

Theorem C18_complete_targets dry g d fuel ts r :
  clean_targets_fuel fuel dry g d ts = Some r -> complete_for dry d (target_scope g ts) r.
Proof. intro Hr. apply complete_of_facts. eapply clean_targets_facts; exact Hr. Qed.

Theorem C18_complete_rules dry g d rs :
  complete_for dry d (rule_scope g rs) (clean_rules dry g d rs).
Proof. apply complete_of_facts, clean_rules_facts. Qed.

Theorem C18_complete_dead dry g d entries :
  complete_for dry d (dead_scope g entries) (clean_dead dry g d entries).
Proof. apply complete_of_facts, clean_dead_facts. Qed.

(* the rule scope needs statements with at least one output for their depfile/rspfile (the parser
   guarantees it): RemoveEdgeFiles sits inside the loop over the outputs *)
Lemma rule_scope_nonempty g rs r e p :
  outputs_nonempty g -> In r rs -> In r (g_rules g) -> In e (g_edges g) -> e_phony e = false -> e_rule e = r ->
  In p (edge_paths e) -> rule_scope g rs p.
Proof. intros Hne Hr Hk He Hph Hru Hp. exists r, e. repeat split; auto. Qed.

(* ---- C18_no_source_no_phony ------------------------------------------------------------------- *)
Lemma node_exists_output g e q : In e (g_edges g) -> In q (e_outs e) -> node_exists g q = true.
Proof.
  intros He Hq. unfold node_exists. apply orb_true_iff. left. apply existsb_exists. exists e. split; [exact He|].
  apply mem_bytes_In in Hq. rewrite Hq. reflexivity.
Qed.

Lemma edge_paths_safe g e q :
  unique_producer g -> aux_paths_disjoint g ->
  In e (g_edges g) -> e_phony e = false -> In q (edge_paths e) ->
  ~ is_source g q /\ ~ is_phony_output g q.
Proof.
  intros Hu Ha He Hph Hq. unfold edge_paths in Hq. apply in_app_iff in Hq. destruct Hq as [Hq|Hq].
  - split.
    + intros [_ Hnone]. exact (in_edge_of_output g e q He Hq Hnone).
    + intros [e' [He' [Hph' Hq']]]. rewrite (Hu e e' q He He' Hq Hq') in Hph. congruence.
  - pose proof (Ha e q He Hq) as Hne. split.
    + intros [Hex _]. congruence.
    + intros [e' [He' [_ Hq']]]. rewrite (node_exists_output g e' q He' Hq') in Hne. discriminate.
Qed.

Theorem C18_no_source_no_phony_all dry gen g d p :
  unique_producer g -> aux_paths_disjoint g ->
  In p (c_report (clean_all dry gen g d)) -> ~ is_source g p /\ ~ is_phony_output g p.
Proof.
  intros Hu Ha H. apply C18_scope_all in H. destruct H as [e [He [Hph [_ Hp]]]].
  exact (edge_paths_safe g e p Hu Ha He Hph Hp).
Qed.

Theorem C18_no_source_no_phony_targets dry g d fuel ts r p :
  unique_producer g -> aux_paths_disjoint g ->
  clean_targets_fuel fuel dry g d ts = Some r ->
  In p (c_report r) -> ~ is_source g p /\ ~ is_phony_output g p.
Proof.
  intros Hu Ha Hr H. apply (C18_scope_targets _ _ _ _ _ _ _ Hr) in H.
  destruct H as [t [_ [_ [n [e [_ [He [Hph Hp]]]]]]]].
  exact (edge_paths_safe g e p Hu Ha (proj1 (in_edge_In g n e He)) Hph Hp).
Qed.

(* by rule: DoCleanRule skips phony statements, so the same holds unconditionally (`-r phony` removes nothing) *)
Theorem C18_no_source_no_phony_rules dry g d rs p :
  unique_producer g -> aux_paths_disjoint g ->
  In p (c_report (clean_rules dry g d rs)) -> ~ is_source g p /\ ~ is_phony_output g p.
Proof.
  intros Hu Ha H. apply C18_scope_rules in H. destruct H as [r [e [_ [_ [He [Hph [_ [_ Hp]]]]]]]].
  exact (edge_paths_safe g e p Hu Ha He Hph Hp).
Qed.

(* cleandead removes exactly unreferenced names: never a node that has a producer (so no phony
   name either) and never a node some statement consumes *)
Theorem C18_dead_unreferenced dry g d entries p :
  In p (c_report (clean_dead dry g d entries)) ->
  in_edge g p = None /\ has_out_edge g p = false /\ ~ is_phony_output g p.
Proof.
  intro H. apply C18_scope_dead in H. destruct H as [_ Hd].
  assert (Hnone : in_edge g p = None).
  { destruct Hd as [Hne|[H _]]; [|exact H].
    destruct (in_edge g p) as [e|] eqn:He; [|reflexivity].
    destruct (in_edge_In g p e He) as [He1 He2]. rewrite (node_exists_output g e p He1 He2) in Hne. discriminate. }
  assert (Hout : has_out_edge g p = false).
  { destruct Hd as [Hne|[_ H]]; [|exact H].
    destruct (has_out_edge g p) eqn:Ho; [|reflexivity]. exfalso.
    unfold has_out_edge in Ho. apply existsb_exists in Ho. destruct Ho as [e [He Hm]].
    unfold node_exists in Hne. apply orb_false_iff in Hne. destruct Hne as [Hne _].
    assert (Ht : existsb (fun e0 => mem_bytes p (e_outs e0) || mem_bytes p (e_ins e0) || mem_bytes p (e_vals e0)) (g_edges g) = true).
    { apply existsb_exists. exists e. split; [exact He|]. rewrite Hm. rewrite orb_true_r. reflexivity. }
    congruence. }
  split; [exact Hnone|]. split; [exact Hout|].
  intros [e [He [_ Hp]]]. exact (in_edge_of_output g e p He Hp Hnone).
Qed.

(* ---- C18_generator ---------------------------------------------------------------------------- *)
Theorem C18_generator_all dry g d p :
  unique_producer g -> aux_paths_disjoint g ->
  In p (c_report (clean_all dry false g d)) -> ~ is_generator_output g p.
Proof.
  intros Hu Ha H [e' [He' [Hg' Hp']]]. apply C18_scope_all in H.
  destruct H as [e [He [_ [Hg Hp]]]]. destruct Hg as [Hg|Hg]; [discriminate|].
  unfold edge_paths in Hp. apply in_app_iff in Hp. destruct Hp as [Hp|Hp].
  - rewrite (Hu e e' p He He' Hp Hp') in Hg. congruence.
  - pose proof (Ha e p He Hp) as Hne. rewrite (node_exists_output g e' p He' Hp') in Hne. discriminate.
Qed.

(* with -g they are cleaned like everything else *)
Theorem C18_generator_all_g dry g d e p :
  In e (g_edges g) -> e_phony e = false -> In p (e_outs e) -> d p = FFile ->
  In p (c_report (clean_all dry true g d)).
Proof.
  intros He Hph Hp Hk. apply (C18_complete_all dry true g d); [|exact Hk].
  exists e. repeat split; auto. unfold edge_paths. apply in_app_iff. left. exact Hp.
Qed.

(* ---- C18_count -------------------------------------------------------------------------------- *)
Theorem C18_count_all dry gen g d :
  c_count (clean_all dry gen g d) = length (c_report (clean_all dry gen g d)).
Proof. apply (f_count _ _ _ _ (clean_all_facts dry gen g d)). Qed.

Theorem C18_count_targets dry g d fuel ts r :
  clean_targets_fuel fuel dry g d ts = Some r -> c_count r = length (c_report r).
Proof. intro Hr. apply (f_count _ _ _ _ (clean_targets_facts _ _ _ _ _ _ Hr)). Qed.

Theorem C18_count_rules dry g d rs :
  c_count (clean_rules dry g d rs) = length (c_report (clean_rules dry g d rs)).
Proof. apply (f_count _ _ _ _ (clean_rules_facts dry g d rs)). Qed.

Theorem C18_count_dead dry g d entries :
  c_count (clean_dead dry g d entries) = length (c_report (clean_dead dry g d entries)).
Proof. apply (f_count _ _ _ _ (clean_dead_facts dry g d entries)). Qed.

(* ---- C18_idempotent --------------------------------------------------------------------------- *)
Definition nothing_left (r1 r2 : cl) : Prop :=
  c_report r2 = [] /\ c_count r2 = 0 /\ forall q, c_disk r2 q = c_disk r1 q.

Theorem C18_idempotent_all gen g d :
  let r1 := clean_all false gen g d in nothing_left r1 (clean_all false gen g (c_disk r1)).
Proof.
  cbv zeta. destruct (clean_all_spec false gen g d) as [H1 I1].
  destruct (clean_all_spec false gen g (c_disk (clean_all false gen g d))) as [H2 I2].
  exact (idempotent_generic d (all_scope gen g) _ _ H1 I1 H2 I2).
Qed.

Theorem C18_idempotent_targets g d fuel ts r1 r2 :
  clean_targets_fuel fuel false g d ts = Some r1 ->
  clean_targets_fuel fuel false g (c_disk r1) ts = Some r2 -> nothing_left r1 r2.
Proof.
  intros Hr1 Hr2. destruct (clean_targets_fuel_spec _ _ _ _ _ _ Hr1) as [H1 I1].
  destruct (clean_targets_fuel_spec _ _ _ _ _ _ Hr2) as [H2 I2].
  exact (idempotent_generic d (target_scope g ts) _ _ H1 I1 H2 I2).
Qed.

Theorem C18_idempotent_rules g d rs :
  let r1 := clean_rules false g d rs in nothing_left r1 (clean_rules false g (c_disk r1) rs).
Proof.
  cbv zeta. destruct (clean_rules_spec false g d rs) as [H1 I1].
  destruct (clean_rules_spec false g (c_disk (clean_rules false g d rs)) rs) as [H2 I2].
  exact (idempotent_generic d (rule_scope g rs) _ _ H1 I1 H2 I2).
Qed.

Theorem C18_idempotent_dead g d entries :
  let r1 := clean_dead false g d entries in nothing_left r1 (clean_dead false g (c_disk r1) entries).
Proof.
  cbv zeta. destruct (clean_dead_spec false g d entries) as [H1 I1].
  destruct (clean_dead_spec false g (c_disk (clean_dead false g d entries)) entries) as [H2 I2].
  exact (idempotent_generic d (dead_scope g entries) _ _ H1 I1 H2 I2).
Qed.

(* ---- -n is faithful --------------------------------------------------------------------------- *)
Theorem C18_dry_run_faithful_all gen g d :
  (forall p, all_scope gen g p -> d p <> FStuck) ->
  (forall p, In p (c_report (clean_all true gen g d)) <-> In p (c_report (clean_all false gen g d))) /\
  c_count (clean_all true gen g d) = c_count (clean_all false gen g d).
Proof.
  intro Hns. destruct (clean_all_spec true gen g d) as [H1 I1]. destruct (clean_all_spec false gen g d) as [H2 I2].
  exact (dry_faithful_generic d (all_scope gen g) _ _ H1 I1 H2 I2 Hns).
Qed.

Theorem C18_dry_run_faithful_targets g d fuel ts rd rr :
  clean_targets_fuel fuel true g d ts = Some rd -> clean_targets_fuel fuel false g d ts = Some rr ->
  (forall p, target_scope g ts p -> d p <> FStuck) ->
  (forall p, In p (c_report rd) <-> In p (c_report rr)) /\ c_count rd = c_count rr.
Proof.
  intros Hd Hr Hns. destruct (clean_targets_fuel_spec _ _ _ _ _ _ Hd) as [H1 I1].
  destruct (clean_targets_fuel_spec _ _ _ _ _ _ Hr) as [H2 I2].
  exact (dry_faithful_generic d (target_scope g ts) _ _ H1 I1 H2 I2 Hns).
Qed.

Theorem C18_dry_run_faithful_rules g d rs :
  (forall p, rule_scope g rs p -> d p <> FStuck) ->
  (forall p, In p (c_report (clean_rules true g d rs)) <-> In p (c_report (clean_rules false g d rs))) /\
  c_count (clean_rules true g d rs) = c_count (clean_rules false g d rs).
Proof.
  intro Hns. destruct (clean_rules_spec true g d rs) as [H1 I1]. destruct (clean_rules_spec false g d rs) as [H2 I2].
  exact (dry_faithful_generic d (rule_scope g rs) _ _ H1 I1 H2 I2 Hns).
Qed.

Theorem C18_dry_run_faithful_dead g d entries :
  (forall p, dead_scope g entries p -> d p <> FStuck) ->
  (forall p, In p (c_report (clean_dead true g d entries)) <-> In p (c_report (clean_dead false g d entries))) /\
  c_count (clean_dead true g d entries) = c_count (clean_dead false g d entries).
Proof.
  intro Hns. destruct (clean_dead_spec true g d entries) as [H1 I1]. destruct (clean_dead_spec false g d entries) as [H2 I2].
  exact (dry_faithful_generic d (dead_scope g entries) _ _ H1 I1 H2 I2 Hns).
Qed.

(* ================================================================================================ *)
(** * 6. Computable well-formedness (for the witnesses) and the refutations *)

Fixpoint nodupb (l : list path) : bool :=
  match l with [] => true | x :: l' => negb (mem_bytes x l') && nodupb l' end.

Lemma nodupb_NoDup l : nodupb l = true -> NoDup l.
Proof.
  induction l as [|x l IH]; cbn [nodupb]; intro H; [constructor|].
  apply andb_true_iff in H. destruct H as [H1 H2]. apply negb_true_iff in H1.
  constructor; [apply mem_bytes_false_iff; exact H1 | apply IH; exact H2].
Qed.

Lemma NoDup_app_disjoint {A} (a b : list A) : NoDup (a ++ b) -> NoDup b /\ forall x, In x a -> ~ In x b.
Proof.
  induction a as [|y a IH]; cbn [app]; intro H.
  - split; [exact H | intros x []].
  - apply NoDup_cons_iff in H. destruct H as [Hy Hnd]. destruct (IH Hnd) as [Hb Hd]. split; [exact Hb|].
    intros x [<-|Hx]; [intro Hb'; apply Hy; apply in_app_iff; right; exact Hb' | apply Hd; exact Hx].
Qed.

Lemma nodup_outputs_unique (l : list edge) :
  NoDup (flat_map e_outs l) ->
  forall e1 e2 p, In e1 l -> In e2 l -> In p (e_outs e1) -> In p (e_outs e2) -> e1 = e2.
Proof.
  induction l as [|e l IH]; cbn [flat_map]; intros Hnd e1 e2 p H1 H2 Hp1 Hp2; [destruct H1|].
  destruct (NoDup_app_disjoint _ _ Hnd) as [Hl Hdis].
  destruct H1 as [<-|H1]; destruct H2 as [<-|H2].
  - reflexivity.
  - exfalso. apply (Hdis p Hp1). apply in_flat_map. exists e2. auto.
  - exfalso. apply (Hdis p Hp2). apply in_flat_map. exists e1. auto.
  - exact (IH Hl e1 e2 p H1 H2 Hp1 Hp2).
Qed.

Definition wf_graph_b (g : graph) : bool :=
  nodupb (flat_map e_outs (g_edges g)) &&
  forallb (fun e => forallb (fun a => negb (node_exists g a)) (aux_paths e)) (g_edges g) &&
  forallb (fun e => match e_outs e with [] => false | _ => true end) (g_edges g).

Lemma wf_graph_b_sound g :
  wf_graph_b g = true -> unique_producer g /\ aux_paths_disjoint g /\ outputs_nonempty g.
Proof.
  unfold wf_graph_b. intro H. apply andb_true_iff in H. destruct H as [H H3].
  apply andb_true_iff in H. destruct H as [H1 H2]. split; [|split].
  - unfold unique_producer. apply nodup_outputs_unique. apply nodupb_NoDup. exact H1.
  - intros e a He Ha. rewrite forallb_forall in H2. specialize (H2 e He). rewrite forallb_forall in H2.
    apply negb_true_iff. apply H2. exact Ha.
  - intros e He Hnil. rewrite forallb_forall in H3. specialize (H3 e He). rewrite Hnil in H3. discriminate.
Qed.

Lemma ex_wf : wf_graph_b Ex.g = true.
Proof. vm_compute. reflexivity. Qed.

(* by-target cleaning has no generator test: `-t clean all` (no -g) deletes the generator output 1 *)
Theorem C18_generator_by_target_refuted :
  exists g d ts r p,
    wf_graph_b g = true /\
    clean_targets false g d ts = Some r /\ is_generator_output g p /\ In p (c_report r).
Proof.
  exists Ex.g, Ex.d, [Ex.p 6], (match clean_targets false Ex.g Ex.d [Ex.p 6] with Some r => r | None => reset Ex.d end), (Ex.p 1).
  split; [exact ex_wf|]. split; [vm_compute; reflexivity|]. split.
  - exists Ex.e_gen. split; [left; reflexivity|]. split; [reflexivity | left; reflexivity].
  - vm_compute. auto 10.
Qed.

(* neither has by-rule cleaning *)
Theorem C18_generator_by_rule_refuted :
  exists g d rs p,
    wf_graph_b g = true /\ is_generator_output g p /\ In p (c_report (clean_rules false g d rs)).
Proof.
  exists Ex.g, Ex.d, [9%N], (Ex.p 1). split; [exact ex_wf|]. split.
  - exists Ex.e_gen. split; [left; reflexivity|]. split; [reflexivity | left; reflexivity].
  - vm_compute. auto.
Qed.

(* `-t clean -r phony` removes nothing: the source file 5 declared by `build 5: phony` survives *)
Lemma ex_rule_phony_removes_nothing :
  c_report (clean_rules false Ex.g Ex.d [0%N]) = [] /\ c_disk (clean_rules false Ex.g Ex.d [0%N]) (Ex.p 5) = FFile.
Proof. split; vm_compute; reflexivity. Qed.

(* without aux_paths_disjoint the no-source claim is false: a depfile binding naming a source *)
Theorem C18_aux_overlap_removes_source :
  exists g d p, is_source g p /\ In p (c_report (clean_all false false g d)).
Proof.
  exists (mkGraph [mkEdge [Ex.p 1] [Ex.p 0] [] false false 7 (Some (Ex.p 0)) None] [7%N] []), Ex.d, (Ex.p 0).
  split; [split; vm_compute; reflexivity | vm_compute; auto].
Qed.
