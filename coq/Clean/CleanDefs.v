(* C18 — executable model of ninja's Cleaner (src/clean.cc, src/clean.h): `-t clean` (everything,
   by target, by rule; -g, -n) and `-t cleandead`.  DEFINITIONS ONLY (see CONVENTIONS.md).

   The model is a transliteration of the code that exists, bookkeeping included:
     removed_              -> c_removed   (paths Remove() was attempted on)
     cleaned_              -> c_cleaned   (nodes DoCleanTarget() has finished)
     cleaned_files_count_  -> c_count
     status_               -> c_status
   plus two observation fields that the C++ only has implicitly: the disk (c_disk) and the list of
   Report() calls (c_report: the files removed — with -n: the files that would be removed).

   What is a parameter:
   * the graph is the State AFTER Cleaner::LoadDyndeps(): outputs/inputs discovered by the dyndep
     files that exist (and load) at that moment are already merged into e_outs / e_ins, in the
     positions DyndepLoader::UpdateEdge puts them (outputs appended; inputs before the order-only
     ones).  LoadDyndeps runs before anything is removed, so this is a function of the initial disk.
   * e_depfile / e_rspfile are Edge::GetUnescapedDepfile()/GetUnescapedRspfile(): None = "".
   * e_generator is Edge::GetBindingBool("generator"), e_phony is Edge::is_phony(),
     e_rule is rule().name() (an id for the name: DoCleanRule compares NAMES).
   * target names arrive canonicalized (CanonicalizePath is C14's model).
   * the disk answers per path: FAbsent (RemoveFile = 1, FileExists = false), FFile (RemoveFile = 0,
     FileExists = true), FStuck (exists but cannot be removed: RemoveFile = -1, FileExists = true;
     a non-empty directory, a file in a read-only directory). *)
From NinjaV Require Import Base.Bytes.

Definition path := bytes.

Record edge := mkEdge {
  e_outs : list path;          (* outputs_ (explicit, implicit, dyndep-discovered) *)
  e_ins : list path;           (* inputs_ (explicit, implicit incl. dyndep-discovered, order-only) *)
  e_vals : list path;          (* validations_ (never followed by the cleaner; nodes only) *)
  e_phony : bool;
  e_generator : bool;
  e_rule : N;
  e_depfile : option path;
  e_rspfile : option path
}.

Record graph := mkGraph {
  g_edges : list edge;         (* State::edges_ in order *)
  g_rules : list N;            (* rule names State::bindings_.LookupRule finds (top scope, incl. phony) *)
  g_extra_nodes : list path    (* nodes of State::paths_ that no edge mentions (deps-log nodes) *)
}.

Inductive fkind := FAbsent | FFile | FStuck.
Definition disk := path -> fkind.

Record cl := mkCl {
  c_removed : list path;       (* removed_, newest first *)
  c_cleaned : list path;       (* cleaned_, newest first *)
  c_count : nat;               (* cleaned_files_count_ *)
  c_status : bool;             (* status_ != 0 *)
  c_disk : disk;
  c_report : list path         (* Report() calls, newest first *)
}.

(* Cleaner::Reset() + the disk the Cleaner was constructed over *)
Definition reset (d : disk) : cl := mkCl [] [] 0 false d [].

Definition set_status (s : cl) : cl :=
  mkCl (c_removed s) (c_cleaned s) (c_count s) true (c_disk s) (c_report s).

Definition mark_cleaned (n : path) (s : cl) : cl :=
  mkCl (c_removed s) (if mem_bytes n (c_cleaned s) then c_cleaned s else n :: c_cleaned s)
       (c_count s) (c_status s) (c_disk s) (c_report s).

Definition disk_remove (d : disk) (p : path) : disk :=
  fun q => if bytes_eqb q p then FAbsent else d q.

(* Cleaner::Remove(path):
     if (!IsAlreadyRemoved(path)) { removed_.insert(path);
       if (dry_run) { if (FileExists(path)) Report(path); }
       else { ret = RemoveFile(path); if (ret == 0) Report(path); else if (ret == -1) status_ = 1; } } *)
Definition remove (dry : bool) (p : path) (s : cl) : cl :=
  if mem_bytes p (c_removed s) then s else
  let rm := p :: c_removed s in
  match c_disk s p with
  | FAbsent => mkCl rm (c_cleaned s) (c_count s) (c_status s) (c_disk s) (c_report s)
  | FFile =>
      if dry then mkCl rm (c_cleaned s) (S (c_count s)) (c_status s) (c_disk s) (p :: c_report s)
      else mkCl rm (c_cleaned s) (S (c_count s)) (c_status s) (disk_remove (c_disk s) p) (p :: c_report s)
  | FStuck =>
      if dry then mkCl rm (c_cleaned s) (S (c_count s)) (c_status s) (c_disk s) (p :: c_report s)
      else mkCl rm (c_cleaned s) (c_count s) true (c_disk s) (c_report s)
  end.

Definition remove_opt (dry : bool) (o : option path) (s : cl) : cl :=
  match o with None => s | Some p => remove dry p s end.

(* Cleaner::RemoveEdgeFiles(edge): depfile, then rspfile *)
Definition remove_edge_files (dry : bool) (e : edge) (s : cl) : cl :=
  remove_opt dry (e_rspfile e) (remove_opt dry (e_depfile e) s).

Definition remove_list (dry : bool) (ps : list path) (s : cl) : cl :=
  fold_left (fun s p => remove dry p s) ps s.

(* "for (out : e->outputs_) Remove(out->path());  RemoveEdgeFiles(e);" (CleanAll, DoCleanTarget) *)
Definition clean_edge (dry : bool) (e : edge) (s : cl) : cl :=
  remove_edge_files dry e (remove_list dry (e_outs e) s).

(* ---- graph queries ------------------------------------------------------------------------- *)
(* Node::in_edge(): the statement that lists the path among its outputs.  The manifest parser (and
   the dyndep loader, when the load succeeds) guarantee at most one; [find] takes the first. *)
Definition in_edge (g : graph) (p : path) : option edge :=
  find (fun e => mem_bytes p (e_outs e)) (g_edges g).

(* !Node::out_edges().empty(): some statement lists the path among its inputs_ (validations are
   kept in validation_out_edges_ and do not count). *)
Definition has_out_edge (g : graph) (p : path) : bool :=
  existsb (fun e => mem_bytes p (e_ins e)) (g_edges g).

(* State::LookupNode(path) != NULL *)
Definition node_exists (g : graph) (p : path) : bool :=
  existsb (fun e => mem_bytes p (e_outs e) || mem_bytes p (e_ins e) || mem_bytes p (e_vals e)) (g_edges g)
  || mem_bytes p (g_extra_nodes g).

(* ---- CleanAll(generator) ------------------------------------------------------------------- *)
Definition clean_all_edge (dry gen : bool) (s : cl) (e : edge) : cl :=
  if e_phony e then s
  else if negb gen && e_generator e then s
  else clean_edge dry e s.

Definition clean_all (dry gen : bool) (g : graph) (d : disk) : cl :=
  fold_left (clean_all_edge dry gen) (g_edges g) (reset d).

(* ---- CleanTargets -------------------------------------------------------------------------- *)
(* the loop over e->inputs_ of DoCleanTarget, the recursive call abstracted *)
Fixpoint clean_inputs (rec : path -> cl -> option cl) (ins : list path) (s : cl) : option cl :=
  match ins with
  | [] => Some s
  | n :: ins' =>
      if mem_bytes n (c_cleaned s) then clean_inputs rec ins' s
      else match rec n s with
           | Some s' => clean_inputs rec ins' s'
           | None => None
           end
  end.

(* Cleaner::DoCleanTarget(target): the node is inserted into cleaned_ FIRST, then its producing
   statement is cleaned and the walk continues into the inputs that are not yet in cleaned_.  Every
   recursive call therefore consumes a fresh node: the depth is bounded by the number of distinct
   input names (+1 for the named target), cycles included.  The fuel only makes the definition
   structural; None = out of fuel is unreachable with default_fuel (CleanProofs.clean_targets_total). *)
Fixpoint do_clean_target (fuel : nat) (dry : bool) (g : graph) (t : path) (s : cl) : option cl :=
  match fuel with
  | O => None
  | S f =>
      let s0 := mark_cleaned t s in
      match in_edge g t with
      | None => Some s0
      | Some e =>
          let s1 := if e_phony e then s0 else clean_edge dry e s0 in
          clean_inputs (do_clean_target f dry g) (e_ins e) s1
      end
  end.

(* the loop of CleanTargets over the (canonicalized) names: DoCleanTarget is called for every name
   that is a node — also when the node is already in cleaned_ — and an unknown name sets status_ *)
Fixpoint clean_targets_loop (fuel : nat) (dry : bool) (g : graph) (ts : list path) (s : cl) : option cl :=
  match ts with
  | [] => Some s
  | t :: ts' =>
      if node_exists g t then
        match do_clean_target fuel dry g t s with
        | Some s' => clean_targets_loop fuel dry g ts' s'
        | None => None
        end
      else clean_targets_loop fuel dry g ts' (set_status s)
  end.

(* enough for every graph (CleanProofs.clean_targets_fuel_sufficient): one more than the number of
   input occurrences, an upper bound of the number of distinct nodes the walk can descend into *)
Definition default_fuel (g : graph) : nat := S (length (flat_map e_ins (g_edges g))).

Definition clean_targets_fuel (fuel : nat) (dry : bool) (g : graph) (d : disk) (ts : list path) : option cl :=
  clean_targets_loop fuel dry g ts (reset d).

Definition clean_targets (dry : bool) (g : graph) (d : disk) (ts : list path) : option cl :=
  clean_targets_fuel (default_fuel g) dry g d ts.

(* ---- CleanRules ---------------------------------------------------------------------------- *)
(* DoCleanRule: phony statements are skipped; RemoveEdgeFiles is called INSIDE the loop over the
   outputs (once per output; the repetitions are absorbed by removed_) *)
Definition clean_rule_edge (dry : bool) (r : N) (s : cl) (e : edge) : cl :=
  if e_phony e then s
  else if N.eqb (e_rule e) r
  then fold_left (fun s o => remove_edge_files dry e (remove dry o s)) (e_outs e) s
  else s.

Definition do_clean_rule (dry : bool) (g : graph) (r : N) (s : cl) : cl :=
  fold_left (clean_rule_edge dry r) (g_edges g) s.

Definition mem_N (x : N) (l : list N) : bool := existsb (N.eqb x) l.

Definition clean_rules_step (dry : bool) (g : graph) (s : cl) (r : N) : cl :=
  if mem_N r (g_rules g) then do_clean_rule dry g r s else set_status s.

Definition clean_rules (dry : bool) (g : graph) (d : disk) (rs : list N) : cl :=
  fold_left (clean_rules_step dry g) rs (reset d).

(* ---- CleanDead(entries) -------------------------------------------------------------------- *)
(* if (!n || (!n->in_edge() && n->out_edges().empty())) Remove(entry) *)
Definition is_dead (g : graph) (p : path) : bool :=
  negb (node_exists g p)
  || (match in_edge g p with None => true | Some _ => false end && negb (has_out_edge g p)).

Definition clean_dead_step (dry : bool) (g : graph) (s : cl) (p : path) : cl :=
  if is_dead g p then remove dry p s else s.

Definition clean_dead (dry : bool) (g : graph) (d : disk) (entries : list path) : cl :=
  fold_left (clean_dead_step dry g) entries (reset d).

(* ---- interface for the driver: a disk given by two lists ----------------------------------- *)
Definition disk_of (files stuck : list path) : disk :=
  fun p => if mem_bytes p stuck then FStuck else if mem_bytes p files then FFile else FAbsent.

(* removed files oldest first, count, status *)
Definition result (s : cl) : list path * nat * bool := (rev (c_report s), c_count s, c_status s).

(* ---- tiny examples (also the witnesses used in CleanProofs / Properties_C18) ---------------- *)
Module Ex.
  Local Open Scope N_scope.
  Definition p (n : N) : path := [n].
  (* build 1: gen(9) 0          generator = 1
     build 2 | 12: cc(7) 3 | 1  depfile = 20
     build 4: link(8) 2         rspfile = 21
     build 5: phony             (a "source declared phony")
     build 6: phony 4 5 *)
  Definition e_gen := mkEdge [p 1] [p 0] [] false true 9 None None.
  Definition e_cc := mkEdge [p 2; p 12] [p 3; p 1] [] false false 7 (Some (p 20)) None.
  Definition e_link := mkEdge [p 4] [p 2] [] false false 8 None (Some (p 21)).
  Definition e_src := mkEdge [p 5] [] [] true false 0 None None.
  Definition e_all := mkEdge [p 6] [p 4; p 5] [] true false 0 None None.
  Definition g := mkGraph [e_gen; e_cc; e_link; e_src; e_all] [0; 7; 8; 9] [].
  Definition all_files := [p 0; p 1; p 2; p 12; p 3; p 4; p 5; p 20; p 21].
  Definition d := disk_of all_files [].

  Example all_default : result (clean_all false false g d) = ([p 2; p 12; p 20; p 4; p 21], 5%nat, false).
  Proof. vm_compute. reflexivity. Qed.
  Example all_g : result (clean_all false true g d) = ([p 1; p 2; p 12; p 20; p 4; p 21], 6%nat, false).
  Proof. vm_compute. reflexivity. Qed.
  Example by_target : option_map result (clean_targets false g d [p 6])
                      = Some ([p 4; p 21; p 2; p 12; p 20; p 1], 6%nat, false).
  Proof. vm_compute. reflexivity. Qed.
  (* `-r phony` (and an unknown rule): nothing removed, status 1 for the unknown name *)
  Example by_rule_phony : result (clean_rules false g d [0; 99]) = ([], 0%nat, true).
  Proof. vm_compute. reflexivity. Qed.
  Example dead : result (clean_dead false g d [p 4; p 0; p 30; p 5; p 20]) = ([p 20], 1%nat, false).
  Proof. vm_compute. reflexivity. Qed.

  (* cyclic: build 1: r 2 ; build 2: r 1 ; and the self loop build 3: r 3 — the walk terminates *)
  Definition gc := mkGraph [mkEdge [p 1] [p 2] [] false false 7 None None;
                            mkEdge [p 2] [p 1] [] false false 7 None None;
                            mkEdge [p 3] [p 3] [] false false 7 None None] [7] [].
  Example cyclic_terminates : option_map result (clean_targets false gc d [p 1; p 3])
                              = Some ([p 1; p 2; p 3], 3%nat, false).
  Proof. vm_compute. reflexivity. Qed.
End Ex.
