(* Extraction of the build-log model (C08) into its own OCaml module (generic names such as
   [entry], [session], [recompact] would clash in model.ml). *)
Require Import ExtrOcamlBasic.
From NinjaV Require Import Base.Bytes Log.BuildLogDefs.
Extraction Language OCaml.
Set Extraction KeepSingleton.
Extraction "buildlogmodel.ml" load_log load_log_buf render_entry log_header record_append
  recompact restat_log restat_file session last_wins.
