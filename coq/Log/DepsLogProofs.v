(* Proofs about the deps-log model (DepsLogDefs.v): C09 and the deps-log part of C13.
   No axioms; stdlib List/NArith/ZArith/Lia only. *)
From NinjaV Require Import Base.Bytes Log.DepsLogDefs.
From Coq Require Import ZifyBool ZifyNat ZifyN.
Local Open Scope N_scope.

Ltac Zify.zify_post_hook ::= Z.div_mod_to_equations.

Arguments N.add : simpl never.
Arguments N.mul : simpl never.
Arguments N.div : simpl never.
Arguments N.modulo : simpl never.
Arguments N.of_nat : simpl never.
Arguments N.to_nat : simpl never.
Arguments N.leb : simpl never.
Arguments N.ltb : simpl never.
Arguments N.eqb : simpl never.
Arguments N.sub : simpl never.

(* ==================================================================================== *)
(* 1. Words                                                                             *)

Lemma le32_length w : length (le32 w) = 4%nat.
Proof. reflexivity. Qed.

Lemma le32_value w : w < two32 ->
  w mod 256 + 256 * ((w / 256) mod 256) + 65536 * ((w / 65536) mod 256)
  + 16777216 * ((w / 16777216) mod 256) = w.
Proof. unfold two32. intros H. lia. Qed.

Lemma rd32_le32 w r : w < two32 -> rd32 (le32 w ++ r) = Some (w, r).
Proof.
  intros H. unfold le32, rd32. cbn [app]. rewrite (le32_value w H). reflexivity.
Qed.

Lemma words_of_le32 w r : w < two32 -> words_of (le32 w ++ r) = w :: words_of r.
Proof.
  intros H. unfold le32. cbn [app words_of]. rewrite (le32_value w H). reflexivity.
Qed.

Lemma words_of_flat_le32 ins :
  Forall (fun i => i < two32) ins -> words_of (flat_map le32 ins) = ins.
Proof.
  induction ins as [|i r IH]; intros HF; [reflexivity|].
  inversion HF as [|i' r' Hi Hr]; subst.
  cbn [flat_map]. rewrite (words_of_le32 i _ Hi), (IH Hr). reflexivity.
Qed.

Lemma s32_lnot32_lnot32 id : id < two31 -> s32 (lnot32 (lnot32 id)) = Z.of_N id.
Proof.
  unfold two31. intros H. unfold s32, lnot32, two32, two31.
  destruct (N.ltb_spec (4294967296 - 1 - (4294967296 - 1 - id mod 4294967296) mod 4294967296)
                       2147483648) as [H1|H1]; lia.
Qed.

Lemma lnot32_lt w : lnot32 w < two32.
Proof. unfold lnot32, two32. lia. Qed.

Lemma wf_mtime_range m : wf_mtime m = true ->
  (-9223372036854775808 <= m <= 9223372036854775807)%Z.
Proof. unfold wf_mtime. lia. Qed.

Lemma mtime_lo_lt m : mtime_lo m < two32.
Proof. unfold mtime_lo, u32, two32. lia. Qed.

Lemma mtime_hi_lt m : mtime_hi m < two32.
Proof. unfold mtime_hi, u32, two32. lia. Qed.

Lemma s64_mtime m : wf_mtime m = true -> s64 (mtime_hi m * two32 + mtime_lo m) = m.
Proof.
  intros H. apply wf_mtime_range in H.
  unfold s64, mtime_hi, mtime_lo, u32, two32.
  destruct (N.ltb_spec (Z.to_N ((m / 4294967296) mod 4294967296) * 4294967296
                        + Z.to_N (m mod 4294967296)) 9223372036854775808) as [H1|H1]; lia.
Qed.

(* ==================================================================================== *)
(* 2. take, frame                                                                       *)

Lemma take_app a r : take (length a) (a ++ r) = Some (a, r).
Proof.
  induction a as [|x a IH]; [reflexivity|]. cbn [length app take]. rewrite IH. reflexivity.
Qed.

Lemma take_some n : forall l a r, take n l = Some (a, r) -> l = a ++ r /\ length a = n.
Proof.
  induction n as [|n IH]; intros l a r H.
  - cbn [take] in H. inversion H; subst. split; reflexivity.
  - cbn [take] in H. destruct l as [|x l]; [discriminate|].
    destruct (take n l) as [[a' r']|] eqn:E; [|discriminate].
    inversion H; subst. destruct (IH _ _ _ E) as [-> <-]. split; reflexivity.
Qed.

Lemma take_short n : forall l, (length l < n)%nat -> take n l = None.
Proof.
  induction n as [|n IH]; intros l H; [lia|].
  cbn [take]. destruct l as [|x l]; [reflexivity|].
  cbn [length] in H. rewrite IH by lia. reflexivity.
Qed.

Lemma frev_rev l : frev l = rev l.
Proof. unfold frev. rewrite rev_append_rev. apply app_nil_r. Qed.

(* Anatomy of an accepted frame. *)
Lemma frame_rec x d size buf rest :
  frame x = FRec d size buf rest ->
  exists hd, x = hd ++ buf ++ rest /\ length hd = 4%nat /\ length buf = N.to_nat size /\
             0 < size /\ size <= kMaxRecordSize /\
             (forall z, frame (hd ++ buf ++ z) = FRec d size buf z) /\
             (forall k, (k < 4 + length buf)%nat ->
                        frame (firstn k (hd ++ buf)) =
                          if (k =? 0)%nat then FEof else if (k <? 4)%nat then FTorn else FFail).
Proof.
  unfold frame. destruct x as [|b0 [|b1 [|b2 [|b3 x1]]]]; cbn [rd32]; try discriminate.
  set (w := b0 + 256 * b1 + 65536 * b2 + 16777216 * b3).
  destruct ((kMaxRecordSize <? w mod two31) || (w mod two31 =? 0)) eqn:Ec; [discriminate|].
  destruct (take (N.to_nat (w mod two31)) x1) as [[bf rs]|] eqn:Et; [|discriminate].
  intros H. inversion H; subst d size buf rest. clear H.
  destruct (take_some _ _ _ _ Et) as [-> Hlen].
  exists [b0; b1; b2; b3]. split; [reflexivity|]. split; [reflexivity|]. split; [exact Hlen|].
  split; [lia|]. split; [lia|]. split.
  - intros z. cbn [app rd32]. fold w. rewrite Ec. rewrite <- Hlen, take_app. reflexivity.
  - intros k Hk.
    destruct k as [|[|[|[|k]]]]; try reflexivity.
    cbn [app firstn rd32]. fold w. rewrite Ec.
    replace ((S (S (S (S k))) <? 4)%nat) with false by (symmetry; apply Nat.ltb_ge; lia).
    rewrite take_short; [reflexivity|].
    rewrite firstn_length. lia.
Qed.

(* The frame of a record as the writer lays it out. *)
Lemma frame_enc (d : bool) body z :
  0 < nlen body -> nlen body <= kMaxRecordSize ->
  frame (le32 ((if d then two31 else 0) + nlen body) ++ body ++ z) = FRec d (nlen body) body z.
Proof.
  intros H0 H1. unfold frame, kMaxRecordSize in *.
  rewrite rd32_le32 by (unfold two32, two31; destruct d; lia).
  assert (Hm : ((if d then two31 else 0) + nlen body) mod two31 = nlen body)
    by (unfold two31; destruct d; lia).
  rewrite Hm.
  replace (two31 <=? (if d then two31 else 0) + nlen body) with d
    by (unfold two31; destruct d; lia).
  replace ((524287 <? nlen body) || (nlen body =? 0)) with false by lia.
  unfold nlen. rewrite Nat2N.id, take_app. reflexivity.
Qed.

(* ==================================================================================== *)
(* 3. The loop as a step function; runs                                                 *)

Definition step (strict : rmode) (st : lstate) (x : bytes) : option (lstate * bytes) :=
  match frame x with
  | FRec d size buf rest =>
      match decode strict (d_paths (l_s st)) d size buf with
      | RPath p => Some (l_add_path st p size, rest)
      | RDeps o m ins => Some (l_add_deps st o m ins size, rest)
      | _ => None
      end
  | _ => None
  end.

(* What the loader returns when no further record is accepted. *)
Definition final (old : bool) (strict : rmode) (st : lstate) (x : bytes) : dload :=
  match frame x with
  | FEof => DOk (l_s st) None (needs_recompaction (l_total st) (l_unique st))
  | FTorn =>
      if old then DOk (l_s st) None (needs_recompaction (l_total st) (l_unique st))
      else DOk (l_s st) (Some (N.to_nat (l_off st)))
               (needs_recompaction (l_total st) (l_unique st))
  | FFail => DOk (l_s st) (Some (N.to_nat (l_off st))) false
  | FRec d size buf rest =>
      match decode strict (d_paths (l_s st)) d size buf with
      | RUnsafe why => DUnsafe why
      | _ => DOk (l_s st) (Some (N.to_nat (l_off st))) false
      end
  end.

Lemma step_nil strict st : step strict st [] = None.
Proof. reflexivity. Qed.

Lemma load_loop_step old strict f st x :
  load_loop old strict (S f) st x =
  match step strict st x with
  | Some (st', y) => load_loop old strict f st' y
  | None => final old strict st x
  end.
Proof.
  cbn [load_loop]. unfold step, final.
  destruct (frame x) as [| | |d size buf rest]; try reflexivity.
  destruct (decode strict (d_paths (l_s st)) d size buf); reflexivity.
Qed.

Inductive runs (strict : rmode) : lstate -> bytes -> lstate -> bytes -> Prop :=
| runs_nil st x : runs strict st x st x
| runs_cons st x st1 y st' z :
    step strict st x = Some (st1, y) -> runs strict st1 y st' z -> runs strict st x st' z.

Lemma runs_trans strict st x st1 y st2 z :
  runs strict st x st1 y -> runs strict st1 y st2 z -> runs strict st x st2 z.
Proof.
  induction 1 as [|st x sta ya st1 y Hs _ IH]; intros H2; [exact H2|].
  eapply runs_cons; [exact Hs|]. apply IH. exact H2.
Qed.

(* State extension: the tables only grow. *)
Definition extends (s s' : dstate) : Prop :=
  (exists np, d_paths s' = d_paths s ++ np) /\ (exists nd, d_deps s' = nd ++ d_deps s).

Lemma extends_refl s : extends s s.
Proof. split; [exists []; symmetry; apply app_nil_r|exists []; reflexivity]. Qed.

Lemma extends_trans a b c : extends a b -> extends b c -> extends a c.
Proof.
  intros [[p1 H1] [d1 G1]] [[p2 H2] [d2 G2]]. split.
  - exists (p1 ++ p2). rewrite H2, H1, app_assoc. reflexivity.
  - exists (d2 ++ d1). rewrite G2, G1, app_assoc. reflexivity.
Qed.

(* What the loader returns on a file that ends [k] bytes into a record, in state [st]. *)
Definition torn_result (old : bool) (st : lstate) (k : nat) : dload :=
  if (k =? 0)%nat then DOk (l_s st) None (needs_recompaction (l_total st) (l_unique st))
  else if (k <? 4)%nat then
    (if old then DOk (l_s st) None (needs_recompaction (l_total st) (l_unique st))
     else DOk (l_s st) (Some (N.to_nat (l_off st)))
              (needs_recompaction (l_total st) (l_unique st)))
  else DOk (l_s st) (Some (N.to_nat (l_off st))) false.

Lemma step_anatomy strict st x st' y :
  step strict st x = Some (st', y) ->
  exists c, x = c ++ y /\ (4 < length c)%nat /\
            l_off st' = l_off st + nlen c /\
            extends (l_s st) (l_s st') /\
            (forall z, step strict st (c ++ z) = Some (st', z)) /\
            (forall k, (k < length c)%nat ->
               step strict st (firstn k c) = None /\
               forall old, final old strict st (firstn k c) = torn_result old st k).
Proof.
  unfold step. destruct (frame x) as [| | |d size buf rest] eqn:Ef; try discriminate.
  destruct (frame_rec _ _ _ _ _ Ef) as (hd & -> & Hhd & Hbuf & Hpos & Hmax & Hext & Hpre).
  intros H. exists (hd ++ buf).
  assert (Hlen : nlen (hd ++ buf) = size + 4).
  { unfold nlen. rewrite app_length, Hhd, Hbuf. lia. }
  assert (Hgen : forall k, (k < length (hd ++ buf))%nat ->
     step strict st (firstn k (hd ++ buf)) = None /\
     forall old, final old strict st (firstn k (hd ++ buf)) = torn_result old st k).
  { intros k Hk. rewrite app_length, Hhd in Hk.
    unfold step, final, torn_result. rewrite (Hpre k Hk).
    destruct (k =? 0)%nat; [split; reflexivity|]. destruct (k <? 4)%nat; split; reflexivity. }
  destruct (decode strict (d_paths (l_s st)) d size buf) as [| |p|o m ins] eqn:Ed;
    try discriminate; inversion H; subst st' y; clear H.
  - split; [rewrite <- app_assoc; reflexivity|].
    split; [rewrite app_length; lia|].
    split; [cbn [l_add_path l_off]; lia|].
    split.
    { cbn [l_add_path l_s]. split; [exists [p]; reflexivity|exists []; reflexivity]. }
    split; [|exact Hgen].
    intros z. unfold step. rewrite <- app_assoc, Hext, Ed. reflexivity.
  - split; [rewrite <- app_assoc; reflexivity|].
    split; [rewrite app_length; lia|].
    split; [cbn [l_add_deps l_off]; lia|].
    split.
    { cbn [l_add_deps l_s]. split; [exists []; symmetry; apply app_nil_r|].
      exists [(o, (m, ins))]. reflexivity. }
    split; [|exact Hgen].
    intros z. unfold step. rewrite <- app_assoc, Hext, Ed. reflexivity.
Qed.

Lemma runs_anatomy strict st x st' y :
  runs strict st x st' y ->
  exists c, x = c ++ y /\ l_off st' = l_off st + nlen c /\ extends (l_s st) (l_s st') /\
            (forall z, runs strict st (c ++ z) st' z).
Proof.
  induction 1 as [st x|st x st1 y st' z Hs _ IH].
  - exists []. split; [reflexivity|]. split; [unfold nlen; cbn [length]; lia|].
    split; [apply extends_refl|]. intros z. apply runs_nil.
  - destruct (step_anatomy _ _ _ _ _ Hs) as (c1 & -> & _ & Ho1 & He1 & Hx1 & _).
    destruct IH as (c2 & -> & Ho2 & He2 & Hx2).
    exists (c1 ++ c2). split; [rewrite app_assoc; reflexivity|].
    split; [unfold nlen in *; rewrite app_length; lia|].
    split; [eapply extends_trans; eassumption|].
    intros z'. rewrite <- app_assoc. eapply runs_cons; [apply Hx1|apply Hx2].
Qed.

Lemma load_loop_runs old strict st x st' y :
  runs strict st x st' y ->
  forall f, (length x < f)%nat ->
  exists f', (length y < f')%nat /\ load_loop old strict f st x = load_loop old strict f' st' y.
Proof.
  induction 1 as [st x|st x st1 y st' z Hs _ IH]; intros f Hf.
  - exists f. split; [exact Hf|reflexivity].
  - destruct f as [|f]; [lia|].
    rewrite load_loop_step, Hs.
    destruct (step_anatomy _ _ _ _ _ Hs) as (c1 & -> & Hc1 & _).
    rewrite app_length in Hf. apply IH. lia.
Qed.

Lemma load_loop_final old strict st x f :
  step strict st x = None -> load_loop old strict (S f) st x = final old strict st x.
Proof. intros H. rewrite load_loop_step, H. reflexivity. Qed.

Lemma runs_total strict : forall n x st, (length x <= n)%nat ->
  exists st' y, runs strict st x st' y /\ step strict st' y = None.
Proof.
  induction n as [|n IH]; intros x st Hn.
  - destruct (step strict st x) as [[st1 y]|] eqn:Es.
    + destruct (step_anatomy _ _ _ _ _ Es) as (c & -> & Hc & _).
      rewrite app_length in Hn. lia.
    + exists st, x. split; [apply runs_nil|exact Es].
  - destruct (step strict st x) as [[st1 y]|] eqn:Es.
    + destruct (step_anatomy _ _ _ _ _ Es) as (c & -> & Hc & _).
      rewrite app_length in Hn.
      destruct (IH y st1 ltac:(lia)) as (st' & y' & Hr & Hn').
      exists st', y'. split; [|exact Hn']. eapply runs_cons; [exact Es|exact Hr].
    + exists st, x. split; [apply runs_nil|exact Es].
Qed.

Lemma runs_inv_nonempty strict st x st' :
  runs strict st x st' [] -> x <> [] ->
  exists st1 y, step strict st x = Some (st1, y) /\ runs strict st1 y st' [].
Proof.
  intros H Hne. inversion H as [st0 x0|st0 x0 st1 y st2 z Hs Hr]; subst.
  - congruence.
  - exists st1, y. split; assumption.
Qed.

(* Determinism: the records of a clean prefix are the first records of any clean extension. *)
Lemma runs_det_prefix strict st c st1 :
  runs strict st c st1 [] ->
  forall z st', runs strict st (c ++ z) st' [] -> runs strict st1 z st' [].
Proof.
  intros H. remember [] as e eqn:He. revert He.
  induction H as [st x|st x sta ya st1 e' Hs Hr IH]; intros He z st' H2.
  - subst x. exact H2.
  - subst e'. destruct (step_anatomy _ _ _ _ _ Hs) as (c0 & -> & Hc0 & _ & _ & Hx & _).
    rewrite <- app_assoc in H2.
    destruct (runs_inv_nonempty _ _ _ _ H2) as (stb & yb & Hsb & Hrb).
    { destruct c0; [cbn [length] in Hc0; lia|discriminate]. }
    rewrite Hx in Hsb. inversion Hsb; subst stb yb.
    apply IH; [reflexivity|exact Hrb].
Qed.

Lemma runs_stuck strict st x st' :
  step strict st x = None -> x <> [] -> ~ runs strict st x st' [].
Proof.
  intros Hs Hne H. destruct (runs_inv_nonempty _ _ _ _ H Hne) as (st1 & y & Hs1 & _). congruence.
Qed.

Lemma take16_header x : take 16 (deps_header ++ x) = Some (deps_header, x).
Proof. exact (take_app deps_header x). Qed.

(* Characterisation of the loader on a file with a valid header. *)
Lemma load_deps_runs old strict x st' y :
  runs strict l_init x st' y -> step strict st' y = None ->
  load_deps_ver old strict (deps_header ++ x) = final old strict st' y.
Proof.
  intros Hr Hn. unfold load_deps_ver. rewrite take16_header, bytes_eqb_refl.
  destruct (load_loop_runs old _ _ _ _ _ Hr (S (length x)) ltac:(lia)) as (f' & Hf' & ->).
  destruct f' as [|f']; [lia|]. apply load_loop_final. exact Hn.
Qed.

Lemma load_deps_header_inv old strict f :
  load_deps_ver old strict f <> DBadHeader -> exists x, f = deps_header ++ x.
Proof.
  unfold load_deps_ver. destruct (take 16 f) as [[h x]|] eqn:Et; [|congruence].
  destruct (take_some _ _ _ _ Et) as [-> _].
  destruct (bytes_eqb_spec h deps_header) as [->|Hne]; [|congruence].
  intros _. exists x. reflexivity.
Qed.

Lemma final_not_fuel old strict st x :
  step strict st x = None -> final old strict st x <> DFuel.
Proof.
  unfold step, final. destruct (frame x) as [| | |d size buf rest]; try discriminate.
  { destruct old; discriminate. }
  destruct (decode strict (d_paths (l_s st)) d size buf); discriminate.
Qed.

(* Fuel is never exhausted: the loader is total on all byte strings. *)
Theorem load_deps_never_fuel old strict f : load_deps_ver old strict f <> DFuel.
Proof.
  destruct (load_deps_ver old strict f) eqn:E; try discriminate.
  exfalso.
  destruct (load_deps_header_inv old strict f ltac:(congruence)) as [x ->].
  destruct (runs_total strict (length x) x l_init (le_n _)) as (st' & y & Hr & Hn).
  rewrite (load_deps_runs _ _ _ _ _ Hr Hn) in E.
  exact (final_not_fuel _ _ _ _ Hn E).
Qed.

(* ==================================================================================== *)
(* 4. The writer's records are accepted by one step of the loader                       *)

Lemma rev_repeat0 k : rev (repeat 0 k) = repeat 0 k.
Proof.
  induction k as [|k IH]; [reflexivity|].
  cbn [repeat rev]. rewrite IH. symmetry. apply repeat_cons.
Qed.

Lemma padding_lt n : (padding n < 4)%nat.
Proof. unfold padding. lia. Qed.

Lemma padding_aligned n : N.of_nat (n + padding n + 4) mod 4 = 0.
Proof. unfold padding. lia. Qed.

Lemma strip3_pad k (b : byte) (q : bytes) : (k < 4)%nat -> b <> 0 ->
  strip3 (repeat 0 k ++ b :: q) = Some (b :: q).
Proof.
  intros Hk Hb. apply N.eqb_neq in Hb.
  destruct k as [|[|[|[|k]]]]; [| | | |lia];
    cbn [repeat app]; unfold strip3, strip_step; rewrite ?N.eqb_refl, ?Hb; reflexivity.
Qed.

Lemma wf_path_inv p : wf_path p = true ->
  (exists b q, rev p = b :: q /\ b <> 0) /\
  N.of_nat (length p + padding (length p) + 4) <= kMaxRecordSize.
Proof.
  unfold wf_path. intros H. apply andb_true_iff in H. destruct H as [H1 H2].
  split; [|lia].
  destruct (rev p) as [|b q]; [discriminate|].
  exists b, q. split; [reflexivity|]. apply N.eqb_neq. destruct (b =? 0); [discriminate|reflexivity].
Qed.

Lemma wf_path_nonempty p : wf_path p = true -> p <> [].
Proof.
  intros H ->. discriminate.
Qed.

Lemma mem_bytes_false p l : ~ In p l -> mem_bytes p l = false.
Proof.
  intros H. destruct (mem_bytes p l) eqn:E; [|reflexivity].
  apply mem_bytes_In in E. contradiction.
Qed.

Definition path_body (id : N) (p : bytes) : bytes :=
  p ++ repeat 0 (padding (length p)) ++ le32 (lnot32 id).

Lemma path_body_len id p : nlen (path_body id p) = N.of_nat (length p + padding (length p) + 4).
Proof.
  unfold nlen, path_body. rewrite !app_length, repeat_length, le32_length. f_equal. lia.
Qed.

Lemma decode_path_enc strict paths p :
  wf_path p = true -> nlen paths < two31 -> ~ In p paths ->
  decode strict paths false (nlen (path_body (nlen paths) p)) (path_body (nlen paths) p) = RPath p.
Proof.
  intros Hwf Hn Hnin.
  destruct (wf_path_inv p Hwf) as [(b & q & Hrev & Hb) Hsz].
  destruct strict as [strict|]; unfold decode; [unfold decode_old|unfold decode_cur];
    rewrite path_body_len, padding_aligned.
  2:{ unfold path_body. rewrite frev_rev, !rev_app_distr, rev_repeat0, Hrev.
      unfold le32. cbn [rev app].
      match goal with
      | |- match ?l with [] => _ | _ :: _ => _ end = _ => destruct l as [|x xs] eqn:E
      end.
      { destruct (padding (length p)); discriminate. }
      rewrite <- E. change (0 =? 0) with true. cbn [negb].
      rewrite strip3_pad by (auto using padding_lt).
      rewrite frev_rev, <- Hrev, rev_involutive.
      rewrite (le32_value _ (lnot32_lt _)).
      rewrite s32_lnot32_lnot32 by exact Hn.
      rewrite Z.eqb_refl, mem_bytes_false by exact Hnin. reflexivity. }
  unfold path_body. rewrite frev_rev, !rev_app_distr, rev_repeat0, Hrev.
  unfold le32. cbn [rev app].
  match goal with
  | |- match ?l with [] => _ | _ :: _ => _ end = _ => destruct l as [|x xs] eqn:E
  end.
  { destruct (padding (length p)); discriminate. }
  rewrite <- E. rewrite strip3_pad by (auto using padding_lt).
  rewrite frev_rev, <- Hrev, rev_involutive.
  rewrite (le32_value _ (lnot32_lt _)).
  rewrite s32_lnot32_lnot32 by exact Hn.
  rewrite Z.eqb_refl, mem_bytes_false by exact Hnin.
  change (0 =? 0) with true. rewrite andb_false_r. reflexivity.
Qed.

Lemma enc_path_record_eq id p :
  enc_path_record id p = le32 (0 + nlen (path_body id p)) ++ path_body id p.
Proof.
  unfold enc_path_record. rewrite path_body_len, N.add_0_l. reflexivity.
Qed.

Lemma step_enc_path strict st p z :
  wf_path p = true -> nlen (d_paths (l_s st)) < two31 -> ~ In p (d_paths (l_s st)) ->
  step strict st (enc_path_record (nlen (d_paths (l_s st))) p ++ z)
  = Some (l_add_path st p (N.of_nat (length p + padding (length p) + 4)), z).
Proof.
  intros Hwf Hn Hnin.
  destruct (wf_path_inv p Hwf) as [_ Hsz].
  rewrite enc_path_record_eq, <- app_assoc. unfold step.
  rewrite (frame_enc false) by (rewrite path_body_len; unfold kMaxRecordSize in *; lia).
  rewrite decode_path_enc by assumption.
  rewrite path_body_len. reflexivity.
Qed.

Definition deps_body (out : N) (m : Z) (ins : list N) : bytes :=
  le32 out ++ le32 (mtime_lo m) ++ le32 (mtime_hi m) ++ flat_map le32 ins.

Lemma flat_le32_length ins : length (flat_map le32 ins) = (4 * length ins)%nat.
Proof.
  induction ins as [|i r IH]; [reflexivity|].
  cbn [flat_map]. rewrite app_length, le32_length, IH. cbn [length]. lia.
Qed.

Lemma deps_body_len out m ins : nlen (deps_body out m ins) = 4 * (3 + nlen ins).
Proof.
  unfold nlen, deps_body. rewrite !app_length, !le32_length, flat_le32_length. lia.
Qed.

Lemma check_ids_ok n ins :
  n <= two31 -> Forall (fun i => i < n) ins -> check_ids n ins = IdsOk.
Proof.
  intros Hn. induction ins as [|i r IH]; intros HF; [reflexivity|].
  inversion HF as [|i' r' Hi Hr]; subst. cbn [check_ids].
  replace (two31 <=? i) with false by lia.
  replace (n <=? i) with false by lia. apply IH. exact Hr.
Qed.

Lemma check_ids_cur_ok n ins :
  n <= two31 -> Forall (fun i => i < n) ins -> check_ids_cur n ins = true.
Proof.
  intros Hn HF. unfold check_ids_cur. apply forallb_forall. intros i Hi.
  rewrite Forall_forall in HF. specialize (HF i Hi). unfold two31 in *. lia.
Qed.

Lemma decode_deps_enc strict paths out m ins :
  nlen paths <= two31 -> Forall (fun i => i < nlen paths) ins ->
  out < nlen paths -> out < two31 - 1 -> wf_mtime m = true ->
  decode strict paths true (nlen (deps_body out m ins)) (deps_body out m ins) = RDeps out m ins.
Proof.
  intros Hn Hins Houtn Hout Hm.
  destruct strict as [strict|]; unfold decode; [unfold decode_old|unfold decode_cur];
    rewrite deps_body_len.
  2:{ replace (4 * (3 + nlen ins) mod 4 =? 0) with true by lia.
      replace (4 * (3 + nlen ins) <? 12) with false by lia. cbn [negb orb].
      unfold deps_body.
      rewrite words_of_le32 by (unfold two32, two31 in *; lia).
      rewrite words_of_le32 by apply mtime_lo_lt.
      rewrite words_of_le32 by apply mtime_hi_lt.
      rewrite words_of_flat_le32.
      2:{ eapply Forall_impl; [|exact Hins]. cbn beta. intros i Hi. unfold two32, two31 in *. lia. }
      replace (two31 <=? out) with false by (unfold two31 in *; lia).
      replace (nlen paths <=? out) with false by lia. cbn [orb].
      rewrite check_ids_cur_ok by assumption.
      rewrite s64_mtime by exact Hm. reflexivity. }
  replace (4 * (3 + nlen ins) mod 4 =? 0) with true by lia. cbn [negb].
  unfold deps_body.
  rewrite words_of_le32 by (unfold two32, two31 in *; lia).
  rewrite words_of_le32 by apply mtime_lo_lt.
  rewrite words_of_le32 by apply mtime_hi_lt.
  rewrite words_of_flat_le32.
  2:{ eapply Forall_impl; [|exact Hins]. cbn beta. intros i Hi. unfold two32, two31 in *. lia. }
  rewrite check_ids_ok by assumption.
  replace (two31 <=? out) with false by lia.
  replace (out =? two31 - 1) with false by lia.
  rewrite s64_mtime by exact Hm. reflexivity.
Qed.

Lemma enc_deps_record_eq out m ins :
  enc_deps_record out m ins = le32 (two31 + nlen (deps_body out m ins)) ++ deps_body out m ins.
Proof. unfold enc_deps_record. rewrite deps_body_len. reflexivity. Qed.

Lemma step_enc_deps strict st out m ins z :
  nlen (d_paths (l_s st)) <= two31 ->
  Forall (fun i => i < nlen (d_paths (l_s st))) ins ->
  out < nlen (d_paths (l_s st)) ->
  out < two31 - 1 -> wf_mtime m = true -> 4 * (3 + nlen ins) <= kMaxRecordSize ->
  step strict st (enc_deps_record out m ins ++ z)
  = Some (l_add_deps st out m ins (4 * (3 + nlen ins)), z).
Proof.
  intros Hn Hins Houtn Hout Hm Hsz.
  rewrite enc_deps_record_eq, <- app_assoc. unfold step.
  rewrite (frame_enc true) by (rewrite deps_body_len; unfold kMaxRecordSize in *; lia).
  rewrite decode_deps_enc by assumption.
  rewrite deps_body_len. reflexivity.
Qed.

(* ==================================================================================== *)
(* 5. Tables: index_of, lookup, view                                                    *)

Lemma nlen_app {A} (a b : list A) : nlen (a ++ b) = nlen a + nlen b.
Proof. unfold nlen. rewrite app_length. lia. Qed.

Lemma nlen_cons {A} (x : A) l : nlen (x :: l) = N.succ (nlen l).
Proof. unfold nlen. cbn [length]. lia. Qed.

Lemma index_of_none (p : bytes) l : index_of p l = None <-> ~ In p l.
Proof.
  induction l as [|q l IH]; cbn [index_of In]; [tauto|].
  destruct (bytes_eqb_spec p q) as [->|Hne].
  - split; [discriminate|]. intros H. exfalso. apply H. left. reflexivity.
  - destruct (index_of p l) as [i|].
    + split; [discriminate|]. intros H. exfalso. apply H. right.
      destruct (in_dec bytes_eq_dec p l) as [Hi|Hi]; [exact Hi|].
      apply IH in Hi. discriminate.
    + split; [|reflexivity]. intros _ [H|H]; [congruence|]. apply IH in H; [exact H|reflexivity].
Qed.

Lemma index_of_nth (p : bytes) l i :
  index_of p l = Some i -> nth_error l (N.to_nat i) = Some p /\ i < nlen l.
Proof.
  revert i. induction l as [|q l IH]; intros i; cbn [index_of]; [discriminate|].
  destruct (bytes_eqb_spec p q) as [->|Hne].
  - intros H. inversion H; subst. split; [reflexivity|]. rewrite nlen_cons. lia.
  - destruct (index_of p l) as [j|]; [|discriminate].
    intros H. inversion H; subst. destruct (IH j eq_refl) as [H1 H2].
    rewrite N2Nat.inj_succ. cbn [nth_error]. split; [exact H1|]. rewrite nlen_cons. lia.
Qed.

Lemma index_of_in (p : bytes) l i : index_of p l = Some i -> In p l.
Proof.
  intros H. destruct (in_dec bytes_eq_dec p l) as [Hi|Hi]; [exact Hi|].
  apply index_of_none in Hi. congruence.
Qed.

Lemma index_of_app_l (p : bytes) l q i :
  index_of p l = Some i -> index_of p (l ++ q) = Some i.
Proof.
  revert i. induction l as [|x l IH]; intros i; cbn [index_of app]; [discriminate|].
  destruct (bytes_eqb p x); [tauto|].
  destruct (index_of p l) as [j|]; [|discriminate].
  intros H. rewrite (IH j eq_refl). exact H.
Qed.

Lemma index_of_app_r (p : bytes) l q i :
  index_of p l = None -> index_of p (l ++ q) = Some i -> nlen l <= i.
Proof.
  revert i. induction l as [|x l IH]; intros i; cbn [index_of app].
  - intros _ _. unfold nlen. cbn [length]. lia.
  - destruct (bytes_eqb p x); [discriminate|].
    destruct (index_of p l) as [j|] eqn:E; [discriminate|].
    intros _. destruct (index_of p (l ++ q)) as [j|] eqn:E2; [|discriminate].
    intros H. inversion H; subst. specialize (IH j eq_refl eq_refl). rewrite nlen_cons. lia.
Qed.

Lemma index_of_app_new (p : bytes) l :
  index_of p l = None -> index_of p (l ++ [p]) = Some (nlen l).
Proof.
  induction l as [|x l IH]; cbn [index_of app].
  - intros _. rewrite bytes_eqb_refl. reflexivity.
  - destruct (bytes_eqb p x); [discriminate|].
    destruct (index_of p l) as [j|]; [discriminate|].
    intros _. rewrite (IH eq_refl), nlen_cons. reflexivity.
Qed.

Lemma index_of_inj (p p' : bytes) l i :
  index_of p l = Some i -> index_of p' l = Some i -> p = p'.
Proof.
  intros H1 H2. apply index_of_nth in H1. apply index_of_nth in H2.
  destruct H1 as [H1 _], H2 as [H2 _]. congruence.
Qed.

Lemma nth_index_of (l : list bytes) : NoDup l -> forall i (p : bytes),
  nth_error l (N.to_nat i) = Some p -> index_of p l = Some i.
Proof.
  induction 1 as [|x l Hnin Hnd IH]; intros i p Hn.
  - destruct (N.to_nat i); discriminate.
  - cbn [index_of]. destruct (N.to_nat i) as [|k] eqn:Ek.
    + cbn [nth_error] in Hn. inversion Hn; subst. rewrite bytes_eqb_refl.
      f_equal. lia.
    + cbn [nth_error] in Hn.
      destruct (bytes_eqb_spec p x) as [->|Hne].
      * exfalso. apply Hnin. eapply nth_error_In. exact Hn.
      * rewrite (IH (N.of_nat k) p) by (rewrite Nat2N.id; exact Hn). f_equal. lia.
Qed.

Lemma lookup_in o l d : lookup o l = Some d -> In (o, d) l.
Proof.
  induction l as [|[o' d'] l IH]; cbn [lookup]; [discriminate|].
  destruct (N.eqb_spec o o') as [->|Hne].
  - intros H. inversion H; subst. left. reflexivity.
  - intros H. right. apply IH. exact H.
Qed.

Lemma lookup_none o l : (forall e, In e l -> fst e <> o) -> lookup o l = None.
Proof.
  induction l as [|[o' d'] l IH]; intros H; cbn [lookup]; [reflexivity|].
  destruct (N.eqb_spec o o') as [->|Hne].
  - exfalso. apply (H (o', d')); [left; reflexivity|reflexivity].
  - apply IH. intros e He. apply H. right. exact He.
Qed.

(* Well-formed tables: what every state reached from an empty log by wf operations satisfies. *)
Definition deps_ok (n : N) (e : N * (Z * list N)) : Prop :=
  fst e < n /\ Forall (fun i => i < n) (snd (snd e)) /\ wf_mtime (fst (snd e)) = true /\
  4 * (3 + nlen (snd (snd e))) <= kMaxRecordSize.

Record ok_state (s : dstate) : Prop := mkOk {
  ok_nodup : NoDup (d_paths s);
  ok_paths : Forall (fun p => wf_path p = true) (d_paths s);
  ok_deps : Forall (deps_ok (nlen (d_paths s))) (d_deps s)
}.

Lemma ok_empty : ok_state d_empty.
Proof. split; cbn [d_empty d_paths d_deps]; constructor. Qed.

Lemma deps_ok_mono n n' e : n <= n' -> deps_ok n e -> deps_ok n' e.
Proof.
  intros Hn (H1 & H2 & H3 & H4). split; [lia|]. split; [|split; assumption].
  eapply Forall_impl; [|exact H2]. cbn beta. intros i Hi. lia.
Qed.

Lemma NoDup_snoc {A} (l : list A) a : NoDup l -> ~ In a l -> NoDup (l ++ [a]).
Proof.
  intros H1 H2. apply (NoDup_Add (Add_app a l [])). rewrite app_nil_r. split; assumption.
Qed.

Lemma ok_add_path s (p : bytes) :
  ok_state s -> wf_path p = true -> ~ In p (d_paths s) -> ok_state (add_path s p).
Proof.
  intros [H1 H2 H3] Hwf Hnin. split; cbn [add_path d_paths d_deps].
  - apply NoDup_snoc; assumption.
  - apply Forall_app. split; [exact H2|]. constructor; [exact Hwf|constructor].
  - eapply Forall_impl; [|exact H3]. intros e He. eapply deps_ok_mono; [|exact He].
    rewrite nlen_app. lia.
Qed.

Lemma ok_add_deps s o m ins :
  ok_state s -> deps_ok (nlen (d_paths s)) (o, (m, ins)) -> ok_state (add_deps s o m ins).
Proof.
  intros [H1 H2 H3] Hd. split; cbn [add_deps d_paths d_deps]; try assumption.
  constructor; assumption.
Qed.

(* Appending paths does not change what is observed of existing records. *)
Lemma view_extend paths np deps (o : bytes) :
  Forall (deps_ok (nlen paths)) deps ->
  view (mkD (paths ++ np) deps) o = view (mkD paths deps) o.
Proof.
  intros Hd. unfold view. cbn [d_paths d_deps].
  destruct (index_of o paths) as [i|] eqn:Ei.
  - rewrite (index_of_app_l _ _ np _ Ei).
    destruct (lookup i deps) as [[m ins]|] eqn:El; [|reflexivity].
    f_equal. f_equal. apply lookup_in in El.
    rewrite Forall_forall in Hd. destruct (Hd _ El) as (_ & Hins & _). cbn [snd] in Hins.
    apply map_ext_in. intros j Hj. rewrite Forall_forall in Hins. specialize (Hins j Hj).
    apply nth_error_app1. unfold nlen in Hins. lia.
  - destruct (index_of o (paths ++ np)) as [i|] eqn:Ei2; [|reflexivity].
    pose proof (index_of_app_r _ _ _ _ Ei Ei2) as Hge.
    rewrite lookup_none; [reflexivity|].
    intros e He. rewrite Forall_forall in Hd. destruct (Hd e He) as (Hlt & _). lia.
Qed.

Lemma ids_of_spec paths (ins : list bytes) :
  Forall (fun p => In p paths) ins ->
  map (fun i => nth_error paths (N.to_nat i)) (ids_of paths ins) = map Some ins /\
  Forall (fun i => i < nlen paths) (ids_of paths ins) /\
  length (ids_of paths ins) = length ins.
Proof.
  induction ins as [|p r IH]; intros HF.
  - cbn [ids_of map length]. repeat split; constructor.
  - inversion HF as [|p' r' Hp Hr]; subst. destruct (IH Hr) as (I1 & I2 & I3).
    cbn [ids_of]. destruct (index_of p paths) as [i|] eqn:Ei.
    + destruct (index_of_nth _ _ _ Ei) as [Hn Hlt].
      cbn [map length]. rewrite Hn, I1, I3. repeat split. constructor; assumption.
    + apply index_of_none in Ei. contradiction.
Qed.

Lemma forallb_combine_eq (a b : list N) :
  length a = length b -> forallb (fun p => fst p =? snd p) (combine a b) = true -> a = b.
Proof.
  revert b. induction a as [|x a IH]; intros [|y b] Hl Hf; try discriminate; [reflexivity|].
  cbn [combine forallb fst snd] in Hf. apply andb_true_iff in Hf. destruct Hf as [Hxy Hf].
  apply N.eqb_eq in Hxy. subst y. f_equal. apply IH; [|exact Hf].
  cbn [length] in Hl. lia.
Qed.

Lemma same_deps_eq d m ids : same_deps d (m, ids) = true -> d = (m, ids).
Proof.
  destruct d as [m' ids']. unfold same_deps. cbn [fst snd]. intros H.
  apply andb_true_iff in H. destruct H as [H H3]. apply andb_true_iff in H. destruct H as [H1 H2].
  apply Z.eqb_eq in H1. apply Nat.eqb_eq in H2. subst m'.
  f_equal. apply forallb_combine_eq; assumption.
Qed.

(* ==================================================================================== *)
(* 6. The writer                                                                        *)

(* "the bytes [w] written from state [s] are whole records leading the loader to [s']" *)
(* every record boundary of [x] (seen by a loader in state [st]) is reached in a well-formed
   state *)
Definition okcuts (strict : rmode) (st : lstate) (x : bytes) : Prop :=
  forall c rest st1, x = c ++ rest -> runs strict st c st1 [] -> ok_state (l_s st1).

Lemma runs_nil_inv strict st st1 : runs strict st [] st1 [] -> st1 = st.
Proof.
  intros H. inversion H as [st0 x0|st0 x0 sta y st2 z Hs Hr]; subst; [reflexivity|].
  rewrite step_nil in Hs. discriminate.
Qed.

Lemma okcuts_nil strict st : ok_state (l_s st) -> okcuts strict st [].
Proof.
  intros Hok c rest st1 Hx Hr. symmetry in Hx. apply app_eq_nil in Hx. destruct Hx as [-> _].
  apply runs_nil_inv in Hr. subst st1. exact Hok.
Qed.

Lemma okcuts_single strict st w st' :
  ok_state (l_s st) -> ok_state (l_s st') -> step strict st w = Some (st', []) ->
  okcuts strict st w.
Proof.
  intros Hok Hok' Hs c rest st1 Hx Hr.
  destruct c as [|b c'].
  - apply runs_nil_inv in Hr. subst st1. exact Hok.
  - destruct (runs_inv_nonempty _ _ _ _ Hr ltac:(discriminate)) as (sta & ya & Hsa & Hra).
    destruct (step_anatomy _ _ _ _ _ Hs) as (c0 & Hc0 & _ & _ & _ & _ & Hpre).
    rewrite app_nil_r in Hc0. subst c0.
    destruct rest as [|r0 rest'].
    + rewrite app_nil_r in Hx. subst w. rewrite Hs in Hsa. inversion Hsa; subst sta ya.
      apply runs_nil_inv in Hra. subst st1. exact Hok'.
    + exfalso. destruct (Hpre (length (b :: c'))) as [Hn _].
      { rewrite Hx, app_length. cbn [length]. lia. }
      rewrite Hx, firstn_app, Nat.sub_diag, firstn_all in Hn. cbn [firstn] in Hn.
      rewrite app_nil_r in Hn. congruence.
Qed.

Lemma okcuts_app strict st w1 stm w2 :
  okcuts strict st w1 -> runs strict st w1 stm [] -> okcuts strict stm w2 ->
  okcuts strict st (w1 ++ w2).
Proof.
  intros H1 Hr H2 c rest st1 Hx Hrc.
  apply app_eq_app in Hx. destruct Hx as (l & [[-> ->]|[-> ->]]).
  - eapply H1; [reflexivity|exact Hrc].
  - pose proof (runs_det_prefix _ _ _ _ Hr _ _ Hrc) as Hr2.
    eapply H2; [reflexivity|exact Hr2].
Qed.

Lemma okcuts_prefix strict st x1 rest : okcuts strict st (x1 ++ rest) -> okcuts strict st x1.
Proof.
  intros H c r st1 Hx Hr. eapply H; [|exact Hr]. rewrite Hx, <- app_assoc. reflexivity.
Qed.

Definition writes (strict : rmode) (s : dstate) (w : bytes) (s' : dstate) : Prop :=
  (forall st z, l_s st = s ->
     exists st1, runs strict st (w ++ z) st1 z /\ l_s st1 = s' /\ l_off st1 = l_off st + nlen w)
  /\ (forall st, l_s st = s -> okcuts strict st w).

Lemma writes_nil strict s : ok_state s -> writes strict s [] s.
Proof.
  intros Hok. split.
  - intros st z Hs. exists st. split; [apply runs_nil|]. split; [exact Hs|].
    unfold nlen. cbn [length]. lia.
  - intros st Hs. apply okcuts_nil. rewrite Hs. exact Hok.
Qed.

Lemma writes_app strict s w1 s1 w2 s2 :
  writes strict s w1 s1 -> writes strict s1 w2 s2 -> writes strict s (w1 ++ w2) s2.
Proof.
  intros [H1 K1] [H2 K2]. split.
  - intros st z Hs.
    destruct (H1 st (w2 ++ z) Hs) as (st1 & R1 & E1 & O1).
    destruct (H2 st1 z E1) as (st2 & R2 & E2 & O2).
    exists st2. split; [rewrite <- app_assoc; eapply runs_trans; eassumption|].
    split; [exact E2|]. rewrite nlen_app. lia.
  - intros st Hs. destruct (H1 st [] Hs) as (stm & Rm & Em & _). rewrite app_nil_r in Rm.
    eapply okcuts_app; [apply K1; exact Hs|exact Rm|apply K2; exact Em].
Qed.

Lemma nodup_incl_nlen (l U : list bytes) : NoDup l -> incl l U -> nlen l <= nlen U.
Proof. intros H1 H2. pose proof (NoDup_incl_length H1 H2). unfold nlen. lia. Qed.

Lemma writes_path strict s (p : bytes) :
  ok_state s -> wf_path p = true -> nlen (d_paths s) < two31 -> ~ In p (d_paths s) ->
  writes strict s (enc_path_record (nlen (d_paths s)) p) (add_path s p).
Proof.
  intros Hok Hwf Hn Hnin. split.
  - intros st z Hs. subst s.
    eexists. split.
    + eapply runs_cons; [apply step_enc_path; assumption|apply runs_nil].
    + split; [reflexivity|]. cbn [l_add_path l_off].
      rewrite enc_path_record_eq, nlen_app, path_body_len. unfold nlen. rewrite le32_length. lia.
  - intros st Hs. subst s.
    eapply okcuts_single; [exact Hok| |].
    2:{ rewrite <- (app_nil_r (enc_path_record _ _)). apply step_enc_path; assumption. }
    cbn [l_add_path l_s]. apply ok_add_path; assumption.
Qed.

Lemma writes_deps strict s o m ins :
  ok_state s -> nlen (d_paths s) < two31 -> deps_ok (nlen (d_paths s)) (o, (m, ins)) ->
  writes strict s (enc_deps_record o m ins) (add_deps s o m ins).
Proof.
  intros Hok Hn Hd. pose proof Hd as (H1 & H2 & H3 & H4). cbn [fst snd] in *. split.
  - intros st z Hs. subst s.
    eexists. split.
    + eapply runs_cons; [apply step_enc_deps; try assumption; lia|apply runs_nil].
    + split; [reflexivity|]. cbn [l_add_deps l_off].
      rewrite enc_deps_record_eq, nlen_app, deps_body_len. unfold nlen. rewrite le32_length. lia.
  - intros st Hs. subst s.
    eapply okcuts_single; [exact Hok| |].
    2:{ rewrite <- (app_nil_r (enc_deps_record _ _ _)). apply step_enc_deps; try assumption; lia. }
    cbn [l_add_deps l_s]. apply ok_add_deps; assumption.
Qed.

Lemma ensure_ids_spec strict (U : list bytes) : nlen U < kMaxIds ->
  forall (ps : list bytes) s w0 made0,
  ok_state s -> incl (d_paths s) U -> incl ps U -> Forall (fun p => wf_path p = true) ps ->
  exists s1 w made,
    ensure_ids s ps w0 made0 = (s1, w0 ++ w, made, true) /\
    ok_state s1 /\ incl (d_paths s1) U /\ d_deps s1 = d_deps s /\
    (exists np, d_paths s1 = d_paths s ++ np) /\
    Forall (fun p => In p (d_paths s1)) ps /\
    writes strict s w s1.
Proof.
  intros HU. induction ps as [|p r IH]; intros s w0 made0 Hok Hincl Hps Hwf.
  - exists s, [], made0. cbn [ensure_ids]. rewrite app_nil_r.
    split; [reflexivity|]. split; [exact Hok|]. split; [exact Hincl|]. split; [reflexivity|].
    split; [exists []; symmetry; apply app_nil_r|]. split; [constructor|apply writes_nil; exact Hok].
  - inversion Hwf as [|p' r' Hp Hr]; subst.
    assert (HpU : In p U) by (apply Hps; left; reflexivity).
    assert (HrU : incl r U) by (intros x Hx; apply Hps; right; exact Hx).
    cbn [ensure_ids]. destruct (index_of p (d_paths s)) as [i|] eqn:Ei.
    + destruct (IH s w0 made0 Hok Hincl HrU Hr) as (s1 & w & made & E & Ok1 & In1 & D1 & [np P1] & F1 & W1).
      exists s1, w, made. split; [exact E|]. split; [exact Ok1|]. split; [exact In1|].
      split; [exact D1|]. split; [exists np; exact P1|]. split; [|exact W1].
      constructor; [|exact F1]. rewrite P1. apply in_or_app. left. eapply index_of_in. exact Ei.
    + apply index_of_none in Ei.
      destruct (wf_path_inv p Hp) as [_ Hsz].
      assert (Hok' : ok_state (add_path s p)) by (apply ok_add_path; assumption).
      assert (Hincl' : incl (d_paths (add_path s p)) U).
      { cbn [add_path d_paths]. intros x Hx. apply in_app_or in Hx. destruct Hx as [Hx|[<-|[]]];
          [apply Hincl; exact Hx|exact HpU]. }
      pose proof (nodup_incl_nlen _ _ (ok_nodup _ Hok') Hincl') as Hcnt.
      cbn [add_path d_paths] in Hcnt. rewrite nlen_app in Hcnt.
      change (nlen [p]) with 1 in Hcnt.
      unfold record_id. destruct p as [|b0 p0] eqn:Ep; [discriminate|]. rewrite <- Ep in *.
      replace (kMaxRecordSize <? N.of_nat (length p + padding (length p) + 4)) with false by lia.
      destruct (IH (add_path s p) (w0 ++ enc_path_record (nlen (d_paths s)) p) true
                   Hok' Hincl' HrU Hr) as (s1 & w & made & E & Ok1 & In1 & D1 & [np P1] & F1 & W1).
      exists s1, (enc_path_record (nlen (d_paths s)) p ++ w), made.
      split; [rewrite E, app_assoc; reflexivity|]. split; [exact Ok1|]. split; [exact In1|].
      split; [exact D1|].
      split; [exists ([p] ++ np); rewrite P1; cbn [add_path d_paths]; rewrite <- app_assoc; reflexivity|].
      split.
      * constructor; [|exact F1]. rewrite P1. cbn [add_path d_paths].
        apply in_or_app. left. apply in_or_app. right. left. reflexivity.
      * eapply writes_app; [|exact W1]. apply writes_path; try assumption.
        unfold kMaxIds, two31 in *. lia.
Qed.

Definition op_paths (op : dop) : list bytes :=
  match op with RecordDeps out _ ins => out :: ins end.

Definition upd1 (v : bytes -> option (Z * list (option bytes))) (op : dop) (o : bytes) :=
  match op with
  | RecordDeps out m ins => if bytes_eqb o out then Some (m, map Some ins) else v o
  end.

Lemma view_add_deps_other s oid m ids (o : bytes) :
  index_of o (d_paths s) <> Some oid -> view (add_deps s oid m ids) o = view s o.
Proof.
  intros H. unfold view. cbn [add_deps d_paths d_deps].
  destruct (index_of o (d_paths s)) as [i|]; [|reflexivity].
  cbn [lookup]. destruct (N.eqb_spec i oid) as [->|Hne]; [congruence|reflexivity].
Qed.

Lemma record_deps_spec strict (U : list bytes) s op :
  nlen U < kMaxIds -> ok_state s -> incl (d_paths s) U -> incl (op_paths op) U ->
  wf_op op = true ->
  exists s' w,
    record_deps s op = (s', w, true) /\ ok_state s' /\ incl (d_paths s') U /\
    writes strict s w s' /\ extends s s' /\
    (forall o, view s' o = upd1 (view s) op o).
Proof.
  intros HU Hok Hincl HopU Hwf. destruct op as [out m ins].
  cbn [op_paths] in HopU. unfold wf_op in Hwf.
  apply andb_true_iff in Hwf. destruct Hwf as [Hwf Hsz].
  apply andb_true_iff in Hwf. destruct Hwf as [Hwf Hm].
  apply andb_true_iff in Hwf. destruct Hwf as [Hwo Hwi].
  assert (Hwfall : Forall (fun p => wf_path p = true) (out :: ins)).
  { constructor; [exact Hwo|]. apply Forall_forall. intros x Hx.
    rewrite forallb_forall in Hwi. apply Hwi. exact Hx. }
  destruct (ensure_ids_spec strict U HU (out :: ins) s [] false Hok Hincl HopU Hwfall)
    as (s1 & w & made & E & Ok1 & In1 & D1 & [np P1] & F1 & W1).
  cbn [app] in E. unfold record_deps. rewrite E.
  inversion F1 as [|x l Hout Hins]; subst x l.
  destruct (index_of out (d_paths s1)) as [oid|] eqn:Eo.
  2:{ apply index_of_none in Eo. contradiction. }
  destruct (ids_of_spec (d_paths s1) ins Hins) as (I1 & I2 & I3).
  destruct (index_of_nth _ _ _ Eo) as [Hnth Hlt].
  pose proof (nodup_incl_nlen _ _ (ok_nodup _ Ok1) In1) as Hcnt.
  assert (Hview1 : forall o, view s1 o = view s o).
  { intros o. destruct s1 as [p1 d1]. cbn [d_paths d_deps] in *. subst p1 d1.
    destruct s as [p0 d0]. cbn [d_paths d_deps]. apply view_extend. apply (ok_deps _ Hok). }
  assert (Hext1 : extends s s1).
  { split; [exists np; exact P1|exists []; rewrite D1; reflexivity]. }
  match goal with |- context [if ?c then _ else _] => destruct c eqn:Eun end.
  - (* unchanged: nothing written *)
    exists s1, w. split; [reflexivity|]. split; [exact Ok1|]. split; [exact In1|].
    split; [exact W1|]. split; [exact Hext1|].
    apply andb_true_iff in Eun. destruct Eun as [_ Eun].
    destruct (lookup oid (d_deps s1)) as [d|] eqn:El; [|discriminate].
    apply same_deps_eq in Eun. subst d.
    intros o. cbn [upd1]. destruct (bytes_eqb_spec o out) as [->|Hne].
    + unfold view. rewrite Eo, El, I1. reflexivity.
    + apply Hview1.
  - replace (kMaxRecordSize <? 4 * (3 + nlen ins)) with false by lia.
    assert (Hdok : deps_ok (nlen (d_paths s1)) (oid, (m, ids_of (d_paths s1) ins))).
    { split; [exact Hlt|]. split; [exact I2|]. split; [exact Hm|].
      cbn [snd]. unfold nlen. rewrite I3. fold (nlen ins). lia. }
    exists (add_deps s1 oid m (ids_of (d_paths s1) ins)),
           (w ++ enc_deps_record oid m (ids_of (d_paths s1) ins)).
    split; [reflexivity|]. split; [apply ok_add_deps; assumption|].
    split; [exact In1|].
    split.
    { eapply writes_app; [exact W1|]. apply writes_deps; [exact Ok1| |exact Hdok].
      unfold kMaxIds, two31 in *. lia. }
    split.
    { eapply extends_trans; [exact Hext1|]. cbn [add_deps]. split; cbn [d_paths d_deps].
      - exists []. symmetry. apply app_nil_r.
      - eexists [_]. reflexivity. }
    intros o. cbn [upd1]. destruct (bytes_eqb_spec o out) as [->|Hne].
    + unfold view. cbn [add_deps d_paths d_deps]. rewrite Eo. cbn [lookup].
      rewrite N.eqb_refl, I1. reflexivity.
    + rewrite view_add_deps_other; [apply Hview1|].
      intros Hc. apply Hne. eapply index_of_inj; eassumption.
Qed.

Definition upd (v : bytes -> option (Z * list (option bytes))) (ops : list dop) (o : bytes) :=
  match abstract_ops ops o with
  | Some x => spec_view (Some x)
  | None => v o
  end.

Lemma run_ops_spec strict (U : list bytes) : nlen U < kMaxIds ->
  forall ops s,
  ok_state s -> incl (d_paths s) U -> Forall (fun op => incl (op_paths op) U) ops ->
  forallb wf_op ops = true ->
  exists s' w,
    run_ops s ops = (s', w, true) /\ ok_state s' /\ incl (d_paths s') U /\
    writes strict s w s' /\ extends s s' /\
    (forall o, view s' o = upd (view s) ops o).
Proof.
  intros HU. induction ops as [|op r IH]; intros s Hok Hincl HopsU Hwf.
  - exists s, []. cbn [run_ops]. split; [reflexivity|]. split; [exact Hok|]. split; [exact Hincl|].
    split; [apply writes_nil; exact Hok|]. split; [apply extends_refl|]. intros o. reflexivity.
  - inversion HopsU as [|op' r' HopU HrU]; subst.
    cbn [forallb] in Hwf. apply andb_true_iff in Hwf. destruct Hwf as [Hwop Hwr].
    destruct (record_deps_spec strict U s op HU Hok Hincl HopU Hwop)
      as (s1 & w1 & E1 & Ok1 & In1 & W1 & X1 & V1).
    destruct (IH s1 Ok1 In1 HrU Hwr) as (s2 & w2 & E2 & Ok2 & In2 & W2 & X2 & V2).
    exists s2, (w1 ++ w2). cbn [run_ops]. rewrite E1, E2.
    split; [reflexivity|]. split; [exact Ok2|]. split; [exact In2|].
    split; [eapply writes_app; eassumption|]. split; [eapply extends_trans; eassumption|].
    intros o. rewrite V2. unfold upd. destruct op as [out m ins]. cbn [abstract_ops].
    destruct (abstract_ops r o) as [x|]; [reflexivity|].
    rewrite V1. cbn [upd1]. destruct (bytes_eqb o out); reflexivity.
Qed.

(* ==================================================================================== *)
(* 7. Clean files                                                                       *)

(* [f] is a valid header followed by whole accepted records that lead the loader to [s]:
   no partial record, no stray bytes. *)
Definition clean (strict : rmode) (f : bytes) (s : dstate) : Prop :=
  exists x st, f = deps_header ++ x /\ runs strict l_init x st [] /\ l_s st = s.

Lemma clean_load old strict f s :
  clean strict f s -> exists nr, load_deps_ver old strict f = DOk s None nr.
Proof.
  intros (x & st & -> & Hr & <-).
  rewrite (load_deps_runs _ _ _ _ _ Hr (step_nil _ _)). eexists. reflexivity.
Qed.

Lemma clean_header strict : clean strict deps_header d_empty.
Proof.
  exists [], l_init. split; [symmetry; apply app_nil_r|]. split; [apply runs_nil|reflexivity].
Qed.

Lemma clean_append strict f s w s' :
  clean strict f s -> writes strict s w s' -> clean strict (f ++ w) s'.
Proof.
  intros (x & st & -> & Hr & Hs) Hw.
  destruct (runs_anatomy _ _ _ _ _ Hr) as (c & Hc & _ & _ & Hx).
  rewrite app_nil_r in Hc. subst c.
  destruct (proj1 Hw st [] Hs) as (st1 & R1 & E1 & _). rewrite app_nil_r in R1.
  exists (x ++ w), st1. split; [rewrite app_assoc; reflexivity|].
  split; [eapply runs_trans; [apply Hx|exact R1]|exact E1].
Qed.

Lemma clean_off strict x st :
  runs strict l_init x st [] -> l_off st = 16 + nlen x.
Proof.
  intros Hr. destruct (runs_anatomy _ _ _ _ _ Hr) as (c & Hc & Ho & _).
  rewrite app_nil_r in Hc. subst c. exact Ho.
Qed.

(* a clean file all of whose record boundaries are reached in well-formed states: what the
   writer produces *)
Definition oclean (strict : rmode) (f : bytes) (s : dstate) : Prop :=
  clean strict f s /\ exists x, f = deps_header ++ x /\ okcuts strict l_init x.

Lemma oclean_header strict : oclean strict deps_header d_empty.
Proof.
  split; [apply clean_header|]. exists []. split; [symmetry; apply app_nil_r|].
  apply okcuts_nil. exact ok_empty.
Qed.

Lemma oclean_append strict f s w s' :
  oclean strict f s -> writes strict s w s' -> oclean strict (f ++ w) s'.
Proof.
  intros [Hcl (x & Hx & Kx)] Hw. split; [eapply clean_append; eassumption|].
  destruct Hcl as (x' & st & Hx' & Hr & Hs). rewrite Hx in Hx'. apply app_inv_head in Hx'. subst x'.
  exists (x ++ w). split; [rewrite Hx, app_assoc; reflexivity|].
  eapply okcuts_app; [exact Kx|exact Hr|apply (proj2 Hw); exact Hs].
Qed.

(* ==================================================================================== *)
(* 8. Recompaction                                                                      *)

Lemma resolve_spec (paths : list bytes) ins :
  Forall (fun i => i < nlen paths) ins ->
  exists ps, resolve paths ins = Some ps /\
             map (fun i => nth_error paths (N.to_nat i)) ins = map Some ps /\
             Forall (fun p => In p paths) ps /\ length ps = length ins.
Proof.
  induction ins as [|i r IH]; intros HF.
  - exists []. cbn [resolve map length]. repeat split. constructor.
  - inversion HF as [|i' r' Hi Hr]; subst. destruct (IH Hr) as (ps & E & M & F & L).
    destruct (nth_error paths (N.to_nat i)) as [p|] eqn:En.
    2:{ apply nth_error_None in En. unfold nlen in Hi. lia. }
    exists (p :: ps). cbn [resolve map length]. rewrite En, E, M, L. repeat split.
    constructor; [eapply nth_error_In; exact En|exact F].
Qed.

Definition rview (s : dstate) (live : bytes -> bool) (ids : list N) (o : bytes) :=
  match index_of o (d_paths s) with
  | Some i => if existsb (N.eqb i) ids && live o then view s o else None
  | None => None
  end.

Lemma spec_view_none x : spec_view x = None -> x = None.
Proof. destruct x as [[m ins]|]; [discriminate|reflexivity]. Qed.

Lemma recompact_ops_spec live s : ok_state s ->
  forall ids, NoDup ids -> Forall (fun i => i < nlen (d_paths s)) ids ->
  exists ops, recompact_ops live s ids = Some ops /\
              Forall (fun op => incl (op_paths op) (d_paths s)) ops /\
              forallb wf_op ops = true /\
              (forall o, spec_view (abstract_ops ops o) = rview s live ids o).
Proof.
  intros Hok. induction ids as [|i r IH]; intros Hnd Hlt.
  - exists []. cbn [recompact_ops]. split; [reflexivity|]. split; [constructor|].
    split; [reflexivity|]. intros o. unfold rview. cbn [abstract_ops spec_view existsb andb].
    destruct (index_of o (d_paths s)); reflexivity.
  - inversion Hnd as [|i' r' Hnin Hndr]; subst. inversion Hlt as [|i' r' Hi Hr]; subst.
    destruct (IH Hndr Hr) as (ops & E & HU & Hwf & Hv).
    cbn [recompact_ops]. rewrite E.
    destruct (nth_error (d_paths s) (N.to_nat i)) as [p|] eqn:En.
    2:{ apply nth_error_None in En. unfold nlen in Hi. lia. }
    pose proof (nth_index_of _ (ok_nodup _ Hok) _ _ En) as Hip.
    assert (Hexr : existsb (N.eqb i) r = false).
    { destruct (existsb (N.eqb i) r) eqn:Ex; [|reflexivity].
      apply existsb_exists in Ex. destruct Ex as (j & Hj & Hij). apply N.eqb_eq in Hij. subst j.
      contradiction. }
    (* how rview changes for outputs other than p *)
    assert (Hother : forall o, o <> p -> rview s live (i :: r) o = rview s live r o).
    { intros o Hne. unfold rview. destruct (index_of o (d_paths s)) as [j|] eqn:Ej; [|reflexivity].
      cbn [existsb]. destruct (N.eqb_spec j i) as [->|Hji]; [|reflexivity].
      exfalso. apply Hne. eapply index_of_inj; eassumption. }
    destruct (lookup i (d_deps s)) as [[m ins]|] eqn:El.
    + pose proof (lookup_in _ _ _ El) as Hin.
      pose proof (ok_deps _ Hok) as Hd. rewrite Forall_forall in Hd.
      destruct (Hd _ Hin) as (_ & Hins & Hm & Hsz). cbn [fst snd] in *.
      destruct (resolve_spec (d_paths s) ins Hins) as (ps & Er & Mr & Fr & Lr).
      rewrite Er.
      assert (Hvp : view s p = Some (m, map Some ps)).
      { unfold view. rewrite Hip, El, Mr. reflexivity. }
      destruct (live p) eqn:Elive.
      * exists (RecordDeps p m ps :: ops). split; [reflexivity|].
        split.
        { constructor; [|exact HU]. cbn [op_paths]. intros x [<-|Hx].
          - eapply nth_error_In. exact En.
          - rewrite Forall_forall in Fr. apply Fr. exact Hx. }
        split.
        { cbn [forallb]. rewrite Hwf, andb_true_r. unfold wf_op.
          pose proof (ok_paths _ Hok) as Hp. rewrite Forall_forall in Hp.
          assert (Hps : forallb wf_path ps = true).
          { apply forallb_forall. intros x Hx. apply Hp.
            rewrite Forall_forall in Fr. apply Fr. exact Hx. }
          rewrite (Hp p (nth_error_In _ _ En)), Hm, Hps.
          replace (4 * (3 + nlen ps) <=? kMaxRecordSize) with true
            by (unfold nlen in *; rewrite Lr; lia).
          reflexivity. }
        intros o. cbn [abstract_ops].
        destruct (bytes_eqb_spec o p) as [->|Hne].
        -- specialize (Hv p). unfold rview in Hv. rewrite Hip, Hexr in Hv. cbn [andb] in Hv.
           apply spec_view_none in Hv. rewrite Hv.
           unfold rview. rewrite Hip. cbn [existsb]. rewrite N.eqb_refl, Elive. cbn [orb andb].
           rewrite Hvp. reflexivity.
        -- rewrite (Hother o Hne), <- Hv.
           destruct (abstract_ops ops o); reflexivity.
      * exists ops. split; [reflexivity|]. split; [exact HU|]. split; [exact Hwf|].
        intros o. rewrite Hv. destruct (bytes_eqb_spec o p) as [->|Hne].
        -- unfold rview. rewrite Hip, Elive, !andb_false_r. reflexivity.
        -- symmetry. apply Hother. exact Hne.
    + exists ops. split; [reflexivity|]. split; [exact HU|]. split; [exact Hwf|].
      intros o. rewrite Hv. destruct (bytes_eqb_spec o p) as [->|Hne].
      * unfold rview. rewrite Hip. unfold view. rewrite Hip, El.
        destruct (existsb (N.eqb i) (i :: r) && live p), (existsb (N.eqb i) r && live p);
          reflexivity.
      * symmetry. apply Hother. exact Hne.
Qed.

Lemma nseq_spec n : forall start,
  NoDup (nseq start n) /\
  (forall i, In i (nseq start n) <-> start <= i < start + N.of_nat n).
Proof.
  induction n as [|n IH]; intros start.
  - cbn [nseq]. split; [constructor|]. intros i. cbn [In]. lia.
  - cbn [nseq]. destruct (IH (N.succ start)) as [Hnd Hin]. split.
    + constructor; [|exact Hnd]. rewrite Hin. lia.
    + intros i. cbn [In]. rewrite Hin. lia.
Qed.

Lemma view_empty o : view d_empty o = None.
Proof. reflexivity. Qed.

Theorem recompact_spec strict live s :
  ok_state s -> nlen (d_paths s) < kMaxIds ->
  exists s2 w,
    recompact_r live s = COk s2 (deps_header ++ w) /\
    oclean strict (deps_header ++ w) s2 /\ ok_state s2 /\ incl (d_paths s2) (d_paths s) /\
    (forall o, view s2 o = if live o then view s o else None).
Proof.
  intros Hok Hcnt. unfold recompact_r.
  destruct (existsb (fun e => nlen (d_paths s) <=? fst e) (d_deps s)) eqn:Ex.
  { apply existsb_exists in Ex. destruct Ex as (e & He & Hle).
    pose proof (ok_deps _ Hok) as Hd. rewrite Forall_forall in Hd.
    destruct (Hd e He) as (Hlt & _). lia. }
  destruct (nseq_spec (length (d_paths s)) 0) as [Hnd Hin].
  destruct (recompact_ops_spec live s Hok (nseq 0 (length (d_paths s))) Hnd)
    as (ops & E & HU & Hwf & Hv).
  { apply Forall_forall. intros i Hi. apply Hin in Hi. unfold nlen. lia. }
  rewrite E.
  destruct (run_ops_spec strict (d_paths s) Hcnt ops d_empty ok_empty)
    as (s2 & w & E2 & Ok2 & In2 & W2 & _ & V2); try assumption.
  { intros x []. }
  rewrite E2. exists s2, w. split; [reflexivity|].
  split; [eapply oclean_append; [apply oclean_header|exact W2]|].
  split; [exact Ok2|]. split; [exact In2|].
  intros o. rewrite V2. unfold upd. rewrite view_empty.
  transitivity (spec_view (abstract_ops ops o)).
  { destruct (abstract_ops ops o); reflexivity. }
  rewrite Hv. unfold rview.
  destruct (index_of o (d_paths s)) as [i|] eqn:Ei.
  - destruct (index_of_nth _ _ _ Ei) as [_ Hlt].
    assert (Hex : existsb (N.eqb i) (nseq 0 (length (d_paths s))) = true).
    { apply existsb_exists. exists i. split; [|apply N.eqb_refl]. apply Hin. unfold nlen in Hlt. lia. }
    rewrite Hex. reflexivity.
  - unfold view. rewrite Ei. destruct (live o); reflexivity.
Qed.

(* ==================================================================================== *)
(* 9. Sessions                                                                          *)

Lemma session_spec old strict live (U : list bytes) f s ops :
  nlen U < kMaxIds -> oclean strict f s -> ok_state s -> incl (d_paths s) U ->
  Forall (fun op => incl (op_paths op) U) ops -> forallb wf_op ops = true ->
  exists s' nr,
    load_deps_ver old strict f = DOk s None nr /\
    oclean strict (session_ver old strict live f ops) s' /\ ok_state s' /\ incl (d_paths s') U /\
    (forall o, view s' o =
               upd (fun o => if nr then (if live o then view s o else None) else view s o) ops o).
Proof.
  intros HU Hcl Hok Hincl HopsU Hwf.
  destruct (clean_load old _ _ _ (proj1 Hcl)) as [nr Hload].
  unfold session_ver. rewrite Hload. destruct nr.
  - pose proof (nodup_incl_nlen _ _ (ok_nodup _ Hok) Hincl) as Hcnt.
    destruct (recompact_spec strict live s Hok ltac:(lia)) as (s2 & w2 & E2 & Cl2 & Ok2 & In2 & V2).
    rewrite E2.
    destruct (run_ops_spec strict U HU ops s2 Ok2) as (s3 & w3 & E3 & Ok3 & In3 & W3 & _ & V3);
      try assumption.
    { intros x Hx. apply Hincl. apply In2. exact Hx. }
    rewrite E3. exists s3, true. split; [reflexivity|].
    split; [eapply oclean_append; eassumption|]. split; [exact Ok3|]. split; [exact In3|].
    intros o. rewrite V3. unfold upd. destruct (abstract_ops ops o); [reflexivity|apply V2].
  - destruct (run_ops_spec strict U HU ops s Hok) as (s3 & w3 & E3 & Ok3 & In3 & W3 & _ & V3);
      try assumption.
    rewrite E3. exists s3, false. split; [reflexivity|].
    split; [eapply oclean_append; eassumption|]. split; [exact Ok3|]. split; [exact In3|].
    exact V3.
Qed.

Lemma session_nil old strict live ops :
  session_ver old strict live [] ops = session_ver old strict live deps_header ops.
Proof.
  unfold session_ver.
  replace (load_deps_ver old strict []) with DBadHeader by (destruct old, strict; reflexivity).
  replace (load_deps_ver old strict deps_header) with (DOk d_empty None false)
    by (destruct old, strict; reflexivity).
  reflexivity.
Qed.

Lemma mentions_paths ops : nlen (flat_map op_paths ops) = N.of_nat (mentions ops).
Proof.
  induction ops as [|[out m ins] r IH]; [reflexivity|].
  cbn [flat_map mentions op_paths]. rewrite nlen_app, IH. unfold nlen. cbn [length]. lia.
Qed.

Lemma op_paths_incl ops : Forall (fun op => incl (op_paths op) (flat_map op_paths ops)) ops.
Proof.
  apply Forall_forall. intros op Hop x Hx. apply in_flat_map. exists op. split; assumption.
Qed.

Lemma abstract_app a b o :
  abstract_ops (a ++ b) o =
  match abstract_ops b o with Some x => Some x | None => abstract_ops a o end.
Proof.
  induction a as [|[out m ins] a IH]; cbn [app abstract_ops].
  - destruct (abstract_ops b o); reflexivity.
  - rewrite IH. destruct (abstract_ops b o); reflexivity.
Qed.

Lemma abstract_some_in ops o m ins :
  abstract_ops ops o = Some (m, ins) -> In (RecordDeps o m ins) ops.
Proof.
  induction ops as [|[out m' ins'] r IH]; cbn [abstract_ops]; [discriminate|].
  destruct (abstract_ops r o) as [x|].
  - intros H. right. apply IH. exact H.
  - destruct (bytes_eqb_spec o out) as [->|Hne]; [|discriminate].
    intros H. inversion H; subst. left. reflexivity.
Qed.

Definition run_sessions (live : bytes -> bool) (file : bytes) (sessions : list (list dop)) : bytes :=
  fold_left (session live) sessions file.

Lemma forallb_app_true {A} (f : A -> bool) a b :
  forallb f (a ++ b) = true -> forallb f a = true /\ forallb f b = true.
Proof. rewrite forallb_app. intros H. apply andb_true_iff in H. exact H. Qed.

Lemma run_sessions_inv live (U : list bytes) : nlen U < kMaxIds ->
  forall sessions f prev s,
  oclean RdCur f s -> ok_state s -> incl (d_paths s) U ->
  (forall o, view s o = spec_view (abstract_ops prev o)) ->
  Forall (fun op => incl (op_paths op) U) (concat sessions) ->
  forallb wf_op (concat sessions) = true ->
  (forall out m ins, In (RecordDeps out m ins) (prev ++ concat sessions) -> live out = true) ->
  exists s',
    oclean RdCur (run_sessions live f sessions) s' /\ ok_state s' /\ incl (d_paths s') U /\
    (forall o, view s' o = spec_view (abstract_ops (prev ++ concat sessions) o)).
Proof.
  intros HU. induction sessions as [|ops r IH]; intros f prev s Hcl Hok Hincl Hv HUs Hwf Hlive.
  - exists s. cbn [run_sessions fold_left concat]. rewrite app_nil_r.
    split; [exact Hcl|]. split; [exact Hok|]. split; [exact Hincl|exact Hv].
  - cbn [concat] in *. apply Forall_app in HUs. destruct HUs as [HUo HUr].
    apply forallb_app_true in Hwf. destruct Hwf as [Hwo Hwr].
    destruct (session_spec false RdCur live U f s ops HU Hcl Hok Hincl HUo Hwo)
      as (s1 & nr & _ & Cl1 & Ok1 & In1 & V1).
    destruct (IH (session live f ops) (prev ++ ops) s1 Cl1 Ok1 In1) as (s' & Cl' & Ok' & In' & V');
      try assumption.
    + intros o. rewrite V1. unfold upd. rewrite abstract_app.
      destruct (abstract_ops ops o) as [x|]; [reflexivity|].
      destruct nr; [|apply Hv].
      rewrite Hv. destruct (abstract_ops prev o) as [[m ins]|] eqn:Ea.
      * apply abstract_some_in in Ea. rewrite (Hlive o m ins); [reflexivity|].
        apply in_or_app. left. exact Ea.
      * destruct (live o); reflexivity.
    + intros out m ins Hin. apply (Hlive out m ins). rewrite app_assoc. exact Hin.
    + exists s'. cbn [run_sessions fold_left]. split; [exact Cl'|]. split; [exact Ok'|].
      split; [exact In'|].
      intros o. rewrite V', app_assoc. reflexivity.
Qed.

(* C09_sessions: any number of load / append / close sessions starting from no file; the
   deps seen by the last load are the most recently recorded ones, with their mtime.
   Recompaction (when the loader asks for it) is included; [live] is IsDepsEntryLiveFor and
   every output that was ever recorded is assumed to keep its deps-producing build statement. *)
Lemma run_sessions_clean live first rest :
  wf_ops (concat (first :: rest)) ->
  (forall out m ins, In (RecordDeps out m ins) (concat (first :: rest)) -> live out = true) ->
  exists s, oclean RdCur (run_sessions live [] (first :: rest)) s /\ ok_state s /\
            nlen (d_paths s) < kMaxIds /\
            incl (d_paths s) (flat_map op_paths (concat (first :: rest))) /\
            forall o, view s o = spec_view (abstract_ops (concat (first :: rest)) o).
Proof.
  intros [Hwf Hcnt] Hlive.
  set (all := concat (first :: rest)) in *.
  set (U := flat_map op_paths all).
  assert (HU : nlen U < kMaxIds) by (unfold U; rewrite mentions_paths; exact Hcnt).
  cbn [run_sessions fold_left]. unfold session, session_gen. rewrite session_nil.
  change (fold_left (session live) rest (session_ver false RdCur live deps_header first))
    with (run_sessions live deps_header (first :: rest)).
  destruct (run_sessions_inv live U HU (first :: rest) deps_header [] d_empty
              (oclean_header RdCur) ok_empty) as (s & Cl & Ok & In' & V).
  - intros x [].
  - intros o. reflexivity.
  - apply op_paths_incl.
  - exact Hwf.
  - exact Hlive.
  - exists s. split; [exact Cl|]. split; [exact Ok|]. split; [|split; [exact In'|exact V]].
    pose proof (nodup_incl_nlen _ _ (ok_nodup _ Ok) In'). lia.
Qed.

Theorem C09_sessions_thm live first rest :
  wf_ops (concat (first :: rest)) ->
  (forall out m ins, In (RecordDeps out m ins) (concat (first :: rest)) -> live out = true) ->
  exists s nr,
    load_deps (run_sessions live [] (first :: rest)) = DOk s None nr /\
    ok_state s /\
    forall o, view s o = spec_view (abstract_ops (concat (first :: rest)) o).
Proof.
  intros Hwf Hlive.
  destruct (run_sessions_clean live first rest Hwf Hlive) as (s & Cl & Ok & _ & _ & V).
  destruct (clean_load false _ _ _ (proj1 Cl)) as [nr Hl]. exists s, nr.
  split; [exact Hl|]. split; [exact Ok|exact V].
Qed.

Lemma session_header_indep old m old' m' live ops :
  session_ver old m live deps_header ops = session_ver old' m' live deps_header ops.
Proof.
  unfold session_ver.
  replace (load_deps_ver old m deps_header) with (DOk d_empty None false)
    by (destruct old, m as [[|]|]; reflexivity).
  replace (load_deps_ver old' m' deps_header) with (DOk d_empty None false)
    by (destruct old', m' as [[|]|]; reflexivity).
  reflexivity.
Qed.

(* The file of a first session is clean for every reader version [m]. *)
Lemma apply_ops_clean m ops :
  wf_ops ops ->
  exists s, oclean m (apply_ops [] ops) s /\ ok_state s /\ nlen (d_paths s) < kMaxIds /\
            incl (d_paths s) (flat_map op_paths ops) /\
            forall o, view s o = spec_view (abstract_ops ops o).
Proof.
  intros [Hwf Hcnt].
  set (U := flat_map op_paths ops).
  assert (HU : nlen U < kMaxIds) by (unfold U; rewrite mentions_paths; exact Hcnt).
  assert (E : apply_ops [] ops = session_ver false m (fun _ => true) deps_header ops).
  { unfold apply_ops, session, session_gen. rewrite session_nil. apply session_header_indep. }
  rewrite E.
  destruct (session_spec false m (fun _ => true) U deps_header d_empty ops HU
              (oclean_header m) ok_empty) as (s & nr & _ & Cl & Ok & In' & V).
  - intros x [].
  - apply op_paths_incl.
  - exact Hwf.
  - exists s. split; [exact Cl|]. split; [exact Ok|].
    split; [pose proof (nodup_incl_nlen _ _ (ok_nodup _ Ok) In'); lia|].
    split; [exact In'|].
    intros o. rewrite V. unfold upd. destruct (abstract_ops ops o) as [x|]; [reflexivity|].
    rewrite view_empty. destruct nr; reflexivity.
Qed.

Theorem C09_roundtrip_thm ops :
  wf_ops ops ->
  exists s nr,
    load_deps (apply_ops [] ops) = DOk s None nr /\
    forall o, view s o = spec_view (abstract_ops ops o).
Proof.
  intros Hwf.
  destruct (C09_sessions_thm (fun _ => true) ops []) as (s & nr & Hl & _ & Hv).
  - cbn [concat]. rewrite app_nil_r. exact Hwf.
  - reflexivity.
  - exists s, nr. split; [exact Hl|].
    intros o. rewrite Hv. cbn [concat]. rewrite app_nil_r. reflexivity.
Qed.

(* C09_recompact_live: the recompacted file loads cleanly; it keeps exactly the entries whose
   output is live, unchanged. *)
Theorem C09_recompact_live_thm live s :
  ok_state s -> nlen (d_paths s) < kMaxIds ->
  exists s2 nr,
    load_deps (recompact live s) = DOk s2 None nr /\
    ok_state s2 /\
    forall o, view s2 o = if live o then view s o else None.
Proof.
  intros Hok Hcnt.
  destruct (recompact_spec RdCur live s Hok Hcnt) as (s2 & w & E & Cl & Ok2 & _ & V).
  unfold recompact. rewrite E.
  destruct (clean_load false _ _ _ (proj1 Cl)) as [nr Hl].
  exists s2, nr. split; [exact Hl|]. split; [exact Ok2|exact V].
Qed.

(* ==================================================================================== *)
(* 10. Torn files                                                                       *)

Lemma torn_runs strict st x st' :
  runs strict st x st' [] ->
  forall k, (k <= length x)%nat ->
  exists c y st1,
    x = c ++ y /\ runs strict st c st1 [] /\ (length c <= k)%nat /\
    step strict st1 (firstn (k - length c) y) = None /\
    (forall old, final old strict st1 (firstn (k - length c) y)
                 = torn_result old st1 (k - length c)) /\
    (forall r, (0 < r <= k - length c)%nat ->
       step strict st1 (firstn r y) = None /\ firstn r y <> []).
Proof.
  intros H. remember [] as e eqn:He. revert He.
  induction H as [st x|st x sta ya st' e' Hs Hr IH]; intros He k Hk.
  - subst x. cbn [length] in Hk. assert (k = 0)%nat by lia. subst k.
    exists [], [], st. split; [reflexivity|]. split; [apply runs_nil|]. split; [cbn; lia|].
    cbn [length Nat.sub firstn]. split; [reflexivity|]. split; [intros old; reflexivity|].
    intros r Hr. lia.
  - subst e'. destruct (step_anatomy _ _ _ _ _ Hs) as (c0 & -> & Hc0 & _ & _ & Hx & Hpre).
    rewrite app_length in Hk.
    destruct (Nat.lt_ge_cases k (length c0)) as [Hlt|Hge].
    + exists [], (c0 ++ ya), st. split; [reflexivity|]. split; [apply runs_nil|].
      split; [cbn [length]; lia|]. cbn [length]. rewrite Nat.sub_0_r.
      assert (Hf : forall r, (r <= k)%nat -> firstn r (c0 ++ ya) = firstn r c0).
      { intros r Hr'. rewrite firstn_app. replace (r - length c0)%nat with 0%nat by lia.
        cbn [firstn]. apply app_nil_r. }
      rewrite (Hf k (le_n _)). destruct (Hpre k Hlt) as [P1 P2].
      split; [exact P1|]. split; [exact P2|].
      intros r Hr'. rewrite Hf by lia. split; [apply (Hpre r); lia|].
      intros Hnil. apply (f_equal (@length _)) in Hnil. rewrite firstn_length in Hnil.
      cbn [length] in Hnil. lia.
    + destruct (IH eq_refl (k - length c0)%nat ltac:(lia))
        as (c' & y & st1 & -> & Hr1 & Hlen & Hst & Hfin & Hins).
      exists (c0 ++ c'), y, st1. split; [rewrite app_assoc; reflexivity|].
      split; [eapply runs_cons; [apply Hx|exact Hr1]|].
      rewrite app_length. split; [lia|].
      replace (k - (length c0 + length c'))%nat with (k - length c0 - length c')%nat by lia.
      split; [exact Hst|]. split; [exact Hfin|exact Hins].
Qed.

(* What the loader returns on the first [k] bytes of a clean file, with [off] the last record
   boundary <= k, [s1] the state of the records complete at [off] and [nr1] the recompaction
   flag of that state.  [old = true] is the loader before the torn-size-word fix. *)
Definition torn_outcome (old : bool) (s1 : dstate) (nr1 : bool) (off k : nat) : dload :=
  if (k - off =? 0)%nat then DOk s1 None nr1
  else if (k - off <? 4)%nat then (if old then DOk s1 None nr1 else DOk s1 (Some off) nr1)
  else DOk s1 (Some off) false.

(* The general torn-write theorem on any clean file. *)
Theorem torn_clean strict f s :
  clean strict f s ->
  forall k, (16 <= k <= length f)%nat ->
  exists off s1 nr1,
    (16 <= off <= k)%nat /\
    clean strict (firstn off f) s1 /\
    (forall j s', (off < j <= k)%nat -> ~ clean strict (firstn j f) s') /\
    extends s1 s /\
    (forall old, load_deps_ver old strict (firstn off f) = DOk s1 None nr1) /\
    (forall old, load_deps_ver old strict (firstn k f) = torn_outcome old s1 nr1 off k).
Proof.
  intros (x & st & -> & Hr & Hs) k Hk.
  assert (Hh : length deps_header = 16%nat) by reflexivity.
  rewrite app_length, Hh in Hk.
  destruct (torn_runs _ _ _ _ Hr (k - 16)%nat ltac:(lia))
    as (c & y & st1 & -> & Hr1 & Hlen & Hst & Hfin & Hins).
  assert (Hcut : forall j, (16 + length c <= j)%nat ->
            firstn j (deps_header ++ c ++ y) = deps_header ++ c ++ firstn (j - 16 - length c) y).
  { intros j Hj. rewrite firstn_app, Hh, (firstn_all2 deps_header) by (rewrite Hh; lia).
    f_equal. rewrite firstn_app, (firstn_all2 c) by lia. reflexivity. }
  assert (Hcut0 : firstn (16 + length c) (deps_header ++ c ++ y) = deps_header ++ c).
  { rewrite Hcut by lia. replace (16 + length c - 16 - length c)%nat with 0%nat by lia.
    cbn [firstn]. rewrite app_nil_r. reflexivity. }
  exists (16 + length c)%nat, (l_s st1), (needs_recompaction (l_total st1) (l_unique st1)).
  split; [lia|]. split.
  { rewrite Hcut0. exists c, st1. repeat split. exact Hr1. }
  split.
  { intros j s' Hj (x' & st'' & Hx' & Hr' & _).
    rewrite Hcut in Hx' by lia. apply app_inv_head in Hx'. subst x'.
    pose proof (runs_det_prefix _ _ _ _ Hr1 _ _ Hr') as Hr2.
    destruct (Hins (j - 16 - length c)%nat ltac:(lia)) as [Hn Hne].
    exact (runs_stuck _ _ _ _ Hn Hne Hr2). }
  split.
  { pose proof (runs_det_prefix _ _ _ _ Hr1 _ _ Hr) as Hr2.
    destruct (runs_anatomy _ _ _ _ _ Hr2) as (_ & _ & _ & He & _). rewrite Hs in He. exact He. }
  split.
  { intros old. rewrite Hcut0.
    rewrite (load_deps_runs old strict _ st1 []); [reflexivity|exact Hr1|apply step_nil]. }
  intros old. rewrite Hcut by lia.
  destruct (runs_anatomy _ _ _ _ _ Hr1) as (c1 & Hc1 & Hoff & _ & Hx1).
  rewrite app_nil_r in Hc1. subst c1.
  rewrite (load_deps_runs old strict _ st1 (firstn (k - 16 - length c) y)).
  - rewrite Hfin. unfold torn_result, torn_outcome.
    replace (k - (16 + length c))%nat with (k - 16 - length c)%nat by lia.
    assert (Ho : N.to_nat (l_off st1) = (16 + length c)%nat).
    { change (l_off l_init) with 16 in Hoff. unfold nlen in Hoff. lia. }
    rewrite Ho. reflexivity.
  - apply Hx1.
  - exact Hst.
Qed.

Lemma torn_header old strict f k :
  (k < 16)%nat -> load_deps_ver old strict (firstn k f) = DBadHeader.
Proof.
  intros Hk. unfold load_deps_ver. rewrite take_short; [reflexivity|].
  rewrite firstn_length. lia.
Qed.

(* ------------------------------------------------------------------------------------ *)
(* C09_torn for files written by the real writer                                        *)

(* Both loaders, every prefix: the precise outcome. *)
Theorem torn_apply_ops m ops :
  wf_ops ops ->
  forall k, (16 <= k <= length (apply_ops [] ops))%nat ->
  exists off s1 nr1,
    (16 <= off <= k)%nat /\
    clean m (firstn off (apply_ops [] ops)) s1 /\
    (forall j s', (off < j <= k)%nat -> ~ clean m (firstn j (apply_ops [] ops)) s') /\
    (forall old, load_deps_ver old m (firstn k (apply_ops [] ops))
                 = torn_outcome old s1 nr1 off k).
Proof.
  intros Hwf k Hk. destruct (apply_ops_clean m ops Hwf) as (s & [Cl _] & _).
  destruct (torn_clean m _ s Cl k Hk) as (off & s1 & nr1 & H1 & H2 & H3 & _ & _ & H4).
  exists off, s1, nr1. repeat split; try assumption; lia.
Qed.

(* C09_torn (current loader): for EVERY k, exactly the records complete within k, and
   truncation to the last record boundary whenever k is not on one. *)
Theorem C09_torn_thm ops :
  wf_ops ops ->
  forall k, (k <= length (apply_ops [] ops))%nat ->
  ((k < 16)%nat -> load_deps (firstn k (apply_ops [] ops)) = DBadHeader) /\
  ((16 <= k)%nat ->
   exists off s1 nr,
     (16 <= off <= k)%nat /\
     clean RdCur (firstn off (apply_ops [] ops)) s1 /\
     (forall j s', (off < j <= k)%nat -> ~ clean RdCur (firstn j (apply_ops [] ops)) s') /\
     load_deps (firstn k (apply_ops [] ops)) =
       DOk s1 (if (k =? off)%nat then None else Some off) nr).
Proof.
  intros Hwf k Hk. split.
  - intros Hlt. apply torn_header. exact Hlt.
  - intros Hge.
    destruct (torn_apply_ops RdCur ops Hwf k ltac:(lia)) as (off & s1 & nr1 & H1 & H2 & H3 & H4).
    specialize (H4 false). unfold torn_outcome in H4.
    exists off, s1.
    destruct (Nat.eqb_spec k off) as [->|Hne].
    + exists nr1. split; [exact H1|]. split; [exact H2|]. split; [exact H3|].
      rewrite Nat.sub_diag in H4. exact H4.
    + replace (k - off =? 0)%nat with false in H4 by (symmetry; apply Nat.eqb_neq; lia).
      destruct (k - off <? 4)%nat; eexists; (split; [exact H1|]); (split; [exact H2|]);
        (split; [exact H3|]); exact H4.
Qed.

(* The OLD loader: the same except that cuts leaving 1-3 bytes of a size word are not truncated. *)
Theorem C09_torn_old_partial_thm ops :
  wf_ops ops ->
  forall k, (k <= length (apply_ops [] ops))%nat ->
  ((k < 16)%nat -> load_deps_old (firstn k (apply_ops [] ops)) = DBadHeader) /\
  ((16 <= k)%nat ->
   exists off s1 nr1,
     (16 <= off <= k)%nat /\
     clean (RdOld true) (firstn off (apply_ops [] ops)) s1 /\
     (forall j s', (off < j <= k)%nat -> ~ clean (RdOld true) (firstn j (apply_ops [] ops)) s') /\
     load_deps_old (firstn k (apply_ops [] ops)) =
       (if (k - off <? 4)%nat then DOk s1 None nr1 else DOk s1 (Some off) false)).
Proof.
  intros Hwf k Hk. split.
  - intros Hlt. apply torn_header. exact Hlt.
  - intros Hge.
    destruct (torn_apply_ops (RdOld true) ops Hwf k ltac:(lia)) as (off & s1 & nr1 & H1 & H2 & H3 & H4).
    specialize (H4 true). unfold torn_outcome in H4.
    exists off, s1, nr1. split; [exact H1|]. split; [exact H2|]. split; [exact H3|].
    unfold load_deps_old. rewrite H4.
    destruct (Nat.eqb_spec (k - off) 0) as [E|E].
    + rewrite E. reflexivity.
    + destruct (k - off <? 4)%nat; reflexivity.
Qed.

(* The full statement for the OLD loader is false. *)
Definition C09_torn_old_full : Prop :=
  forall ops, wf_ops ops ->
  forall k, (16 <= k <= length (apply_ops [] ops))%nat ->
  exists off s1 nr1,
    (16 <= off <= k)%nat /\
    clean (RdOld true) (firstn off (apply_ops [] ops)) s1 /\
    load_deps_old (firstn k (apply_ops [] ops)) =
      DOk s1 (if (k =? off)%nat then None else Some off) nr1.

(* Witness: one RecordDeps("a", mtime 1, no inputs): 16 header bytes, a 12-byte path record,
   a 16-byte deps record.  Cut at 30 = 2 bytes into the deps record's size word. *)
Definition torn_ops : list dop := [RecordDeps [97] 1 []].
Definition torn_file : bytes := apply_ops [] torn_ops.

Example torn_file_bytes :
  torn_file = deps_header
              ++ [8; 0; 0; 0; 97; 0; 0; 0; 255; 255; 255; 255]
              ++ [12; 0; 0; 128; 0; 0; 0; 0; 1; 0; 0; 0; 0; 0; 0; 0].
Proof. vm_compute. reflexivity. Qed.

Lemma wf_torn_ops : wf_ops torn_ops.
Proof. split; [vm_compute; reflexivity|]. vm_compute. reflexivity. Qed.

(* old loader: no truncation; current loader: truncated to 28, silently *)
Example torn_cut_30_old :
  load_deps_old (firstn 30 torn_file) = DOk (mkD [[97]] []) None false.
Proof. vm_compute. reflexivity. Qed.

Example torn_cut_30 :
  load_deps (firstn 30 torn_file) = DOk (mkD [[97]] []) (Some 28%nat) false.
Proof. vm_compute. reflexivity. Qed.

Theorem C09_torn_old_refuted_thm : ~ C09_torn_old_full.
Proof.
  intros H.
  destruct (H torn_ops wf_torn_ops 30%nat) as (off & s1 & nr1 & Hoff & Hcl & Hl).
  { fold torn_file. replace (length torn_file) with 44%nat by (vm_compute; reflexivity). lia. }
  fold torn_file in Hcl, Hl. rewrite torn_cut_30_old in Hl.
  destruct (Nat.eqb_spec 30 off) as [<-|Hne]; [|discriminate].
  destruct Hcl as (x & st & Hx & Hr & _).
  assert (Hf : firstn 30 torn_file
               = deps_header ++ [8; 0; 0; 0; 97; 0; 0; 0; 255; 255; 255; 255; 12; 0])
    by (vm_compute; reflexivity).
  rewrite Hf in Hx. apply app_inv_head in Hx. subst x.
  destruct (runs_inv_nonempty _ _ _ _ Hr ltac:(discriminate)) as (st1 & y & Hs & Hr1).
  vm_compute in Hs. inversion Hs; subst st1 y. clear Hs.
  refine (runs_stuck (RdOld true) _ _ _ _ _ Hr1); [vm_compute; reflexivity|discriminate].
Qed.

(* The consequence for the OLD code.  What one wants: whatever prefix of the log reached the
   disk, what the NEXT session records is seen by the load after it. *)
Definition C09_torn_next_session_old_full : Prop :=
  forall ops ops2 k, wf_ops (ops ++ ops2) -> (k <= length (apply_ops [] ops))%nat ->
  forall o x, abstract_ops ops2 o = Some x ->
  exists s tr nr,
    load_deps_old (apply_ops_old (firstn k (apply_ops [] ops)) ops2) = DOk s tr nr /\
    view s o = spec_view (Some x).

Definition torn_ops2 : list dop := [RecordDeps [98] 2 []].

(* OLD: after the cut at 30, the next session appends behind the two stray bytes 0c 00 ... *)
Example torn_next_file_old :
  apply_ops_old (firstn 30 torn_file) torn_ops2 =
  deps_header ++ [8; 0; 0; 0; 97; 0; 0; 0; 255; 255; 255; 255] ++ [12; 0]
  ++ [8; 0; 0; 0; 98; 0; 0; 0; 254; 255; 255; 255]
  ++ [12; 0; 0; 128; 1; 0; 0; 0; 2; 0; 0; 0; 0; 0; 0; 0].
Proof. vm_compute. reflexivity. Qed.

(* ... and the following load reads the size word 0c 00 08 00 = 0x0008000c > kMaxRecordSize,
   fails, and truncates the file to 28 bytes: everything that session recorded is gone. *)
Example torn_next_load_old :
  load_deps_old (apply_ops_old (firstn 30 torn_file) torn_ops2)
  = DOk (mkD [[97]] []) (Some 28%nat) false.
Proof. vm_compute. reflexivity. Qed.

(* CURRENT code on the same history: the stray bytes are cut before appending, nothing is lost *)
Example torn_next_file :
  apply_ops (firstn 30 torn_file) torn_ops2 =
  deps_header ++ [8; 0; 0; 0; 97; 0; 0; 0; 255; 255; 255; 255]
  ++ [8; 0; 0; 0; 98; 0; 0; 0; 254; 255; 255; 255]
  ++ [12; 0; 0; 128; 1; 0; 0; 0; 2; 0; 0; 0; 0; 0; 0; 0].
Proof. vm_compute. reflexivity. Qed.

Example torn_next_load :
  load_deps (apply_ops (firstn 30 torn_file) torn_ops2)
  = DOk (mkD [[97]; [98]] [(1, (2%Z, []))]) None false.
Proof. vm_compute. reflexivity. Qed.

Theorem C09_torn_next_session_old_lost_refuted_thm : ~ C09_torn_next_session_old_full.
Proof.
  intros H.
  destruct (H torn_ops torn_ops2 30%nat) with (o := [98]) (x := (2%Z, @nil bytes))
    as (s & tr & nr & Hl & Hv).
  - split; [vm_compute; reflexivity|]. vm_compute. reflexivity.
  - fold torn_file. replace (length torn_file) with 44%nat by (vm_compute; reflexivity). lia.
  - reflexivity.
  - fold torn_file in Hl. rewrite torn_next_load_old in Hl. inversion Hl; subst s tr nr.
    vm_compute in Hv. discriminate.
Qed.

(* ==================================================================================== *)
(* 11. Garbage after a valid log                                                        *)

Theorem C09_garbage_tail_thm old strict f s g :
  clean strict f s ->
  match load_deps_ver old strict (f ++ g) with
  | DUnsafe _ => True
  | DOk s' tr nr =>
      extends s s' /\
      match tr with
      | Some off =>
          (* truncated exactly in front of the first malformed record (or torn size word);
             what is left is a clean file whose records (all of [f]'s and the well-formed
             ones of [g]) make up s' *)
          (length f <= off <= length (f ++ g))%nat /\ clean strict (firstn off (f ++ g)) s'
      | None =>
          (* end of file reached.  Current loader: the whole file is clean.  Old loader: up to
             3 stray bytes may remain *)
          exists f' stray, f ++ g = f' ++ stray /\
                           (if old then (length stray < 4)%nat else stray = []) /\
                           (length f <= length f')%nat /\ clean strict f' s'
      end
  | DBadHeader | DFuel => False
  end.
Proof.
  intros (x & st & -> & Hr & Hs).
  destruct (runs_anatomy _ _ _ _ _ Hr) as (c & Hc & Hoff & _ & Hx).
  rewrite app_nil_r in Hc. subst c.
  destruct (runs_total strict (length g) g st (le_n _)) as (st' & y & Hr2 & Hn).
  destruct (runs_anatomy _ _ _ _ _ Hr2) as (c & -> & Hoff2 & Hext & Hx2).
  assert (Hrun : runs strict l_init (x ++ c ++ y) st' y).
  { eapply runs_trans; [apply Hx|exact Hr2]. }
  rewrite <- app_assoc, (load_deps_runs old _ _ _ _ Hrun Hn).
  assert (Hcl : clean strict (deps_header ++ x ++ c) (l_s st')).
  { exists (x ++ c), st'. split; [reflexivity|]. split; [|reflexivity].
    eapply runs_trans; [apply Hx|]. specialize (Hx2 []). rewrite app_nil_r in Hx2. exact Hx2. }
  assert (Hlen : N.to_nat (l_off st') = length (deps_header ++ x ++ c)).
  { change (l_off l_init) with 16 in Hoff. unfold nlen in *.
    rewrite !app_length. change (length deps_header) with 16%nat. lia. }
  assert (Hcut : firstn (N.to_nat (l_off st')) (deps_header ++ x ++ c ++ y) = deps_header ++ x ++ c).
  { rewrite Hlen.
    replace (deps_header ++ x ++ c ++ y) with ((deps_header ++ x ++ c) ++ y)
      by (rewrite <- !app_assoc; reflexivity).
    rewrite firstn_app, Nat.sub_diag, firstn_all. cbn [firstn]. apply app_nil_r. }
  assert (Hbounds : (length (deps_header ++ x) <= N.to_nat (l_off st')
                     <= length (deps_header ++ x ++ c ++ y))%nat).
  { rewrite Hlen, !app_length. lia. }
  assert (Htrunc : extends (l_s st) (l_s st') /\
                   (length (deps_header ++ x) <= N.to_nat (l_off st')
                    <= length (deps_header ++ x ++ c ++ y))%nat /\
                   clean strict (firstn (N.to_nat (l_off st')) (deps_header ++ x ++ c ++ y))
                         (l_s st')).
  { split; [exact Hext|]. split; [exact Hbounds|]. rewrite Hcut. exact Hcl. }
  assert (Hylen : frame y = FEof \/ frame y = FTorn ->
                  (length y < 4)%nat /\ (frame y = FEof -> y = [])).
  { unfold frame. destruct y as [|b0 [|b1 [|b2 [|b3 y']]]]; cbn [length rd32].
    1-4: (intros _; split; [lia|]; try reflexivity; intros Hc; discriminate).
    destruct ((kMaxRecordSize <? _) || _); [intros [Hc|Hc]; discriminate|].
    destruct (take _ _) as [[? ?]|]; intros [Hc|Hc]; discriminate. }
  subst s. unfold final.
  destruct (frame y) as [| | |d size buf rest] eqn:Ef.
  - destruct (Hylen (or_introl eq_refl)) as [_ Hy]. specialize (Hy eq_refl). subst y.
    split; [exact Hext|].
    exists (deps_header ++ x ++ c), [].
    split; [rewrite <- !app_assoc; reflexivity|].
    split; [destruct old; [cbn; lia|reflexivity]|].
    split; [rewrite !app_length; lia|exact Hcl].
  - destruct (Hylen (or_intror eq_refl)) as [Hy _].
    destruct old; [|exact Htrunc].
    split; [exact Hext|].
    exists (deps_header ++ x ++ c), y.
    split; [rewrite <- !app_assoc; reflexivity|].
    split; [exact Hy|].
    split; [rewrite !app_length; lia|exact Hcl].
  - exact Htrunc.
  - destruct (decode strict (d_paths (l_s st')) d size buf) eqn:Ed.
    + exact Htrunc.
    + exact I.
    + unfold step in Hn. rewrite Ef, Ed in Hn. discriminate.
    + unfold step in Hn. rewrite Ef, Ed in Hn. discriminate.
Qed.

(* ==================================================================================== *)
(* 12. C13: where DepsLog::Load has undefined behaviour, and where it has none          *)

Definition w32 (ws : list N) : bytes := flat_map le32 ws.

(* One minimal file per class (each is: header + one record). *)
Definition unsafe1 : bytes := deps_header ++ w32 [2147483652; 0].                (* 04 00 00 80 | out *)
Definition unsafe2 : bytes := deps_header ++ w32 [2147483664; 0; 0; 0; 4294967295]. (* dep id -1 *)
Definition unsafe3 : bytes := deps_header ++ w32 [2147483660; 2147483648; 0; 0].  (* out id INT_MIN *)
Definition unsafe4 : bytes := deps_header ++ w32 [2147483660; 2147483647; 0; 0].  (* out id INT_MAX *)
Definition unsafe5 : bytes := deps_header ++ w32 [5] ++ [0] ++ w32 [4294967295].  (* path "\0" *)
Definition unsafe6 : bytes := deps_header ++ w32 [5] ++ [120] ++ w32 [4294967295]. (* path "x", size 5 *)
(* accepted by Load, crashes Recompact: deps record for out id 0 while nodes_ is empty *)
Definition unsafe_recompact : bytes := deps_header ++ w32 [2147483660; 0; 0; 0].

(* The reader BEFORE the fix "validate record sizes and ids when loading the deps log"
   ([load_deps_rd_old strict] = [load_deps_ver false (RdOld strict)]). *)
Theorem C13_depslog_bounds_refuted_thm :
  load_deps_rd_old true unsafe1 = DUnsafe 1 /\ load_deps_rd_old true unsafe2 = DUnsafe 2 /\
  load_deps_rd_old true unsafe3 = DUnsafe 3 /\ load_deps_rd_old true unsafe4 = DUnsafe 4 /\
  load_deps_rd_old true unsafe5 = DUnsafe 5 /\ load_deps_rd_old true unsafe6 = DUnsafe 6 /\
  load_deps_rd_old false unsafe5 = DUnsafe 5 /\
  (exists s, load_deps_rd_old true unsafe_recompact = DOk s None false /\
             forall live, recompact_r live s = CUnsafe 1).
Proof.
  do 7 (split; [vm_compute; reflexivity|]).
  exists (mkD [] [(0, (0%Z, []))]). split; [vm_compute; reflexivity|].
  intros live. reflexivity.
Qed.

Lemma check_ids_safe n ins :
  forallb (fun i => i <? two31) ins = true -> check_ids n ins <> IdsUnsafe.
Proof.
  induction ins as [|i r IH]; cbn [forallb check_ids]; [discriminate|].
  intros H. apply andb_true_iff in H. destruct H as [Hi Hr].
  replace (two31 <=? i) with false by lia.
  destruct (n <=? i); [discriminate|]. apply IH. exact Hr.
Qed.

Lemma strip3_some (r : bytes) : (3 <= length r)%nat -> strip3 r <> None.
Proof.
  destruct r as [|a [|b [|c r]]]; cbn [length]; try lia. intros _.
  unfold strip3, strip_step.
  destruct (a =? 0); [|destruct (a =? 0); discriminate].
  destruct (b =? 0); [|destruct (b =? 0); discriminate].
  destruct (c =? 0); discriminate.
Qed.

Lemma decode_safe strict paths d size buf :
  length buf = N.to_nat size ->
  record_safe strict (d, size, buf) = true ->
  forall w, decode (RdOld strict) paths d size buf <> RUnsafe w.
Proof.
  intros Hlen Hs w. unfold record_safe in Hs. unfold decode, decode_old. destruct d.
  - destruct (size mod 4 =? 0); cbn [negb]; [|discriminate].
    destruct (words_of buf) as [|out [|lo [|hi ins]]]; try discriminate.
    apply andb_true_iff in Hs. destruct Hs as [Ho Hi].
    pose proof (check_ids_safe (nlen paths) ins Hi) as Hc.
    destruct (check_ids (nlen paths) ins); try discriminate; [|congruence].
    replace (two31 <=? out) with false by (unfold two31 in *; lia).
    replace (out =? two31 - 1) with false by (unfold two31 in *; lia). discriminate.
  - rewrite frev_rev.
    destruct (rev buf) as [|c3 [|c2 [|c1 [|c0 rp]]]] eqn:Er; try discriminate.
    destruct rp as [|r0 rp']; [discriminate|].
    assert (Hl : length buf = (5 + length rp')%nat).
    { rewrite <- (rev_length buf), Er. reflexivity. }
    assert (Hst : strip3 (r0 :: rp') <> None).
    { destruct strict.
      - apply strip3_some. cbn [length]. lia.
      - destruct rp' as [|r1 [|r2 rp'']]; [| |apply strip3_some; cbn [length]; lia].
        + (* path part of 1 byte *)
          assert (Hb : buf = [r0; c0; c1; c2; c3]).
          { rewrite <- (rev_involutive buf), Er. reflexivity. }
          subst buf. cbn [short_all_nul] in Hs. apply negb_true_iff in Hs.
          unfold strip3, strip_step. repeat (rewrite ?Hs; cbn). discriminate.
        + (* path part of 2 bytes *)
          assert (Hb : buf = [r1; r0; c0; c1; c2; c3]).
          { rewrite <- (rev_involutive buf), Er. reflexivity. }
          subst buf. cbn [short_all_nul] in Hs.
          destruct (r0 =? 0) eqn:E0, (r1 =? 0) eqn:E1; try discriminate Hs;
            unfold strip3, strip_step; repeat (rewrite ?E0, ?E1; cbn); discriminate. }
    destruct (strip3 (r0 :: rp')) as [rp2|]; [|congruence].
    destruct strict.
    + rewrite Hs. cbn [negb andb].
      destruct (negb _ || _); discriminate.
    + cbn [andb]. destruct (negb _ || _); discriminate.
Qed.

Lemma load_loop_safe old strict : forall fuel st x,
  forallb (record_safe strict) (frames_of fuel x) = true ->
  forall w, load_loop old (RdOld strict) fuel st x <> DUnsafe w.
Proof.
  induction fuel as [|fuel IH]; intros st x Hs w; [discriminate|].
  cbn [load_loop]. cbn [frames_of] in Hs.
  destruct (frame x) as [| | |d size buf rest] eqn:Ef; try discriminate.
  { destruct old; discriminate. }
  destruct (frame_rec _ _ _ _ _ Ef) as (hd & _ & _ & Hbuf & _).
  cbn [forallb] in Hs. apply andb_true_iff in Hs. destruct Hs as [Hs1 Hs2].
  pose proof (decode_safe strict (d_paths (l_s st)) d size buf Hbuf Hs1) as Hd.
  destruct (decode (RdOld strict) (d_paths (l_s st)) d size buf); try discriminate.
  - exfalso. exact (Hd _ eq_refl).
  - apply IH. exact Hs2.
  - apply IH. exact Hs2.
Qed.

(* OLD reader: on every file whose framed records avoid the listed classes it has no undefined
   behaviour (and it always terminates: load_deps_never_fuel). *)
Theorem C13_depslog_bounds_old_partial_thm old strict f :
  safe_file strict f = true -> forall w, load_deps_ver old (RdOld strict) f <> DUnsafe w.
Proof.
  unfold safe_file, load_deps_ver. destruct (take 16 f) as [[h x]|]; [|discriminate].
  intros Hs w. destruct (bytes_eqb h deps_header); [|discriminate].
  apply load_loop_safe. exact Hs.
Qed.

(* Files written by ninja itself are safe in that sense (consequence of the round trip; shown
   here for the example used in the non-vacuity checks). *)
Example safe_file_example : safe_file true torn_file = true.
Proof. vm_compute. reflexivity. Qed.

(* ------------------------------------------------------------------------------------ *)
(* The CURRENT reader: no undefined behaviour on any file                               *)

(* the same seven files on the current code: the record is malformed, the load ends in front
   of it (truncation to the 16 header bytes) *)
Example unsafe_files_now :
  load_deps unsafe1 = DOk d_empty (Some 16%nat) false /\
  load_deps unsafe2 = DOk d_empty (Some 16%nat) false /\
  load_deps unsafe3 = DOk d_empty (Some 16%nat) false /\
  load_deps unsafe4 = DOk d_empty (Some 16%nat) false /\
  load_deps unsafe5 = DOk d_empty (Some 16%nat) false /\
  load_deps unsafe6 = DOk d_empty (Some 16%nat) false /\
  load_deps unsafe_recompact = DOk d_empty (Some 16%nat) false.
Proof. do 6 (split; [vm_compute; reflexivity|]). vm_compute. reflexivity. Qed.

Lemma words_of_length (buf : bytes) : forall k, length buf = (4 * k)%nat -> length (words_of buf) = k.
Proof.
  intros k. revert buf. induction k as [|k IH]; intros buf Hl.
  - destruct buf; [reflexivity|discriminate].
  - destruct buf as [|b0 [|b1 [|b2 [|b3 r]]]]; cbn [length] in Hl; try lia.
    cbn [words_of length]. f_equal. apply IH. lia.
Qed.

(* The accesses that were undefined in the old reader are unreachable in the current one. *)
Lemma decode_cur_safe paths d size buf :
  length buf = N.to_nat size -> forall w, decode_cur paths d size buf <> RUnsafe w.
Proof.
  intros Hlen w. unfold decode_cur. destruct d.
  - destruct (N.eqb_spec (size mod 4) 0) as [Hm|Hm]; cbn [negb orb]; [|discriminate].
    destruct (N.ltb_spec size 12) as [Hs|Hs]; [discriminate|].
    pose proof (words_of_length buf (N.to_nat (size / 4)) ltac:(lia)) as Hw.
    destruct (words_of buf) as [|out [|lo [|hi ins]]]; cbn [length] in Hw; try lia.
    destruct ((two31 <=? out) || (nlen paths <=? out)); [discriminate|].
    destruct (check_ids_cur (nlen paths) ins); discriminate.
  - rewrite frev_rev.
    destruct (rev buf) as [|c3 [|c2 [|c1 [|c0 rp]]]] eqn:Er; try discriminate.
    destruct rp as [|r0 rp']; [discriminate|].
    destruct (N.eqb_spec (size mod 4) 0) as [Hm|Hm]; cbn [negb]; [|discriminate].
    assert (Hl : length buf = (5 + length rp')%nat).
    { rewrite <- (rev_length buf), Er. reflexivity. }
    pose proof (strip3_some (r0 :: rp') ltac:(cbn [length]; lia)) as Hst.
    destruct (strip3 (r0 :: rp')) as [rp2|]; [|congruence].
    destruct (negb _ || _); discriminate.
Qed.

Lemma load_loop_cur_safe old : forall fuel st x w, load_loop old RdCur fuel st x <> DUnsafe w.
Proof.
  induction fuel as [|fuel IH]; intros st x w; [discriminate|].
  cbn [load_loop].
  destruct (frame x) as [| | |d size buf rest] eqn:Ef; try discriminate.
  { destruct old; discriminate. }
  destruct (frame_rec _ _ _ _ _ Ef) as (hd & _ & _ & Hbuf & _).
  cbn [decode].
  pose proof (decode_cur_safe (d_paths (l_s st)) d size buf Hbuf) as Hd.
  destruct (decode_cur (d_paths (l_s st)) d size buf); try discriminate.
  - exfalso. exact (Hd _ eq_refl).
  - apply IH.
  - apply IH.
Qed.

(* C13_depslog_bounds: unconditional. *)
Theorem C13_depslog_bounds_thm old f w : load_deps_ver old RdCur f <> DUnsafe w.
Proof.
  unfold load_deps_ver. destruct (take 16 f) as [[h x]|]; [|discriminate].
  destruct (bytes_eqb h deps_header); [|discriminate]. apply load_loop_cur_safe.
Qed.

(* Every state the current reader produces has all its ids in range ... *)
Definition ids_in_range (s : dstate) : Prop :=
  Forall (fun e => fst e < nlen (d_paths s) /\
                   Forall (fun i => i < nlen (d_paths s)) (snd (snd e))) (d_deps s).

Lemma decode_cur_deps_inv paths size buf out m ins :
  decode_cur paths true size buf = RDeps out m ins ->
  out < nlen paths /\ Forall (fun i => i < nlen paths) ins.
Proof.
  unfold decode_cur.
  destruct (negb (size mod 4 =? 0) || (size <? 12)); [discriminate|].
  destruct (words_of buf) as [|o [|lo [|hi is]]]; try discriminate.
  destruct ((two31 <=? o) || (nlen paths <=? o)) eqn:Eo; [discriminate|].
  destruct (check_ids_cur (nlen paths) is) eqn:Ec; [|discriminate].
  intros H. inversion H; subst out m ins. split; [lia|].
  unfold check_ids_cur in Ec. rewrite forallb_forall in Ec.
  apply Forall_forall. intros i Hi. specialize (Ec i Hi). lia.
Qed.

Lemma decode_cur_path_not_deps paths size buf out m ins :
  decode_cur paths false size buf <> RDeps out m ins.
Proof.
  unfold decode_cur. destruct (frev buf) as [|c3 [|c2 [|c1 [|c0 rp]]]]; try discriminate.
  destruct rp; [discriminate|]. destruct (negb (size mod 4 =? 0)); [discriminate|].
  destruct (strip3 _); [|discriminate]. destruct (negb _ || _); discriminate.
Qed.

Lemma decode_cur_deps_not_path paths size buf p :
  decode_cur paths true size buf <> RPath p.
Proof.
  unfold decode_cur. destruct (negb (size mod 4 =? 0) || (size <? 12)); [discriminate|].
  destruct (words_of buf) as [|o [|lo [|hi is]]]; try discriminate.
  destruct ((two31 <=? o) || (nlen paths <=? o)); [discriminate|].
  destruct (check_ids_cur _ _); discriminate.
Qed.

Lemma ids_in_range_grow s (p : bytes) : ids_in_range s -> ids_in_range (add_path s p).
Proof.
  unfold ids_in_range. cbn [add_path d_paths d_deps]. intros H.
  eapply Forall_impl; [|exact H]. cbn beta. intros e [H1 H2]. rewrite nlen_app.
  split; [lia|]. eapply Forall_impl; [|exact H2]. cbn beta. intros i Hi. lia.
Qed.

Lemma step_cur_ids st x st' y :
  step RdCur st x = Some (st', y) -> ids_in_range (l_s st) -> ids_in_range (l_s st').
Proof.
  unfold step. destruct (frame x) as [| | |d size buf rest]; try discriminate.
  cbn [decode].
  destruct (decode_cur (d_paths (l_s st)) d size buf) as [| |p|o m ins] eqn:Ed; try discriminate.
  - intros H Hi. inversion H; subst st' y. cbn [l_add_path l_s]. apply ids_in_range_grow. exact Hi.
  - intros H Hi. inversion H; subst st' y. cbn [l_add_deps l_s].
    destruct d; [|exfalso; exact (decode_cur_path_not_deps _ _ _ _ _ _ Ed)].
    apply decode_cur_deps_inv in Ed.
    unfold ids_in_range. cbn [add_deps d_paths d_deps]. constructor; [exact Ed|exact Hi].
Qed.

Lemma runs_cur_ids st x st' y :
  runs RdCur st x st' y -> ids_in_range (l_s st) -> ids_in_range (l_s st').
Proof.
  induction 1 as [|st x st1 y st' z Hs _ IH]; intros Hi; [exact Hi|].
  apply IH. eapply step_cur_ids; eassumption.
Qed.

Theorem load_deps_ids_in_range old f s tr nr :
  load_deps_ver old RdCur f = DOk s tr nr -> ids_in_range s.
Proof.
  intros Hl.
  destruct (load_deps_header_inv old RdCur f ltac:(congruence)) as [x ->].
  destruct (runs_total RdCur (length x) x l_init (le_n _)) as (st' & y & Hr & Hn).
  rewrite (load_deps_runs _ _ _ _ _ Hr Hn) in Hl.
  pose proof (runs_cur_ids _ _ _ _ Hr ltac:(constructor)) as Hi.
  unfold final in Hl.
  destruct (frame y) as [| | |d size buf rest].
  - inversion Hl; subst. exact Hi.
  - destruct old; inversion Hl; subst; exact Hi.
  - inversion Hl; subst. exact Hi.
  - destruct (decode RdCur (d_paths (l_s st')) d size buf); inversion Hl; subst; exact Hi.
Qed.

(* ... hence Recompact never indexes nodes_ out of bounds on them. *)
Lemma recompact_ops_some live s : ids_in_range s ->
  forall ids, recompact_ops live s ids <> None.
Proof.
  intros Hi. induction ids as [|i r IH]; cbn [recompact_ops]; [discriminate|].
  destruct (recompact_ops live s r) as [ops|]; [|congruence].
  destruct (lookup i (d_deps s)) as [[m ins]|] eqn:El; [|discriminate].
  destruct (nth_error (d_paths s) (N.to_nat i)) as [p|]; [|discriminate].
  apply lookup_in in El. unfold ids_in_range in Hi. rewrite Forall_forall in Hi.
  destruct (Hi _ El) as [_ Hins]. cbn [snd] in Hins.
  destruct (resolve_spec (d_paths s) ins Hins) as (ps & Er & _). rewrite Er. discriminate.
Qed.

Theorem C13_recompact_bounds_thm old f s tr nr live w :
  load_deps_ver old RdCur f = DOk s tr nr -> recompact_r live s <> CUnsafe w.
Proof.
  intros Hl. pose proof (load_deps_ids_in_range _ _ _ _ _ Hl) as Hi.
  unfold recompact_r.
  destruct (existsb (fun e => nlen (d_paths s) <=? fst e) (d_deps s)) eqn:Ex.
  { apply existsb_exists in Ex. destruct Ex as (e & He & Hle).
    unfold ids_in_range in Hi. rewrite Forall_forall in Hi. destruct (Hi e He) as [Hlt _]. lia. }
  pose proof (recompact_ops_some live s Hi (nseq 0 (length (d_paths s)))) as Hs.
  destruct (recompact_ops live s (nseq 0 (length (d_paths s)))) as [ops|]; [|congruence].
  destruct (run_ops d_empty ops) as [[s2 w2] [|]]; discriminate.
Qed.

(* ==================================================================================== *)
(* 13. After a torn write: the next session                                             *)

Lemma mentions_app a b : mentions (a ++ b) = (mentions a + mentions b)%nat.
Proof.
  induction a as [|[out m ins] a IH]; [reflexivity|].
  cbn [app mentions]. rewrite IH. lia.
Qed.

Lemma wf_ops_app_l a b : wf_ops (a ++ b) -> wf_ops a.
Proof.
  intros [H1 H2]. apply forallb_app_true in H1. rewrite mentions_app in H2.
  split; [apply H1|]. unfold kMaxIds in *. lia.
Qed.

Lemma wf_ops_app_r a b : wf_ops (a ++ b) -> wf_ops b.
Proof.
  intros [H1 H2]. apply forallb_app_true in H1. rewrite mentions_app in H2.
  split; [apply H1|]. unfold kMaxIds in *. lia.
Qed.

(* A load that truncates to a clean prefix with the same state and recompaction flag starts the
   same session as a load of that prefix. *)
Lemma session_truncated old strict live f g off s nr ops :
  load_deps_ver old strict f = DOk s (Some off) nr ->
  load_deps_ver old strict g = DOk s None nr ->
  g = firstn off f ->
  session_ver old strict live f ops = session_ver old strict live g ops.
Proof.
  intros Hf Hg ->. unfold session_ver. rewrite Hf, Hg. reflexivity.
Qed.

(* Both loaders.  [old = false]: every cut.  [old = true]: every cut except those that leave 1
   to 3 bytes of a size word.  The session that starts from the torn log is consistent: the load
   after it sees the records that were complete at the cut (state s1) updated by everything the
   session recorded, and the file is clean again. *)
Theorem torn_next_session old m ops ops2 :
  wf_ops (ops ++ ops2) ->
  forall k, (16 <= k <= length (apply_ops [] ops))%nat ->
  exists off s1,
    (16 <= off <= k)%nat /\
    clean m (firstn off (apply_ops [] ops)) s1 /\
    (forall j s', (off < j <= k)%nat -> ~ clean m (firstn j (apply_ops [] ops)) s') /\
    (old = false \/ k = off \/ (off + 4 <= k)%nat ->
     exists s' nr,
       load_deps_ver old m
         (session_ver old m (fun _ => true) (firstn k (apply_ops [] ops)) ops2)
       = DOk s' None nr /\
       forall o, view s' o = upd (view s1) ops2 o).
Proof.
  intros Hwf k Hk.
  pose proof (wf_ops_app_l _ _ Hwf) as Hwf1.
  destruct (apply_ops_clean m ops Hwf1) as (s & [Cl (x & Hx & Kx)] & Ok & _ & Hincl & _).
  set (file := apply_ops [] ops) in *.
  destruct (torn_clean m file s Cl k Hk)
    as (off & s1 & nr1 & Hoff & Cl1 & Hmax & Hext & Hloadoff & Hload).
  exists off, s1. split; [exact Hoff|]. split; [exact Cl1|]. split; [exact Hmax|].
  (* the state at the cut is well-formed, and the cut file is an oclean file *)
  assert (Hfo : firstn off file = deps_header ++ firstn (off - 16) x).
  { rewrite Hx, firstn_app. change (length deps_header) with 16%nat.
    rewrite (firstn_all2 deps_header) by (change (length deps_header) with 16%nat; lia).
    reflexivity. }
  assert (Kx1 : okcuts m l_init (firstn (off - 16) x)).
  { apply (okcuts_prefix m l_init _ (skipn (off - 16) x)). rewrite firstn_skipn. exact Kx. }
  assert (Ok1 : ok_state s1).
  { destruct Cl1 as (x1 & st1 & Hx1 & Hr1 & Hs1). rewrite Hfo in Hx1.
    apply app_inv_head in Hx1. subst x1. rewrite <- Hs1.
    eapply Kx1; [symmetry; apply app_nil_r|exact Hr1]. }
  assert (OCl1 : oclean m (firstn off file) s1).
  { split; [exact Cl1|]. exists (firstn (off - 16) x). split; [exact Hfo|exact Kx1]. }
  destruct Hwf as [Hwfb Hcnt].
  set (U := flat_map op_paths (ops ++ ops2)).
  assert (HU : nlen U < kMaxIds) by (unfold U; rewrite mentions_paths; exact Hcnt).
  assert (Hin1 : incl (d_paths s1) U).
  { destruct Hext as [[np Hp] _]. intros p Hp1. unfold U. rewrite flat_map_app.
    apply in_or_app. left. apply Hincl. rewrite Hp. apply in_or_app. left. exact Hp1. }
  assert (HU2 : Forall (fun op => incl (op_paths op) U) ops2).
  { pose proof (op_paths_incl (ops ++ ops2)) as HF. apply Forall_app in HF. apply HF. }
  apply forallb_app_true in Hwfb. destruct Hwfb as [_ Hwf2].
  (* a session that starts from the clean cut *)
  assert (Hclean_case :
    exists s' nr,
      load_deps_ver old m (session_ver old m (fun _ => true) (firstn off file) ops2)
      = DOk s' None nr /\ forall o, view s' o = upd (view s1) ops2 o).
  { destruct (session_spec old m (fun _ => true) U _ s1 ops2 HU OCl1 Ok1 Hin1 HU2 Hwf2)
      as (s' & nr & _ & OCl' & _ & _ & V').
    destruct (clean_load old _ _ _ (proj1 OCl')) as [nr' Hl'].
    exists s', nr'. split; [exact Hl'|].
    intros o. rewrite V'. unfold upd. destruct (abstract_ops ops2 o); [reflexivity|].
    destruct nr; reflexivity. }
  intros Hcase. specialize (Hload old). unfold torn_outcome in Hload.
  destruct (Nat.eqb_spec (k - off) 0) as [E0|E0].
  - (* cut on a record boundary *)
    assert (k = off) by lia. subst k. exact Hclean_case.
  - destruct (Nat.ltb_spec (k - off) 4) as [E4|E4].
    + (* 1..3 bytes of a size word survive: only the current loader is claimed *)
      destruct old.
      { exfalso. destruct Hcase as [Hc|[Hc|Hc]]; [discriminate|lia|lia]. }
      rewrite (session_truncated false m (fun _ => true) (firstn k file) (firstn off file)
                 off s1 nr1 ops2 Hload (Hloadoff false)).
      * exact Hclean_case.
      * rewrite firstn_firstn. replace (Nat.min off k) with off by lia. reflexivity.
    + (* at least the size word of the torn record survived: read_failed, truncation *)
      destruct (run_ops_spec m U HU ops2 s1 Ok1 Hin1 HU2 Hwf2)
        as (s' & w & E & _ & _ & W & _ & V').
      assert (Hsess : session_ver old m (fun _ => true) (firstn k file) ops2
                      = firstn off file ++ w).
      { unfold session_ver. rewrite Hload, E.
        rewrite firstn_firstn. replace (Nat.min off k) with off by lia. reflexivity. }
      rewrite Hsess.
      destruct (clean_load old _ _ _ (clean_append _ _ _ _ _ Cl1 W)) as [nr' Hl'].
      exists s', nr'. split; [exact Hl'|exact V'].
Qed.

(* C09_torn_next_session (current loader): EVERY cut. *)
Theorem C09_torn_next_session_thm ops ops2 :
  wf_ops (ops ++ ops2) ->
  forall k, (k <= length (apply_ops [] ops))%nat ->
  ((k < 16)%nat ->
   (* header torn: the log starts over; the session's records are all there is *)
   exists s' nr,
     load_deps (apply_ops (firstn k (apply_ops [] ops)) ops2) = DOk s' None nr /\
     forall o, view s' o = spec_view (abstract_ops ops2 o)) /\
  ((16 <= k)%nat ->
   exists off s1,
     (16 <= off <= k)%nat /\
     clean RdCur (firstn off (apply_ops [] ops)) s1 /\
     (forall j s', (off < j <= k)%nat -> ~ clean RdCur (firstn j (apply_ops [] ops)) s') /\
     exists s' nr,
       load_deps (apply_ops (firstn k (apply_ops [] ops)) ops2) = DOk s' None nr /\
       forall o, view s' o = upd (view s1) ops2 o).
Proof.
  intros Hwf k Hk. split.
  - intros Hlt.
    destruct (C09_roundtrip_thm ops2 (wf_ops_app_r _ _ Hwf)) as (s' & nr & Hl & Hv).
    exists s', nr. split; [|exact Hv].
    replace (apply_ops (firstn k (apply_ops [] ops)) ops2) with (apply_ops [] ops2); [exact Hl|].
    unfold apply_ops, session, session_gen, session_ver.
    rewrite (torn_header false RdCur _ k Hlt).
    replace (load_deps_ver false RdCur []) with DBadHeader by reflexivity. reflexivity.
  - intros Hge.
    destruct (torn_next_session false RdCur ops ops2 Hwf k ltac:(lia))
      as (off & s1 & H1 & H2 & H3 & H4).
    exists off, s1. split; [exact H1|]. split; [exact H2|]. split; [exact H3|].
    exact (H4 (or_introl eq_refl)).
Qed.

(* The OLD loader: every cut except those that leave 1 to 3 bytes of a size word. *)
Theorem C09_torn_next_session_old_partial_thm ops ops2 :
  wf_ops (ops ++ ops2) ->
  forall k, (16 <= k <= length (apply_ops [] ops))%nat ->
  exists off s1,
    (16 <= off <= k)%nat /\
    clean (RdOld true) (firstn off (apply_ops [] ops)) s1 /\
    (forall j s', (off < j <= k)%nat -> ~ clean (RdOld true) (firstn j (apply_ops [] ops)) s') /\
    (k = off \/ (off + 4 <= k)%nat ->
     exists s' nr,
       load_deps_old (apply_ops_old (firstn k (apply_ops [] ops)) ops2) = DOk s' None nr /\
       forall o, view s' o = upd (view s1) ops2 o).
Proof.
  intros Hwf k Hk.
  destruct (torn_next_session true (RdOld true) ops ops2 Hwf k Hk) as (off & s1 & H1 & H2 & H3 & H4).
  exists off, s1. split; [exact H1|]. split; [exact H2|]. split; [exact H3|].
  intros Hc. exact (H4 (or_intror Hc)).
Qed.

(* NUL-free, non-empty paths within the record-size limit are well-formed. *)
Lemma nul_free_wf_path (p : bytes) :
  p <> [] -> nul_free p = true ->
  N.of_nat (length p + padding (length p) + 4) <= kMaxRecordSize -> wf_path p = true.
Proof.
  intros Hne Hnf Hsz. unfold wf_path. apply andb_true_iff. split; [|lia].
  destruct (rev p) as [|b q] eqn:Er.
  - exfalso. apply Hne. apply (f_equal (@rev byte)) in Er. rewrite rev_involutive in Er. exact Er.
  - unfold nul_free in Hnf. rewrite forallb_forall in Hnf. apply Hnf.
    assert (H : In b (rev p)) by (rewrite Er; left; reflexivity).
    apply in_rev. exact H.
Qed.
