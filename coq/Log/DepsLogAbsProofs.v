(* Refinement: the byte-level deps log (DepsLogDefs / DepsLogProofs) implements the abstract
   deps log of the history-level models ([alog]: one atomic record per output, latest wins).
   No axioms. *)
From NinjaV Require Import Base.Bytes Log.DepsLogDefs Log.DepsLogProofs Log.DepsLogAbs.
From Coq Require Import ZifyBool ZifyNat ZifyN.
Local Open Scope N_scope.

Ltac Zify.zify_post_hook ::= Z.div_mod_to_equations.

(* ==================================================================================== *)
(* 1. The abstraction function is the loader's view                                     *)

Lemma map_some_default (l : list (option bytes)) :
  Forall (fun x => x <> None) l ->
  map Some (map (fun x : option bytes => match x with Some p => p | None => [] end) l) = l.
Proof.
  induction l as [|x l IH]; intros HF; [reflexivity|].
  inversion HF as [|x' l' Hx Hl]; subst. cbn [map]. rewrite (IH Hl).
  destruct x as [p|]; [reflexivity|congruence].
Qed.

Lemma abs_of_state_spec s :
  ids_in_range s -> forall o, view s o = spec_view (abs_of_state s o).
Proof.
  intros Hi o. unfold abs_of_state.
  destruct (view s o) as [[m l]|] eqn:Ev; [|reflexivity].
  cbn [spec_view]. f_equal. f_equal. symmetry. apply map_some_default.
  unfold view in Ev.
  destruct (index_of o (d_paths s)) as [id|]; [|discriminate].
  destruct (lookup id (d_deps s)) as [[m' ins]|] eqn:El; [|discriminate].
  inversion Ev; subst m l. clear Ev.
  apply lookup_in in El. unfold ids_in_range in Hi. rewrite Forall_forall in Hi.
  destruct (Hi _ El) as [_ Hins]. cbn [snd] in Hins.
  apply Forall_forall. intros x Hx. apply in_map_iff in Hx. destruct Hx as (i & <- & Hin).
  rewrite Forall_forall in Hins. specialize (Hins i Hin).
  intros Hc. apply nth_error_None in Hc. unfold nlen in Hins. lia.
Qed.

(* abs_deps is faithful: the loaded state's GetDeps view is exactly its image. *)
Theorem abs_deps_faithful f s tr nr :
  load_deps f = DOk s tr nr -> forall o, view s o = spec_view (abs_deps f o).
Proof.
  intros Hl o. unfold abs_deps. rewrite Hl. apply abs_of_state_spec.
  exact (load_deps_ids_in_range false f s tr nr Hl).
Qed.

Lemma map_some_inj (a b : list bytes) : map Some a = map Some b -> a = b.
Proof.
  revert b. induction a as [|x a IH]; intros [|y b] H; try discriminate; [reflexivity|].
  cbn [map] in H. inversion H; subst. f_equal. apply IH. assumption.
Qed.

Lemma spec_view_inj a b : spec_view a = spec_view b -> a = b.
Proof.
  destruct a as [[m l]|], b as [[m' l']|]; cbn [spec_view]; intros H; try discriminate;
    [|reflexivity].
  inversion H; subst. f_equal. f_equal. apply map_some_inj. assumption.
Qed.

Lemma abs_of_view f s tr nr (l : alog) :
  load_deps f = DOk s tr nr -> (forall o, view s o = spec_view (l o)) -> aeq (abs_deps f) l.
Proof.
  intros Hl Hv o. apply spec_view_inj. rewrite <- (abs_deps_faithful f s tr nr Hl o). apply Hv.
Qed.

(* ------------------------------------------------------------------------------------ *)
(* abstract logs                                                                        *)

Lemma aeq_refl l : aeq l l.
Proof. intros o. reflexivity. Qed.

Lemma aeq_sym l l' : aeq l l' -> aeq l' l.
Proof. intros H o. symmetry. apply H. Qed.

Lemma aeq_trans a b c : aeq a b -> aeq b c -> aeq a c.
Proof. intros H1 H2 o. rewrite H1. apply H2. Qed.

Lemma alog_apply_abstract ops : forall (l : alog) o,
  alog_apply l ops o = match abstract_ops ops o with Some x => Some x | None => l o end.
Proof.
  induction ops as [|[out m ins] r IH]; intros l o; [reflexivity|].
  cbn [alog_apply fold_left]. change (fold_left alog_op r ?x) with (alog_apply x r).
  rewrite IH. cbn [abstract_ops]. destruct (abstract_ops r o); [reflexivity|].
  cbn [alog_op]. unfold alog_upd. destruct (bytes_eqb o out); reflexivity.
Qed.

Lemma alog_apply_ext ops l l' : aeq l l' -> aeq (alog_apply l ops) (alog_apply l' ops).
Proof. intros H o. rewrite !alog_apply_abstract, H. reflexivity. Qed.

Lemma alog_apply_cons l op r : alog_apply l (op :: r) = alog_apply (alog_op l op) r.
Proof. reflexivity. Qed.

Lemma alog_apply_app l a b : alog_apply l (a ++ b) = alog_apply (alog_apply l a) b.
Proof. unfold alog_apply. apply fold_left_app. Qed.

Lemma upd_alog (v : bytes -> option (Z * list (option bytes))) (l : alog) ops :
  (forall o, v o = spec_view (l o)) -> forall o, upd v ops o = spec_view (alog_apply l ops o).
Proof.
  intros H o. unfold upd. rewrite alog_apply_abstract.
  destruct (abstract_ops ops o); [reflexivity|apply H].
Qed.

(* the ops of a command with several outputs = the update HistDepsDefs.record_deps performs *)
Lemma alog_apply_edge outs mt ins : forall (l : alog) o,
  alog_apply l (edge_ops outs mt ins) o
  = if mem_bytes o outs then Some (mt o, ins) else l o.
Proof.
  induction outs as [|a outs IH]; intros l o; [reflexivity|].
  cbn [edge_ops map]. rewrite alog_apply_cons. fold (edge_ops outs mt ins). rewrite IH.
  cbn [mem_bytes alog_op]. unfold alog_upd.
  destruct (mem_bytes o outs); [rewrite orb_true_r; reflexivity|].
  rewrite orb_false_r. destruct (bytes_eqb_spec o a) as [->|]; reflexivity.
Qed.

Lemma alog_restrict_true l : aeq (alog_restrict (fun _ => true) l) l.
Proof. intros o. reflexivity. Qed.

(* ==================================================================================== *)
(* 2. Writer logs                                                                       *)

(* [f] is a log as ninja writes it, and [s] the tables of a ninja that has loaded it:
   a clean file (header + whole records), every record boundary reached in a well-formed state *)
Definition wlog (f : bytes) (s : dstate) : Prop := oclean RdCur f s /\ ok_state s.

Lemma wlog_load f s : wlog f s -> exists nr, load_deps f = DOk s None nr.
Proof. intros [[Hc _] _]. exact (clean_load false RdCur f s Hc). Qed.

Lemma wlog_view f s : wlog f s -> forall o, view s o = spec_view (abs_deps f o).
Proof. intros H. destruct (wlog_load f s H) as [nr Hl]. exact (abs_deps_faithful f s None nr Hl). Qed.

Lemma wlog_loaded_file f s : wlog f s -> loaded_file f = f.
Proof. intros H. destruct (wlog_load f s H) as [nr Hl]. unfold loaded_file. rewrite Hl. reflexivity. Qed.

Lemma wlog_header : wlog deps_header d_empty.
Proof. split; [apply oclean_header|exact ok_empty]. Qed.

Lemma wlog_abs_of f s (l : alog) :
  wlog f s -> (forall o, view s o = spec_view (l o)) -> aeq (abs_deps f) l.
Proof. intros H Hv. destruct (wlog_load f s H) as [nr Hl]. exact (abs_of_view f s None nr l Hl Hv). Qed.

(* ------------------------------------------------------------------------------------ *)
(* Item 1: abs_deps of what ninja writes = the abstract history                         *)

Theorem abs_roundtrip ops :
  wf_ops ops -> aeq (abs_deps (apply_ops [] ops)) (alog_apply alog_empty ops).
Proof.
  intros Hwf. destruct (C09_roundtrip_thm ops Hwf) as (s & nr & Hl & Hv).
  apply (abs_of_view _ s None nr _ Hl). intros o. rewrite Hv, alog_apply_abstract.
  unfold alog_empty. destruct (abstract_ops ops o); reflexivity.
Qed.

Theorem abs_sessions live first rest :
  wf_ops (concat (first :: rest)) ->
  (forall out m ins, In (RecordDeps out m ins) (concat (first :: rest)) -> live out = true) ->
  aeq (abs_deps (run_sessions live [] (first :: rest)))
      (alog_apply alog_empty (concat (first :: rest))).
Proof.
  intros Hwf Hlive. destruct (C09_sessions_thm live first rest Hwf Hlive) as (s & nr & Hl & _ & Hv).
  apply (abs_of_view _ s None nr _ Hl). intros o. rewrite Hv, alog_apply_abstract.
  unfold alog_empty. destruct (abstract_ops _ o); reflexivity.
Qed.

(* the files ninja writes are writer logs *)
Lemma wlog_run_sessions live first rest :
  wf_ops (concat (first :: rest)) ->
  (forall out m ins, In (RecordDeps out m ins) (concat (first :: rest)) -> live out = true) ->
  exists s, wlog (run_sessions live [] (first :: rest)) s /\
            nlen (d_paths s) <= N.of_nat (mentions (concat (first :: rest))).
Proof.
  intros Hwf Hlive.
  destruct (run_sessions_clean live first rest Hwf Hlive) as (s & Cl & Ok & _ & Hi & _).
  exists s. split; [split; assumption|].
  rewrite <- mentions_paths. apply nodup_incl_nlen; [apply (ok_nodup _ Ok)|exact Hi].
Qed.

Lemma wlog_apply_ops ops :
  wf_ops ops ->
  exists s, wlog (apply_ops [] ops) s /\ nlen (d_paths s) <= N.of_nat (mentions ops).
Proof.
  intros Hwf. destruct (apply_ops_clean RdCur ops Hwf) as (s & Cl & Ok & _ & Hi & _).
  exists s. split; [split; assumption|].
  rewrite <- mentions_paths. apply nodup_incl_nlen; [apply (ok_nodup _ Ok)|exact Hi].
Qed.

(* ------------------------------------------------------------------------------------ *)
(* Item 2: RecordDeps calls refine the abstract update                                  *)

Lemma fits_U s ops :
  fits s ops ->
  let U := d_paths s ++ flat_map op_paths ops in
  nlen U < kMaxIds /\ incl (d_paths s) U /\ Forall (fun op => incl (op_paths op) U) ops.
Proof.
  intros [_ Hc] U. split; [|split].
  - unfold U. rewrite nlen_app, mentions_paths. exact Hc.
  - intros x Hx. apply in_or_app. left. exact Hx.
  - eapply Forall_impl; [|apply op_paths_incl]. cbn beta. intros op H x Hx.
    apply in_or_app. right. apply H. exact Hx.
Qed.

(* A sequence of RecordDeps calls on a loaded writer log. *)
Theorem abs_run_ops f s ops :
  wlog f s -> fits s ops ->
  exists s',
    run_ops s ops = (s', emitted s ops, true) /\
    wlog (f ++ emitted s ops) s' /\ extends s s' /\
    nlen (d_paths s') <= nlen (d_paths s) + N.of_nat (mentions ops) /\
    aeq (abs_deps (f ++ emitted s ops)) (alog_apply (abs_deps f) ops).
Proof.
  intros [Hcl Hok] Hfit. destruct (fits_U s ops Hfit) as (HU & Hincl & HopsU).
  destruct Hfit as [Hwf Hcnt].
  destruct (run_ops_spec RdCur _ HU ops s Hok Hincl HopsU Hwf)
    as (s' & w & E & Ok' & In' & W & X & V).
  assert (Ew : emitted s ops = w) by (unfold emitted; rewrite E; reflexivity).
  rewrite Ew. exists s'. split; [exact E|].
  assert (Hw : wlog (f ++ w) s') by (split; [eapply oclean_append; eassumption|exact Ok']).
  split; [exact Hw|]. split; [exact X|]. split.
  - pose proof (nodup_incl_nlen _ _ (ok_nodup _ Ok') In') as H.
    rewrite nlen_app, mentions_paths in H. exact H.
  - apply (wlog_abs_of _ s' _ Hw). intros o. rewrite V.
    apply upd_alog. apply (wlog_view f s). split; assumption.
Qed.

Lemma run_ops_single s op :
  run_ops s [op] = match record_deps s op with
                   | (s1, w, true) => (s1, w ++ [], true)
                   | (s1, w, false) => (s1, w, false)
                   end.
Proof.
  cbn [run_ops]. destruct (record_deps s op) as [[s1 w] [|]]; reflexivity.
Qed.

(* abs_record: ONE RecordDeps call (path records for the new paths, then the deps record, or
   nothing at all) is the abstract update  d_deps := upd d_deps out (mtime, ins). *)
Theorem abs_record f s op :
  wlog f s -> fits s [op] ->
  exists s' w,
    record_deps s op = (s', w, true) /\
    wlog (f ++ w) s' /\ extends s s' /\
    nlen (d_paths s') <= nlen (d_paths s) + N.of_nat (mentions [op]) /\
    aeq (abs_deps (f ++ w)) (alog_op (abs_deps f) op).
Proof.
  intros Hw Hfit. destruct (abs_run_ops f s [op] Hw Hfit) as (s' & E & Hw' & X & Hc & Ha).
  rewrite run_ops_single in E. destruct (record_deps s op) as [[s1 w] [|]] eqn:Er; [|discriminate].
  inversion E as [[E1 E2]]. subst s1. rewrite <- E2 in *. rewrite app_nil_r in *.
  exists s', w. split; [reflexivity|]. split; [exact Hw'|]. split; [exact X|].
  split; [exact Hc|exact Ha].
Qed.

(* "deps unchanged => no write" *)
Lemma ensure_ids_present s : forall ps w made,
  Forall (fun p => In p (d_paths s)) ps -> ensure_ids s ps w made = (s, w, made, true).
Proof.
  induction ps as [|p r IH]; intros w made HF; [reflexivity|].
  inversion HF as [|p' r' Hp Hr]; subst. cbn [ensure_ids].
  destruct (index_of p (d_paths s)) as [i|] eqn:Ei; [apply IH; exact Hr|].
  apply index_of_none in Ei. contradiction.
Qed.

Lemma ids_of_resolved (paths : list bytes) : NoDup paths -> forall ids (ins : list bytes),
  map (fun i => nth_error paths (N.to_nat i)) ids = map Some ins -> ids_of paths ins = ids.
Proof.
  intros Hnd. induction ids as [|i ids IH]; intros [|p ins] H; try discriminate; [reflexivity|].
  cbn [map] in H. inversion H as [[H1 H2]]. cbn [ids_of].
  rewrite (nth_index_of paths Hnd i p H1). f_equal. apply IH. exact H2.
Qed.

Lemma forallb_combine_refl (a : list N) :
  forallb (fun p => fst p =? snd p) (combine a a) = true.
Proof.
  induction a as [|x a IH]; [reflexivity|]. cbn [combine forallb fst snd].
  rewrite N.eqb_refl, IH. reflexivity.
Qed.

Lemma same_deps_refl d : same_deps d d = true.
Proof.
  destruct d as [m ids]. unfold same_deps. cbn [fst snd].
  rewrite Z.eqb_refl, Nat.eqb_refl, forallb_combine_refl. reflexivity.
Qed.

Theorem abs_record_unchanged f s out m ins :
  wlog f s -> abs_deps f out = Some (m, ins) ->
  record_deps s (RecordDeps out m ins) = (s, [], true).
Proof.
  intros Hw Ha. pose proof (wlog_view f s Hw out) as Hv. rewrite Ha in Hv. cbn [spec_view] in Hv.
  destruct Hw as [_ Hok]. unfold view in Hv.
  destruct (index_of out (d_paths s)) as [oid|] eqn:Eo; [|discriminate].
  destruct (lookup oid (d_deps s)) as [[m' ids]|] eqn:El; [|discriminate].
  inversion Hv as [[Hm Hids]]. subst m'.
  assert (Hin : Forall (fun p => In p (d_paths s)) (out :: ins)).
  { constructor; [eapply index_of_in; exact Eo|].
    apply Forall_forall. intros p Hp.
    assert (Hs : In (Some p) (map Some ins)) by (apply in_map; exact Hp).
    rewrite <- Hids in Hs. apply in_map_iff in Hs. destruct Hs as (i & Hi & _).
    eapply nth_error_In. exact Hi. }
  unfold record_deps. rewrite (ensure_ids_present s _ [] false Hin), Eo, El.
  rewrite (ids_of_resolved _ (ok_nodup _ Hok) ids ins Hids), same_deps_refl. reflexivity.
Qed.

(* A command with several outputs: one call per output, the same discovered inputs, the mtime
   of each output - the update of HistDepsDefs.record_deps. *)
Theorem abs_record_edge f s outs mt ins :
  wlog f s -> fits s (edge_ops outs mt ins) ->
  exists s',
    run_ops s (edge_ops outs mt ins) = (s', emitted s (edge_ops outs mt ins), true) /\
    wlog (f ++ emitted s (edge_ops outs mt ins)) s' /\
    forall o, abs_deps (f ++ emitted s (edge_ops outs mt ins)) o
              = if mem_bytes o outs then Some (mt o, ins) else abs_deps f o.
Proof.
  intros Hw Hfit. destruct (abs_run_ops f s _ Hw Hfit) as (s' & E & Hw' & _ & _ & Ha).
  exists s'. split; [exact E|]. split; [exact Hw'|].
  intros o. rewrite Ha. apply alog_apply_edge.
Qed.

(* ==================================================================================== *)
(* 3. Kill during the appends                                                           *)

Lemma clean_prefix_extends m f1 s1 z s2 :
  clean m f1 s1 -> clean m (f1 ++ z) s2 -> extends s1 s2.
Proof.
  intros (x1 & st1 & -> & Hr1 & Hs1) (x2 & st2 & Hx2 & Hr2 & Hs2).
  rewrite <- app_assoc in Hx2. apply app_inv_head in Hx2. subst x2.
  pose proof (runs_det_prefix _ _ _ _ Hr1 _ _ Hr2) as Hr.
  destruct (runs_anatomy _ _ _ _ _ Hr) as (_ & _ & _ & He & _).
  rewrite Hs1, Hs2 in He. exact He.
Qed.

(* no record boundary strictly inside a single record *)
Lemma clean_no_interior m fm s1 wd :
  clean m fm s1 ->
  (forall st, l_s st = s1 -> exists st', step m st wd = Some (st', [])) ->
  forall r t, (0 < r < length wd)%nat -> ~ clean m (fm ++ firstn r wd) t.
Proof.
  intros (x1 & st1 & -> & Hr1 & Hs1) Hstep r t Hr (x2 & st2 & Hx2 & Hr2 & _).
  rewrite <- app_assoc in Hx2. apply app_inv_head in Hx2. subst x2.
  pose proof (runs_det_prefix _ _ _ _ Hr1 _ _ Hr2) as Hrr.
  destruct (Hstep st1 Hs1) as (st' & Hs).
  destruct (step_anatomy _ _ _ _ _ Hs) as (c & Hc & _ & _ & _ & _ & Hpre).
  rewrite app_nil_r in Hc. subst c.
  destruct (Hpre r ltac:(lia)) as [Hn _].
  refine (runs_stuck _ _ _ _ Hn _ Hrr).
  intros Hnil. apply (f_equal (@length _)) in Hnil. rewrite firstn_length in Hnil.
  cbn [length] in Hnil. lia.
Qed.

Lemma torn_outcome_state t nr1 off k :
  exists nr, torn_outcome false t nr1 off k
             = DOk t (if (k - off =? 0)%nat then None else Some off) nr.
Proof.
  unfold torn_outcome. destruct (k - off =? 0)%nat; [eexists; reflexivity|].
  destruct (k - off <? 4)%nat; eexists; reflexivity.
Qed.

(* Every prefix (of at least the header) of a writer log: what Load returns, what it leaves on
   disk, and that the latter is a writer log again. *)
Lemma torn_wlog F S :
  wlog F S ->
  forall k, (16 <= k <= length F)%nat ->
  exists off t,
    (16 <= off <= k)%nat /\
    wlog (firstn off F) t /\ extends t S /\
    (forall j s', (off < j <= k)%nat -> ~ clean RdCur (firstn j F) s') /\
    (exists tr nr, load_deps (firstn k F) = DOk t tr nr) /\
    loaded_file (firstn k F) = firstn off F.
Proof.
  intros [[Cl (x & Hx & Kx)] Ok] k Hk.
  destruct (torn_clean RdCur F S Cl k Hk)
    as (off & t & nr1 & Hoff & Cl1 & Hmax & Hext & Hloadoff & Hload).
  exists off, t. split; [exact Hoff|].
  assert (Hfo : firstn off F = deps_header ++ firstn (off - 16) x).
  { rewrite Hx, firstn_app. change (length deps_header) with 16%nat.
    rewrite (firstn_all2 deps_header) by (change (length deps_header) with 16%nat; lia).
    reflexivity. }
  assert (Kx1 : okcuts RdCur l_init (firstn (off - 16) x)).
  { apply (okcuts_prefix RdCur l_init _ (skipn (off - 16) x)). rewrite firstn_skipn. exact Kx. }
  assert (Ok1 : ok_state t).
  { destruct Cl1 as (x1 & st1 & Hx1 & Hr1 & Hs1). rewrite Hfo in Hx1.
    apply app_inv_head in Hx1. subst x1. rewrite <- Hs1.
    eapply Kx1; [symmetry; apply app_nil_r|exact Hr1]. }
  split.
  { split; [|exact Ok1]. split; [exact Cl1|].
    exists (firstn (off - 16) x). split; [exact Hfo|exact Kx1]. }
  split; [exact Hext|]. split; [exact Hmax|].
  specialize (Hload false). destruct (torn_outcome_state t nr1 off k) as [nr Ho].
  rewrite Ho in Hload. split; [eexists; eexists; exact Hload|].
  unfold loaded_file. unfold load_deps, load_deps_gen. rewrite Hload.
  destruct (Nat.eqb_spec (k - off) 0) as [E|E].
  - assert (k = off) by lia. subst k. reflexivity.
  - rewrite firstn_firstn. replace (Nat.min off k) with off by lia. reflexivity.
Qed.

(* the structure of what one RecordDeps call appends: path records, all accepted in states that
   have the deps of [s]; then nothing, or ONE deps record *)
Lemma record_deps_split (U : list bytes) s op :
  nlen U < kMaxIds -> ok_state s -> incl (d_paths s) U -> incl (op_paths op) U ->
  wf_op op = true ->
  exists s1 wp wd s',
    record_deps s op = (s', wp ++ wd, true) /\
    writes RdCur s wp s1 /\ ok_state s1 /\ d_deps s1 = d_deps s /\
    (exists np, d_paths s1 = d_paths s ++ np) /\
    ((wd = [] /\ s' = s1) \/
     (forall st, l_s st = s1 -> exists st', step RdCur st wd = Some (st', []))).
Proof.
  intros HU Hok Hincl HopU Hwf. destruct op as [out m ins].
  cbn [op_paths] in HopU. unfold wf_op in Hwf.
  apply andb_true_iff in Hwf. destruct Hwf as [Hwf Hsz].
  apply andb_true_iff in Hwf. destruct Hwf as [Hwf Hm].
  apply andb_true_iff in Hwf. destruct Hwf as [Hwo Hwi].
  assert (Hwfall : Forall (fun p => wf_path p = true) (out :: ins)).
  { constructor; [exact Hwo|]. apply Forall_forall. intros x Hx.
    rewrite forallb_forall in Hwi. apply Hwi. exact Hx. }
  destruct (ensure_ids_spec RdCur U HU (out :: ins) s [] false Hok Hincl HopU Hwfall)
    as (s1 & w & made & E & Ok1 & In1 & D1 & [np P1] & F1 & W1).
  cbn [app] in E. unfold record_deps. rewrite E.
  inversion F1 as [|x l Hout Hins]; subst x l.
  destruct (index_of out (d_paths s1)) as [oid|] eqn:Eo.
  2:{ apply index_of_none in Eo. contradiction. }
  destruct (ids_of_spec (d_paths s1) ins Hins) as (I1 & I2 & I3).
  destruct (index_of_nth _ _ _ Eo) as [Hnth Hlt].
  pose proof (nodup_incl_nlen _ _ (ok_nodup _ Ok1) In1) as Hcnt.
  match goal with |- context [if ?c then _ else _] => destruct c eqn:Eun end.
  - exists s1, w, [], s1. rewrite app_nil_r. split; [reflexivity|]. split; [exact W1|].
    split; [exact Ok1|]. split; [exact D1|]. split; [exists np; exact P1|]. left. split; reflexivity.
  - replace (kMaxRecordSize <? 4 * (3 + nlen ins)) with false by lia.
    exists s1, w, (enc_deps_record oid m (ids_of (d_paths s1) ins)),
           (add_deps s1 oid m (ids_of (d_paths s1) ins)).
    split; [reflexivity|]. split; [exact W1|]. split; [exact Ok1|]. split; [exact D1|].
    split; [exists np; exact P1|]. right.
    intros st Hst. subst s1. eexists.
    rewrite <- (app_nil_r (enc_deps_record _ _ _)).
    apply step_enc_deps; try assumption.
    + unfold kMaxIds, two31 in *. lia.
    + unfold kMaxIds, two31 in *. lia.
    + unfold nlen in *. rewrite I3. lia.
Qed.

Lemma firstn_app_short {A} (a b : list A) k : (k <= length a)%nat -> firstn k (a ++ b) = firstn k a.
Proof.
  intros H. rewrite firstn_app. replace (k - length a)%nat with 0%nat by lia.
  cbn [firstn]. apply app_nil_r.
Qed.

Lemma firstn_app_long {A} (a b : list A) k :
  (length a <= k)%nat -> firstn k (a ++ b) = a ++ firstn (k - length a) b.
Proof. intros H. rewrite firstn_app, firstn_all2 by lia. reflexivity. Qed.

(* A kill inside the appends of ONE RecordDeps call (before its last byte): the next Load sees
   exactly the log as it was before the call. *)
Lemma torn_inside_op f s op s' w :
  wlog f s -> fits s [op] -> record_deps s op = (s', w, true) ->
  forall j, (j < length w)%nat ->
  exists t,
    (exists tr nr, load_deps (f ++ firstn j w) = DOk t tr nr) /\
    wlog (loaded_file (f ++ firstn j w)) t /\
    extends s t /\ extends t s' /\
    aeq (abs_deps (f ++ firstn j w)) (abs_deps f) /\
    aeq (abs_deps (loaded_file (f ++ firstn j w))) (abs_deps f).
Proof.
  intros Hw Hfit Er j Hj.
  destruct (abs_record f s op Hw Hfit) as (s'' & w'' & Er' & HwF & _ & _ & _).
  rewrite Er in Er'. inversion Er'; subst s'' w''. clear Er'.
  destruct (fits_U s [op] Hfit) as (HU & Hincl & HopsU).
  inversion HopsU as [|op' r' HopU _]; subst.
  destruct Hfit as [Hwf _]. cbn [forallb] in Hwf. rewrite andb_true_r in Hwf.
  pose proof Hw as [Hclf Hok].
  destruct (record_deps_split _ s op HU Hok Hincl HopU Hwf)
    as (s1 & wp & wd & s2 & Es & Wp & Ok1 & D1 & [np P1] & Hwd).
  rewrite Er in Es. inversion Es; subst s2 w. clear Es.
  assert (Hlenf : (16 <= length f)%nat).
  { destruct Hclf as [(x & st & -> & _) _]. rewrite app_length.
    change (length deps_header) with 16%nat. lia. }
  set (F := f ++ wp ++ wd) in *.
  assert (HFj : f ++ firstn j (wp ++ wd) = firstn (length f + j) F).
  { unfold F. rewrite (firstn_app_long f (wp ++ wd) (length f + j)) by apply Nat.le_add_r.
    replace (length f + j - length f)%nat with j; [reflexivity|].
    rewrite Nat.add_comm, Nat.add_sub. reflexivity. }
  rewrite HFj.
  destruct (torn_wlog F s' HwF (length f + j)%nat) as (off & t & Hoff & Hwt & Hts' & Hmax & Hld & Hlf).
  { unfold F. rewrite !app_length in *. lia. }
  rewrite Hlf. exists t. split; [exact Hld|]. split; [exact Hwt|].
  (* the writer log in front of the deps record *)
  assert (Hwm : wlog (f ++ wp) s1) by (split; [eapply oclean_append; [apply Hclf|exact Wp]|exact Ok1]).
  (* len f <= off *)
  assert (Hlo : (length f <= off)%nat).
  { destruct (Nat.le_gt_cases (length f) off) as [H|H]; [exact H|]. exfalso.
    apply (Hmax (length f) s); [lia|]. unfold F.
    rewrite (firstn_app_short f (wp ++ wd) (length f)), firstn_all by apply le_n.
    apply Hclf. }
  (* off <= start of the deps record *)
  assert (Hhi : (off <= length f + length wp)%nat).
  { destruct (Nat.le_gt_cases off (length f + length wp)) as [H|H]; [exact H|]. exfalso.
    destruct Hwd as [[-> _]|Hstep].
    - rewrite app_nil_r in Hj. lia.
    - apply (clean_no_interior RdCur (f ++ wp) s1 wd (proj1 (proj1 Hwm)) Hstep
               (off - length f - length wp)%nat t).
      + rewrite app_length in Hj. lia.
      + replace ((f ++ wp) ++ firstn (off - length f - length wp) wd) with (firstn off F).
        * apply Hwt.
        * unfold F. rewrite app_assoc.
          rewrite (firstn_app_long (f ++ wp) wd off) by (rewrite app_length; lia).
          rewrite app_length, Nat.sub_add_distr. reflexivity. }
  (* s <= t <= s1 *)
  assert (Hst : extends s t).
  { apply (clean_prefix_extends RdCur f s (firstn (off - length f) (wp ++ wd)) t (proj1 Hclf)).
    replace (f ++ firstn (off - length f) (wp ++ wd)) with (firstn off F); [apply Hwt|].
    unfold F. rewrite (firstn_app_long f (wp ++ wd) off) by lia. reflexivity. }
  assert (Hts1 : extends t s1).
  { apply (clean_prefix_extends RdCur (firstn off F) t (skipn (off - length f) wp) s1
             (proj1 (proj1 Hwt))).
    replace (firstn off F ++ skipn (off - length f) wp) with (f ++ wp); [apply Hwm|].
    unfold F. rewrite (firstn_app_long f (wp ++ wd) off) by lia.
    rewrite (firstn_app_short wp wd (off - length f)) by lia.
    rewrite <- app_assoc, firstn_skipn. reflexivity. }
  split; [exact Hst|]. split; [exact Hts'|].
  (* hence t has the deps of s and more paths: the same view *)
  assert (Hview : forall o, view t o = view s o).
  { destruct Hst as [[npt Hpt] [ndt Hdt]]. destruct Hts1 as [_ [nd1 Hd1]].
    assert (ndt = []).
    { rewrite D1, Hdt, app_assoc in Hd1.
      apply (f_equal (@length _)) in Hd1. rewrite !app_length in Hd1.
      destruct ndt; [reflexivity|cbn [length] in Hd1; lia]. }
    subst ndt. cbn [app] in Hdt. intros o.
    destruct t as [pt dt], s as [ps ds]. cbn [d_paths d_deps] in *. subst pt dt.
    apply view_extend. apply (ok_deps _ Hok). }
  assert (Habs : aeq (abs_deps (firstn off F)) (abs_deps f)).
  { apply (wlog_abs_of _ t _ Hwt). intros o. rewrite Hview. apply (wlog_view f s Hw). }
  split; [|exact Habs].
  destruct Hld as (tr & nr & Hld).
  apply (abs_of_view _ t tr nr _ Hld). intros o. rewrite Hview. apply (wlog_view f s Hw).
Qed.

Lemma emitted_cons s op r s1 w1 :
  record_deps s op = (s1, w1, true) -> emitted s (op :: r) = w1 ++ emitted s1 r.
Proof.
  intros E. unfold emitted. cbn [run_ops]. rewrite E.
  destruct (run_ops s1 r) as [[s2 w2] ok]. reflexivity.
Qed.

Lemma mentions_cons op r : mentions (op :: r) = (mentions [op] + mentions r)%nat.
Proof. destruct op as [out m ins]. cbn [mentions]. lia. Qed.

Lemma fits_cons s op r :
  fits s (op :: r) ->
  fits s [op] /\
  forall s1, nlen (d_paths s1) <= nlen (d_paths s) + N.of_nat (mentions [op]) -> fits s1 r.
Proof.
  intros [Hwf Hc]. cbn [forallb] in Hwf. apply andb_true_iff in Hwf. destruct Hwf as [H1 H2].
  rewrite mentions_cons in Hc. split.
  - split; [cbn [forallb]; rewrite H1; reflexivity|lia].
  - intros s1 Hs1. split; [exact H2|lia].
Qed.

(* abs_torn: a kill at ANY point of the appends of a build.  [j] bytes of what the build
   appends reached the disk.  Then, for the number [n] of RecordDeps calls whose bytes are
   completely within [j] (the next call's are not), the next Load sees the abstract log with
   exactly the first [n] updates - a prefix, in order; the appends are atomic per record as far
   as the abstract log can tell.  The file Load leaves behind is a writer log again. *)
Theorem abs_torn : forall ops f s,
  wlog f s -> fits s ops ->
  forall j, (j <= length (emitted s ops))%nat ->
  exists n t,
    (n <= length ops)%nat /\
    (length (emitted s (firstn n ops)) <= j)%nat /\
    ((n < length ops)%nat -> (j < length (emitted s (firstn (S n) ops)))%nat) /\
    aeq (abs_deps (f ++ firstn j (emitted s ops))) (alog_apply (abs_deps f) (firstn n ops)) /\
    (exists tr nr, load_deps (f ++ firstn j (emitted s ops)) = DOk t tr nr) /\
    wlog (loaded_file (f ++ firstn j (emitted s ops))) t /\
    aeq (abs_deps (loaded_file (f ++ firstn j (emitted s ops))))
        (alog_apply (abs_deps f) (firstn n ops)) /\
    extends s t /\
    nlen (d_paths t) <= nlen (d_paths s) + N.of_nat (mentions ops).
Proof.
  induction ops as [|op r IH]; intros f s Hw Hfit j Hj.
  - change (emitted s []) with (@nil byte) in *. cbn [length] in Hj.
    assert (j = 0)%nat by lia. subst j. cbn [firstn]. rewrite app_nil_r.
    exists 0%nat, s. cbn [firstn length alog_apply fold_left].
    change (emitted s []) with (@nil byte). cbn [length].
    rewrite (wlog_loaded_file f s Hw).
    split; [lia|]. split; [lia|]. split; [lia|]. split; [apply aeq_refl|].
    split; [destruct (wlog_load f s Hw) as [nr Hl]; exists None, nr; exact Hl|].
    split; [exact Hw|]. split; [apply aeq_refl|]. split; [apply extends_refl|]. lia.
  - destruct (fits_cons s op r Hfit) as [Hfit1 Hfitr].
    destruct (abs_record f s op Hw Hfit1) as (s1 & w1 & Er & Hw1 & X1 & Hc1 & Ha1).
    rewrite (emitted_cons s op r s1 w1 Er) in *.
    destruct (Nat.lt_ge_cases j (length w1)) as [Hlt|Hge].
    + (* inside the first call *)
      rewrite (firstn_app_short w1 (emitted s1 r) j) by lia.
      destruct (torn_inside_op f s op s1 w1 Hw Hfit1 Er j Hlt)
        as (t & Hld & Hwt & Hst & Hts1 & A1 & A2).
      exists 0%nat, t. cbn [firstn alog_apply fold_left].
      change (emitted s []) with (@nil byte). cbn [length].
      rewrite (emitted_cons s op [] s1 w1 Er). change (emitted s1 []) with (@nil byte).
      rewrite app_nil_r.
      split; [lia|]. split; [lia|]. split; [intros _; exact Hlt|]. split; [exact A1|].
      split; [exact Hld|]. split; [exact Hwt|]. split; [exact A2|]. split; [exact Hst|].
      destruct Hts1 as [[np Hp] _].
      assert (nlen (d_paths t) <= nlen (d_paths s1)) by (rewrite Hp, nlen_app; lia).
      rewrite mentions_cons. lia.
    + (* the first call is complete *)
      rewrite app_length in Hj.
      destruct (IH (f ++ w1) s1 Hw1 (Hfitr s1 Hc1) (j - length w1)%nat ltac:(lia))
        as (n & t & Hn & Hlo & Hhi & A1 & Hld & Hwt & A2 & Hst & Hct).
      assert (Hg : f ++ firstn j (w1 ++ emitted s1 r)
                   = (f ++ w1) ++ firstn (j - length w1) (emitted s1 r)).
      { rewrite (firstn_app_long w1 (emitted s1 r) j) by lia. apply app_assoc. }
      rewrite Hg. exists (S n), t.
      change (firstn (S n) (op :: r)) with (op :: firstn n r).
      change (firstn (S (S n)) (op :: r)) with (op :: firstn (S n) r). cbn [length].
      rewrite (emitted_cons s op (firstn n r) s1 w1 Er).
      split; [lia|]. split; [rewrite app_length; lia|].
      split.
      { intros Hlt.
        rewrite (emitted_cons s op (firstn (S n) r) s1 w1 Er), app_length.
        specialize (Hhi ltac:(lia)). lia. }
      assert (Hal : aeq (alog_apply (abs_deps (f ++ w1)) (firstn n r))
                        (alog_apply (abs_deps f) (op :: firstn n r))).
      { rewrite alog_apply_cons. apply alog_apply_ext. exact Ha1. }
      split; [eapply aeq_trans; [exact A1|exact Hal]|].
      split; [exact Hld|]. split; [exact Hwt|]. split; [eapply aeq_trans; [exact A2|exact Hal]|].
      split; [eapply extends_trans; eassumption|].
      rewrite mentions_cons. lia.
Qed.

(* ==================================================================================== *)
(* 4. Sessions and recompaction at the abstract level                                   *)

(* A whole ninja session (Load with truncation, Recompact when Load asks for it, the RecordDeps
   calls, Close) on ANY file whose Load leaves a writer log behind - in particular a torn one. *)
Theorem abs_session live G t tr nr ops :
  load_deps G = DOk t tr nr -> wlog (loaded_file G) t -> fits t ops ->
  exists t',
    wlog (session live G ops) t' /\
    aeq (abs_deps (session live G ops))
        (alog_apply (if nr then alog_restrict live (abs_deps G) else abs_deps G) ops).
Proof.
  intros Hl Hw Hfit.
  assert (HvG : forall o, view t o = spec_view (abs_deps G o))
    by exact (abs_deps_faithful G t tr nr Hl).
  assert (Hbase : loaded_file G = match tr with Some k => firstn k G | None => G end).
  { unfold loaded_file. rewrite Hl. destruct tr; reflexivity. }
  unfold session, session_gen, session_ver.
  change (load_deps_ver false RdCur G) with (load_deps G). rewrite Hl. cbv zeta. destruct nr.
  - (* Recompact first *)
    destruct Hw as [_ Hok]. destruct Hfit as [Hwf Hcnt].
    destruct (recompact_spec RdCur live t Hok ltac:(lia)) as (s2 & w2 & E2 & Cl2 & Ok2 & In2 & V2).
    rewrite E2.
    assert (Hw2 : wlog (deps_header ++ w2) s2) by (split; assumption).
    assert (Hfit2 : fits s2 ops).
    { split; [exact Hwf|].
      pose proof (nodup_incl_nlen _ _ (ok_nodup _ Ok2) In2). lia. }
    destruct (abs_run_ops _ s2 ops Hw2 Hfit2) as (s' & E & Hw' & _ & _ & Ha).
    rewrite E. exists s'. split; [exact Hw'|].
    eapply aeq_trans; [exact Ha|]. apply alog_apply_ext.
    apply (wlog_abs_of _ s2 _ Hw2). intros o. rewrite V2. unfold alog_restrict.
    destruct (live o); [apply HvG|reflexivity].
  - destruct (abs_run_ops _ t ops Hw Hfit) as (s' & E & Hw' & _ & _ & Ha).
    rewrite E. cbv beta iota.
    assert (Ha' : aeq (abs_deps (loaded_file G ++ emitted t ops)) (alog_apply (abs_deps G) ops)).
    { eapply aeq_trans; [exact Ha|]. apply alog_apply_ext.
      apply (wlog_abs_of _ t _ Hw). exact HvG. }
    rewrite Hbase in Hw', Ha'. exists s'. split; [exact Hw'|exact Ha'].
Qed.

(* the same on a writer log *)
Corollary abs_session_wlog live f s ops :
  wlog f s -> fits s ops ->
  exists nr t',
    load_deps f = DOk s None nr /\
    wlog (session live f ops) t' /\
    aeq (abs_deps (session live f ops))
        (alog_apply (if nr then alog_restrict live (abs_deps f) else abs_deps f) ops).
Proof.
  intros Hw Hfit. destruct (wlog_load f s Hw) as [nr Hl].
  destruct (abs_session live f s None nr ops Hl) as (t' & Hw' & Ha).
  - rewrite (wlog_loaded_file f s Hw). exact Hw.
  - exact Hfit.
  - exists nr, t'. split; [exact Hl|]. split; assumption.
Qed.

(* abs_torn, next-session clause: after a kill at ANY point of a build's appends, the next
   session (Load truncates; then its own RecordDeps calls) refines the abstract updates applied to
   the log with the completely written records. *)
Theorem abs_torn_next_session f s ops ops2 :
  wlog f s -> forallb wf_op ops = true -> forallb wf_op ops2 = true ->
  nlen (d_paths s) + N.of_nat (mentions ops) + N.of_nat (mentions ops2) < kMaxIds ->
  forall j, (j <= length (emitted s ops))%nat ->
  exists n t',
    (n <= length ops)%nat /\
    (length (emitted s (firstn n ops)) <= j)%nat /\
    ((n < length ops)%nat -> (j < length (emitted s (firstn (S n) ops)))%nat) /\
    wlog (apply_ops (f ++ firstn j (emitted s ops)) ops2) t' /\
    aeq (abs_deps (apply_ops (f ++ firstn j (emitted s ops)) ops2))
        (alog_apply (alog_apply (abs_deps f) (firstn n ops)) ops2).
Proof.
  intros Hw Hwf1 Hwf2 Hcnt j Hj.
  destruct (abs_torn ops f s Hw ltac:(split; [exact Hwf1|lia]) j Hj)
    as (n & t & Hn & Hlo & Hhi & A1 & Hl & Hwt & _ & _ & Hct).
  set (G := f ++ firstn j (emitted s ops)) in *.
  destruct Hl as (tr & nr & Hl).
  destruct (abs_session (fun _ => true) G t tr nr ops2 Hl Hwt ltac:(split; [exact Hwf2|lia]))
    as (t' & Hw' & Ha).
  exists n, t'. split; [exact Hn|]. split; [exact Hlo|]. split; [exact Hhi|].
  split; [exact Hw'|].
  eapply aeq_trans; [exact Ha|]. apply alog_apply_ext.
  eapply aeq_trans; [|exact A1].
  destruct nr; [apply alog_restrict_true|apply aeq_refl].
Qed.

(* abs_recompact: ninja -t recompact (or the recompaction at the start of a session) leaves the
   abstract log unchanged on the live outputs and drops exactly the dead ones. *)
Theorem abs_recompact live f s :
  wlog f s -> nlen (d_paths s) < kMaxIds ->
  exists s2,
    wlog (recompact_file live f) s2 /\ recompact_file live f = recompact live s /\
    aeq (abs_deps (recompact_file live f)) (alog_restrict live (abs_deps f)).
Proof.
  intros Hw Hcnt. destruct (wlog_load f s Hw) as [nr Hl]. pose proof Hw as [_ Hok].
  destruct (recompact_spec RdCur live s Hok Hcnt) as (s2 & w2 & E2 & Cl2 & Ok2 & _ & V2).
  assert (Hf : recompact_file live f = deps_header ++ w2).
  { unfold recompact_file. rewrite Hl, E2. reflexivity. }
  assert (Hw2 : wlog (deps_header ++ w2) s2) by (split; assumption).
  exists s2. rewrite Hf. split; [exact Hw2|].
  split; [unfold recompact; rewrite E2; reflexivity|].
  apply (wlog_abs_of _ s2 _ Hw2). intros o. rewrite V2. unfold alog_restrict.
  destruct (live o); [apply (wlog_view f s Hw)|reflexivity].
Qed.

(* ==================================================================================== *)
(* 5. Nodes: transport along an injective naming                                        *)

Section Nodes.
Variable name : nat -> bytes.
Hypothesis name_inj : forall a b, name a = name b -> a = b.

(* the deps log of the history models *)
Definition nlog := nat -> option (Z * list nat).

Definition nlog_upd (dl : nlog) (outs : list nat) (mt : nat -> Z) (hid : list nat) : nlog :=
  fun n => if existsb (Nat.eqb n) outs then Some (mt n, hid) else dl n.

(* the file [f] implements the abstract log [dl] *)
Definition refines (f : bytes) (dl : nlog) : Prop :=
  forall n, abs_deps f (name n)
            = match dl n with Some (m, l) => Some (m, map name l) | None => None end.

Lemma mem_bytes_names n outs : mem_bytes (name n) (map name outs) = existsb (Nat.eqb n) outs.
Proof.
  induction outs as [|a outs IH]; [reflexivity|]. cbn [map mem_bytes existsb]. rewrite IH. f_equal.
  destruct (bytes_eqb_spec (name n) (name a)) as [E|E], (Nat.eqb_spec n a) as [E'|E'];
    try reflexivity.
  - exfalso. apply E'. apply name_inj. exact E.
  - exfalso. apply E. rewrite E'. reflexivity.
Qed.

(* HistDepsDefs.record_deps for a deps statement with outputs [outs], reported nodes [hid] and
   output mtimes [mt], implemented by one RecordDeps call per output. *)
Theorem refines_record_edge f s dl outs (mt : nat -> Z) (mtp : bytes -> Z) hid :
  (forall n, mtp (name n) = mt n) ->
  refines f dl -> wlog f s ->
  fits s (edge_ops (map name outs) mtp (map name hid)) ->
  exists s',
    wlog (f ++ emitted s (edge_ops (map name outs) mtp (map name hid))) s' /\
    refines (f ++ emitted s (edge_ops (map name outs) mtp (map name hid)))
            (nlog_upd dl outs mt hid).
Proof.
  intros Hmt Hr Hw Hfit.
  destruct (abs_record_edge f s _ mtp _ Hw Hfit) as (s' & _ & Hw' & Ha).
  exists s'. split; [exact Hw'|]. intros n. rewrite Ha, mem_bytes_names. unfold nlog_upd.
  destruct (existsb (Nat.eqb n) outs); [rewrite Hmt; reflexivity|apply Hr].
Qed.

(* a kill during those appends: the log refines the abstract log updated for a PREFIX of the
   outputs (those whose record was completely written) *)
Theorem refines_torn_edge f s dl outs (mt : nat -> Z) (mtp : bytes -> Z) hid :
  (forall n, mtp (name n) = mt n) ->
  refines f dl -> wlog f s ->
  fits s (edge_ops (map name outs) mtp (map name hid)) ->
  forall j, (j <= length (emitted s (edge_ops (map name outs) mtp (map name hid))))%nat ->
  exists n t,
    (n <= length outs)%nat /\
    wlog (loaded_file (f ++ firstn j (emitted s (edge_ops (map name outs) mtp (map name hid))))) t /\
    refines (f ++ firstn j (emitted s (edge_ops (map name outs) mtp (map name hid))))
            (nlog_upd dl (firstn n outs) mt hid) /\
    refines (loaded_file (f ++ firstn j (emitted s (edge_ops (map name outs) mtp (map name hid)))))
            (nlog_upd dl (firstn n outs) mt hid).
Proof.
  intros Hmt Hr Hw Hfit j Hj.
  destruct (abs_torn _ f s Hw Hfit j Hj) as (n & t & Hn & _ & _ & A1 & _ & Hwt & A2 & _ & _).
  unfold edge_ops in Hn. rewrite !map_length in Hn.
  assert (Hops : firstn n (edge_ops (map name outs) mtp (map name hid))
                 = edge_ops (map name (firstn n outs)) mtp (map name hid)).
  { unfold edge_ops. rewrite <- !firstn_map. reflexivity. }
  rewrite Hops in A1, A2.
  exists n, t. split; [exact Hn|]. split; [exact Hwt|].
  split; intros k; [rewrite A1|rewrite A2]; rewrite alog_apply_edge, mem_bytes_names;
    unfold nlog_upd; (destruct (existsb (Nat.eqb k) (firstn n outs)); [rewrite Hmt; reflexivity|apply Hr]).
Qed.

End Nodes.
