(* The deps log seen abstractly: what the history-level models (Engine/HistDepsDefs.v:
   [d_deps : node -> option (Z * list node)], one atomic record per output, "latest record per
   output wins") assume, defined on top of the byte-level model Log/DepsLogDefs.v.
   Only definitions here; the refinement theorems are in DepsLogAbsProofs.v.

   Everything is stated over PATHS (byte strings), the identity of a node at this level; the
   last section transports the statements to nodes along an injective naming. *)
From NinjaV Require Import Base.Bytes Log.DepsLogDefs.
Local Open Scope N_scope.

(* ------------------------------------------------------------------------------------ *)
(* The abstract log                                                                     *)

(* path of an output |-> (mtime recorded for it, the paths of its discovered inputs) *)
Definition alog := bytes -> option (Z * list bytes).

Definition alog_empty : alog := fun _ => None.

(* d_deps := upd d_deps out (mtime, ins) *)
Definition alog_upd (l : alog) (out : bytes) (m : Z) (ins : list bytes) : alog :=
  fun o => if bytes_eqb o out then Some (m, ins) else l o.

Definition alog_op (l : alog) (op : dop) : alog :=
  match op with RecordDeps out m ins => alog_upd l out m ins end.

(* a sequence of RecordDeps calls, in order *)
Definition alog_apply (l : alog) (ops : list dop) : alog := fold_left alog_op ops l.

(* recompaction: the dead outputs disappear *)
Definition alog_restrict (live : bytes -> bool) (l : alog) : alog :=
  fun o => if live o then l o else None.

(* equality of logs is pointwise *)
Definition aeq (l l' : alog) : Prop := forall o, l o = l' o.

(* ------------------------------------------------------------------------------------ *)
(* The abstraction function                                                             *)

(* abs_deps file o = what DepsLog::Load (current code) followed by GetDeps(node o) gives:
   None when o has no record (or the file has no valid header), else the mtime and the PATHS
   of the dep nodes.  The default [] for a dangling dep id is never used: see
   abs_deps_faithful ([view] of the loaded state = [spec_view] of this). *)
Definition abs_of_state (s : dstate) : alog :=
  fun o =>
    match view s o with
    | None => None
    | Some (m, l) => Some (m, map (fun x => match x with Some p => p | None => [] end) l)
    end.

Definition abs_deps (file : bytes) : alog :=
  match load_deps file with
  | DOk s _ _ => abs_of_state s
  | _ => alog_empty
  end.

(* the file as Load leaves it on disk (truncation; unlink on a bad header) *)
Definition loaded_file (file : bytes) : bytes :=
  match load_deps file with
  | DOk _ (Some k) _ => firstn k file
  | DOk _ None _ => file
  | DBadHeader => []
  | _ => file
  end.

(* ------------------------------------------------------------------------------------ *)
(* Writer logs, and what a build appends                                                *)

(* the ops of one command with several outputs: RecordDeps(out, mtime(out), ins) for each *)
Definition edge_ops (outs : list bytes) (mt : bytes -> Z) (ins : list bytes) : list dop :=
  map (fun o => RecordDeps o (mt o) ins) outs.

(* the bytes a sequence of RecordDeps calls appends when the in-memory tables are [s] *)
Definition emitted (s : dstate) (ops : list dop) : bytes := snd (fst (run_ops s ops)).

(* the ops fit: well-formed, and the ids stay below INT_MAX *)
Definition fits (s : dstate) (ops : list dop) : Prop :=
  forallb wf_op ops = true /\ nlen (d_paths s) + N.of_nat (mentions ops) < kMaxIds.
