(* C08, refinement layer: the byte-level build log (Log/BuildLogDefs.v, theorems of
   Log/BuildLogProofs.v) REFINES the abstract build log of the history models
   (Engine/HistDefs.v: [h_blog : node -> option (N * Z)] = command hash and recorded mtime per
   output; [record]; Engine/HistCrashDefs.v: [record_partial]).

   This file does not import Engine: everything is stated over output NAMES (byte strings), and,
   in Section [Nodes], over node ids ([nat], as in Engine/ScanDefs.v) through an injective naming
   [nm].  Properties/Properties_C08abs.v imports Engine and instantiates the statements with the
   real [record] / [record_partial] (their log components are equal to the local ones by
   [reflexivity]).

   No axioms; pointwise equalities instead of functional extensionality. *)
From NinjaV Require Import Base.Bytes Log.BuildLogDefs Log.BuildLogProofs.
Require Import ZifyBool ZifyNat ZifyN.
Local Open Scope N_scope.

(* ========================================================================================== *)
(** * Definitions *)

(* the abstract build log over names: (command hash, recorded mtime) *)
Definition alog := bytes -> option (N * Z).

Definition abs_entry (x : entry) : N * Z := (e_hash x, e_mtime x).

Definition abs_entries (ents : list entry) : alog :=
  fun n => match lookup_out n ents with Some x => Some (abs_entry x) | None => None end.

(* ABSTRACTION FUNCTION: what BuildLog::Load makes of the bytes of .ninja_log.  A discarded log
   (other version; Load unlinks it) is the empty log.  [LFuel] never happens
   (BuildLogProofs.C08_load_never_fails). *)
Definition abs_log (file : bytes) : alog :=
  match load_log file with
  | LOk ents _ => abs_entries ents
  | LDiscard _ _ => fun _ => None
  | LFuel => fun _ => None
  end.

(* what BuildLog::RecordCommand writes for one finished command: one record per output, all with
   the same start/end time, mtime and command hash *)
Definition cmd_record (s e : Z) (h : N) (m : Z) (n : bytes) : entry :=
  {| e_out := n; e_start := s; e_end := e; e_mtime := m; e_hash := h |}.

Definition records_of (names : list bytes) (s e : Z) (h : N) (m : Z) : list entry :=
  map (cmd_record s e h m) names.

(* the abstract update = the log component of HistDefs.record *)
Definition upd_all (a : alog) (names : list bytes) (v : N * Z) : alog :=
  fun n => if mem_bytes n names then Some v else a n.

(* the effect of a list of raw entries in file order *)
Definition upd_entries (a : alog) (xs : list entry) : alog :=
  fun n => match latest n xs with Some x => Some (abs_entry x) | None => a n end.

(* an output name ninja can record and read back, short enough for the 256 KiB line buffer *)
Definition wf_name (n : bytes) : Prop :=
  n <> [] /\ no_byte 0 n = true /\ no_byte 9 n = true /\ no_byte 10 n = true /\
  (length n + 63 <= load_buf_size)%nat.

Definition wf_cmd (names : list bytes) (s e : Z) (h : N) (m : Z) : Prop :=
  Forall wf_name names /\ in_int32 s = true /\ in_int32 e = true /\ in_int64 m = true /\
  h < 18446744073709551616.

(* number of COMPLETE records among the first [p] bytes of the rendering of [recs] *)
Definition complete_count (p : nat) (recs : list entry) : nat :=
  length (complete_prefix_from p recs).

Definition restrict (live : bytes -> bool) (a : alog) : alog :=
  fun n => if live n then a n else None.

Definition restat_alog (pick : bytes -> option Z) (a : alog) : alog :=
  fun n => match a n with
           | Some (h, m) => Some (h, match pick n with Some m' => m' | None => m end)
           | None => None
           end.

(* ========================================================================================== *)
(** * Basic facts *)

Lemma abs_log_holds file R : holds file R -> forall n, abs_log file n = abs_entries (last_wins R) n.
Proof. intros Hh n. unfold abs_log. rewrite (holds_load file R Hh). reflexivity. Qed.

Lemma abs_entries_last_wins R n :
  abs_entries (last_wins R) n = match latest n R with Some x => Some (abs_entry x) | None => None end.
Proof. unfold abs_entries. rewrite lookup_last_wins. reflexivity. Qed.

Lemma abs_entries_app R xs n :
  abs_entries (last_wins (R ++ xs)) n = upd_entries (abs_entries (last_wins R)) xs n.
Proof.
  unfold upd_entries. rewrite !abs_entries_last_wins, latest_app.
  destruct (latest n xs); reflexivity.
Qed.

Lemma mem_bytes_rev n l : mem_bytes n (rev l) = mem_bytes n l.
Proof.
  destruct (mem_bytes n l) eqn:H.
  - apply mem_bytes_In. apply -> in_rev. apply mem_bytes_In. assumption.
  - destruct (mem_bytes n (rev l)) eqn:H'; [|reflexivity].
    apply mem_bytes_In in H'. apply in_rev in H'. apply mem_bytes_In in H'. congruence.
Qed.

Lemma lookup_records s e h m names n :
  lookup_out n (map (cmd_record s e h m) names) =
  if mem_bytes n names then Some (cmd_record s e h m n) else None.
Proof.
  induction names as [|x names IH]; [reflexivity|]. cbn [map lookup_out mem_bytes e_out cmd_record].
  rewrite (bytes_eqb_sym x n). destruct (bytes_eqb_spec n x) as [->|_]; [reflexivity|exact IH].
Qed.

Lemma latest_records names s e h m n :
  latest n (records_of names s e h m) =
  if mem_bytes n names then Some (cmd_record s e h m n) else None.
Proof.
  unfold latest, records_of. rewrite <- map_rev, lookup_records, mem_bytes_rev. reflexivity.
Qed.

Lemma upd_entries_records a names s e h m n :
  upd_entries a (records_of names s e h m) n = upd_all a names (h, m) n.
Proof.
  unfold upd_entries, upd_all. rewrite latest_records.
  destruct (mem_bytes n names); reflexivity.
Qed.

Lemma wf_cmd_records names s e h m :
  wf_cmd names s e h m ->
  Forall wf_entry (records_of names s e h m) /\
  Forall (fits load_buf_size) (records_of names s e h m).
Proof.
  intros (Hn & Hs & He & Hm & Hh).
  assert (Hw : Forall wf_entry (records_of names s e h m)).
  { unfold records_of. apply Forall_map. eapply Forall_impl; [|exact Hn].
    intros n (H1 & H2 & H3 & H4 & _). unfold wf_entry, wf_entryb.
    cbn [cmd_record e_out e_start e_end e_mtime e_hash].
    rewrite H2, H3, H4, Hs, He, Hm. replace (h <? 18446744073709551616) with true by lia.
    destruct (bytes_eqb_spec n []) as [?|_]; [contradiction|reflexivity]. }
  split; [assumption|]. apply fits_names; [assumption|].
  unfold records_of. apply Forall_map. eapply Forall_impl; [|exact Hn].
  intros n (_ & _ & _ & _ & H5). exact H5.
Qed.

Lemma holds_append file R es :
  holds file R -> Forall wf_entry es -> Forall (fits load_buf_size) es ->
  holds (record_append file es) (R ++ es).
Proof.
  intros (Hw & Hf & Hfile) Hwe Hfe.
  split; [apply Forall_app; split; assumption|]. split; [apply Forall_app; split; assumption|].
  right. destruct Hfile as [[-> ->] | ->]; [reflexivity|apply record_append_wellformed].
Qed.

(* ========================================================================================== *)
(** * 2. abs_append: a finished command's records refine the abstract update *)

Theorem abs_append file R names s e h m :
  holds file R -> wf_cmd names s e h m ->
  forall n,
    abs_log (record_append file (records_of names s e h m)) n =
    upd_all (abs_log file) names (h, m) n.
Proof.
  intros Hh Hc n. destruct (wf_cmd_records names s e h m Hc) as [Hw Hf].
  rewrite (abs_log_holds _ _ (holds_append file R _ Hh Hw Hf)).
  rewrite abs_entries_app, upd_entries_records.
  unfold upd_all. rewrite (abs_log_holds file R Hh). reflexivity.
Qed.

(* the literal form for an existing (non-empty) well-formed log: plain concatenation *)
Corollary abs_append_concat R names s e h m :
  Forall wf_entry R -> Forall (fits load_buf_size) R -> wf_cmd names s e h m ->
  let file := log_header ++ concat (map render_entry R) in
  forall n,
    abs_log (file ++ concat (map render_entry (records_of names s e h m))) n =
    upd_all (abs_log file) names (h, m) n.
Proof.
  intros Hw Hf Hc file n.
  assert (Hh : holds file R) by (split; [assumption|split; [assumption|right; reflexivity]]).
  rewrite <- (abs_append file R names s e h m Hh Hc n).
  unfold file. rewrite record_append_wellformed, map_app, concat_app, app_assoc. reflexivity.
Qed.

(* ========================================================================================== *)
(** * 3. abs_torn: a kill during the append *)

Lemma complete_prefix_from_app R : forall p recs,
  complete_prefix_from (length (concat (map render_entry R)) + p) (R ++ recs) =
  R ++ complete_prefix_from p recs.
Proof.
  induction R as [|x R IH]; intros p recs; [reflexivity|].
  cbn [map concat app complete_prefix_from]. rewrite app_length.
  destruct (Nat.leb_spec (length (render_entry x))
                         (length (render_entry x) + length (concat (map render_entry R)) + p)) as [_|?];
    [|lia].
  f_equal. rewrite <- IH. f_equal. unfold bytes, byte in *. lia.
Qed.

Lemma torn_fragment_from_app R : forall p recs,
  torn_fragment_from (length (concat (map render_entry R)) + p) (R ++ recs) =
  torn_fragment_from p recs.
Proof.
  induction R as [|x R IH]; intros p recs; [reflexivity|].
  cbn [map concat app torn_fragment_from]. rewrite app_length.
  destruct (Nat.leb_spec (length (render_entry x))
                         (length (render_entry x) + length (concat (map render_entry R)) + p)) as [_|?];
    [|lia].
  rewrite <- (IH p recs). f_equal. unfold bytes, byte in *. lia.
Qed.

Lemma torn_record_from_app R : forall p recs,
  torn_record_from (length (concat (map render_entry R)) + p) (R ++ recs) =
  torn_record_from p recs.
Proof.
  induction R as [|x R IH]; intros p recs; [reflexivity|].
  cbn [map concat app torn_record_from]. rewrite app_length.
  destruct (Nat.leb_spec (length (render_entry x))
                         (length (render_entry x) + length (concat (map render_entry R)) + p)) as [_|?];
    [|lia].
  rewrite <- (IH p recs). f_equal. unfold bytes, byte in *. lia.
Qed.

Lemma complete_prefix_from_firstn p : forall (l : list entry),
  complete_prefix_from p l = firstn (length (complete_prefix_from p l)) l.
Proof.
  intros l. revert p. induction l as [|x l IH]; intros p; [reflexivity|].
  cbn [complete_prefix_from]. destruct (length (render_entry x) <=? p)%nat; [|reflexivity].
  cbn [length firstn]. f_equal. apply IH.
Qed.

Lemma complete_records names s e h m p :
  complete_prefix_from p (records_of names s e h m) =
  records_of (firstn (complete_count p (records_of names s e h m)) names) s e h m.
Proof.
  unfold complete_count. rewrite complete_prefix_from_firstn at 1.
  unfold records_of. apply firstn_map.
Qed.

Lemma complete_prefix_from_0 (l : list entry) : complete_prefix_from 0 l = [].
Proof.
  destruct l as [|x l]; [reflexivity|]. cbn [complete_prefix_from].
  unfold render_entry. rewrite app_length. cbn [length].
  destruct (Nat.leb_spec (length (render_body x) + 1) 0); [lia|reflexivity].
Qed.

(* every number j of logged outputs is the effect of some kill offset: the crash points
   KLogged 0 .. KLogged (length outs) of the history model are exactly what can be observed *)
Theorem complete_count_reach (recs : list entry) j :
  (j <= length recs)%nat ->
  complete_count (length (concat (map render_entry (firstn j recs)))) recs = j.
Proof.
  intros Hj. unfold complete_count.
  rewrite <- (firstn_skipn j recs) at 2.
  rewrite <- (Nat.add_0_r (length (concat (map render_entry (firstn j recs))))).
  rewrite complete_prefix_from_app, complete_prefix_from_0, app_nil_r.
  apply firstn_length_le. assumption.
Qed.

Lemma complete_count_le p (recs : list entry) : (complete_count p recs <= length recs)%nat.
Proof.
  unfold complete_count. rewrite (complete_prefix_from_firstn p recs) at 1.
  rewrite firstn_length. lia.
Qed.

(* the torn file as a cut of the complete one *)
Lemma torn_file_cut R recs p :
  (log_header ++ concat (map render_entry R)) ++ firstn p (concat (map render_entry recs)) =
  firstn (length log_header + (length (concat (map render_entry R)) + p))
         (log_header ++ concat (map render_entry (R ++ recs))).
Proof.
  rewrite map_app, concat_app. rewrite <- app_assoc.
  rewrite firstn_app_2. f_equal. rewrite firstn_app_2. reflexivity.
Qed.

Lemma cut_complete_prefix R recs p :
  complete_prefix (length log_header + (length (concat (map render_entry R)) + p)) (R ++ recs) =
  R ++ complete_prefix_from p recs.
Proof.
  unfold complete_prefix.
  replace (length log_header + (length (concat (map render_entry R)) + p) - length log_header)%nat
    with (length (concat (map render_entry R)) + p)%nat by lia.
  apply complete_prefix_from_app.
Qed.

Lemma cut_torn_fragment R recs p :
  torn_fragment (length log_header + (length (concat (map render_entry R)) + p)) (R ++ recs) =
  torn_fragment_from p recs.
Proof.
  unfold torn_fragment.
  replace (length log_header + (length (concat (map render_entry R)) + p) - length log_header)%nat
    with (length (concat (map render_entry R)) + p)%nat by lia.
  apply torn_fragment_from_app.
Qed.

Lemma cut_torn_record R recs p :
  torn_record (length log_header + (length (concat (map render_entry R)) + p)) (R ++ recs) =
  torn_record_from p recs.
Proof.
  unfold torn_record.
  replace (length log_header + (length (concat (map render_entry R)) + p) - length log_header)%nat
    with (length (concat (map render_entry R)) + p)%nat by lia.
  apply torn_record_from_app.
Qed.

(* THE justification of "log appends are atomic per record": the process is killed after ANY
   number [p] of bytes of the command's records reached the file; Load then sees exactly the first
   j outputs with the new entry and all others unchanged, j = number of complete records. *)
Theorem abs_torn R names s e h m p :
  Forall wf_entry R -> Forall (fits load_buf_size) R -> wf_cmd names s e h m ->
  let file := log_header ++ concat (map render_entry R) in
  let recs := records_of names s e h m in
  forall n,
    abs_log (file ++ firstn p (concat (map render_entry recs))) n =
    upd_all (abs_log file) (firstn (complete_count p recs) names) (h, m) n.
Proof.
  intros Hw Hf Hc file recs n. destruct (wf_cmd_records names s e h m Hc) as [Hwr Hfr].
  fold recs in Hwr, Hfr.
  unfold file. rewrite torn_file_cut. unfold abs_log at 1.
  rewrite (C08_torn_buf load_buf_size (R ++ recs) _ load_buf_size_ge
             ltac:(apply Forall_app; split; assumption) ltac:(apply Forall_app; split; assumption)).
  destruct (Nat.ltb_spec (length log_header + (length (concat (map render_entry R)) + p))
                         (length log_header)) as [?|_]; [lia|].
  unfold loaded. rewrite cut_complete_prefix.
  unfold recs at 1. rewrite complete_records. fold recs.
  rewrite abs_entries_app, upd_entries_records. unfold upd_all.
  assert (Hh : holds (log_header ++ concat (map render_entry R)) R)
    by (split; [assumption|split; [assumption|right; reflexivity]]).
  rewrite (abs_log_holds _ R Hh). reflexivity.
Qed.

(* all records complete: the torn file is the complete append *)
Corollary abs_torn_all R names s e h m p :
  Forall wf_entry R -> Forall (fits load_buf_size) R -> wf_cmd names s e h m ->
  let file := log_header ++ concat (map render_entry R) in
  let recs := records_of names s e h m in
  (length (concat (map render_entry recs)) <= p)%nat ->
  forall n, abs_log (file ++ firstn p (concat (map render_entry recs))) n =
            upd_all (abs_log file) names (h, m) n.
Proof.
  intros Hw Hf Hc file recs Hp n. rewrite firstn_all2 by assumption.
  apply (abs_append_concat R names s e h m Hw Hf Hc).
Qed.

(* ---- the next session after the kill ---- *)

(* The next ninja process (current tree: OpenForWriteIfNeeded writes '\n' first when the file does
   not end in one) records a further command [names2].  EXACT statement: the torn fragment becomes
   a line of its own and contributes [fragment_entry frag] (nothing, or ONE entry) between the
   complete records and the new ones. *)
Theorem abs_torn_next R names s e h m p names2 s2 e2 h2 m2 :
  Forall wf_entry R -> Forall (fits load_buf_size) R ->
  wf_cmd names s e h m -> wf_cmd names2 s2 e2 h2 m2 ->
  let file := log_header ++ concat (map render_entry R) in
  let recs := records_of names s e h m in
  let torn := file ++ firstn p (concat (map render_entry recs)) in
  forall n,
    abs_log (record_append torn (records_of names2 s2 e2 h2 m2)) n =
    upd_all (upd_entries (upd_all (abs_log file) (firstn (complete_count p recs) names) (h, m))
                         (fragment_entry (torn_fragment_from p recs)))
            names2 (h2, m2) n.
Proof.
  intros Hw Hf Hc Hc2 file recs torn n.
  destruct (wf_cmd_records names s e h m Hc) as [Hwr Hfr]. fold recs in Hwr, Hfr.
  destruct (wf_cmd_records names2 s2 e2 h2 m2 Hc2) as [Hw2 Hf2].
  unfold torn, file. rewrite torn_file_cut. unfold abs_log at 1.
  assert (HwA : Forall wf_entry (R ++ recs)) by (apply Forall_app; split; assumption).
  assert (HfA : Forall (fits load_buf_size) (R ++ recs)) by (apply Forall_app; split; assumption).
  assert (Hk : (length log_header <=
                length log_header + (length (concat (map render_entry R)) + p))%nat) by lia.
  pose proof (C08_append_after_tear (R ++ recs) _ _ HwA HfA Hw2 Hf2 Hk) as Hload.
  cbv zeta in Hload. rewrite Hload. clear Hload.
  rewrite cut_complete_prefix, cut_torn_fragment.
  unfold recs at 1. rewrite complete_records. fold recs.
  assert (Hh : holds (log_header ++ concat (map render_entry R)) R)
    by (split; [assumption|split; [assumption|right; reflexivity]]).
  rewrite abs_entries_last_wins, !latest_app, !latest_records.
  unfold upd_all, upd_entries. rewrite (abs_log_holds _ R Hh), abs_entries_last_wins.
  destruct (mem_bytes n names2); [reflexivity|].
  destruct (latest n (fragment_entry (torn_fragment_from p recs))); [reflexivity|].
  destruct (mem_bytes n (firstn (complete_count p recs) names)); reflexivity.
Qed.

(* What the fragment can contribute: nothing, or — only when the cut fell inside the hash field of
   the interrupted record (or right after its 4th tab) — an entry for the interrupted record's OWN
   output (the (j+1)-th output of the command) with the command's mtime [m] and a hash read from a
   PREFIX of the hex digits of [h]. *)
Theorem abs_fragment_cases names s e h m p :
  wf_cmd names s e h m ->
  let recs := records_of names s e h m in
  fragment_entry (torn_fragment_from p recs) = [] \/
  exists o j', nth_error names (complete_count p recs) = Some o /\
    fragment_entry (torn_fragment_from p recs) =
    [ {| e_out := o; e_start := s; e_end := e; e_mtime := m;
         e_hash := c_strtoull16 (firstn j' (print_hex_N h)) |} ].
Proof.
  intros Hc recs. destruct (wf_cmd_records names s e h m Hc) as [Hwr _]. fold recs in Hwr.
  pose proof (torn_record_fragment p recs) as Htr.
  destruct (torn_record_from p recs) as [et|] eqn:Het.
  - destruct Htr as (j & rest & Hfrag & Hes).
    assert (Hwet : wf_entry et).
    { rewrite Forall_forall in Hwr. apply Hwr. rewrite Hes. apply in_or_app. right. left. reflexivity. }
    rewrite Hfrag. destruct (fragment_entry_of_record et j Hwet) as [Hnil|[j' Hone]]; [left; assumption|].
    right.
    (* et is the record of the (complete_count)-th name *)
    assert (Hnth : nth_error recs (complete_count p recs) = Some et).
    { unfold complete_count. rewrite Hes at 1. rewrite nth_error_app2 by lia.
      rewrite Nat.sub_diag. reflexivity. }
    unfold recs, records_of in Hnth. rewrite nth_error_map in Hnth. fold (records_of names s e h m) in Hnth.
    fold recs in Hnth.
    destruct (nth_error names (complete_count p recs)) as [o|]; [|discriminate].
    cbn [option_map] in Hnth. injection Hnth as <-.
    exists o, j'. split; [reflexivity|]. rewrite Hone. reflexivity.
  - left. rewrite Htr. reflexivity.
Qed.

(* When the cut is NOT inside the hash field (fewer than 4 tabs in the fragment; in particular at a
   record boundary) the next session refines the abstract updates exactly:
   record_partial (first j outputs), then record of the next command. *)
Corollary abs_torn_next_exact R names s e h m p names2 s2 e2 h2 m2 :
  Forall wf_entry R -> Forall (fits load_buf_size) R ->
  wf_cmd names s e h m -> wf_cmd names2 s2 e2 h2 m2 ->
  let file := log_header ++ concat (map render_entry R) in
  let recs := records_of names s e h m in
  let torn := file ++ firstn p (concat (map render_entry recs)) in
  fragment_entry (torn_fragment_from p recs) = [] ->
  forall n,
    abs_log (record_append torn (records_of names2 s2 e2 h2 m2)) n =
    upd_all (upd_all (abs_log file) (firstn (complete_count p recs) names) (h, m)) names2 (h2, m2) n.
Proof.
  intros Hw Hf Hc Hc2 file recs torn Hnil n.
  pose proof (abs_torn_next R names s e h m p names2 s2 e2 h2 m2 Hw Hf Hc Hc2 n) as H.
  cbv zeta in H. subst torn file recs. rewrite H, Hnil.
  unfold upd_all, upd_entries. cbn [latest rev lookup_out]. reflexivity.
Qed.

(* When it IS inside the hash field: additionally the (j+1)-th output [o] carries (h', m) with h' the
   value of a prefix of h's hex digits — the abstract state is record_partial for j outputs plus
   this one entry.  (If the prefix is all of the digits, h' = h and this is record_partial for j+1.) *)
Corollary abs_torn_next_truncated R names s e h m p names2 s2 e2 h2 m2 o j' :
  Forall wf_entry R -> Forall (fits load_buf_size) R ->
  wf_cmd names s e h m -> wf_cmd names2 s2 e2 h2 m2 ->
  let file := log_header ++ concat (map render_entry R) in
  let recs := records_of names s e h m in
  let torn := file ++ firstn p (concat (map render_entry recs)) in
  fragment_entry (torn_fragment_from p recs) =
    [ {| e_out := o; e_start := s; e_end := e; e_mtime := m;
         e_hash := c_strtoull16 (firstn j' (print_hex_N h)) |} ] ->
  forall n,
    abs_log (record_append torn (records_of names2 s2 e2 h2 m2)) n =
    upd_all (upd_all (upd_all (abs_log file) (firstn (complete_count p recs) names) (h, m))
                     [o] (c_strtoull16 (firstn j' (print_hex_N h)), m))
            names2 (h2, m2) n.
Proof.
  intros Hw Hf Hc Hc2 file recs torn Hone n.
  pose proof (abs_torn_next R names s e h m p names2 s2 e2 h2 m2 Hw Hf Hc Hc2 n) as H.
  cbv zeta in H. subst torn file recs. rewrite H, Hone.
  unfold upd_all, upd_entries. cbn [latest rev app lookup_out e_out mem_bytes abs_entry e_hash e_mtime].
  rewrite (bytes_eqb_sym o n). destruct (mem_bytes n names2); [reflexivity|].
  destruct (bytes_eqb n o); reflexivity.
Qed.

Lemma strtoull16_full_prefix h j :
  h < 18446744073709551616 -> (length (print_hex_N h) <= j)%nat ->
  c_strtoull16 (firstn j (print_hex_N h)) = h.
Proof. intros Hh Hj. rewrite firstn_all2 by assumption. apply strtoull16_print. assumption. Qed.

(* ========================================================================================== *)
(** * 4. abs_recompact, abs_restat *)

Lemma wf_last_wins R : Forall wf_entry R -> Forall wf_entry (last_wins R).
Proof. rewrite !Forall_forall. intros H y Hy. apply H, In_last_wins, Hy. Qed.

Lemma fits_last_wins R : Forall (fits load_buf_size) R -> Forall (fits load_buf_size) (last_wins R).
Proof. rewrite !Forall_forall. intros H y Hy. apply H, In_last_wins, Hy. Qed.

(* Recompaction (what OpenForWrite does when Load asked for it; also `-t recompact`): the new file
   holds the same entry for every live output and nothing for the dead ones. *)
Theorem abs_recompact file R live :
  holds file R ->
  forall n, abs_log (recompact live (last_wins R)) n = restrict live (abs_log file) n.
Proof.
  intros Hh n. pose proof Hh as (Hw & Hf & _).
  unfold abs_log at 1.
  rewrite (C08_recompact live (last_wins R) (wf_last_wins R Hw) (fits_last_wins R Hf)
                         (nodup_last_wins R)).
  unfold abs_entries, restrict. rewrite lookup_filter_live.
  rewrite (abs_log_holds file R Hh). unfold abs_entries. destruct (live n); reflexivity.
Qed.

(* a recompacted file is again a well-formed log: everything composes *)
Lemma holds_recompact file R live :
  holds file R ->
  holds (recompact live (last_wins R)) (filter (fun x => live (e_out x)) (last_wins R)).
Proof.
  intros (Hw & Hf & _).
  split; [apply Forall_filter, wf_last_wins, Hw|]. split; [apply Forall_filter, fits_last_wins, Hf|].
  right. reflexivity.
Qed.

(* a whole invocation ([session]: Load, Recompact if asked, append) in abstract terms *)
Theorem abs_session file R live names s e h m :
  holds file R -> wf_cmd names s e h m ->
  forall n,
    abs_log (session live file (records_of names s e h m)) n =
    upd_all (if needs_of R then restrict live (abs_log file) else abs_log file) names (h, m) n.
Proof.
  intros Hh Hc n. destruct (wf_cmd_records names s e h m Hc) as [Hw Hf].
  pose proof (session_step live file R _ Hh Hw Hf) as Hs.
  rewrite (abs_log_holds _ _ Hs). unfold session_records.
  destruct (needs_of R).
  - rewrite abs_entries_app, upd_entries_records. unfold upd_all.
    destruct (mem_bytes n names); [reflexivity|].
    rewrite <- (abs_recompact file R live Hh n).
    rewrite (abs_log_holds _ _ (holds_recompact file R live Hh)). reflexivity.
  - rewrite abs_entries_app, upd_entries_records. unfold upd_all.
    rewrite (abs_log_holds file R Hh). reflexivity.
Qed.

Lemma lookup_restat pick ents n :
  lookup_out n (restat_log pick ents) = option_map (restat_entry pick) (lookup_out n ents).
Proof.
  unfold restat_log. induction ents as [|x ents IH]; [reflexivity|]. cbn [map lookup_out].
  assert (Ho : e_out (restat_entry pick x) = e_out x).
  { unfold restat_entry. destruct (pick (e_out x)); reflexivity. }
  rewrite Ho. destruct (bytes_eqb (e_out x) n); [reflexivity|exact IH].
Qed.

(* `ninja -t restat`: only the mtime component changes, only for the selected names *)
Theorem abs_restat file R pick :
  holds file R ->
  Forall (fun x => (length (e_out x) + 63 <= load_buf_size)%nat) R ->
  (forall n m, pick n = Some m -> in_int64 m = true) ->
  forall n, abs_log (restat_file pick (last_wins R)) n = restat_alog pick (abs_log file) n.
Proof.
  intros Hh Hlen Hpick n. pose proof Hh as (Hw & Hf & _).
  assert (Hwl := wf_last_wins R Hw).
  assert (Hwr : Forall wf_entry (restat_log pick (last_wins R))).
  { unfold restat_log. apply Forall_map. rewrite Forall_forall in *. intros x Hx.
    apply restat_entry_wf; [apply Hwl; assumption|]. intros m Hm. apply (Hpick _ _ Hm). }
  assert (Hfr : Forall (fits load_buf_size) (restat_log pick (last_wins R))).
  { apply fits_names; [assumption|]. unfold restat_log. apply Forall_map.
    rewrite Forall_forall in *. intros x Hx.
    replace (e_out (restat_entry pick x)) with (e_out x)
      by (unfold restat_entry; destruct (pick (e_out x)); reflexivity).
    apply Hlen, In_last_wins, Hx. }
  unfold abs_log at 1.
  rewrite (C08_restat_file pick (last_wins R) Hwl (nodup_last_wins R)
             (fun x m _ Hm => Hpick _ _ Hm) Hfr).
  unfold abs_entries at 1. rewrite lookup_restat.
  unfold restat_alog. rewrite (abs_log_holds file R Hh). unfold abs_entries.
  destruct (lookup_out n (last_wins R)) as [x|] eqn:Hx; [|reflexivity].
  apply lookup_out_In in Hx. destruct Hx as [_ Hxn].
  cbn [option_map]. unfold restat_entry, abs_entry. rewrite Hxn.
  destruct (pick n); reflexivity.
Qed.

(* ========================================================================================== *)
(** * 1'. Node ids: an injective naming *)

Section Nodes.
  Variable nm : nat -> bytes.
  Hypothesis nm_inj : forall a b, nm a = nm b -> a = b.

  Definition mem_nat (n : nat) (l : list nat) : bool := existsb (Nat.eqb n) l.

  (* the abstract log over node ids *)
  Definition abs_nodes (a : alog) : nat -> option (N * Z) := fun n => a (nm n).

  (* the log component of HistDefs.record / HistCrashDefs.record_partial (lg = logged outputs) *)
  Definition blog_record (b : nat -> option (N * Z)) (lg : list nat) (h : N) (m : Z)
    : nat -> option (N * Z) :=
    fun n => if mem_nat n lg then Some (h, m) else b n.

  (* rewrite with this lemma, never [unfold abs_nodes]: a conversion problem that makes the kernel
     unfold [abs_log] (hence [load_log]) overflows the stack, see README_buildlog.md *)
  Lemma abs_nodes_eq (a : alog) n : abs_nodes a n = a (nm n).
  Proof. reflexivity. Qed.

  Lemma mem_bytes_nm n l : mem_bytes (nm n) (map nm l) = mem_nat n l.
  Proof.
    induction l as [|x l IH]; [reflexivity|]. cbn [map mem_bytes mem_nat existsb].
    fold (mem_nat n l). rewrite IH. f_equal.
    destruct (bytes_eqb_spec (nm n) (nm x)) as [Heq|Hne].
    - apply nm_inj in Heq. subst. symmetry. apply Nat.eqb_refl.
    - destruct (Nat.eqb_spec n x) as [->|_]; [congruence|reflexivity].
  Qed.

  Lemma upd_all_nodes a outs v n :
    upd_all a (map nm outs) v (nm n) =
    (if mem_nat n outs then Some v else a (nm n)).
  Proof. unfold upd_all. rewrite mem_bytes_nm. reflexivity. Qed.

  (* 2. a finished command: the file after RecordCommand represents [record]'s log *)
  Theorem abs_append_nodes file R (b : nat -> option (N * Z)) outs s e h m :
    holds file R -> wf_cmd (map nm outs) s e h m ->
    (forall n, abs_nodes (abs_log file) n = b n) ->
    forall n, abs_nodes (abs_log (record_append file (records_of (map nm outs) s e h m))) n =
              blog_record b outs h m n.
  Proof.
    intros Hh Hc Hb n. rewrite abs_nodes_eq. unfold blog_record.
    rewrite (abs_append file R _ s e h m Hh Hc), upd_all_nodes. rewrite <- Hb, abs_nodes_eq. reflexivity.
  Qed.

  (* 3. a kill after p bytes of the records: [record_partial] with the first j outputs logged *)
  Theorem abs_torn_nodes R (b : nat -> option (N * Z)) outs s e h m p :
    Forall wf_entry R -> Forall (fits load_buf_size) R -> wf_cmd (map nm outs) s e h m ->
    let file := log_header ++ concat (map render_entry R) in
    let recs := records_of (map nm outs) s e h m in
    (forall n, abs_nodes (abs_log file) n = b n) ->
    forall n, abs_nodes (abs_log (file ++ firstn p (concat (map render_entry recs)))) n =
              blog_record b (firstn (complete_count p recs) outs) h m n.
  Proof.
    intros Hw Hf Hc file recs Hb n. rewrite abs_nodes_eq. unfold blog_record.
    rewrite (abs_torn R _ s e h m p Hw Hf Hc). fold recs. rewrite firstn_map, upd_all_nodes.
    fold file. rewrite <- Hb, abs_nodes_eq. reflexivity.
  Qed.

  (* 3'. the next session after the kill, cut not inside a hash field *)
  Theorem abs_torn_next_nodes R (b : nat -> option (N * Z)) outs s e h m p outs2 s2 e2 h2 m2 :
    Forall wf_entry R -> Forall (fits load_buf_size) R ->
    wf_cmd (map nm outs) s e h m -> wf_cmd (map nm outs2) s2 e2 h2 m2 ->
    let file := log_header ++ concat (map render_entry R) in
    let recs := records_of (map nm outs) s e h m in
    let torn := file ++ firstn p (concat (map render_entry recs)) in
    fragment_entry (torn_fragment_from p recs) = [] ->
    (forall n, abs_nodes (abs_log file) n = b n) ->
    forall n,
      abs_nodes (abs_log (record_append torn (records_of (map nm outs2) s2 e2 h2 m2))) n =
      blog_record (blog_record b (firstn (complete_count p recs) outs) h m) outs2 h2 m2 n.
  Proof.
    intros Hw Hf Hc Hc2 file recs torn Hnil Hb n. rewrite abs_nodes_eq. unfold blog_record.
    rewrite (abs_torn_next_exact R _ s e h m p _ s2 e2 h2 m2 Hw Hf Hc Hc2 Hnil).
    fold recs. rewrite upd_all_nodes, firstn_map, upd_all_nodes. fold file.
    rewrite <- Hb, abs_nodes_eq. reflexivity.
  Qed.

  (* 4. recompaction and restat over nodes *)
  Theorem abs_recompact_nodes file R live (b : nat -> option (N * Z)) :
    holds file R -> (forall n, abs_nodes (abs_log file) n = b n) ->
    forall n, abs_nodes (abs_log (recompact live (last_wins R))) n =
              (if live (nm n) then b n else None).
  Proof.
    intros Hh Hb n. rewrite abs_nodes_eq, (abs_recompact file R live Hh).
    unfold restrict. rewrite <- Hb, abs_nodes_eq. reflexivity.
  Qed.

  Theorem abs_restat_nodes file R pick (b : nat -> option (N * Z)) :
    holds file R ->
    Forall (fun x => (length (e_out x) + 63 <= load_buf_size)%nat) R ->
    (forall n m, pick n = Some m -> in_int64 m = true) ->
    (forall n, abs_nodes (abs_log file) n = b n) ->
    forall n, abs_nodes (abs_log (restat_file pick (last_wins R))) n =
              match b n with
              | Some (h, m) => Some (h, match pick (nm n) with Some m' => m' | None => m end)
              | None => None
              end.
  Proof.
    intros Hh Hlen Hpick Hb n. rewrite abs_nodes_eq, (abs_restat file R pick Hh Hlen Hpick).
    unfold restat_alog. rewrite <- Hb, abs_nodes_eq. reflexivity.
  Qed.
End Nodes.
