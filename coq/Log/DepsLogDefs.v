(* Byte-level model of ninja's deps log (.ninja_deps): src/deps_log.cc / deps_log.h.

   A faithful transliteration, quirks included, of
     DepsLog::Load, OpenForWrite / OpenForWriteIfNeeded, RecordDeps, RecordId, Recompact,
     UpdateDeps, GetDeps
   for a little-endian machine with 32-bit int / unsigned (the file format is the raw memory
   image of these).  Only definitions here (see CONVENTIONS.md); proofs in DepsLogProofs.v.

   Conventions of this file
   * ids (indices into nodes_ / deps_) are [N], NOT nat: the loader accepts an arbitrary
     31-bit out_id from the file without any range check, and a unary number of that size
     cannot be computed with.  Lengths, fuel and file offsets are nat.
   * [d_deps] is the list of ALL accepted deps records, NEWEST FIRST; the C++ deps_[id] is
     [lookup id (d_deps s)] (first match = latest record), deps_[id]==NULL is [None].
   * what is NOT modelled: I/O errors (ferror, failing fwrite/truncate/rename), int overflow
     of the record counters (needs 2^31 records), a vector of >= 2^29 input nodes in
     RecordDeps, RecordId of an empty path (assert in debug builds; in NDEBUG builds it
     writes the size word and then fails on fwrite(...,0,1,...)): [record_id] fails cleanly. *)
From NinjaV Require Import Base.Bytes.
Local Open Scope N_scope.

(* ------------------------------------------------------------------------------------ *)
(* 32/64-bit words                                                                      *)

Definition two31 : N := 2147483648.
Definition two32 : N := 4294967296.

(* fwrite(&w, 4, 1, f) of an unsigned / int w (taken mod 2^32) *)
Definition le32 (w : N) : bytes :=
  [w mod 256; (w / 256) mod 256; (w / 65536) mod 256; (w / 16777216) mod 256].

(* fread(&w, 4, 1, f): None = fewer than 4 bytes left *)
Definition rd32 (s : bytes) : option (N * bytes) :=
  match s with
  | b0 :: b1 :: b2 :: b3 :: r => Some (b0 + 256 * b1 + 65536 * b2 + 16777216 * b3, r)
  | _ => None
  end.

(* (int)w for an unsigned 32-bit w *)
Definition s32 (w : N) : Z :=
  if w <? two31 then Z.of_N w else (Z.of_N w - 4294967296)%Z.

(* (unsigned)z for an int / the low 32 bits of an int64 *)
Definition u32 (z : Z) : N := Z.to_N (z mod 4294967296).

(* ~w on unsigned 32-bit *)
Definition lnot32 (w : N) : N := (two32 - 1) - (w mod two32).

(* (int64_t)u for a 64-bit unsigned u *)
Definition s64 (u : N) : Z :=
  if u <? 9223372036854775808 then Z.of_N u else (Z.of_N u - 18446744073709551616)%Z.

(* mtime & 0xffffffff  and  (mtime >> 32) & 0xffffffff  on an int64 (arithmetic shift) *)
Definition mtime_lo (m : Z) : N := u32 m.
Definition mtime_hi (m : Z) : N := u32 (m / 4294967296).

(* ------------------------------------------------------------------------------------ *)
(* Constants                                                                            *)

(* kFileSignature "# ninjadeps\n" *)
Definition deps_signature : bytes := [35; 32; 110; 105; 110; 106; 97; 100; 101; 112; 115; 10].
Definition kCurrentVersion : N := 4.
Definition deps_header : bytes := deps_signature ++ le32 kCurrentVersion.
Definition kMaxRecordSize : N := 524287.   (* (1 << 19) - 1 *)

(* ------------------------------------------------------------------------------------ *)
(* Record encoders (RecordId / RecordDeps as they write)                                *)

(* int padding = (4 - path_size % 4) % 4 *)
Definition padding (n : nat) : nat := ((4 - n mod 4) mod 4)%nat.

(* RecordId's record for a node that receives id [id] *)
Definition enc_path_record (id : N) (p : bytes) : bytes :=
  le32 (N.of_nat (length p + padding (length p) + 4))
  ++ p ++ repeat 0 (padding (length p)) ++ le32 (lnot32 id).

(* RecordDeps's record *)
Definition enc_deps_record (out : N) (mtime : Z) (ins : list N) : bytes :=
  le32 (two31 + 4 * (3 + N.of_nat (length ins)))
  ++ le32 out ++ le32 (mtime_lo mtime) ++ le32 (mtime_hi mtime) ++ flat_map le32 ins.

(* ------------------------------------------------------------------------------------ *)
(* In-memory state                                                                      *)

Record dstate := mkD {
  d_paths : list bytes;                 (* nodes_: id -> path, in id order *)
  d_deps : list (N * (Z * list N))      (* every accepted deps record (out_id, (mtime, dep ids)),
                                           NEWEST FIRST; deps_[id] = first match *)
}.

Definition d_empty : dstate := mkD [] [].

Definition add_path (s : dstate) (p : bytes) : dstate := mkD (d_paths s ++ [p]) (d_deps s).
Definition add_deps (s : dstate) (o : N) (m : Z) (ins : list N) : dstate :=
  mkD (d_paths s) ((o, (m, ins)) :: d_deps s).

Fixpoint lookup (o : N) (l : list (N * (Z * list N))) : option (Z * list N) :=
  match l with
  | [] => None
  | (o', d) :: r => if o =? o' then Some d else lookup o r
  end.

(* Node::id() of the node with this path: position in nodes_, None = id -1 *)
Fixpoint index_of (p : bytes) (l : list bytes) : option N :=
  match l with
  | [] => None
  | q :: r => if bytes_eqb p q then Some 0
              else match index_of p r with Some i => Some (N.succ i) | None => None end
  end.

Definition nlen {A} (l : list A) : N := N.of_nat (length l).

(* ------------------------------------------------------------------------------------ *)
(* Loader                                                                               *)

Inductive dload :=
| DBadHeader          (* short / invalid signature or version: the C++ unlinks the file and returns
                         LOAD_SUCCESS with empty tables ("starting over") *)
| DOk (s : dstate)
      (truncate_to : option nat)   (* Some k: the file is truncated to k bytes: read_failed (then
                                      needs_recompaction is false), or - current loader only -
                                      a size word torn at EOF (silent; the flag is computed) *)
      (needs_recompaction : bool)
| DUnsafe (why : nat) (* the C++ has undefined behaviour / aborts here.  Only the reader BEFORE the
                         fix "validate record sizes and ids when loading the deps log" ([RdOld])
                         can return it; for the current reader ([RdCur]) it is proved
                         unreachable (C13_depslog_bounds):
                         1 deps record of 4 or 8 bytes: deps_count < 0, new Node*[deps_count]
                           throws std::bad_array_new_length (uncaught: abort)
                         2 dep id with the sign bit set: nodes_[negative]
                         3 out id with the sign bit set: deps_[negative] in UpdateDeps
                         4 out id = INT_MAX: signed overflow in out_id + 1 (then a 16 GiB resize)
                         5 path record whose path part is all NUL and 1 or 2 bytes long: reads buf[-1]
                         6 path record with size % 4 <> 0: misaligned unsigned load of the checksum
                           (only with [RdOld true]; benign on x86, reported by UBSan) *)
| DFuel.              (* fuel exhausted: unreachable, see load_deps_never_fuel *)

(* take n l = Some (first n elements, rest); None when l is shorter: fread(buf, n, 1, f) < 1 *)
Fixpoint take (n : nat) (l : bytes) : option (bytes * bytes) :=
  match n with
  | O => Some ([], l)
  | S k => match l with
           | [] => None
           | x :: r => match take k r with Some (a, b) => Some (x :: a, b) | None => None end
           end
  end.

(* One record frame: the two freads at the top of the loop. *)
Inductive frame_res :=
| FEof    (* fread(&size, 1, 4, f) returns 0 at end of file: clean end *)
| FTorn   (* ... returns 1..3 with feof() true: a record header torn inside its size word.
             OLD code (before the fix "truncate a torn record header when loading the deps
             log"): treated like FEof, the stray bytes stayed in the file.
             Current code: torn_size_word = true, the file is truncated to [offset] after the
             loop, silently, and loading continues normally *)
| FFail   (* size > kMaxRecordSize, or fread(buf, size, 1, f) < 1 (size = 0 included: fread
             returns 0 for a zero size), read_failed = true *)
| FRec (is_deps : bool) (size : N) (buf : bytes) (rest : bytes).

Definition frame (x : bytes) : frame_res :=
  match rd32 x with
  | None => match x with [] => FEof | _ :: _ => FTorn end
  | Some (w, x1) =>
      let is_deps := two31 <=? w in          (* (size >> 31) != 0 *)
      let size := w mod two31 in             (* size & 0x7FFFFFFF *)
      if (kMaxRecordSize <? size) || (size =? 0) then FFail
      else match take (N.to_nat size) x1 with
           | None => FFail
           | Some (buf, rest) => FRec is_deps size buf rest
           end
  end.

Fixpoint words_of (s : bytes) : list N :=
  match s with
  | b0 :: b1 :: b2 :: b3 :: r => (b0 + 256 * b1 + 65536 * b2 + 16777216 * b3) :: words_of r
  | _ => []
  end.

Inductive ids_res := IdsOk | IdsFail | IdsUnsafe.

(* for (i...) { int node_id = deps_data[i];
                if (node_id >= (int)nodes_.size() || !nodes_[node_id]) read_failed } *)
Fixpoint check_ids (n : N) (ins : list N) : ids_res :=
  match ins with
  | [] => IdsOk
  | i :: r => if two31 <=? i then IdsUnsafe          (* negative: passes >=, indexes nodes_[i] *)
              else if n <=? i then IdsFail
              else check_ids n r
  end.

(* if (buf[path_size - 1] == '\0') --path_size;   on the REVERSED path part;
   None = path_size is 0 here, the C++ reads buf[-1] *)
Definition strip_step (r : bytes) : option bytes :=
  match r with
  | [] => None
  | b :: r' => Some (if b =? 0 then r' else r)
  end.

Definition strip3 (r : bytes) : option bytes :=
  match strip_step r with
  | None => None
  | Some r1 => match strip_step r1 with
               | None => None
               | Some r2 => strip_step r2
               end
  end.

(* linear-time reverse (List.rev is quadratic); [frev l = rev l], see frev_rev *)
Definition frev (l : bytes) : bytes := rev_append l [].

Inductive dec_res :=
| RFail
| RUnsafe (why : nat)
| RPath (p : bytes)
| RDeps (out : N) (mtime : Z) (ins : list N).

(* Which record validation: the code before the fix "validate record sizes and ids when
   loading the deps log" ([RdOld strict_align]: strict_align = the misaligned checksum load of a
   path record with size % 4 <> 0 counts as undefined behaviour), or the current code. *)
Inductive rmode := RdOld (strict_align : bool) | RdCur.

(* OLD reader.  The body of the loop for one framed record; [buf] has exactly [size] bytes,
   0 < size. *)
Definition decode_old (strict_align : bool) (paths : list bytes) (is_deps : bool) (size : N)
                  (buf : bytes) : dec_res :=
  if is_deps then
    if negb (size mod 4 =? 0) then RFail
    else match words_of buf with
         | out :: lo :: hi :: ins =>
             (* deps_count = size/4 - 3 >= 0 *)
             match check_ids (nlen paths) ins with
             | IdsFail => RFail
             | IdsUnsafe => RUnsafe 2
             | IdsOk =>
                 (* new Deps; UpdateDeps(out_id, deps) *)
                 if two31 <=? out then RUnsafe 3
                 else if out =? two31 - 1 then RUnsafe 4
                 else RDeps out (s64 (hi * two32 + lo)) ins
             end
         | _ => RUnsafe 1     (* size is 4 or 8: deps_count is -2 or -1, the id loop does not
                                 run, new Node*[deps_count] *)
         end
  else
    (* int path_size = size - 4; the last four bytes are the checksum *)
    match frev buf with
    | c3 :: c2 :: c1 :: c0 :: rp =>
        match rp with
        | [] => RFail                         (* path_size = 0 *)
        | _ :: _ =>
            match strip3 rp with
            | None => RUnsafe 5
            | Some rp' =>
                let path := frev rp' in        (* StringPiece(buf, path_size); GetNode *)
                if strict_align && negb (size mod 4 =? 0) then RUnsafe 6
                else
                  let checksum := c0 + 256 * c1 + 65536 * c2 + 16777216 * c3 in
                  (* int expected_id = ~checksum; int id = nodes_.size();
                     if (id != expected_id || node->id() >= 0) read_failed *)
                  if negb (s32 (lnot32 checksum) =? Z.of_N (nlen paths))%Z
                     || mem_bytes path paths
                  then RFail
                  else RPath path
            end
        end
    | _ => RFail                              (* size < 4: path_size < 0 *)
    end.

(* for (i...) { if (node_id < 0 || node_id >= (int)nodes_.size() || !nodes_[node_id]) read_failed } *)
Definition check_ids_cur (n : N) (ins : list N) : bool :=
  forallb (fun i => negb (two31 <=? i) && (i <? n)) ins.

(* CURRENT reader.  Same index arithmetic, with the new validations in front; the accesses that
   were undefined are still marked [RUnsafe] where the code would perform them, and proved
   unreachable (decode_cur_safe).  Assumes nodes_.size() <= INT_MAX (a log with 2^31 path
   records has at least 16 GiB). *)
Definition decode_cur (paths : list bytes) (is_deps : bool) (size : N) (buf : bytes) : dec_res :=
  if is_deps then
    (* if ((size % 4) != 0 || size < 12) read_failed *)
    if negb (size mod 4 =? 0) || (size <? 12) then RFail
    else match words_of buf with
         | out :: lo :: hi :: ins =>
             (* if (out_id < 0 || out_id >= (int)nodes_.size()) read_failed *)
             if (two31 <=? out) || (nlen paths <=? out) then RFail
             else if check_ids_cur (nlen paths) ins
                  then RDeps out (s64 (hi * two32 + lo)) ins
                  else RFail
         | _ => RUnsafe 1     (* fewer than three words: not reached, size >= 12 *)
         end
  else
    match frev buf with
    | c3 :: c2 :: c1 :: c0 :: rp =>
        match rp with
        | [] => RFail                         (* path_size = 0 *)
        | _ :: _ =>
            (* if (path_size <= 0 || (size % 4) != 0) read_failed *)
            if negb (size mod 4 =? 0) then RFail
            else
              match strip3 rp with
              | None => RUnsafe 5             (* not reached: path_size >= 4 *)
              | Some rp' =>
                  let path := frev rp' in
                  let checksum := c0 + 256 * c1 + 65536 * c2 + 16777216 * c3 in
                  if negb (s32 (lnot32 checksum) =? Z.of_N (nlen paths))%Z
                     || mem_bytes path paths
                  then RFail
                  else RPath path
              end
        end
    | _ => RFail                              (* size < 4: path_size < 0 *)
    end.

Definition decode (m : rmode) (paths : list bytes) (is_deps : bool) (size : N) (buf : bytes)
  : dec_res :=
  match m with
  | RdOld strict_align => decode_old strict_align paths is_deps size buf
  | RdCur => decode_cur paths is_deps size buf
  end.

(* Loop state: tables, [offset], total_dep_record_count, unique_dep_record_count *)
Record lstate := mkL { l_s : dstate; l_off : N; l_total : N; l_unique : N }.

Definition l_add_path (st : lstate) (p : bytes) (size : N) : lstate :=
  mkL (add_path (l_s st) p) (l_off st + size + 4) (l_total st) (l_unique st).

Definition l_add_deps (st : lstate) (o : N) (m : Z) (ins : list N) (size : N) : lstate :=
  mkL (add_deps (l_s st) o m ins) (l_off st + size + 4) (l_total st + 1)
      (* if (!UpdateDeps(out_id, deps)) ++unique_dep_record_count; *)
      (match lookup o (d_deps (l_s st)) with Some _ => l_unique st | None => l_unique st + 1 end).

Definition needs_recompaction (total unique : N) : bool :=
  (1000 <? total) && (unique * 3 <? total).

Fixpoint load_loop (old : bool) (m : rmode) (fuel : nat) (st : lstate) (x : bytes) : dload :=
  match fuel with
  | O => DFuel
  | S fuel' =>
      match frame x with
      | FEof => DOk (l_s st) None (needs_recompaction (l_total st) (l_unique st))
      | FTorn =>
          if old then DOk (l_s st) None (needs_recompaction (l_total st) (l_unique st))
          else DOk (l_s st) (Some (N.to_nat (l_off st)))
                   (needs_recompaction (l_total st) (l_unique st))
      | FFail => DOk (l_s st) (Some (N.to_nat (l_off st))) false
      | FRec is_deps size buf rest =>
          match decode m (d_paths (l_s st)) is_deps size buf with
          | RFail => DOk (l_s st) (Some (N.to_nat (l_off st))) false
          | RUnsafe why => DUnsafe why
          | RPath p => load_loop old m fuel' (l_add_path st p size) rest
          | RDeps o mt ins => load_loop old m fuel' (l_add_deps st o mt ins size) rest
          end
      end
  end.

Definition l_init : lstate := mkL d_empty 16 0 0.

(* [old = true]: the loader as it was before the torn-size-word fix (kept to document the
   defect, see load_deps_old); [old = false]: the current code.  [m]: record validation before
   / after the fix "validate record sizes and ids". *)
Definition load_deps_ver (old : bool) (m : rmode) (file : bytes) : dload :=
  match take 16 file with
  | None => DBadHeader
  | Some (h, x) =>
      if bytes_eqb h deps_header then load_loop old m (S (length x)) l_init x
      else DBadHeader
  end.

(* The CURRENT code.  [strict_align] is kept for the driver's sake and ignored: the current
   reader rejects every record with size % 4 <> 0, so no misaligned load can happen and the
   two variants coincide. *)
Definition load_deps_gen (strict_align : bool) (file : bytes) : dload :=
  load_deps_ver false RdCur file.

(* The entry point. *)
Definition load_deps (file : bytes) : dload := load_deps_gen true file.
Definition load_deps_x86 (file : bytes) : dload := load_deps_gen false file.
(* The ORIGINAL loader: before both fixes (1-3 stray bytes of a size word at EOF are not
   truncated; no validation of sizes and ids; every undefined behaviour counted). *)
Definition load_deps_old (file : bytes) : dload := load_deps_ver true (RdOld true) file.
(* The reader before the validation fix (after the torn-size-word fix): the DUnsafe classes. *)
Definition load_deps_rd_old (strict_align : bool) (file : bytes) : dload :=
  load_deps_ver false (RdOld strict_align) file.

(* ------------------------------------------------------------------------------------ *)
(* Writer                                                                               *)

Inductive dop := RecordDeps (out : bytes) (mtime : Z) (ins : list bytes).

(* RecordId: None = returns false (ERANGE; empty path see header comment) *)
Definition record_id (s : dstate) (p : bytes) : option (dstate * bytes) :=
  match p with
  | [] => None
  | _ :: _ =>
      if kMaxRecordSize <? N.of_nat (length p + padding (length p) + 4) then None
      else Some (add_path s p, enc_path_record (nlen (d_paths s)) p)
  end.

(* "if (node->id() < 0) { if (!RecordId(node)) return false; made_change = true; }" for a
   list of nodes.  Result: state, bytes written, made_change, ok. *)
Fixpoint ensure_ids (s : dstate) (ps : list bytes) (w : bytes) (made : bool)
  : dstate * bytes * bool * bool :=
  match ps with
  | [] => (s, w, made, true)
  | p :: r =>
      match index_of p (d_paths s) with
      | Some _ => ensure_ids s r w made
      | None => match record_id s p with
                | None => (s, w, made, false)
                | Some (s', e) => ensure_ids s' r (w ++ e) true
                end
      end
  end.

Fixpoint ids_of (paths : list bytes) (ps : list bytes) : list N :=
  match ps with
  | [] => []
  | p :: r => match index_of p paths with
              | Some i => i :: ids_of paths r
              | None => ids_of paths r      (* not reached after ensure_ids succeeded *)
              end
  end.

Definition same_deps (a b : Z * list N) : bool :=
  (fst a =? fst b)%Z && (length (snd a) =? length (snd b))%nat
  && forallb (fun p => fst p =? snd p) (combine (snd a) (snd b)).

(* RecordDeps: (state, bytes appended, returned true) *)
Definition record_deps (s : dstate) (op : dop) : dstate * bytes * bool :=
  match op with
  | RecordDeps out mtime ins =>
      match ensure_ids s (out :: ins) [] false with
      | (s1, w, made, false) => (s1, w, false)
      | (s1, w, made, true) =>
          match index_of out (d_paths s1) with
          | None => (s1, w, false)   (* not reached: out has an id after ensure_ids *)
          | Some oid =>
              let ids := ids_of (d_paths s1) ins in
              let unchanged :=
                negb made &&
                match lookup oid (d_deps s1) with      (* GetDeps(node) *)
                | None => false
                | Some d => same_deps d (mtime, ids)
                end in
              if unchanged then (s1, w, true)
              else if kMaxRecordSize <? 4 * (3 + nlen ins) then (s1, w, false)
              else (add_deps s1 oid mtime ids, w ++ enc_deps_record oid mtime ids, true)
          end
      end
  end.

(* A build: RecordDeps calls until one fails (ninja stops the build with "Error writing to
   deps log"). *)
Fixpoint run_ops (s : dstate) (ops : list dop) : dstate * bytes * bool :=
  match ops with
  | [] => (s, [], true)
  | op :: r =>
      match record_deps s op with
      | (s1, w, false) => (s1, w, false)
      | (s1, w, true) => match run_ops s1 r with (s2, w2, ok) => (s2, w ++ w2, ok) end
      end
  end.

(* ------------------------------------------------------------------------------------ *)
(* Recompaction                                                                         *)

Fixpoint nseq (start : N) (len : nat) : list N :=
  match len with O => [] | S k => start :: nseq (N.succ start) k end.

Fixpoint resolve (paths : list bytes) (ids : list N) : option (list bytes) :=
  match ids with
  | [] => Some []
  | i :: r => match nth_error paths (N.to_nat i), resolve paths r with
              | Some p, Some ps => Some (p :: ps)
              | _, _ => None
              end
  end.

Inductive recompact_res :=
| CUnsafe (why : nat)   (* 1: some deps_[old_id] is non-NULL with old_id >= nodes_.size():
                              Recompact evaluates nodes_[old_id] out of bounds (Load never
                              range-checks out_id);
                           2: a dep id that is not an index of d_paths: cannot come out of
                              load_deps (domain guard of the model, not a C++ behaviour) *)
| CFail                 (* a RecordDeps of the new log returned false: Recompact returns false,
                           the old file stays *)
| COk (s : dstate) (file : bytes).

(* for (old_id = 0; old_id < deps_.size(); ++old_id) with deps_[old_id] && IsDepsEntryLiveFor *)
Fixpoint recompact_ops (live : bytes -> bool) (s : dstate) (ids : list N) : option (list dop) :=
  match ids with
  | [] => Some []
  | i :: r =>
      match recompact_ops live s r with
      | None => None
      | Some ops =>
          match lookup i (d_deps s), nth_error (d_paths s) (N.to_nat i) with
          | Some (m, ins), Some p =>
              match resolve (d_paths s) ins with
              | None => None
              | Some ps => Some (if live p then RecordDeps p m ps :: ops else ops)
              end
          | _, _ => Some ops
          end
      end
  end.

Definition recompact_r (live : bytes -> bool) (s : dstate) : recompact_res :=
  if existsb (fun e => nlen (d_paths s) <=? fst e) (d_deps s) then CUnsafe 1
  else match recompact_ops live s (nseq 0 (length (d_paths s))) with
       | None => CUnsafe 2
       | Some ops =>
           match run_ops d_empty ops with
           | (s2, w, true) => COk s2 (deps_header ++ w)
           | (_, _, false) => CFail
           end
       end.

(* The bytes of the recompacted file ([] when Recompact crashes or fails: see recompact_r). *)
Definition recompact (live : bytes -> bool) (s : dstate) : bytes :=
  match recompact_r live s with COk _ f => f | _ => [] end.

(* ------------------------------------------------------------------------------------ *)
(* Sessions                                                                             *)

(* One ninja session on the file content [file] ([] = no file or empty file):
   Load (truncating / unlinking as it says), OpenForWrite (Recompact when the loader asked for
   it), the RecordDeps calls, Close (which creates the file with a header even when nothing
   was recorded).  Result = the file content afterwards.  When the C++ crashes (DUnsafe,
   CUnsafe) the file is left as it is at that moment. *)
Definition session_ver (old : bool) (m : rmode) (live : bytes -> bool) (file : bytes)
                       (ops : list dop) : bytes :=
  match load_deps_ver old m file with
  | DUnsafe _ | DFuel => file
  | DBadHeader =>
      (* file unlinked; fopen("ab") creates it; ftell == 0: header *)
      match run_ops d_empty ops with (_, w, _) => deps_header ++ w end
  | DOk s tr nr =>
      let base := match tr with Some k => firstn k file | None => file end in
      if nr then
        match recompact_r live s with
        | COk s2 f2 => match run_ops s2 ops with (_, w, _) => f2 ++ w end
        | _ => base          (* OpenForWrite returned false / crashed: nothing is recorded *)
        end
      else
        (* base has at least the 16 header bytes: ftell != 0, no second header *)
        match run_ops s ops with (_, w, _) => base ++ w end
  end.

Definition session_gen (strict_align : bool) (live : bytes -> bool) (file : bytes)
                       (ops : list dop) : bytes :=
  session_ver false RdCur live file ops.

Definition session (live : bytes -> bool) (file : bytes) (ops : list dop) : bytes :=
  session_gen true live file ops.

(* All recorded outputs still have a build statement with deps. *)
Definition apply_ops (file : bytes) (ops : list dop) : bytes :=
  session (fun _ => true) file ops.

(* A session of a ninja built before the torn-size-word fix. *)
Definition apply_ops_old (file : bytes) (ops : list dop) : bytes :=
  session_ver true (RdOld true) (fun _ => true) file ops.

(* ninja -t recompact: Load then Recompact.  On a crash / failure of Recompact the (truncated)
   file stays.  Bad header: Load unlinks the file, Recompact writes <path>.recompact and then
   FAILS in ReplaceContent (unlink of the missing destination: ENOENT): no deps log is left
   ([] = no file). *)
Definition recompact_file (live : bytes -> bool) (file : bytes) : bytes :=
  match load_deps file with
  | DOk s tr _ =>
      match recompact_r live s with
      | COk _ f => f
      | _ => match tr with Some k => firstn k file | None => file end
      end
  | DBadHeader => []
  | _ => file
  end.

(* ------------------------------------------------------------------------------------ *)
(* Observation and specification                                                        *)

(* GetDeps(node with path o): mtime and the paths of the dep nodes ([None] would be a dangling
   id: never produced by a load that is not DUnsafe, see view lemmas) *)
Definition view (s : dstate) (o : bytes) : option (Z * list (option bytes)) :=
  match index_of o (d_paths s) with
  | None => None
  | Some id =>
      match lookup id (d_deps s) with
      | None => None
      | Some (m, ins) => Some (m, map (fun i => nth_error (d_paths s) (N.to_nat i)) ins)
      end
  end.

(* The specification: the most recent RecordDeps for an output *)
Fixpoint abstract_ops (ops : list dop) (o : bytes) : option (Z * list bytes) :=
  match ops with
  | [] => None
  | RecordDeps out m ins :: r =>
      match abstract_ops r o with
      | Some x => Some x
      | None => if bytes_eqb o out then Some (m, ins) else None
      end
  end.

Definition spec_view (x : option (Z * list bytes)) : option (Z * list (option bytes)) :=
  match x with Some (m, ins) => Some (m, map Some ins) | None => None end.

(* ------------------------------------------------------------------------------------ *)
(* Well-formedness of inputs (hypotheses of the theorems; all decidable)                *)

Definition wf_path (p : bytes) : bool :=
  match rev p with
  | [] => false                                     (* non-empty *)
  | b :: _ => negb (b =? 0)                         (* does not end in NUL (NUL-free suffices) *)
  end
  && (N.of_nat (length p + padding (length p) + 4) <=? kMaxRecordSize).

Definition nul_free (p : bytes) : bool := forallb (fun b => negb (b =? 0)) p.

Definition wf_mtime (m : Z) : bool :=
  ((-9223372036854775808 <=? m) && (m <=? 9223372036854775807))%Z.

Definition wf_op (op : dop) : bool :=
  match op with
  | RecordDeps out m ins =>
      wf_path out && forallb wf_path ins && wf_mtime m
      && (4 * (3 + nlen ins) <=? kMaxRecordSize)
  end.

(* number of path mentions: bounds the number of ids that can be created *)
Fixpoint mentions (ops : list dop) : nat :=
  match ops with
  | [] => O
  | RecordDeps _ _ ins :: r => (S (length ins) + mentions r)%nat
  end.

(* ids stay below INT_MAX *)
Definition kMaxIds : N := 2147483647.

Definition wf_ops (ops : list dop) : Prop :=
  forallb wf_op ops = true /\ N.of_nat (mentions ops) < kMaxIds.

(* ------------------------------------------------------------------------------------ *)
(* C13: a syntactic description of the files on which the OLD reader ([RdOld]) has no     *)
(* undefined behaviour (the current reader has none on any file)                          *)

(* path part of 1 or 2 bytes, all NUL (record size 5 or 6) *)
Definition short_all_nul (buf : bytes) : bool :=
  match buf with
  | [b; _; _; _; _] => b =? 0
  | [b0; b1; _; _; _; _] => (b0 =? 0) && (b1 =? 0)
  | _ => false
  end.

(* The framed record (is_deps, size, buf) avoids every DUnsafe class:
   deps record with size % 4 = 0: at least three words (class 1), no sign bit in the out id
   (class 3) nor in any dep id (class 2), out id <> INT_MAX (class 4);
   path record: size % 4 = 0 when misaligned loads count (class 6; this also excludes class 5,
   which needs size 5 or 6), otherwise just not class 5. *)
Definition record_safe (strict_align : bool) (r : bool * N * bytes) : bool :=
  match r with
  | (is_deps, size, buf) =>
      if is_deps then
        if size mod 4 =? 0 then
          match words_of buf with
          | out :: _ :: _ :: ins => (out <? two31 - 1) && forallb (fun i => i <? two31) ins
          | _ => false
          end
        else true
      else if strict_align then size mod 4 =? 0 else negb (short_all_nul buf)
  end.

(* All frames of the record area, by the size words alone (no validation). *)
Fixpoint frames_of (fuel : nat) (x : bytes) : list (bool * N * bytes) :=
  match fuel with
  | O => []
  | S fuel' =>
      match frame x with
      | FRec d size buf rest => (d, size, buf) :: frames_of fuel' rest
      | _ => []
      end
  end.

Definition safe_file (strict_align : bool) (file : bytes) : bool :=
  match take 16 file with
  | None => true
  | Some (_, x) => forallb (record_safe strict_align) (frames_of (S (length x)) x)
  end.
